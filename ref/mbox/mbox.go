// Package mbox is the reference in-memory mailbox handler: a trivially simple
// fbb.MBoxHandler that records every callback in a history shared by both
// stations of a run, stamped with the simulator's global event sequence.
package mbox

import (
	"bytes"
	"errors"
	"fmt"
	"sort"
	"sync"

	"github.com/la5nta/wl2k-go/fbb"
	"verif/sim/core"
)

// Event is one handler callback.
type Event struct {
	Seq      uint64
	Station  string
	Session  int
	Kind     string // prepare | getoutbound | answer | inbound-begin | inbound-ok | inbound-err | setsent | setdeferred
	MID      string
	Rejected bool
	Answer   byte
	Data     []byte // serialised message handed to ProcessInbound
	N        int
}

// History is shared by the handlers of one run.
type History struct {
	mu     sync.Mutex
	sim    *core.Sim
	Events []Event
	batch  []Event
}

func NewHistory(sim *core.Sim) *History { return &History{sim: sim} }

func (h *History) add(e Event) {
	e.Seq = h.sim.Seq()
	h.mu.Lock()
	h.Events = append(h.Events, e)
	// The Session reports the messages of one block by ranging over a Go map,
	// so the order of consecutive SetSent calls is chosen by the runtime's map
	// iteration randomisation. That order carries no meaning; the event LOG
	// (whose hash decides determinism) gets such a batch sorted by MID.
	if e.Kind == "setsent" && (len(h.batch) == 0 || h.batch[0].Station == e.Station) {
		h.batch = append(h.batch, e)
		h.mu.Unlock()
		return
	}
	batch := h.batch
	h.batch = nil
	if e.Kind == "setsent" {
		h.batch = []Event{e}
	}
	h.mu.Unlock()
	h.logBatch(batch)
	if e.Kind != "setsent" {
		h.logEvent(e)
	}
}

func (h *History) logBatch(batch []Event) {
	sort.Slice(batch, func(i, j int) bool { return batch[i].MID < batch[j].MID })
	for _, b := range batch {
		h.logEvent(b)
	}
}

func (h *History) logEvent(e Event) {
	h.sim.Logf("mbox %s s%d %s %s rej=%v ans=%c n=%d len=%d", e.Station, e.Session, e.Kind, e.MID, e.Rejected, printable(e.Answer), e.N, len(e.Data))
}

// Flush writes a pending SetSent batch to the log (call before reading the log hash).
func (h *History) Flush() {
	h.mu.Lock()
	batch := h.batch
	h.batch = nil
	h.mu.Unlock()
	h.logBatch(batch)
}

func printable(b byte) byte {
	if b == 0 {
		return '.'
	}
	return b
}

// Record appends an event on behalf of another handler implementation (the
// DirHandler wrapper of the fbbsim engine shares the history format).
func (h *History) Record(e Event) { h.add(e) }

func (h *History) Snapshot() []Event {
	h.Flush()
	h.mu.Lock()
	defer h.mu.Unlock()
	return append([]Event(nil), h.Events...)
}

// Handler is the mailbox of one station. It lives across sessions of a run.
type Handler struct {
	Station string
	Hist    *History
	Session int

	mu       sync.Mutex
	order    []string          // outbound MIDs in queue order
	pending  map[string][]byte // MID -> serialised message still in the outbox
	sent     map[string]bool   // MID -> reported sent (value: rejected flag)
	inbox    map[string][]byte // MID -> serialised message as stored
	deferred map[string]bool   // this session's outbound deferrals
	// Policy: per inbound MID answer ('+', '-', '='); absent: accept. A MID that
	// is already in the inbox is always rejected (duplicate suppression).
	Policy map[string]byte
	// FailInboundAt: the n-th ProcessInbound call of this session (1-based)
	// returns an error without storing; 0: never.
	FailInboundAt int
	inboundCalls  int
	// PrepareErr makes Prepare fail.
	PrepareErr bool
	// MaxBatch records the largest answer batch seen.
	MaxBatch int
}

func New(station string, hist *History) *Handler {
	return &Handler{
		Station: station, Hist: hist,
		pending: map[string][]byte{}, sent: map[string]bool{}, inbox: map[string][]byte{},
		deferred: map[string]bool{}, Policy: map[string]byte{},
	}
}

// Queue adds an outbound message given in serialised form.
func (h *Handler) Queue(mid string, raw []byte) {
	h.mu.Lock()
	defer h.mu.Unlock()
	if _, ok := h.pending[mid]; !ok {
		h.order = append(h.order, mid)
	}
	h.pending[mid] = raw
}

// Seed puts a message into the inbox without a callback (a message the
// station "already has").
func (h *Handler) Seed(mid string, raw []byte) {
	h.mu.Lock()
	h.inbox[mid] = raw
	h.mu.Unlock()
}

// NextSession resets per-session state.
func (h *Handler) NextSession() {
	h.mu.Lock()
	h.Session++
	h.deferred = map[string]bool{}
	h.inboundCalls = 0
	h.mu.Unlock()
}

func (h *Handler) Pending() []string {
	h.mu.Lock()
	defer h.mu.Unlock()
	var out []string
	for _, m := range h.order {
		if _, ok := h.pending[m]; ok {
			out = append(out, m)
		}
	}
	return out
}

func (h *Handler) Inbox() map[string][]byte {
	h.mu.Lock()
	defer h.mu.Unlock()
	out := map[string][]byte{}
	for k, v := range h.inbox {
		out[k] = v
	}
	return out
}

func (h *Handler) SentMIDs() []string {
	h.mu.Lock()
	defer h.mu.Unlock()
	var out []string
	for k := range h.sent {
		out = append(out, k)
	}
	sort.Strings(out)
	return out
}

func (h *Handler) Prepare() error {
	h.Hist.add(Event{Station: h.Station, Session: h.Session, Kind: "prepare"})
	if h.PrepareErr {
		return errors.New("mailbox not ready")
	}
	return nil
}

func (h *Handler) GetOutbound(fw ...fbb.Address) []*fbb.Message {
	h.mu.Lock()
	var out []*fbb.Message
	for _, mid := range h.order {
		raw, ok := h.pending[mid]
		if !ok || h.deferred[mid] {
			continue
		}
		m := new(fbb.Message)
		if err := m.ReadFrom(bytes.NewReader(raw)); err != nil {
			panic(fmt.Sprintf("harness: queued message %s does not parse: %v", mid, err))
		}
		out = append(out, m)
	}
	h.mu.Unlock()
	h.Hist.add(Event{Station: h.Station, Session: h.Session, Kind: "getoutbound", N: len(out)})
	return out
}

func (h *Handler) SetSent(mid string, rejected bool) {
	h.mu.Lock()
	delete(h.pending, mid)
	h.sent[mid] = rejected
	h.mu.Unlock()
	h.Hist.add(Event{Station: h.Station, Session: h.Session, Kind: "setsent", MID: mid, Rejected: rejected})
}

func (h *Handler) SetDeferred(mid string) {
	h.mu.Lock()
	h.deferred[mid] = true
	h.mu.Unlock()
	h.Hist.add(Event{Station: h.Station, Session: h.Session, Kind: "setdeferred", MID: mid})
}

func (h *Handler) ProcessInbound(msgs ...*fbb.Message) error {
	for _, m := range msgs {
		data, err := m.Bytes()
		if err != nil {
			h.Hist.add(Event{Station: h.Station, Session: h.Session, Kind: "inbound-unserialisable", MID: m.MID()})
			return err
		}
		h.mu.Lock()
		h.inboundCalls++
		fail := h.FailInboundAt > 0 && h.inboundCalls == h.FailInboundAt
		h.mu.Unlock()
		h.Hist.add(Event{Station: h.Station, Session: h.Session, Kind: "inbound-begin", MID: m.MID(), Data: data})
		if fail {
			h.Hist.sim.Fault("storage-error")
			h.Hist.add(Event{Station: h.Station, Session: h.Session, Kind: "inbound-err", MID: m.MID()})
			return errors.New("simulated storage failure")
		}
		h.mu.Lock()
		h.inbox[m.MID()] = data
		h.mu.Unlock()
		h.Hist.add(Event{Station: h.Station, Session: h.Session, Kind: "inbound-ok", MID: m.MID(), Data: data})
	}
	return nil
}

func (h *Handler) answer(p fbb.Proposal) fbb.ProposalAnswer {
	h.mu.Lock()
	_, have := h.inbox[p.MID()]
	pol, ok := h.Policy[p.MID()]
	h.mu.Unlock()
	a := fbb.ProposalAnswer(fbb.Accept)
	switch {
	case have:
		a = fbb.Reject
	case ok && pol == '-':
		a = fbb.Reject
	case ok && pol == '=':
		a = fbb.Defer
	}
	h.Hist.add(Event{Station: h.Station, Session: h.Session, Kind: "answer", MID: p.MID(), Answer: byte(a)})
	return a
}

func (h *Handler) GetInboundAnswer(p fbb.Proposal) fbb.ProposalAnswer {
	h.mu.Lock()
	if h.MaxBatch < 1 {
		h.MaxBatch = 1
	}
	h.mu.Unlock()
	return h.answer(p)
}

// Batched wraps a Handler so that it also implements fbb.BatchedInboundHandler.
type Batched struct{ *Handler }

func (b Batched) GetInboundAnswers(ps []fbb.Proposal) []fbb.ProposalAnswer {
	b.mu.Lock()
	if len(ps) > b.MaxBatch {
		b.MaxBatch = len(ps)
	}
	b.mu.Unlock()
	out := make([]fbb.ProposalAnswer, len(ps))
	for i, p := range ps {
		out[i] = b.answer(p)
	}
	return out
}
