package agwtnc

import (
	"fmt"
	"sync"
	"time"

	"verif/sim/core"
	"verif/sim/pipe"
)

// Config is the plan-chosen behaviour of the model TNC. Every field has a
// usable zero value.
type Config struct {
	VersionMajor int `json:"ver_major,omitempty"`
	VersionMinor int `json:"ver_minor,omitempty"`
	// MaxFrame is reported in the 'g' port-capabilities reply.
	MaxFrame int `json:"maxframe,omitempty"`
	// ReplyLatUs: latency tape (microseconds) of the replies the model sends.
	ReplyLatUs []int `json:"reply_lat_us,omitempty"`
	// DrainMs: tape of the simulated time (ms) the radio needs to get one
	// outstanding frame transmitted and acknowledged.
	DrainMs []int `json:"drain_ms,omitempty"`
	// RegisterFail: 'X' is answered with 0 (callsign in use).
	RegisterFail bool `json:"register_fail,omitempty"`
	// RegisterReplyLower: the reply to 'X' has kind 'x' (QtSoundModem).
	RegisterReplyLower bool `json:"register_reply_lower,omitempty"`
	// NoCaps / NoY / NoVersion: the request is never answered (old TNCs).
	NoCaps    bool `json:"no_caps,omitempty"`
	NoY       bool `json:"no_y,omitempty"`
	NoVersion bool `json:"no_version,omitempty"`
	// Connect: "accept" (default), "refuse" ('d' reply) or "silent".
	Connect      string `json:"connect,omitempty"`
	ConnectLatMs int    `json:"connect_lat_ms,omitempty"`
	// TextNUL: notification texts carry a trailing NUL (Direwolf does).
	TextNUL bool `json:"text_nul,omitempty"`
	// NoDiscAck: a 'd' from the host is not confirmed with a 'd'.
	NoDiscAck    bool `json:"no_disc_ack,omitempty"`
	DiscAckLatMs int  `json:"disc_ack_lat_ms,omitempty"`
}

// ConnKey identifies an AX.25 connection as the TNC sees it.
type ConnKey struct {
	Port   byte
	Local  string // callsign registered by the application
	Remote string
}

func (k ConnKey) String() string { return fmt.Sprintf("p%d/%s/%s", k.Port, k.Local, k.Remote) }

// YReply is one outstanding-frames report sent to the host.
type YReply struct {
	At    time.Duration // instant the reply was written
	Count int
}

// Conn is the model's state of one connection. A key that is connected again
// after an earlier connection ended (re-dial, the station calling in again)
// gets a new Conn: every incarnation keeps its own record.
type Conn struct {
	// ID numbers the incarnations of a session in creation order.
	ID      int
	Key     ConnKey
	Inbound bool
	Via     []string
	ViaRaw  []byte // data field of the 'v' frame as received
	ReqKind byte   // 'C', 'v', 'c' (outbound) or 0 (inbound)
	// State: "connecting", "connected", "refused", "closed".
	State       string
	RequestedAt time.Duration
	ConnectedAt time.Duration

	Outstanding int
	drainUntil  time.Duration
	drainIdx    int

	// Host -> radio.
	RecvPayloads [][]byte
	RecvAt       []time.Duration
	// Radio -> host, recorded when written to the link.
	SentPayloads [][]byte
	SentAt       []time.Duration

	YQueries []time.Duration
	YReplies []YReply

	HostDiscAt []time.Duration // 'd' frames received from the host
	TNCDiscAt  time.Duration   // 'd' written by the model (0: none)
}

// Recv is one frame received from the host, in arrival order.
type Recv struct {
	Parsed
	Seq  int
	At   time.Duration
	Note string // model-level remark: "unknown-connection", "not-registered", ...
}

// TNC is the model server; one Session per TCP connection.
type TNC struct {
	Sim *core.Sim
	Cfg Config

	mu       sync.Mutex
	sessions []*Session
	// OnSession is called (on the session goroutine) when a host connects.
	OnSession func(s *Session)
}

func New(sim *core.Sim, cfg Config) *TNC { return &TNC{Sim: sim, Cfg: cfg} }

func (t *TNC) Sessions() []*Session {
	t.mu.Lock()
	defer t.mu.Unlock()
	return append([]*Session(nil), t.sessions...)
}

// Session is the state kept for one TCP connection from an application.
type Session struct {
	t    *TNC
	sim  *core.Sim
	cfg  Config
	c    *pipe.End
	Link *pipe.Link

	mu         sync.Mutex
	parser     Parser
	recv       []Recv
	regs       map[byte][]string // port -> registered calls
	regTried   map[string]bool   // "port/call" -> an 'X' was seen
	regOK      map[string]bool
	conns      map[ConnKey]*Conn // latest incarnation per key
	order      []ConnKey
	all        []*Conn // every incarnation, in creation order
	connectFor map[ConnKey]connectPolicy
	pending    int // transmissions scheduled but not written yet
	replyIdx   int
	monitor    bool

	framingErr string // the stream could not be followed any further
	truncErr   string // the stream ended inside a frame
	hostEOF    bool
	hostEOFAt  time.Duration
	tncClosed  bool
	bytesIn    int

	// OnConnected is called without the lock when a connection reaches
	// "connected" (after the 'C' notification was written).
	OnConnected func(k ConnKey)
	// OnHostDisconnect: a 'd' for a known connection arrived.
	OnHostDisconnect func(k ConnKey)
}

// Serve is the simnet server function: n.Serve(addr, tnc.Serve).
func (t *TNC) Serve(c *pipe.End, l *pipe.Link) {
	s := &Session{t: t, sim: t.Sim, cfg: t.Cfg, c: c, Link: l,
		regs: map[byte][]string{}, regTried: map[string]bool{}, regOK: map[string]bool{}, conns: map[ConnKey]*Conn{}}
	t.mu.Lock()
	t.sessions = append(t.sessions, s)
	cb := t.OnSession
	t.mu.Unlock()
	if cb != nil {
		cb(s)
	}
	buf := make([]byte, 8192)
	for {
		n, err := c.Read(buf)
		if n > 0 {
			s.feed(buf[:n])
		}
		if err != nil {
			s.mu.Lock()
			s.hostEOF = true
			s.hostEOFAt = s.sim.Now()
			if s.framingErr == "" {
				s.truncErr = s.parser.Finish()
			}
			s.mu.Unlock()
			s.sim.Logf("tnc: host stream ended (%v)", err)
			return
		}
	}
}

func (s *Session) feed(b []byte) {
	s.mu.Lock()
	s.bytesIn += len(b)
	frames := s.parser.Feed(b)
	if s.parser.Err != "" && s.framingErr == "" {
		s.framingErr = s.parser.Err
	}
	s.mu.Unlock()
	for _, f := range frames {
		s.handle(f)
	}
}

func (s *Session) lat() time.Duration {
	d := time.Duration(core.TapeAt(s.cfg.ReplyLatUs, s.replyIdx, 200)) * time.Microsecond
	s.replyIdx++
	if d < 0 {
		d = 0
	}
	// a different sub-microsecond offset per reply keeps the model's instants
	// off the grid on which the application's own timers fall
	return d + time.Duration(s.replyIdx*613%991)
}

// jit (lock held) is a small per-event offset, see lat.
func (s *Session) jit() time.Duration {
	s.replyIdx++
	return time.Duration(s.replyIdx * 613 % 991)
}

func (s *Session) text(format string, a ...any) []byte {
	b := []byte(fmt.Sprintf(format, a...))
	if s.cfg.TextNUL {
		b = append(b, 0)
	}
	return b
}

// addConn (lock held) registers a new incarnation for c.Key.
func (s *Session) addConn(c *Conn) {
	c.ID = len(s.all)
	s.all = append(s.all, c)
	if _, seen := s.conns[c.Key]; !seen {
		s.order = append(s.order, c.Key)
	}
	s.conns[c.Key] = c
}

// later schedules a transmission of the model after d and keeps count of the
// transmissions that are still to come (see Busy).
func (s *Session) later(d time.Duration, f func()) {
	s.mu.Lock()
	s.pending++
	s.mu.Unlock()
	s.sim.At(d, func() {
		s.mu.Lock()
		s.pending--
		s.mu.Unlock()
		f()
	})
}

// SetConnect changes how the model answers the connect requests for k that
// arrive from now on ("accept", "refuse", "silent") and after how long. Keys
// without such a setting follow Config.Connect / Config.ConnectLatMs.
func (s *Session) SetConnect(k ConnKey, mode string, latMs int) {
	s.mu.Lock()
	if s.connectFor == nil {
		s.connectFor = map[ConnKey]connectPolicy{}
	}
	s.connectFor[k] = connectPolicy{mode, latMs}
	s.mu.Unlock()
}

type connectPolicy struct {
	mode  string
	latMs int
}

// write puts bytes on the TNC->host stream now. Callers are already on an
// environment instant (sim.At callback or the session goroutine).
func (s *Session) write(b []byte) {
	if len(b) == 0 {
		return
	}
	s.c.Write(b) // a dead link swallows or refuses: nothing to do either way
}

// reply schedules a frame after the next reply latency.
func (s *Session) reply(f Frame) {
	s.mu.Lock()
	d := s.lat()
	s.mu.Unlock()
	s.later(d, func() {
		s.sim.Logf("tnc> %v", f)
		s.write(f.Encode())
	})
}

func u16(v int) []byte { return []byte{byte(v), byte(v >> 8)} }

func (s *Session) handle(p Parsed) {
	now := s.sim.Now()
	s.mu.Lock()
	r := Recv{Parsed: p, Seq: len(s.recv), At: now}
	f := p.Frame
	var after func()
	switch f.Kind {
	case 'R':
		if !s.cfg.NoVersion {
			data := append(append(append(u16(s.cfg.VersionMajor), 0, 0), u16(s.cfg.VersionMinor)...), 0, 0)
			after = func() { s.reply(Frame{Kind: 'R', Data: data}) }
		}
	case 'G':
		after = func() {
			s.reply(Frame{Kind: 'G', Data: s.text("4;Port1 sim 1200;Port2 sim 9600;Port3 sim 300;Port4 sim 1200;")})
		}
	case 'g':
		if !s.cfg.NoCaps {
			mf := s.cfg.MaxFrame
			if mf < 0 {
				mf = 0
			}
			if mf > 255 {
				mf = 255
			}
			active := 0
			for _, k := range s.order {
				if k.Port == f.Port && s.conns[k].State == "connected" {
					active++
				}
			}
			data := []byte{0, 0xff, 30, 10, 63, 10, byte(mf), byte(active), 0, 0, 0, 0}
			port := f.Port
			after = func() { s.reply(Frame{Port: port, Kind: 'g', Data: data}) }
		}
	case 'X':
		key := fmt.Sprintf("%d/%s", f.Port, f.From)
		s.regTried[key] = true
		ok := !s.cfg.RegisterFail && !s.regOK[key]
		if ok {
			s.regOK[key] = true
			s.regs[f.Port] = append(s.regs[f.Port], f.From)
		}
		kind := byte('X')
		if s.cfg.RegisterReplyLower {
			kind = 'x'
		}
		res := byte(0)
		if ok {
			res = 1
		}
		fr := Frame{Port: f.Port, Kind: kind, From: f.From, Data: []byte{res}}
		after = func() { s.reply(fr) }
	case 'x':
		key := fmt.Sprintf("%d/%s", f.Port, f.From)
		if !s.regOK[key] {
			r.Note = "not-registered"
		}
		delete(s.regOK, key)
	case 'C', 'v', 'c':
		after = s.handleConnect(&r)
	case 'd':
		k := ConnKey{f.Port, f.From, f.To}
		c := s.conns[k]
		if c == nil || c.State == "closed" || c.State == "refused" {
			r.Note = "unknown-connection"
			if c != nil {
				c.HostDiscAt = append(c.HostDiscAt, now)
			}
			break
		}
		c.HostDiscAt = append(c.HostDiscAt, now)
		c.State = "closed"
		cb := s.OnHostDisconnect
		ack := !s.cfg.NoDiscAck
		lat := time.Duration(s.cfg.DiscAckLatMs)*time.Millisecond + s.jit()
		after = func() {
			if cb != nil {
				cb(k)
			}
			if ack {
				s.later(lat, func() {
					fr := Frame{Port: k.Port, Kind: 'd', From: k.Remote, To: k.Local, Data: s.text("*** DISCONNECTED From Station %s\r", k.Remote)}
					s.sim.Logf("tnc> %v (ack)", fr)
					s.write(fr.Encode())
				})
			}
		}
	case 'D':
		k := ConnKey{f.Port, f.From, f.To}
		c := s.conns[k]
		if c == nil || c.State != "connected" {
			r.Note = "unknown-connection"
			break
		}
		c.RecvPayloads = append(c.RecvPayloads, f.Data)
		c.RecvAt = append(c.RecvAt, now)
		c.Outstanding++
		d := time.Duration(core.TapeAt(s.cfg.DrainMs, c.drainIdx, 800)) * time.Millisecond
		c.drainIdx++
		if d < 0 {
			d = 0
		}
		if c.drainUntil < now {
			c.drainUntil = now
		}
		c.drainUntil += d
		wait := c.drainUntil - now + s.jit()
		after = func() {
			s.sim.At(wait, func() {
				s.mu.Lock()
				if c.Outstanding > 0 {
					c.Outstanding--
				}
				n := c.Outstanding
				s.mu.Unlock()
				s.sim.Logf("tnc: %v frame acked, outstanding=%d", k, n)
			})
		}
	case 'Y':
		// the calls may come in either order (the documentation and the
		// popular TNCs disagree), so look the connection up both ways
		c := s.conns[ConnKey{f.Port, f.From, f.To}]
		if c == nil {
			c = s.conns[ConnKey{f.Port, f.To, f.From}]
		}
		if c == nil {
			r.Note = "unknown-connection"
		} else {
			c.YQueries = append(c.YQueries, now)
		}
		if s.cfg.NoY {
			break
		}
		hdr := f
		d := s.lat()
		after = func() {
			s.later(d, func() {
				s.mu.Lock()
				n := 0
				if c != nil {
					n = c.Outstanding
					c.YReplies = append(c.YReplies, YReply{At: s.sim.Now(), Count: n})
				}
				s.mu.Unlock()
				data := make([]byte, 4)
				putU32(data, uint32(n))
				fr := Frame{Port: hdr.Port, Kind: 'Y', From: hdr.From, To: hdr.To, Data: data}
				s.sim.Logf("tnc> %v n=%d", fr, n)
				s.write(fr.Encode())
			})
		}
	case 'y':
		n := 0
		for _, k := range s.order {
			if k.Port == f.Port {
				n += s.conns[k].Outstanding
			}
		}
		data := make([]byte, 4)
		putU32(data, uint32(n))
		port := f.Port
		after = func() { s.reply(Frame{Port: port, Kind: 'y', Data: data}) }
	case 'M', 'V', 'K', 'P':
		// transmitted / accepted silently
	case 'm', 'k':
		s.monitor = !s.monitor
	case 'H':
		port := f.Port
		after = func() { s.reply(Frame{Port: port, Kind: 'H', Data: s.text("")}) }
	default:
		// unknown kind: recorded (Parsed.Err), ignored
	}
	s.recv = append(s.recv, r)
	s.mu.Unlock()
	s.sim.Logf("tnc< #%d %v %s%s", r.Seq, f, r.Note, r.Err)
	if after != nil {
		after()
	}
}

// handleConnect is called with the lock held.
func (s *Session) handleConnect(r *Recv) func() {
	f := r.Frame
	now := s.sim.Now()
	k := ConnKey{f.Port, f.From, f.To}
	if !s.regOK[fmt.Sprintf("%d/%s", f.Port, f.From)] {
		r.Note = "not-registered"
	}
	if old := s.conns[k]; old != nil && (old.State == "connected" || old.State == "connecting") {
		r.Note += " duplicate-connect"
		return nil
	}
	c := &Conn{Key: k, ReqKind: f.Kind, State: "connecting", RequestedAt: now}
	if f.Kind == 'v' {
		c.ViaRaw = f.Data
		if len(f.Data) >= 1 {
			n := int(f.Data[0])
			for i := 0; i < n && 1+10*(i+1) <= len(f.Data); i++ {
				c.Via = append(c.Via, getCall(f.Data[1+10*i:1+10*(i+1)]))
			}
		}
	}
	s.addConn(c)
	mode, latMs := s.cfg.Connect, s.cfg.ConnectLatMs
	if pol, ok := s.connectFor[k]; ok {
		mode, latMs = pol.mode, pol.latMs
	}
	lat := time.Duration(latMs)*time.Millisecond + s.jit()
	switch mode {
	case "silent":
		return nil
	case "refuse":
		return func() {
			s.later(lat, func() {
				s.mu.Lock()
				if c.State != "connecting" {
					s.mu.Unlock()
					return
				}
				c.State = "refused"
				c.TNCDiscAt = s.sim.Now()
				s.mu.Unlock()
				fr := Frame{Port: k.Port, Kind: 'd', From: k.Remote, To: k.Local, Data: s.text("*** DISCONNECTED RETRYOUT With %s\r", k.Remote)}
				s.sim.Logf("tnc> %v (refuse)", fr)
				s.write(fr.Encode())
			})
		}
	}
	return func() {
		s.later(lat, func() {
			s.mu.Lock()
			if c.State != "connecting" {
				s.mu.Unlock()
				return
			}
			c.State = "connected"
			c.ConnectedAt = s.sim.Now()
			cb := s.OnConnected
			s.mu.Unlock()
			fr := Frame{Port: k.Port, Kind: 'C', From: k.Remote, To: k.Local, Data: s.text("*** CONNECTED With Station %s\r", k.Remote)}
			s.sim.Logf("tnc> %v (connected)", fr)
			s.write(fr.Encode())
			if cb != nil {
				cb(k)
			}
		})
	}
}
