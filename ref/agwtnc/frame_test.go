package agwtnc

import (
	"bytes"
	"testing"
)

// The example from the AGWPE documentation: an 'M' frame on port 2 (index 1)
// from LU7DID-4 to NODES, PID 0xCF, 7 data bytes.
var docExample = []byte{
	0x01, 0x00, 0x00, 0x00, 0x4D, 0x00, 0xCF, 0x00, 0x4C, 0x55, 0x37, 0x44, 0x49, 0x44, 0x2D, 0x34,
	0x00, 0x00, 0x4E, 0x4F, 0x44, 0x45, 0x53, 0x00, 0x00, 0x00, 0x00, 0x00, 0x07, 0x00, 0x00, 0x00,
	0x00, 0x00, 0x00, 0x00, 0xFF, 0x41, 0x42, 0x52, 0x4F, 0x57, 0x4E,
}

func TestDocExample(t *testing.T) {
	for split := 0; split <= len(docExample); split++ {
		var p Parser
		got := p.Feed(docExample[:split])
		got = append(got, p.Feed(docExample[split:])...)
		if len(got) != 1 || p.Finish() != "" {
			t.Fatalf("split %d: %d frames, err %q", split, len(got), p.Err)
		}
		f := got[0]
		if f.Port != 1 || f.Kind != 'M' || f.PID != 0xCF || f.From != "LU7DID-4" || f.To != "NODES" || !bytes.Equal(f.Data, []byte{0xFF, 'A', 'B', 'R', 'O', 'W', 'N'}) {
			t.Fatalf("split %d: decoded %+v", split, f.Frame)
		}
		if !bytes.Equal(f.Frame.Encode(), docExample) {
			t.Fatalf("re-encoding differs")
		}
	}
}

func TestParserErrors(t *testing.T) {
	var p Parser
	p.Feed(docExample[:20])
	if e := p.Finish(); e == "" {
		t.Fatal("short header not reported")
	}
	p = Parser{}
	p.Feed(docExample[:40])
	if e := p.Finish(); e == "" {
		t.Fatal("short data not reported")
	}
	p = Parser{}
	bad := append([]byte(nil), docExample...)
	bad[31] = 0x7f
	p.Feed(bad)
	if p.Err == "" {
		t.Fatal("absurd DataLen not reported")
	}
	p = Parser{}
	bad = append([]byte(nil), docExample...)
	bad[4] = '?'
	fs := p.Feed(bad)
	if len(fs) != 1 || fs[0].Err == "" {
		t.Fatal("unknown kind not reported")
	}
}
