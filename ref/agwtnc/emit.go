package agwtnc

import (
	"time"

	"verif/sim/pipe"
)

// The functions in this file act *now*. The caller (the engine's TNC script)
// is responsible for being on its own simulated instant (sim.At callback).

// InboundConnect announces a connection initiated by a remote station to a
// callsign the application registered, and marks it connected.
func (s *Session) InboundConnect(port byte, remote, local string) ConnKey {
	k := ConnKey{port, local, remote}
	s.mu.Lock()
	c := &Conn{Key: k, Inbound: true, State: "connected", RequestedAt: s.sim.Now(), ConnectedAt: s.sim.Now()}
	if _, seen := s.conns[k]; !seen {
		s.order = append(s.order, k)
	}
	s.conns[k] = c
	cb := s.OnConnected
	s.mu.Unlock()
	fr := Frame{Port: port, Kind: 'C', From: remote, To: local, Data: s.text("*** CONNECTED To Station %s\r", remote)}
	s.sim.Logf("tnc> %v (inbound connect)", fr)
	s.write(fr.Encode())
	if cb != nil {
		cb(k)
	}
	return k
}

// DataFrame builds the connected-data frame that carries payload from the
// remote station of connection k to the application (calls swapped with
// respect to the frames the application sends) and records the payload as
// sent. The frame must then be passed to Write in the same instant.
func (s *Session) DataFrame(k ConnKey, payload []byte) (Frame, bool) {
	s.mu.Lock()
	defer s.mu.Unlock()
	c := s.conns[k]
	if c == nil || c.State != "connected" || s.tncClosed {
		return Frame{}, false
	}
	c.SentPayloads = append(c.SentPayloads, payload)
	c.SentAt = append(c.SentAt, s.sim.Now())
	return Frame{Port: k.Port, Kind: 'D', PID: 0xF0, From: k.Remote, To: k.Local, Data: payload}, true
}

// Write sends the frames back to back in ONE write on the TCP link (the link
// schedule may still split it).
func (s *Session) Write(frames ...Frame) {
	var b []byte
	for _, f := range frames {
		s.sim.Logf("tnc> %v", f)
		b = append(b, f.Encode()...)
	}
	s.write(b)
}

// WriteRaw sends arbitrary bytes (malformed frames).
func (s *Session) WriteRaw(what string, b []byte) {
	s.sim.Logf("tnc> raw %s %d bytes", what, len(b))
	s.write(b)
}

// Disconnect reports that the remote station (or the link layer) ended
// connection k.
func (s *Session) Disconnect(k ConnKey) bool {
	s.mu.Lock()
	c := s.conns[k]
	if c == nil || c.State != "connected" {
		s.mu.Unlock()
		return false
	}
	c.State = "closed"
	c.TNCDiscAt = s.sim.Now()
	s.mu.Unlock()
	fr := Frame{Port: k.Port, Kind: 'd', From: k.Remote, To: k.Local, Data: s.text("*** DISCONNECTED From Station %s\r", k.Remote)}
	s.sim.Logf("tnc> %v (remote disconnect)", fr)
	s.write(fr.Encode())
	return true
}

// InFlight is the number of bytes the TNC has written to the TCP link that the
// link has not delivered to the host yet.
func (s *Session) InFlight() int {
	if t, ok := pipe.WithCaps(s.c, []string{"txbuffer"}).(interface{ TxBufferLen() int }); ok {
		return t.TxBufferLen()
	}
	return 0
}

// CloseLink closes the TCP connection from the TNC side.
func (s *Session) CloseLink() {
	s.mu.Lock()
	s.tncClosed = true
	s.mu.Unlock()
	s.sim.Logf("tnc: closes the TCP link")
	s.c.Close()
}

// Snapshot is a consistent copy of what the session recorded.
type Snapshot struct {
	Recv       []Recv
	Conns      []Conn // in creation order (latest state per key)
	FramingErr string // mid-stream: absurd DataLen, stream cannot be followed
	TruncErr   string // stream ended inside a header or a data field
	HostEOF    bool
	HostEOFAt  time.Duration
	TNCClosed  bool
	BytesIn    int
	RegOK      map[string]bool // "port/call"
	RegTried   map[string]bool
}

func (s *Session) Snapshot() Snapshot {
	s.mu.Lock()
	defer s.mu.Unlock()
	sn := Snapshot{Recv: append([]Recv(nil), s.recv...), FramingErr: s.framingErr, TruncErr: s.truncErr, HostEOF: s.hostEOF, HostEOFAt: s.hostEOFAt,
		TNCClosed: s.tncClosed, BytesIn: s.bytesIn, RegOK: map[string]bool{}, RegTried: map[string]bool{}}
	for k, v := range s.regOK {
		sn.RegOK[k] = v
	}
	for k, v := range s.regTried {
		sn.RegTried[k] = v
	}
	for _, k := range s.order {
		c := *s.conns[k]
		c.RecvPayloads = append([][]byte(nil), c.RecvPayloads...)
		c.SentPayloads = append([][]byte(nil), c.SentPayloads...)
		c.SentAt = append([]time.Duration(nil), c.SentAt...)
		c.YQueries = append([]time.Duration(nil), c.YQueries...)
		c.YReplies = append([]YReply(nil), c.YReplies...)
		c.HostDiscAt = append([]time.Duration(nil), c.HostDiscAt...)
		sn.Conns = append(sn.Conns, c)
	}
	return sn
}

// ConnState returns the current state string and outstanding count of k.
func (s *Session) ConnState(k ConnKey) (state string, outstanding int, ok bool) {
	s.mu.Lock()
	defer s.mu.Unlock()
	c := s.conns[k]
	if c == nil {
		return "", 0, false
	}
	return c.State, c.Outstanding, true
}

// SentBytes is the number of payload bytes sent to the host on connection k.
func (s *Session) SentBytes(k ConnKey) (bytes, frames int) {
	s.mu.Lock()
	defer s.mu.Unlock()
	c := s.conns[k]
	if c == nil {
		return 0, 0
	}
	for _, p := range c.SentPayloads {
		bytes += len(p)
	}
	return bytes, len(c.SentPayloads)
}
