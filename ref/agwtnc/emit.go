package agwtnc

import (
	"time"

	"verif/sim/pipe"
)

// The functions in this file act *now*. The caller (the engine's TNC script)
// is responsible for being on its own simulated instant (sim.At callback).

// InboundConnect announces a connection initiated by a remote station to a
// callsign the application registered, and marks it connected.
func (s *Session) InboundConnect(port byte, remote, local string) ConnKey {
	k := ConnKey{port, local, remote}
	s.mu.Lock()
	c := &Conn{Key: k, Inbound: true, State: "connected", RequestedAt: s.sim.Now(), ConnectedAt: s.sim.Now()}
	s.addConn(c)
	cb := s.OnConnected
	s.mu.Unlock()
	fr := Frame{Port: port, Kind: 'C', From: remote, To: local, Data: s.text("*** CONNECTED To Station %s\r", remote)}
	s.sim.Logf("tnc> %v (inbound connect)", fr)
	s.write(fr.Encode())
	if cb != nil {
		cb(k)
	}
	return k
}

// DataFrame builds the connected-data frame that carries payload from the
// remote station of connection k to the application (calls swapped with
// respect to the frames the application sends) and records the payload as
// sent. The frame must then be passed to Write in the same instant.
func (s *Session) DataFrame(k ConnKey, payload []byte) (Frame, bool) {
	s.mu.Lock()
	defer s.mu.Unlock()
	c := s.conns[k]
	if c == nil || c.State != "connected" || s.tncClosed {
		return Frame{}, false
	}
	c.SentPayloads = append(c.SentPayloads, payload)
	c.SentAt = append(c.SentAt, s.sim.Now())
	return Frame{Port: k.Port, Kind: 'D', PID: 0xF0, From: k.Remote, To: k.Local, Data: payload}, true
}

// Write sends the frames back to back in ONE write on the TCP link (the link
// schedule may still split it).
func (s *Session) Write(frames ...Frame) {
	var b []byte
	for _, f := range frames {
		s.sim.Logf("tnc> %v", f)
		b = append(b, f.Encode()...)
	}
	s.write(b)
}

// WriteRaw sends arbitrary bytes (malformed frames).
func (s *Session) WriteRaw(what string, b []byte) {
	s.sim.Logf("tnc> raw %s %d bytes", what, len(b))
	s.write(b)
}

// Disconnect reports that the remote station (or the link layer) ended
// connection k.
func (s *Session) Disconnect(k ConnKey) bool {
	s.mu.Lock()
	c := s.conns[k]
	if c == nil || c.State != "connected" {
		s.mu.Unlock()
		return false
	}
	c.State = "closed"
	c.TNCDiscAt = s.sim.Now()
	s.mu.Unlock()
	fr := Frame{Port: k.Port, Kind: 'd', From: k.Remote, To: k.Local, Data: s.text("*** DISCONNECTED From Station %s\r", k.Remote)}
	s.sim.Logf("tnc> %v (remote disconnect)", fr)
	s.write(fr.Encode())
	return true
}

// InFlight is the number of bytes the TNC has written to the TCP link that the
// link has not delivered to the host yet.
func (s *Session) InFlight() int {
	if t, ok := pipe.WithCaps(s.c, []string{"txbuffer"}).(interface{ TxBufferLen() int }); ok {
		return t.TxBufferLen()
	}
	return 0
}

// CloseLink closes the TCP connection from the TNC side.
func (s *Session) CloseLink() {
	s.mu.Lock()
	s.tncClosed = true
	s.mu.Unlock()
	s.sim.Logf("tnc: closes the TCP link")
	s.c.Close()
}

// Snapshot is a consistent copy of what the session recorded.
type Snapshot struct {
	Recv       []Recv
	Conns      []Conn // every incarnation in creation order (Conns[i].ID == i)
	FramingErr string // mid-stream: absurd DataLen, stream cannot be followed
	TruncErr   string // stream ended inside a header or a data field
	HostEOF    bool
	HostEOFAt  time.Duration
	TNCClosed  bool
	BytesIn    int
	RegOK      map[string]bool // "port/call"
	RegTried   map[string]bool
}

func (s *Session) Snapshot() Snapshot {
	s.mu.Lock()
	defer s.mu.Unlock()
	sn := Snapshot{Recv: append([]Recv(nil), s.recv...), FramingErr: s.framingErr, TruncErr: s.truncErr, HostEOF: s.hostEOF, HostEOFAt: s.hostEOFAt,
		TNCClosed: s.tncClosed, BytesIn: s.bytesIn, RegOK: map[string]bool{}, RegTried: map[string]bool{}}
	for k, v := range s.regOK {
		sn.RegOK[k] = v
	}
	for k, v := range s.regTried {
		sn.RegTried[k] = v
	}
	for _, pc := range s.all {
		c := *pc
		c.RecvPayloads = append([][]byte(nil), c.RecvPayloads...)
		c.SentPayloads = append([][]byte(nil), c.SentPayloads...)
		c.SentAt = append([]time.Duration(nil), c.SentAt...)
		c.YQueries = append([]time.Duration(nil), c.YQueries...)
		c.YReplies = append([]YReply(nil), c.YReplies...)
		c.HostDiscAt = append([]time.Duration(nil), c.HostDiscAt...)
		sn.Conns = append(sn.Conns, c)
	}
	return sn
}

// ConnState returns the current state string and outstanding count of k.
func (s *Session) ConnState(k ConnKey) (state string, outstanding int, ok bool) {
	s.mu.Lock()
	defer s.mu.Unlock()
	c := s.conns[k]
	if c == nil {
		return "", 0, false
	}
	return c.State, c.Outstanding, true
}

// SentBytes is the number of payload bytes sent to the host on connection k.
func (s *Session) SentBytes(k ConnKey) (bytes, frames int) {
	s.mu.Lock()
	defer s.mu.Unlock()
	c := s.conns[k]
	if c == nil {
		return 0, 0
	}
	for _, p := range c.SentPayloads {
		bytes += len(p)
	}
	return bytes, len(c.SentPayloads)
}

// ConnID is the number of the latest incarnation of k (-1: never seen).
func (s *Session) ConnID(k ConnKey) int {
	s.mu.Lock()
	defer s.mu.Unlock()
	if c := s.conns[k]; c != nil {
		return c.ID
	}
	return -1
}

// Current reports whether incarnation id is the latest one of its key and
// still connected: only then do DataFrame, Disconnect and ConnState with its
// key act on it.
func (s *Session) Current(id int) bool {
	s.mu.Lock()
	defer s.mu.Unlock()
	if id < 0 || id >= len(s.all) {
		return false
	}
	c := s.all[id]
	return s.conns[c.Key] == c && c.State == "connected"
}

// StateID is ConnState for one incarnation.
func (s *Session) StateID(id int) (state string, outstanding int, ok bool) {
	s.mu.Lock()
	defer s.mu.Unlock()
	if id < 0 || id >= len(s.all) {
		return "", 0, false
	}
	return s.all[id].State, s.all[id].Outstanding, true
}

// SentLens returns the payload sizes of the data frames sent to the host on
// incarnation id, in order.
func (s *Session) SentLens(id int) []int {
	s.mu.Lock()
	defer s.mu.Unlock()
	if id < 0 || id >= len(s.all) {
		return nil
	}
	out := make([]int, len(s.all[id].SentPayloads))
	for i, p := range s.all[id].SentPayloads {
		out[i] = len(p)
	}
	return out
}

// HostInFlight is the number of bytes the application has written to the TCP
// link that have not reached the TNC yet.
func (s *Session) HostInFlight() int {
	if s.Link == nil || s.Link.A == nil {
		return 0
	}
	if t, ok := pipe.WithCaps(s.Link.A, []string{"txbuffer"}).(interface{ TxBufferLen() int }); ok {
		return t.TxBufferLen()
	}
	return 0
}

// Busy reports whether anything is still on its way: bytes in flight in either
// direction or a transmission the model has scheduled and not yet written.
func (s *Session) Busy() bool {
	s.mu.Lock()
	pending := s.pending
	s.mu.Unlock()
	return pending > 0 || s.InFlight() > 0 || s.HostInFlight() > 0
}
