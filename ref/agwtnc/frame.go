// Package agwtnc is a small reactive model of an AGWPE TNC ("AGW Packet Engine"
// TCP/IP socket interface) written from the public protocol description, not
// from the library under test. It never imports the agwpe package.
//
// Wire format: every frame is a 36-byte header followed by DataLen bytes.
//
//	off  len  field
//	  0    1  Port (0-based radio port)
//	  1    3  reserved
//	  4    1  DataKind (ASCII letter)
//	  5    1  reserved
//	  6    1  PID
//	  7    1  reserved
//	  8   10  CallFrom (ASCII, NUL padded)
//	 18   10  CallTo   (ASCII, NUL padded)
//	 28    4  DataLen  (uint32, little endian)
//	 32    4  User     (reserved)
package agwtnc

import "fmt"

const HeaderLen = 36

// HostKinds are the frame kinds an application may send to the TNC.
const HostKinds = "RGgXxCvcdDYyMmkKHPV"

// Frame is one AGWPE frame.
type Frame struct {
	Port byte
	Kind byte
	PID  byte
	From string
	To   string
	Data []byte
	User uint32
}

func putCall(dst []byte, call string) {
	for i := range dst {
		dst[i] = 0
	}
	n := len(call)
	if n > len(dst) {
		n = len(dst)
	}
	for i := 0; i < n; i++ {
		dst[i] = call[i]
	}
}

func getCall(src []byte) string {
	n := 0
	for n < len(src) && src[n] != 0 {
		n++
	}
	return string(src[:n])
}

func putU32(dst []byte, v uint32) {
	dst[0], dst[1], dst[2], dst[3] = byte(v), byte(v>>8), byte(v>>16), byte(v>>24)
}

func getU32(src []byte) uint32 {
	return uint32(src[0]) | uint32(src[1])<<8 | uint32(src[2])<<16 | uint32(src[3])<<24
}

// Encode serialises the frame with DataLen = len(Data).
func (f Frame) Encode() []byte { return f.EncodeLen(uint32(len(f.Data))) }

// EncodeLen serialises the frame with an explicit (possibly lying) DataLen.
func (f Frame) EncodeLen(declared uint32) []byte {
	out := make([]byte, HeaderLen+len(f.Data))
	out[0] = f.Port
	out[4] = f.Kind
	out[6] = f.PID
	putCall(out[8:18], f.From)
	putCall(out[18:28], f.To)
	putU32(out[28:32], declared)
	putU32(out[32:36], f.User)
	copy(out[HeaderLen:], f.Data)
	return out
}

func (f Frame) String() string {
	return fmt.Sprintf("%c p%d pid=%02x %s>%s len=%d", printable(f.Kind), f.Port, f.PID, f.From, f.To, len(f.Data))
}

func printable(b byte) byte {
	if b < 0x21 || b > 0x7e {
		return '?'
	}
	return b
}

// Parsed is a frame taken off the host->TNC byte stream.
type Parsed struct {
	Frame
	Hdr      [HeaderLen]byte // header exactly as received
	Declared uint32          // DataLen field
	Off      int             // stream offset of the first header byte
	// Err is a per-frame defect that does not desynchronise the stream
	// (unknown kind). Stream-level defects are in Parser.Err.
	Err string
}

// Parser is an incremental framer for the host->TNC stream.
type Parser struct {
	// MaxData: a DataLen above this is taken as a framing error (the stream
	// cannot be followed any further). Default 1 MiB.
	MaxData uint32

	buf []byte
	off int // stream offset of buf[0]
	// Err is sticky: once set, no more frames are produced.
	Err string
}

// Feed appends bytes and returns the frames completed by them.
func (p *Parser) Feed(b []byte) []Parsed {
	if p.Err != "" {
		p.off += len(b)
		return nil
	}
	max := p.MaxData
	if max == 0 {
		max = 1 << 20
	}
	p.buf = append(p.buf, b...)
	var out []Parsed
	for len(p.buf) >= HeaderLen {
		h := p.buf[:HeaderLen]
		decl := getU32(h[28:32])
		if decl > max {
			p.Err = fmt.Sprintf("DataLen %d in header at stream offset %d (kind 0x%02x) exceeds any plausible frame", decl, p.off, h[4])
			return out
		}
		total := HeaderLen + int(decl)
		if len(p.buf) < total {
			break
		}
		var f Parsed
		copy(f.Hdr[:], h)
		f.Port, f.Kind, f.PID = h[0], h[4], h[6]
		f.From, f.To = getCall(h[8:18]), getCall(h[18:28])
		f.User = getU32(h[32:36])
		f.Declared = decl
		f.Data = append([]byte(nil), p.buf[HeaderLen:total]...)
		f.Off = p.off
		if !knownHostKind(f.Kind) {
			f.Err = fmt.Sprintf("unknown frame kind 0x%02x", f.Kind)
		}
		out = append(out, f)
		p.buf = p.buf[total:]
		p.off += total
	}
	return out
}

// Pending is the number of bytes of an incomplete frame held back.
func (p *Parser) Pending() int { return len(p.buf) }

// Finish is called at end of stream and reports a truncated last frame.
func (p *Parser) Finish() string {
	if p.Err != "" {
		return p.Err
	}
	switch n := len(p.buf); {
	case n == 0:
		return ""
	case n < HeaderLen:
		p.Err = fmt.Sprintf("stream ended inside a header: %d of %d header bytes at stream offset %d", n, HeaderLen, p.off)
	default:
		p.Err = fmt.Sprintf("stream ended inside a data field: header at stream offset %d (kind %c) declares %d data bytes, %d arrived", p.off, printable(p.buf[4]), getU32(p.buf[28:32]), n-HeaderLen)
	}
	return p.Err
}

func knownHostKind(k byte) bool {
	for i := 0; i < len(HostKinds); i++ {
		if HostKinds[i] == k {
			return true
		}
	}
	return false
}
