// Package b2f is an independently written B2F (FBB compressed forwarding,
// version 2 / Winlink) peer. It is written from docs/F6FBB-B2F/protocole.html,
// sid.html and the public Winlink B2F description, and never imports the fbb
// package. It serves as strict validator (C05), CMS with secure login (C16),
// Byzantine peer (C03, C12) and as the reference receiver of C04.
package b2f

import (
	"errors"
	"fmt"
)

const (
	NUL = 0x00
	SOH = 0x01
	STX = 0x02
	EOT = 0x04
)

// BuildTransfer frames one compressed message: SOH, header length, title, NUL,
// offset (ASCII), NUL, then STX blocks whose sizes come from the cyclic tape
// (values 1..256; 256 is encoded as 0), then EOT and the two's-complement
// checksum of all data bytes.
func BuildTransfer(title string, offset int, data []byte, blockSizes []int) []byte {
	off := fmt.Sprint(offset)
	out := []byte{SOH, byte(len(title) + len(off) + 2)}
	out = append(out, title...)
	out = append(out, NUL)
	out = append(out, off...)
	out = append(out, NUL)
	sum := 0
	for i := 0; len(data) > 0; i++ {
		n := 250
		if len(blockSizes) > 0 {
			n = blockSizes[i%len(blockSizes)]
		}
		if n < 1 {
			n = 1
		}
		if n > 256 {
			n = 256
		}
		if n > len(data) {
			n = len(data)
		}
		out = append(out, STX, byte(n)) // byte(256) == 0
		out = append(out, data[:n]...)
		for _, b := range data[:n] {
			sum += int(b)
		}
		data = data[n:]
	}
	out = append(out, EOT, byte(-sum&0xff))
	return out
}

// Transfer is a parsed SOH..EOT range.
type Transfer struct {
	Title  string
	Offset string
	Data   []byte
	Blocks []int // data block sizes as sent
	Len    int   // bytes consumed
}

var ErrShort = errors.New("b2f: transfer incomplete")

// ParseTransfer parses one framed transfer from the start of b. It returns
// ErrShort if b ends before the transfer does and a descriptive error for any
// violation of the frame grammar.
func ParseTransfer(b []byte) (*Transfer, error) {
	t := &Transfer{}
	p := 0
	need := func(n int) bool { return p+n <= len(b) }
	if !need(2) {
		return nil, ErrShort
	}
	if b[0] != SOH {
		return nil, fmt.Errorf("first byte %#x is not SOH", b[0])
	}
	hlen := int(b[1])
	p = 2
	if !need(hlen) {
		return nil, ErrShort
	}
	hdr := b[p : p+hlen]
	p += hlen
	// title NUL offset NUL
	i := indexByte(hdr, NUL)
	if i < 0 {
		return nil, errors.New("header has no NUL after the title")
	}
	t.Title = string(hdr[:i])
	rest := hdr[i+1:]
	j := indexByte(rest, NUL)
	if j < 0 {
		return nil, errors.New("header has no NUL after the offset")
	}
	t.Offset = string(rest[:j])
	if j != len(rest)-1 {
		return nil, fmt.Errorf("header length %d does not end at the second NUL", hlen)
	}
	if len(t.Title) < 1 {
		return nil, errors.New("empty title")
	}
	if len(t.Offset) < 1 || len(t.Offset) > 6 {
		return nil, fmt.Errorf("offset field %q is not 1..6 bytes", t.Offset)
	}
	for _, c := range []byte(t.Offset) {
		if c < '0' || c > '9' {
			return nil, fmt.Errorf("offset field %q is not decimal", t.Offset)
		}
	}
	sum := 0
	for {
		if !need(1) {
			return nil, ErrShort
		}
		switch b[p] {
		case STX:
			if !need(2) {
				return nil, ErrShort
			}
			n := int(b[p+1])
			if n == 0 {
				n = 256
			}
			p += 2
			if !need(n) {
				return nil, ErrShort
			}
			for _, c := range b[p : p+n] {
				sum += int(c)
			}
			t.Data = append(t.Data, b[p:p+n]...)
			t.Blocks = append(t.Blocks, n)
			p += n
		case EOT:
			if !need(2) {
				return nil, ErrShort
			}
			sum += int(b[p+1])
			p += 2
			t.Len = p
			if sum&0xff != 0 {
				return t, errors.New("block checksum mismatch")
			}
			return t, nil
		default:
			return nil, fmt.Errorf("unexpected byte %#x where STX or EOT belongs", b[p])
		}
	}
}

func indexByte(b []byte, c byte) int {
	for i, x := range b {
		if x == c {
			return i
		}
	}
	return -1
}

// ProposalChecksum is the block checksum that follows "F> ": the two's
// complement of the low byte of the sum of all bytes of the proposal lines,
// each including its terminating CR.
func ProposalChecksum(lines []string) int {
	sum := 0
	for _, l := range lines {
		for i := 0; i < len(l); i++ {
			sum += int(l[i])
		}
		sum += '\r'
	}
	return -sum & 0xff
}
