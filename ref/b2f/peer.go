package b2f

import (
	"bufio"
	"bytes"
	"errors"
	"fmt"
	"io"
	"net"
	"strconv"
	"strings"
	"time"
)

// Codec compresses and decompresses the B2 payload (CRC-16 + size header +
// LZHUF bit stream). The peer is given an implementation from outside.
type Codec interface {
	Compress(raw []byte) []byte
	Decompress(stream []byte) ([]byte, error)
}

// OutMsg is a message the peer offers to the Session.
type OutMsg struct {
	MID   string `json:"mid"`
	Title string `json:"title"`
	Raw   []byte `json:"raw"`
	// Stream, when set, is sent instead of Compress(Raw) (hostile payloads).
	Stream []byte `json:"stream,omitempty"`
	// To/From/Subject feed the optional ;PM line.
	To, From string `json:"-"`
}

// Expect is what the validator knows about a message the Session may send.
type Expect struct {
	Raw  []byte
	Prec int // precedence class 0..3 (0 = most urgent)
}

// Mutation damages one emission of the peer (Byzantine mode).
type Mutation struct {
	Kind  string `json:"kind"` // motd sid pq fw prompt comment pm proposal fprompt fs ff fq hdr block eot
	Nth   int    `json:"nth"`  // which emission of that kind (0-based)
	Op    string `json:"op"`   // drop dup trunc replace setbyte insert append field nocr stop
	Arg   int    `json:"arg,omitempty"`
	Val   int    `json:"val,omitempty"`
	Bytes []byte `json:"bytes,omitempty"`
}

// Config is the plan-chosen behaviour of the peer.
type Config struct {
	Master    bool     `json:"master"` // the peer starts the handshake (RMS/CMS side)
	MyCall    string   `json:"my_call"`
	TheirCall string   `json:"their_call"`
	SID       string   `json:"sid"`
	Motd      []string `json:"motd,omitempty"`
	FW        []string `json:"fw,omitempty"`        // entries of a ;FW: line, may carry |hash
	Challenge string   `json:"challenge,omitempty"` // ;PQ: (master only)
	Prompt    string   `json:"prompt,omitempty"`    // master's prompt line, must end in '>'
	// CommentAt: emission points at which a "; comment" line is inserted
	// (handshake, before-proposal, between-proposals, before-fs, before-ff).
	CommentAt  []string `json:"comment_at,omitempty"`
	PM         bool     `json:"pm,omitempty"`
	Out        []OutMsg `json:"out,omitempty"`
	DupFirst   bool     `json:"dup_first,omitempty"`   // propose the first MID twice in one block
	DupSrc     int      `json:"dup_src,omitempty"`     // which proposal of the block is duplicated
	DupPos     int      `json:"dup_pos,omitempty"`     // how far behind the original the copy is placed
	BlockSize  int      `json:"block_size,omitempty"`  // proposals per block (1..5, default 5)
	DataBlocks []int    `json:"data_blocks,omitempty"` // STX block-size tape (1..256)
	// Answers: per MID the answer token the peer gives: + - = Y N L H R !0 A0 (either case).
	Answers map[string]string `json:"answers,omitempty"`
	EarlyFQ bool              `json:"early_fq,omitempty"`
	// Late: the peer's outbox is still empty in its first Late turns (its mail
	// arrives while the session is running): it says FF there although it will
	// propose later. The wait ends as soon as the Session says FF too, so that
	// the session is not ended over mail the peer is about to get. Messages the
	// session ended without are listed in Result.Unoffered.
	Late int `json:"late,omitempty"`
	// HastyFQ: when the Session's last turn was FF and the peer has just
	// sent (or had refused) its last block, FQ follows immediately, out of
	// turn, and the peer hangs up.
	HastyFQ bool `json:"hasty_fq,omitempty"`
	// Passwords: expected secure-login passwords per address (C16).
	Passwords map[string]string `json:"passwords,omitempty"`
	Mut       []Mutation        `json:"mut,omitempty"`
	// StaleChecksum: in Byzantine mode compute F> over the undamaged proposal
	// lines (the Session then refuses the block at the checksum).
	StaleChecksum bool `json:"stale_checksum,omitempty"`
	// Byzantine: do not validate, never wait longer than ReadTimeout for the
	// Session, close when stuck.
	Byzantine   bool          `json:"byzantine,omitempty"`
	ReadTimeout time.Duration `json:"-"`

	Expect map[string]Expect `json:"-"`
	Codec  Codec             `json:"-"`
	Log    func(string)      `json:"-"`
}

// Finding is one conformance violation seen by the validator.
type Finding struct {
	Clause string
	Detail string
	Msg    string
}

// Range is a byte range of the peer->Session stream.
type Range struct{ Start, End int }

// Result is what the peer observed.
type Result struct {
	Findings       []Finding
	Received       map[string][]byte // MID -> decompressed message taken from the Session
	Tails          map[string]Tail   // MID -> what a transfer resumed at an offset > 0 carried (Received holds an empty entry)
	RecvOrder      []string
	Proposed       [][]string        // blocks of MIDs the Session proposed
	Answered       map[string]string // our answers to the Session's proposals
	Sent           []string          // our MIDs that were transferred completely
	Confirmed      []string          // ... and confirmed by the Session's next turn line
	GotAnswers     map[string]byte   // the Session's answers to our proposals (+ - =)
	Deferred       []string
	Rejected       []string
	Frames         map[string]Range // SOH..EOT ranges of our transfers in our output stream
	HandshakeLines []string
	PR             string
	FWLine         string
	Completed      bool     // FQ exchanged
	HeldTurns      int      // turns in which the peer said FF because its mail had not arrived yet (Config.Late)
	Unoffered      []string // our MIDs never proposed because the session ended first (only with Config.Late)
	Hasty          bool     // ... by the peer, out of turn, right behind its last block
	RemoteErr      string
	Stopped        string // why the peer stopped early
	Waiting        string // what the peer was waiting for when it last blocked (handshake, fs, turn, transfer:<answer token>)
	Wrote          int
}

// Tail is the data of a transfer that was requested from an offset.
type Tail struct {
	Off  int
	Data []byte
}

type peer struct {
	cfg         Config
	conn        net.Conn
	rd          *bufio.Reader
	res         *Result
	wrote       int
	emits       map[string]int
	queue       []OutMsg
	gone        map[string]bool // resolved or deferred MIDs
	awaiting    []string
	inHandshake bool
	turns       int
	offered     map[string]bool
	lastEmitted []byte // what the last emit really wrote (after mutations)
}

var errStop = errors.New("peer stopped")

// Run drives one session over conn and closes conn at the end.
func Run(conn net.Conn, cfg Config) *Result {
	p := &peer{cfg: cfg, conn: conn, rd: bufio.NewReaderSize(conn, 4096), emits: map[string]int{}, gone: map[string]bool{}}
	p.res = &Result{Received: map[string][]byte{}, Answered: map[string]string{}, GotAnswers: map[string]byte{}, Frames: map[string]Range{}}
	p.queue = append(p.queue, cfg.Out...)
	defer func() {
		p.res.Wrote = p.wrote
		if p.cfg.Late > 0 {
			for _, m := range p.queue {
				if !p.offered[m.MID] {
					p.res.Unoffered = append(p.res.Unoffered, m.MID)
				}
			}
		}
		conn.Close()
	}()
	if err := p.run(); err != nil && p.res.Stopped == "" {
		p.res.Stopped = err.Error()
	}
	return p.res
}

func (p *peer) logf(f string, a ...any) {
	if p.cfg.Log != nil {
		p.cfg.Log(fmt.Sprintf(f, a...))
	}
}

func (p *peer) find(clause, detail, f string, a ...any) {
	if p.cfg.Byzantine {
		return
	}
	p.res.Findings = append(p.res.Findings, Finding{clause, detail, fmt.Sprintf(f, a...)})
	p.logf("FINDING %s/%s: %s", clause, detail, fmt.Sprintf(f, a...))
}

// emit writes one unit of output, applying Byzantine mutations.
func (p *peer) emit(kind string, b []byte) error {
	p.lastEmitted = nil
	n := p.emits[kind]
	p.emits[kind]++
	outs := [][]byte{b}
	stop := false
	for _, m := range p.cfg.Mut {
		if m.Kind != kind || m.Nth != n {
			continue
		}
		cur := outs[0]
		switch m.Op {
		case "drop":
			outs = nil
		case "dup":
			outs = append(outs, cur)
		case "trunc":
			k := m.Arg
			if k < 0 {
				k = 0
			}
			if k < len(cur) {
				outs[0] = cur[:k]
			}
		case "replace":
			outs[0] = m.Bytes
		case "setbyte":
			if len(cur) > 0 {
				c := append([]byte(nil), cur...)
				i := m.Arg
				if i < 0 {
					i = -i
				}
				c[i%len(c)] = byte(m.Val)
				outs[0] = c
			}
		case "insert":
			i := m.Arg
			if i < 0 {
				i = 0
			}
			if i > len(cur) {
				i = len(cur)
			}
			c := append([]byte(nil), cur[:i]...)
			c = append(c, m.Bytes...)
			outs[0] = append(c, cur[i:]...)
		case "append":
			outs[0] = append(append([]byte(nil), cur...), m.Bytes...)
		case "field":
			// replace the Arg-th space separated field of a CR-terminated line
			line := strings.TrimSuffix(string(cur), "\r")
			fs := strings.Split(line, " ")
			if len(fs) > 0 {
				i := m.Arg
				if i < 0 {
					i = -i
				}
				fs[i%len(fs)] = string(m.Bytes)
			}
			outs[0] = []byte(strings.Join(fs, " ") + "\r")
		case "nocr":
			outs[0] = bytes.TrimSuffix(cur, []byte("\r"))
		case "stop":
			// the station goes away in the middle of this unit: Arg bytes of it
			// are sent (negative: counted from its end), or, with Bytes set, what
			// precedes and includes the Arg-th occurrence of Bytes[0]
			k := m.Arg
			if len(m.Bytes) > 0 {
				k, seen := len(cur), 0
				for i, c := range cur {
					if c == m.Bytes[0] {
						if seen == m.Arg {
							k = i + 1
							break
						}
						seen++
					}
				}
				outs[0] = cur[:k]
			} else {
				if k < 0 {
					k += len(cur)
				}
				if k < 0 {
					k = 0
				}
				if k < len(cur) {
					outs[0] = cur[:k]
				}
			}
			stop = true
		}
		if len(outs) == 0 {
			break
		}
	}
	if stop {
		defer func() { p.res.Stopped = "left mid-stream as planned" }()
	}
	for _, o := range outs {
		if len(o) == 0 {
			continue
		}
		p.lastEmitted = append(p.lastEmitted, o...)
		w, err := p.conn.Write(o)
		p.wrote += w
		if err != nil {
			return err
		}
	}
	if stop {
		return errLeft
	}
	return nil
}

var errLeft = errors.New("left mid-stream as planned")

func (p *peer) line(kind, s string) error {
	p.logf("> %s", s)
	return p.emit(kind, []byte(s+"\r"))
}

func (p *peer) comment(at string) error {
	for _, c := range p.cfg.CommentAt {
		if c == at {
			return p.line("comment", "; this is a comment at "+at)
		}
	}
	return nil
}

// readLine returns the next CR-terminated line (without the CR).
func (p *peer) readLine() (string, error) {
	if p.cfg.ReadTimeout > 0 {
		p.conn.SetReadDeadline(time.Now().Add(p.cfg.ReadTimeout))
	}
	s, err := p.rd.ReadString('\r')
	if err != nil {
		if len(s) > 0 && !p.cfg.Byzantine {
			p.find("line", "unterminated", "input ended inside a line: %q", clip(s))
		}
		return "", err
	}
	s = s[:len(s)-1]
	p.logf("< %s", clip(s))
	if strings.ContainsAny(s, "\n\x00") {
		p.find("line", "control-byte", "line contains LF or NUL: %q", clip(s))
	}
	if strings.HasPrefix(s, "***") && !p.inHandshake {
		// "*** text" lines report an error once the protocol proper runs; in
		// the handshake they are ordinary banner text (MOTD statistics etc.)
		p.res.RemoteErr = s
		return "", errStop
	}
	return s, nil
}

func clip(s string) string {
	if len(s) > 120 {
		return s[:120] + "..."
	}
	return s
}

func (p *peer) readByte() (byte, error) {
	if p.cfg.ReadTimeout > 0 {
		p.conn.SetReadDeadline(time.Now().Add(p.cfg.ReadTimeout))
	}
	return p.rd.ReadByte()
}

func (p *peer) run() error {
	p.inHandshake = true
	if err := p.handshake(); err != nil {
		return err
	}
	p.inHandshake = false
	myTurn := !p.cfg.Master // the slave has the first turn
	remoteNoMsgs, iSaidFF := false, false
	for {
		if myTurn {
			quit, sentBlock, err := p.myTurn(remoteNoMsgs)
			if err != nil {
				return err
			}
			if quit {
				p.res.Completed = true
				return nil
			}
			iSaidFF = !sentBlock
		} else {
			quit, noMsgs, err := p.theirTurn(iSaidFF)
			if err != nil {
				return err
			}
			if quit {
				p.res.Completed = true
				return nil
			}
			remoteNoMsgs = noMsgs
		}
		myTurn = !myTurn
	}
}

// ---- handshake ---------------------------------------------------------

func (p *peer) sidLine() string {
	if p.cfg.SID != "" {
		return p.cfg.SID
	}
	return "[RefPeer-1.0-B2FHM$]"
}

func (p *peer) handshake() error {
	if p.cfg.Master {
		for _, m := range p.cfg.Motd {
			if err := p.line("motd", m); err != nil {
				return err
			}
		}
		if len(p.cfg.FW) > 0 {
			if err := p.line("fw", ";FW: "+strings.Join(p.cfg.FW, " ")); err != nil {
				return err
			}
		}
		if err := p.line("sid", p.sidLine()); err != nil {
			return err
		}
		if p.cfg.Challenge != "" {
			if err := p.line("pq", ";PQ: "+p.cfg.Challenge); err != nil {
				return err
			}
		}
		if err := p.comment("handshake"); err != nil {
			return err
		}
		prompt := p.cfg.Prompt
		if prompt == "" {
			prompt = "CMS>"
		}
		if err := p.line("prompt", prompt); err != nil {
			return err
		}
		return p.readSlaveHandshake()
	}
	// the Session is master: read until its prompt
	p.res.Waiting = "handshake"
	sawSID := false
	for {
		l, err := p.readLine()
		if err != nil {
			return err
		}
		p.res.HandshakeLines = append(p.res.HandshakeLines, l)
		switch {
		case isSID(l):
			if sawSID {
				p.find("handshake", "two-sids", "second SID line %q", l)
			}
			sawSID = true
			p.checkSID(l)
		case strings.HasPrefix(l, ";FW:"):
			p.checkFW(l)
		}
		if strings.HasSuffix(l, ">") {
			if isSID(strings.TrimSuffix(l, ">")) {
				// SID and prompt on one line is not what the documents show
				p.find("handshake", "sid-with-prompt", "SID carries the prompt: %q", l)
			}
			break
		}
	}
	if !sawSID {
		p.find("handshake", "no-sid", "master reached its prompt without sending a SID")
	}
	if len(p.cfg.FW) > 0 {
		if err := p.line("fw", ";FW: "+strings.Join(p.cfg.FW, " ")); err != nil {
			return err
		}
	}
	if err := p.line("sid", p.sidLine()); err != nil {
		return err
	}
	if err := p.comment("handshake"); err != nil {
		return err
	}
	return p.line("comment", fmt.Sprintf("; %s DE %s (AA00aa)", p.cfg.TheirCall, p.cfg.MyCall))
}

func isSID(l string) bool { return strings.HasPrefix(l, "[") && strings.HasSuffix(l, "]") }

// checkSID validates the shape [author-(version-)features] with B2 and F among
// the features and $ as the last feature character (sid.html).
func (p *peer) checkSID(l string) {
	inner := l[1 : len(l)-1]
	fields := strings.Split(inner, "-")
	if len(fields) < 2 {
		p.find("sid", "fields", "SID %q has fewer than two fields", l)
		return
	}
	if len(fields) > 3 {
		p.find("sid", "fields", "SID %q has more than three hyphen separated fields", l)
	}
	feat := fields[len(fields)-1]
	if !strings.Contains(feat, "B2") {
		p.find("sid", "no-b2", "SID %q does not announce B2", l)
	}
	if !strings.Contains(feat, "F") {
		p.find("sid", "no-f", "SID %q lacks the F flag that B requires", l)
	}
	if !strings.HasSuffix(feat, "$") {
		p.find("sid", "dollar-not-last", "SID %q: $ must be the last feature character", l)
	}
	if fields[0] == "" {
		p.find("sid", "empty-author", "SID %q has an empty author field", l)
	}
}

func (p *peer) checkFW(l string) {
	p.res.FWLine = l
	if !strings.HasPrefix(l, ";FW: ") {
		p.find("fw", "syntax", ";FW line %q lacks the ': ' separator", l)
		return
	}
	for _, f := range strings.Split(l[5:], " ") {
		if f == "" {
			p.find("fw", "empty-entry", ";FW line %q has an empty entry", l)
		}
	}
}

func (p *peer) readSlaveHandshake() error {
	p.res.Waiting = "handshake"
	sawSID, sawPR := false, false
	for {
		if p.cfg.ReadTimeout > 0 {
			p.conn.SetReadDeadline(time.Now().Add(p.cfg.ReadTimeout))
		}
		b, err := p.rd.Peek(1)
		if err != nil {
			return err
		}
		if b[0] == 'F' {
			break
		}
		l, err := p.readLine()
		if err != nil {
			return err
		}
		p.res.HandshakeLines = append(p.res.HandshakeLines, l)
		switch {
		case isSID(l):
			if sawSID {
				p.find("handshake", "two-sids", "second SID line %q", l)
			}
			sawSID = true
			p.checkSID(l)
		case strings.HasPrefix(l, ";FW:"):
			p.checkFW(l)
		case strings.HasPrefix(l, ";PR:"):
			sawPR = true
			p.res.PR = strings.TrimPrefix(l, ";PR: ")
		case strings.HasPrefix(l, ";"):
			// comment
		default:
			p.find("handshake", "unexpected-line", "unexpected handshake line %q", clip(l))
		}
	}
	if !sawSID {
		p.find("handshake", "no-sid", "slave sent a protocol command without a SID")
	}
	if p.cfg.Challenge != "" && !sawPR {
		p.find("secure-login", "no-pr", "challenge sent but no ;PR line received")
	}
	if p.cfg.Challenge == "" && sawPR {
		p.find("secure-login", "unsolicited-pr", ";PR without a challenge")
	}
	return nil
}

// ---- the peer's turn -----------------------------------------------------

func (p *peer) pending() []OutMsg {
	var out []OutMsg
	for _, m := range p.queue {
		if !p.gone[m.MID] {
			out = append(out, m)
		}
	}
	return out
}

func (p *peer) stream(m OutMsg) []byte {
	if m.Stream != nil {
		return m.Stream
	}
	return p.cfg.Codec.Compress(m.Raw)
}

func (p *peer) myTurn(remoteNoMsgs bool) (quit, sentBlock bool, err error) {
	pend := p.pending()
	p.turns++
	if p.turns <= p.cfg.Late && !remoteNoMsgs && !p.cfg.EarlyFQ && len(pend) > 0 {
		pend = nil // not in the outbox yet
		p.res.HeldTurns++
	}
	if len(pend) == 0 {
		if err = p.comment("before-ff"); err != nil {
			return
		}
		if remoteNoMsgs || p.cfg.EarlyFQ {
			return true, false, p.line("fq", "FQ")
		}
		return false, false, p.line("ff", "FF")
	}
	bs := p.cfg.BlockSize
	if bs < 1 || bs > 5 {
		bs = 5
	}
	block := pend
	if len(block) > bs {
		block = block[:bs]
	}
	if p.cfg.DupFirst && len(block) < 5 && len(p.res.Sent) == 0 && p.emits["proposal"] == 0 {
		// propose one MID twice in the block; the copy goes to a plan-chosen place after the original
		src := 0
		if p.cfg.DupSrc > 0 {
			src = p.cfg.DupSrc % len(block)
		}
		pos := src + 1
		if p.cfg.DupPos > 0 {
			pos = src + 1 + p.cfg.DupPos%(len(block)-src)
		}
		nb := append([]OutMsg{}, block[:pos]...)
		nb = append(nb, block[src])
		block = append(nb, block[pos:]...)
	}
	if err = p.comment("before-proposal"); err != nil {
		return
	}
	if p.cfg.PM {
		for _, m := range block {
			if err = p.line("pm", fmt.Sprintf(";PM: %s %s %d %s %s", orDefault(m.To, p.cfg.TheirCall), m.MID, len(m.Raw), orDefault(m.From, p.cfg.MyCall), m.Title)); err != nil {
				return
			}
		}
	}
	var lines []string
	streams := make([][]byte, len(block))
	for i, m := range block {
		streams[i] = p.stream(m)
		if p.offered == nil {
			p.offered = map[string]bool{}
		}
		p.offered[m.MID] = true
		l := fmt.Sprintf("FC EM %s %d %d 0", m.MID, len(m.Raw), len(streams[i]))
		if err = p.line("proposal", l); err != nil {
			return
		}
		if p.cfg.Byzantine && !p.cfg.StaleChecksum {
			// a hostile peer computes the block checksum over what it really
			// sent, so that damaged proposal lines get past the checksum test
			for _, el := range strings.Split(strings.TrimSuffix(string(p.lastEmitted), "\r"), "\r") {
				lines = append(lines, el)
			}
		} else {
			lines = append(lines, l)
		}
		if i == 0 {
			if err = p.comment("between-proposals"); err != nil {
				return
			}
		}
	}
	if err = p.line("fprompt", fmt.Sprintf("F> %02X", ProposalChecksum(lines))); err != nil {
		return
	}
	// the answer
	p.res.Waiting = "fs"
	var fs string
	for {
		var l string
		if l, err = p.readLine(); err != nil {
			return
		}
		if strings.HasPrefix(l, ";") {
			continue
		}
		fs = l
		break
	}
	if !strings.HasPrefix(fs, "FS ") {
		p.find("answer", "not-fs", "expected an FS line, got %q", clip(fs))
		return false, true, errStop
	}
	toks, perr := ParseAnswers(fs[3:])
	if perr != nil {
		p.find("answer", "syntax", "FS line %q: %v", fs, perr)
		return false, true, errStop
	}
	if len(toks) != len(block) {
		p.find("answer", "count", "FS line %q answers %d proposals, %d were made", fs, len(toks), len(block))
		return false, true, errStop
	}
	for i, m := range block {
		t := toks[i]
		switch t.Kind {
		case '+':
			p.res.GotAnswers[m.MID] = '+'
			if t.Offset != 0 {
				// resume is legal per the B1 document; send from the offset after the 6 header bytes
				p.logf("session asked for offset %d", t.Offset)
			}
			start := p.wrote
			data := streams[i]
			if t.Offset > 0 && t.Offset <= len(data) {
				data = data[t.Offset:]
			}
			if err = p.sendTransfer(m.Title, t.Offset, data); err != nil {
				return
			}
			p.res.Frames[m.MID] = Range{start, p.wrote}
			p.res.Sent = append(p.res.Sent, m.MID)
			p.awaiting = append(p.awaiting, m.MID)
			p.gone[m.MID] = true
		case '-':
			p.res.GotAnswers[m.MID] = '-'
			p.res.Rejected = append(p.res.Rejected, m.MID)
			p.gone[m.MID] = true
		case '=':
			if _, dup := p.res.GotAnswers[m.MID]; !dup {
				p.res.GotAnswers[m.MID] = '='
				p.res.Deferred = append(p.res.Deferred, m.MID)
				p.gone[m.MID] = true // not offered again in this session
			}
		}
	}
	if p.cfg.HastyFQ && remoteNoMsgs && len(p.pending()) == 0 {
		// CMS style: the Session said it has nothing, this was our last block:
		// FQ follows at once and the link is dropped without waiting for its FF
		p.res.Hasty = true
		return true, true, p.line("fq", "FQ")
	}
	return false, true, nil
}

func orDefault(s, d string) string {
	if s == "" {
		return d
	}
	return s
}

func (p *peer) sendTransfer(title string, offset int, data []byte) error {
	if title == "" {
		title = "No title"
	}
	full := BuildTransfer(title, offset, data, p.cfg.DataBlocks)
	// split into header / blocks / eot emissions so that mutations can address them
	t, _ := ParseTransfer(full)
	hdrLen := 2 + int(full[1])
	if err := p.emit("hdr", full[:hdrLen]); err != nil {
		return err
	}
	pos := hdrLen
	if t != nil {
		for _, n := range t.Blocks {
			if err := p.emit("block", full[pos:pos+2+n]); err != nil {
				return err
			}
			pos += 2 + n
		}
	}
	return p.emit("eot", full[pos:])
}

// AnswerTok is one parsed answer of an FS line.
type AnswerTok struct {
	Kind   byte // '+', '-', '='
	Raw    string
	Offset int
	Held   bool
}

// ParseAnswers parses the answer alphabet of protocole.html (B1): + Y, - N R,
// = L, H (accepted, held), E (error), !offset / Aoffset; either case.
func ParseAnswers(s string) ([]AnswerTok, error) {
	var out []AnswerTok
	for i := 0; i < len(s); {
		c := s[i]
		switch c {
		case '+', 'Y', 'y':
			out = append(out, AnswerTok{Kind: '+', Raw: string(c)})
			i++
		case 'H', 'h':
			out = append(out, AnswerTok{Kind: '+', Raw: string(c), Held: true})
			i++
		case '-', 'N', 'n', 'R', 'r', 'E', 'e':
			out = append(out, AnswerTok{Kind: '-', Raw: string(c)})
			i++
		case '=', 'L', 'l':
			out = append(out, AnswerTok{Kind: '=', Raw: string(c)})
			i++
		case '!', 'A', 'a':
			j := i + 1
			for j < len(s) && s[j] >= '0' && s[j] <= '9' {
				j++
			}
			if j == i+1 {
				return nil, fmt.Errorf("offset answer without digits at %d", i)
			}
			off, _ := strconv.Atoi(s[i+1 : j])
			out = append(out, AnswerTok{Kind: '+', Raw: s[i:j], Offset: off})
			i = j
		default:
			return nil, fmt.Errorf("invalid answer character %q", c)
		}
	}
	return out, nil
}

// ---- the Session's turn ----------------------------------------------------

type prop struct {
	line  string
	mid   string
	usize int
	csize int
}

func (p *peer) theirTurn(iSaidFF bool) (quit, noMsgs bool, err error) {
	var props []prop
	first := true
	p.res.Waiting = "turn"
	for {
		var l string
		if l, err = p.readLine(); err != nil {
			return
		}
		if first {
			// the first line of the Session's turn confirms our last block
			p.res.Confirmed = append(p.res.Confirmed, p.awaiting...)
			p.awaiting = nil
			first = false
		}
		switch {
		case l == "":
			p.find("line", "empty", "empty line in the Session's turn")
		case strings.HasPrefix(l, ";"):
			// comment
		case l == "FF":
			if len(props) > 0 {
				p.find("turn", "ff-inside-block", "FF after %d proposals without F>", len(props))
			}
			return false, true, nil
		case l == "FQ":
			if len(props) > 0 {
				p.find("turn", "fq-inside-block", "FQ after %d proposals without F>", len(props))
			}
			if !iSaidFF {
				p.find("turn", "fq-while-peer-active", "FQ although our last turn was not FF")
			}
			return true, true, nil
		case strings.HasPrefix(l, "F> "), l == "F>":
			return p.answerBlock(l, props)
		case strings.HasPrefix(l, "FC ") || strings.HasPrefix(l, "FD "):
			pr, perr := parseProposalLine(l)
			if perr != nil {
				p.find("proposal", "syntax", "proposal %q: %v", clip(l), perr)
				return false, false, errStop
			}
			props = append(props, pr)
			if len(props) > 5 {
				p.find("proposal", "more-than-5", "more than five proposals in one block")
			}
		default:
			p.find("turn", "unexpected-line", "unexpected line %q in the Session's turn", clip(l))
			return false, false, errStop
		}
	}
}

func parseProposalLine(l string) (prop, error) {
	f := strings.Split(l, " ")
	if len(f) != 6 {
		return prop{}, fmt.Errorf("%d fields, want 6", len(f))
	}
	if f[1] != "EM" && f[1] != "CM" {
		return prop{}, fmt.Errorf("message type %q", f[1])
	}
	if len(f[2]) < 1 || len(f[2]) > 12 {
		return prop{}, fmt.Errorf("MID %q is not 1..12 characters", f[2])
	}
	u, err1 := strconv.Atoi(f[3])
	c, err2 := strconv.Atoi(f[4])
	if err1 != nil || err2 != nil || u < 0 || c < 0 {
		return prop{}, fmt.Errorf("sizes %q %q are not decimal", f[3], f[4])
	}
	if f[5] != "0" {
		return prop{}, fmt.Errorf("last field %q, want 0", f[5])
	}
	return prop{line: l, mid: f[2], usize: u, csize: c}, nil
}

func (p *peer) answerBlock(fline string, props []prop) (quit, noMsgs bool, err error) {
	var lines []string
	for _, pr := range props {
		lines = append(lines, pr.line)
	}
	want := ProposalChecksum(lines)
	got, perr := strconv.ParseInt(strings.TrimSpace(strings.TrimPrefix(fline, "F>")), 16, 32)
	if perr != nil || len(strings.TrimPrefix(fline, "F> ")) != 2 {
		p.find("proposal", "checksum-syntax", "F> line %q does not carry a two-digit hex checksum", fline)
	} else if int(got) != want {
		p.find("proposal", "checksum", "block checksum %02X, computed %02X over %d proposals", got, want, len(props))
	}
	if len(props) == 0 {
		p.find("proposal", "empty-block", "F> without any proposal")
		return false, true, nil
	}
	var mids []string
	for _, pr := range props {
		mids = append(mids, pr.mid)
	}
	p.res.Proposed = append(p.res.Proposed, mids)
	// order inside the block: precedence class, then compressed size
	for i := 1; i < len(props); i++ {
		a, b := props[i-1], props[i]
		ea, oka := p.cfg.Expect[a.mid]
		eb, okb := p.cfg.Expect[b.mid]
		if oka && okb {
			if ea.Prec > eb.Prec || (ea.Prec == eb.Prec && a.csize > b.csize) {
				p.find("proposal", "order", "proposals %s (prec %d, %d bytes) and %s (prec %d, %d bytes) are not in precedence-then-size order", a.mid, ea.Prec, a.csize, b.mid, eb.Prec, b.csize)
			}
		}
	}
	// answer
	var fs strings.Builder
	type acc struct {
		pr  prop
		off int
	}
	var accepted []acc
	if err = p.comment("before-fs"); err != nil {
		return
	}
	seen := map[string]bool{}
	for _, pr := range props {
		tok := p.cfg.Answers[pr.mid]
		if tok == "" {
			tok = "+"
		}
		if seen[pr.mid] {
			tok = "=" // duplicate inside the block
		}
		seen[pr.mid] = true
		// "!p37" / "Ap37": accept from 37 % of the announced compressed size
		// (a resume request; the plan cannot know the size)
		if len(tok) > 2 && (tok[0] == '!' || tok[0] == 'A' || tok[0] == 'a') && tok[1] == 'p' {
			pct, _ := strconv.Atoi(tok[2:])
			off := 0
			if pr.csize >= 2 && pct >= 0 {
				off = pr.csize * (pct % 100) / 100
				if off < 1 {
					off = 1
				}
				if off > pr.csize-1 {
					off = pr.csize - 1
				}
			}
			tok = tok[:1] + strconv.Itoa(off)
		}
		ts, perr := ParseAnswers(tok)
		if perr != nil || len(ts) != 1 {
			tok, ts = "+", []AnswerTok{{Kind: '+', Raw: "+"}}
		}
		p.res.Answered[pr.mid] = tok
		fs.WriteString(tok)
		if ts[0].Kind == '+' {
			accepted = append(accepted, acc{pr, ts[0].Offset})
		}
	}
	if err = p.line("fs", "FS "+fs.String()); err != nil {
		return
	}
	for _, a := range accepted {
		p.res.Waiting = "transfer:" + strings.ToUpper(p.res.Answered[a.pr.mid][:1])
		if err = p.recvTransfer(a.pr, a.off); err != nil {
			return
		}
	}
	return false, false, nil
}

// recvTransfer reads one SOH..EOT transfer byte by byte and validates it.
func (p *peer) recvTransfer(pr prop, wantOff int) error {
	var raw []byte
	rb := func() (byte, error) {
		b, err := p.readByte()
		if err == nil {
			raw = append(raw, b)
		}
		return b, err
	}
	b, err := rb()
	if err != nil {
		return err
	}
	if b == '*' {
		l, _ := p.rd.ReadString('\r')
		p.res.RemoteErr = "*" + l
		return errStop
	}
	if b != SOH {
		p.find("frame", "no-soh", "transfer of %s starts with %#x, not SOH", pr.mid, b)
		return errStop
	}
	hl, err := rb()
	if err != nil {
		return err
	}
	for i := 0; i < int(hl); i++ {
		if _, err := rb(); err != nil {
			return err
		}
	}
	for {
		b, err := rb()
		if err != nil {
			return err
		}
		if b == STX {
			n, err := rb()
			if err != nil {
				return err
			}
			k := int(n)
			if k == 0 {
				k = 256
			}
			for i := 0; i < k; i++ {
				if _, err := rb(); err != nil {
					return err
				}
			}
			continue
		}
		if b == EOT {
			if _, err := rb(); err != nil {
				return err
			}
			break
		}
		p.find("frame", "bad-marker", "transfer of %s: byte %#x where STX or EOT belongs (after %d bytes)", pr.mid, b, len(raw))
		return errStop
	}
	t, perr := ParseTransfer(raw)
	if perr != nil {
		p.find("frame", "grammar", "transfer of %s: %v", pr.mid, perr)
		return errStop
	}
	for _, c := range []byte(t.Title) {
		if c < 0x20 || c > 0x7e {
			p.find("frame", "title-not-ascii", "transfer of %s: title byte %#x is not printable ASCII", pr.mid, c)
			break
		}
	}
	if off, _ := strconv.Atoi(t.Offset); off != wantOff {
		p.find("frame", "offset", "transfer of %s: offset field %q, requested %d", pr.mid, t.Offset, wantOff)
	}
	if wantOff > 0 {
		// a resumed transfer carries the compressed image from the offset on;
		// it cannot be decoded on its own and is kept as it is
		if len(t.Data) != pr.csize-wantOff {
			p.find("frame", "compressed-size", "transfer of %s from offset %d: %d data bytes, proposal said %d in all", pr.mid, wantOff, len(t.Data), pr.csize)
		}
		if _, dup := p.res.Received[pr.mid]; dup {
			p.find("turn", "sent-twice", "message %s transferred twice", pr.mid)
		}
		if p.res.Tails == nil {
			p.res.Tails = map[string]Tail{}
		}
		p.res.Tails[pr.mid] = Tail{Off: wantOff, Data: append([]byte(nil), t.Data...)}
		p.res.Received[pr.mid] = []byte{}
		p.res.RecvOrder = append(p.res.RecvOrder, pr.mid)
		return nil
	}
	if len(t.Data) != pr.csize {
		p.find("frame", "compressed-size", "transfer of %s: %d data bytes, proposal said %d", pr.mid, len(t.Data), pr.csize)
	}
	msg, derr := p.cfg.Codec.Decompress(t.Data)
	if derr != nil {
		p.find("payload", "decode", "transfer of %s: payload rejected by the reference decoder: %v", pr.mid, derr)
		return errStop
	}
	if len(msg) != pr.usize {
		p.find("payload", "uncompressed-size", "transfer of %s: %d bytes after decompression, proposal said %d", pr.mid, len(msg), pr.usize)
	}
	if e, ok := p.cfg.Expect[pr.mid]; ok && !bytes.Equal(e.Raw, msg) {
		p.find("payload", "content", "transfer of %s: decompressed message differs from what was queued (%d vs %d bytes)", pr.mid, len(msg), len(e.Raw))
	}
	if _, dup := p.res.Received[pr.mid]; dup {
		p.find("turn", "sent-twice", "message %s transferred twice", pr.mid)
	}
	p.res.Received[pr.mid] = msg
	p.res.RecvOrder = append(p.res.RecvOrder, pr.mid)
	return nil
}

var _ = io.EOF
