package b2f

import "testing"

func TestPublishedVectors(t *testing.T) {
	for _, v := range [][3]string{{"23753528", "FOOBAR", "72768415"}, {"23753528", "FooBar", "95074758"}} {
		if got := SecureResponse(v[0], v[1]); got != v[2] {
			t.Errorf("SecureResponse(%q,%q)=%s want %s", v[0], v[1], got, v[2])
		}
	}
}
