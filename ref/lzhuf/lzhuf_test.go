package lzhuf

import (
	"bytes"
	"os"
	"path/filepath"
	"strings"
	"testing"
)

const golden = "/repo/lzhuf/testdata"

func goldenPairs(t *testing.T) map[string][2][]byte {
	ents, err := os.ReadDir(golden)
	if err != nil {
		t.Skip("golden files not available:", err)
	}
	out := map[string][2][]byte{}
	for _, e := range ents {
		if !strings.HasSuffix(e.Name(), ".lzh") {
			continue
		}
		lzh, err := os.ReadFile(filepath.Join(golden, e.Name()))
		if err != nil {
			t.Fatal(err)
		}
		orig, err := os.ReadFile(filepath.Join(golden, strings.TrimSuffix(e.Name(), ".lzh")))
		if err != nil {
			t.Fatal(err)
		}
		out[e.Name()] = [2][]byte{orig, lzh}
	}
	if len(out) != 5 {
		t.Fatalf("expected 5 golden pairs, found %d", len(out))
	}
	return out
}

func TestPositionTables(t *testing.T) {
	// spot values of the published tables
	if posCode[0] != 0 || posLen[0] != 3 || posCode[1] != 0x20 || posLen[1] != 4 ||
		posCode[4] != 0x50 || posCode[12] != 0x90 || posCode[24] != 0xC0 || posCode[48] != 0xF0 || posCode[63] != 0xFF || posLen[63] != 8 {
		t.Fatalf("position tables differ from the published ones: %x %v", posCode, posLen)
	}
	if posSym[0x1f] != 0 || posSym[0x20] != 1 || posSym[0xff] != 63 || posBits[0xc1] != 7 {
		t.Fatal("decoder position tables wrong")
	}
}

func TestCRC16(t *testing.T) {
	if got := CRC16([]byte("123456789")); got != 0x31C3 {
		t.Fatalf("CRC-16/XMODEM check value: got %#x want 0x31c3", got)
	}
}

func TestGoldenDecode(t *testing.T) {
	for name, p := range goldenPairs(t) {
		out, v := Decode(p[1], true)
		if !v.OK || !bytes.Equal(out, p[0]) {
			t.Errorf("%s: verdict %+v, equal=%v", name, v, bytes.Equal(out, p[0]))
		}
		if v.Trailing != 0 || v.Exhausted || v.CutMatch {
			t.Errorf("%s: unexpected verdict details %+v", name, v)
		}
		t.Logf("%s: %d bytes, %d symbols, %d rebuilds", name, len(out), v.Symbols, v.Rebuilds)
		// without the CRC field
		out, v = Decode(p[1][2:], false)
		if !v.OK || !bytes.Equal(out, p[0]) {
			t.Errorf("%s (no crc): verdict %+v", name, v)
		}
	}
}

func TestGoldenGreedyEncode(t *testing.T) {
	for name, p := range goldenPairs(t) {
		got := EncodeGreedy(p[0], true)
		if !bytes.Equal(got, p[1]) {
			i := 0
			for i < len(got) && i < len(p[1]) && got[i] == p[1][i] {
				i++
			}
			t.Errorf("%s: greedy encoding differs from golden at byte %d (lengths %d vs %d)", name, i, len(got), len(p[1]))
		}
	}
}

func testInputs() [][]byte {
	rng := NewRNG(42)
	var ins [][]byte
	ins = append(ins, nil, []byte("a"), []byte("ab"), []byte("   "), []byte(strings.Repeat(" ", 200)),
		[]byte(strings.Repeat("a", 59)), []byte(strings.Repeat("a", 60)), []byte(strings.Repeat("a", 61)),
		[]byte(strings.Repeat("abc", 1000)), bytes.Repeat([]byte{0}, 5000))
	for _, n := range []int{1, 2, 3, 59, 60, 61, 100, 2047, 2048, 2049, 5000, 40000} {
		b := make([]byte, n)
		for i := range b {
			b[i] = byte(rng.Intn(256))
		}
		ins = append(ins, b)
		c := make([]byte, n)
		for i := range c {
			c[i] = "ab"[rng.Intn(2)]
		}
		ins = append(ins, c)
	}
	return ins
}

func TestEncodersRoundTrip(t *testing.T) {
	for i, in := range testInputs() {
		for _, crc := range []bool{true, false} {
			streams := map[string][]byte{
				"greedy":  EncodeGreedy(in, crc),
				"literal": EncodeLiteral(in, crc),
				"random1": EncodeRandom(in, crc, uint64(i)+1, RandomOptions{}),
				"random2": EncodeRandom(in, crc, uint64(i)+7, RandomOptions{LiteralPct: 30, Alias: true}),
			}
			if len(in) <= 200 {
				streams["randomx"] = EncodeRandom(in, crc, uint64(i)+9, RandomOptions{Exhaustive: true, Alias: true})
			}
			for name, s := range streams {
				out, v := Decode(s, crc)
				if !v.OK || !bytes.Equal(out, in) || v.Trailing != 0 {
					t.Errorf("input %d (%d bytes) %s crc=%v: verdict %+v equal=%v", i, len(in), name, crc, v, bytes.Equal(out, in))
				}
			}
		}
	}
}

func TestRebuildReached(t *testing.T) {
	in := make([]byte, 40000)
	rng := NewRNG(3)
	for i := range in {
		in[i] = byte(rng.Intn(256))
	}
	_, v := Decode(EncodeGreedy(in, false), false)
	if v.Rebuilds == 0 {
		t.Fatalf("no tree rebuild on 40000 random bytes: %+v", v)
	}
}

func TestVerdictOnDamage(t *testing.T) {
	in := []byte(strings.Repeat("hello world ", 20))
	s := EncodeGreedy(in, true)
	// truncation
	for k := 0; k < len(s); k++ {
		out, v := Decode(s[:k], true)
		if v.OK {
			t.Fatalf("prefix %d accepted", k)
		}
		if !bytes.HasPrefix(in, out) {
			t.Fatalf("prefix %d: decoded bytes are not a prefix of the input", k)
		}
	}
	// declared size one short: a final match is cut, CRC fails
	s2 := append([]byte(nil), s...)
	s2[2]--
	out, v := Decode(s2, true)
	if v.OK || v.CRCOK || len(out) != len(in)-1 {
		t.Fatalf("size-1: %+v", v)
	}
	// negative size
	s3 := append([]byte(nil), s[2:]...)
	s3[3] = 0x80
	out, v = Decode(s3, false)
	if v.OK || len(out) != 0 || v.Declared >= 0 {
		t.Fatalf("negative size: %+v", v)
	}
	// too large
	s4 := append([]byte(nil), s[2:]...)
	s4[0]++
	out, v = Decode(s4, false)
	if v.OK || !v.Exhausted {
		t.Fatalf("size+1: %+v", v)
	}
}
