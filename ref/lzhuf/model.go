// Package lzhuf is the reference LZHUF codec of the verification harness.
//
// It is written from the description of the canonical algorithm (Okumura's
// LZSS front end with Yoshizaki's adaptive Huffman back end, "LZHUF.C") with
// the parameters FBB uses: a 2048-byte ring buffer, 60 bytes of look-ahead,
// matches of 3..60 bytes, 314 symbols (256 literals + 58 match lengths), an
// adaptive Huffman tree that is rebuilt with halved frequencies when the root
// frequency reaches 0x8000, and match positions sent as a 6-bit prefix code
// (upper six bits) followed by six verbatim bits.
//
// It deliberately shares no code and no table with the library under test
// (github.com/la5nta/wl2k-go/lzhuf): the position tables are generated from
// the code-length distribution, the CRC is bitwise, and the container format
// (optional CRC-16, 4-byte little-endian size, bit stream) is parsed by hand.
package lzhuf

const (
	ringSize   = 2048 // N
	lookAhead  = 60   // F
	threshold  = 2    // matches are longer than this
	ringMask   = ringSize - 1
	numSym     = 256 - threshold + lookAhead // N_CHAR = 314
	tableSize  = 2*numSym - 1                // T = 627
	rootNode   = tableSize - 1               // R = 626
	maxFreq    = 0x8000
	MinMatch   = threshold + 1
	MaxMatch   = lookAhead
	WindowSize = ringSize
)

// Position prefix code: symbol i (0..63, the upper six bits of a position) has
// posLen[i] bits; codes are assigned in increasing order (canonical prefix
// code), posCode[i] holds the code left-aligned in a byte. posSym/posBits map
// the next eight stream bits back to the symbol and its length.
var (
	posLen  [64]uint8
	posCode [64]uint8
	posSym  [256]uint8
	posBits [256]uint8
)

func init() {
	dist := []struct{ count, bits int }{{1, 3}, {3, 4}, {8, 5}, {12, 6}, {24, 7}, {16, 8}}
	sym, code := 0, 0
	for _, d := range dist {
		step := 1 << (8 - d.bits)
		for n := 0; n < d.count; n++ {
			posLen[sym] = uint8(d.bits)
			posCode[sym] = uint8(code)
			for b := code; b < code+step; b++ {
				posSym[b] = uint8(sym)
				posBits[b] = uint8(d.bits)
			}
			code += step
			sym++
		}
	}
	if sym != 64 || code != 256 {
		panic("ref/lzhuf: position code is not complete")
	}
}

// huff is the adaptive Huffman model shared by encoder and decoder. Nodes are
// kept in one array ordered by non-decreasing frequency; node k's children are
// child[k] and child[k]+1 (or, for a leaf, child[k] = symbol + tableSize).
type huff struct {
	freq     [tableSize + 1]uint32
	parent   [tableSize + numSym]int
	child    [tableSize]int
	Rebuilds int // how many times the tree was rebuilt
	Coded    int // symbols coded so far
}

func newHuff() *huff {
	h := &huff{}
	for s := 0; s < numSym; s++ {
		h.freq[s] = 1
		h.child[s] = s + tableSize
		h.parent[s+tableSize] = s
	}
	for a, n := 0, numSym; n <= rootNode; a, n = a+2, n+1 {
		h.freq[n] = h.freq[a] + h.freq[a+1]
		h.child[n] = a
		h.parent[a], h.parent[a+1] = n, n
	}
	h.freq[tableSize] = 0xffff // sentinel
	h.parent[rootNode] = 0
	return h
}

// rebuild halves all leaf frequencies and reconstructs the tree.
func (h *huff) rebuild() {
	h.Rebuilds++
	// leaves to the front, in their current order
	n := 0
	for k := 0; k < tableSize; k++ {
		if h.child[k] >= tableSize {
			h.freq[n] = (h.freq[k] + 1) / 2
			h.child[n] = h.child[k]
			n++
		}
	}
	// pair nodes two by two; insert each new internal node behind all nodes
	// whose frequency is not larger
	for a, n := 0, numSym; n < tableSize; a, n = a+2, n+1 {
		f := h.freq[a] + h.freq[a+1]
		at := n
		for at > 0 && f < h.freq[at-1] {
			at--
		}
		for m := n; m > at; m-- {
			h.freq[m] = h.freq[m-1]
			h.child[m] = h.child[m-1]
		}
		h.freq[at] = f
		h.child[at] = a
	}
	for k := 0; k < tableSize; k++ {
		c := h.child[k]
		h.parent[c] = k
		if c < tableSize {
			h.parent[c+1] = k
		}
	}
}

// bump increments the frequency of symbol s and restores the ordering.
func (h *huff) bump(s int) {
	h.Coded++
	if h.freq[rootNode] == maxFreq {
		h.rebuild()
	}
	k := h.parent[s+tableSize]
	for {
		h.freq[k]++
		f := h.freq[k]
		if f > h.freq[k+1] {
			// move k to the last position whose frequency is still smaller
			l := k + 1
			for f > h.freq[l+1] {
				l++
			}
			h.freq[k], h.freq[l] = h.freq[l], f

			ck, cl := h.child[k], h.child[l]
			h.parent[ck] = l
			if ck < tableSize {
				h.parent[ck+1] = l
			}
			h.parent[cl] = k
			if cl < tableSize {
				h.parent[cl+1] = k
			}
			h.child[k], h.child[l] = cl, ck
			k = l
		}
		k = h.parent[k]
		if k == 0 {
			return
		}
	}
}

// code returns the bits (root first) that select symbol s in the current tree.
func (h *huff) code(s int, buf []uint8) []uint8 {
	buf = buf[:0]
	for k := h.parent[s+tableSize]; k != rootNode; k = h.parent[k] {
		buf = append(buf, uint8(k&1))
	}
	for i, j := 0, len(buf)-1; i < j; i, j = i+1, j-1 {
		buf[i], buf[j] = buf[j], buf[i]
	}
	return buf
}
