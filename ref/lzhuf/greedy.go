package lzhuf

// Canonical greedy parse: at every step the longest match found by Okumura's
// binary search trees over the ring buffer (one tree per first byte; among
// matches of equal length on the search path the nearest one), literal if the
// match is not longer than two bytes.

const nilNode = ringSize

type matchFinder struct {
	text        [ringSize + lookAhead - 1]byte
	left        [ringSize + 1]int
	right       [ringSize + 257]int
	up          [ringSize + 1]int
	matchPos    int
	matchLength int
}

func newMatchFinder() *matchFinder {
	m := &matchFinder{}
	for i := ringSize + 1; i <= ringSize+256; i++ {
		m.right[i] = nilNode
	}
	for i := 0; i < ringSize; i++ {
		m.up[i] = nilNode
	}
	return m
}

// insert adds the string starting at ring index r to its tree and records the
// best match on the way down.
func (m *matchFinder) insert(r int) {
	key := m.text[r:]
	p := ringSize + 1 + int(key[0])
	m.left[r], m.right[r] = nilNode, nilNode
	m.matchLength = 0
	cmp := 1
	for {
		if cmp >= 0 {
			if m.right[p] == nilNode {
				m.right[p] = r
				m.up[r] = p
				return
			}
			p = m.right[p]
		} else {
			if m.left[p] == nilNode {
				m.left[p] = r
				m.up[r] = p
				return
			}
			p = m.left[p]
		}
		i := 1
		for ; i < lookAhead; i++ {
			cmp = int(key[i]) - int(m.text[p+i])
			if cmp != 0 {
				break
			}
		}
		if i > threshold {
			d := (r-p)&ringMask - 1
			if i > m.matchLength {
				m.matchPos = d
				m.matchLength = i
				if i >= lookAhead {
					break
				}
			} else if i == m.matchLength && uint(d) < uint(m.matchPos) {
				m.matchPos = d
			}
		}
	}
	// a full-length match: r replaces p
	m.up[r], m.left[r], m.right[r] = m.up[p], m.left[p], m.right[p]
	m.up[m.left[p]] = r
	m.up[m.right[p]] = r
	if m.right[m.up[p]] == p {
		m.right[m.up[p]] = r
	} else {
		m.left[m.up[p]] = r
	}
	m.up[p] = nilNode
}

func (m *matchFinder) remove(p int) {
	if m.up[p] == nilNode {
		return
	}
	var q int
	switch {
	case m.right[p] == nilNode:
		q = m.left[p]
	case m.left[p] == nilNode:
		q = m.right[p]
	default:
		q = m.left[p]
		if m.right[q] != nilNode {
			for m.right[q] != nilNode {
				q = m.right[q]
			}
			m.right[m.up[q]] = m.left[q]
			m.up[m.left[q]] = m.up[q]
			m.left[q] = m.left[p]
			m.up[m.left[p]] = q
		}
		m.right[q] = m.right[p]
		m.up[m.right[p]] = q
	}
	m.up[q] = m.up[p]
	if m.right[m.up[p]] == p {
		m.right[m.up[p]] = q
	} else {
		m.left[m.up[p]] = q
	}
	m.up[p] = nilNode
}

// EncodeGreedy is the canonical encoder (LZHUF.C's Encode()).
func EncodeGreedy(in []byte, crc bool) []byte {
	w := newSymbolWriter()
	if len(in) == 0 {
		return container(0, nil, crc)
	}
	m := newMatchFinder()
	s, r := 0, ringSize-lookAhead
	for i := 0; i < r; i++ {
		m.text[i] = ' '
	}
	next := 0
	n := 0 // bytes in the look-ahead
	for n < lookAhead && next < len(in) {
		m.text[r+n] = in[next]
		n++
		next++
	}
	for i := 1; i <= lookAhead; i++ {
		m.insert(r - i)
	}
	m.insert(r)
	for n > 0 {
		if m.matchLength > n {
			m.matchLength = n
		}
		if m.matchLength <= threshold {
			m.matchLength = 1
			w.literal(m.text[r])
		} else {
			w.match(m.matchPos, m.matchLength)
		}
		step := m.matchLength
		i := 0
		for ; i < step && next < len(in); i++ {
			c := in[next]
			next++
			m.remove(s)
			m.text[s] = c
			if s < lookAhead-1 {
				m.text[s+ringSize] = c
			}
			s = (s + 1) & ringMask
			r = (r + 1) & ringMask
			m.insert(r)
		}
		for ; i < step; i++ {
			m.remove(s)
			s = (s + 1) & ringMask
			r = (r + 1) & ringMask
			n--
			if n > 0 {
				m.insert(r)
			}
		}
	}
	return container(int32(len(in)), w.bits.finish(), crc)
}
