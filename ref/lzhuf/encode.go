package lzhuf

// RNG is a tiny self-contained generator (splitmix64) so that the shape of a
// randomly encoded stream is a pure function of a seed stored in a plan.
type RNG struct{ s uint64 }

func NewRNG(seed uint64) *RNG { return &RNG{s: seed} }

func (r *RNG) Uint64() uint64 {
	r.s += 0x9e3779b97f4a7c15
	z := r.s
	z = (z ^ z>>30) * 0xbf58476d1ce4e5b9
	z = (z ^ z>>27) * 0x94d049bb133111eb
	return z ^ z>>31
}

// Intn returns a value in [0,n); 0 for n <= 0.
func (r *RNG) Intn(n int) int {
	if n <= 0 {
		return 0
	}
	return int(r.Uint64() % uint64(n))
}

type bitSink struct {
	out  []byte
	acc  uint32
	nacc uint
}

func (b *bitSink) put(bit uint8) {
	b.acc = b.acc<<1 | uint32(bit&1)
	b.nacc++
	if b.nacc == 8 {
		b.out = append(b.out, byte(b.acc))
		b.acc, b.nacc = 0, 0
	}
}

func (b *bitSink) putBits(v int, n int) {
	for i := n - 1; i >= 0; i-- {
		b.put(uint8(v >> uint(i) & 1))
	}
}

func (b *bitSink) finish() []byte {
	for b.nacc != 0 {
		b.put(0)
	}
	return b.out
}

// symbolWriter emits literals and matches and keeps the decoder-side ring
// buffer so that callers can look for valid match sources.
type symbolWriter struct {
	h    *huff
	bits bitSink
	ring [ringSize]byte
	r    int
	tmp  []uint8
	// Stats
	Literals, Matches int
}

func newSymbolWriter() *symbolWriter {
	w := &symbolWriter{h: newHuff(), r: ringSize - lookAhead}
	for i := 0; i < ringSize-lookAhead; i++ {
		w.ring[i] = ' '
	}
	return w
}

func (w *symbolWriter) sym(s int) {
	w.tmp = w.h.code(s, w.tmp)
	for _, b := range w.tmp {
		w.bits.put(b)
	}
	w.h.bump(s)
}

func (w *symbolWriter) literal(c byte) {
	w.sym(int(c))
	w.ring[w.r] = c
	w.r = (w.r + 1) & ringMask
	w.Literals++
}

// match emits a copy of n bytes (3..60) with position field pos (0..4095; the
// source starts pos+1 bytes behind the write position, modulo the ring size).
func (w *symbolWriter) match(pos, n int) {
	w.sym(255 - threshold + n)
	up := pos >> 6 & 63
	w.bits.putBits(int(posCode[up])>>(8-uint(posLen[up])), int(posLen[up]))
	w.bits.putBits(pos&0x3f, 6)
	src := (w.r - pos - 1) & ringMask
	for i := 0; i < n; i++ {
		c := w.ring[(src+i)&ringMask]
		w.ring[w.r] = c
		w.r = (w.r + 1) & ringMask
	}
	w.Matches++
}

// matchLen returns how many bytes (<= max) a copy with position field pos
// would reproduce of in, given the current ring (overlap handled exactly as
// the decoder's byte-by-byte copy does).
func (w *symbolWriter) matchLen(pos int, in []byte, max int) int {
	if max > len(in) {
		max = len(in)
	}
	src := (w.r - pos - 1) & ringMask
	n := 0
	for n < max {
		idx := (src + n) & ringMask
		var c byte
		if off := (idx - w.r) & ringMask; off < n {
			c = in[off] // written earlier by this very copy
		} else {
			c = w.ring[idx]
		}
		if c != in[n] {
			break
		}
		n++
	}
	return n
}

func container(size int32, body []byte, crc bool) []byte {
	out := make([]byte, 0, len(body)+6)
	if crc {
		out = append(out, 0, 0)
	}
	u := uint32(size)
	out = append(out, byte(u), byte(u>>8), byte(u>>16), byte(u>>24))
	out = append(out, body...)
	if crc {
		c := CRC16(out[2:])
		out[0], out[1] = byte(c), byte(c>>8)
	}
	return out
}

// RandomOptions steer EncodeRandom.
type RandomOptions struct {
	LiteralPct int  // chance (0..100) of a literal even when a match exists
	Tries      int  // random source positions probed per step (default 12)
	Alias      bool // also use position fields >= 2048 (they alias modulo the ring size)
	Exhaustive bool // probe every source position (slow; for short inputs)
}

// EncodeRandom produces a valid stream for in whose parse (literal or match,
// which source, which length 3..60) is chosen by the seed. Any canonical
// decoder decodes it to in; it is in general not what a greedy encoder emits.
func EncodeRandom(in []byte, crc bool, seed uint64, opt RandomOptions) []byte {
	rng := NewRNG(seed)
	w := newSymbolWriter()
	if opt.Tries <= 0 {
		opt.Tries = 12
	}
	// last occurrences of 3-byte sequences (absolute input offsets)
	const hashSize = 1 << 14
	var last [hashSize][2]int32
	for i := range last {
		last[i] = [2]int32{-1, -1}
	}
	hash := func(i int) int {
		return (int(in[i])*2654435 ^ int(in[i+1])*40503 ^ int(in[i+2])*251) & (hashSize - 1)
	}
	insert := func(i int) {
		if i+2 < len(in) {
			h := hash(i)
			last[h][1] = last[h][0]
			last[h][0] = int32(i)
		}
	}
	type cand struct{ pos, n int }
	var cands []cand
	for i := 0; i < len(in); {
		rest := in[i:]
		cands = cands[:0]
		if len(rest) >= MinMatch && rng.Intn(100) >= opt.LiteralPct {
			try := func(pos int) {
				if n := w.matchLen(pos, rest, MaxMatch); n >= MinMatch {
					cands = append(cands, cand{pos, n})
				}
			}
			if opt.Exhaustive {
				for pos := 0; pos < ringSize; pos++ {
					try(pos)
				}
			} else {
				for _, j := range last[hash(i)] {
					if j >= 0 && i-int(j) <= ringSize {
						try(i - int(j) - 1)
					}
				}
				for t := 0; t < opt.Tries; t++ {
					switch rng.Intn(4) {
					case 0: // near
						try(rng.Intn(64))
					case 1: // at the far edge of the window
						try(ringSize - 1 - rng.Intn(64))
					default:
						try(rng.Intn(ringSize))
					}
				}
			}
		}
		if len(cands) == 0 {
			w.literal(in[i])
			insert(i)
			i++
			continue
		}
		c := cands[rng.Intn(len(cands))]
		n := c.n
		switch rng.Intn(3) {
		case 0: // longest
		case 1:
			n = MinMatch + rng.Intn(c.n-MinMatch+1)
		case 2:
			if n > MinMatch {
				n-- // one short of the longest
			}
		}
		pos := c.pos
		if opt.Alias && rng.Intn(4) == 0 {
			pos += ringSize
		}
		w.match(pos, n)
		for k := 0; k < n; k++ {
			insert(i + k)
		}
		i += n
	}
	return container(int32(len(in)), w.bits.finish(), crc)
}

// EncodeLiteral encodes every byte as a literal (the most symbols per byte).
func EncodeLiteral(in []byte, crc bool) []byte {
	w := newSymbolWriter()
	for _, c := range in {
		w.literal(c)
	}
	return container(int32(len(in)), w.bits.finish(), crc)
}
