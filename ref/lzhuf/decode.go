package lzhuf

// CRC16 is CRC-16/XMODEM (polynomial 0x1021, initial value 0, no reflection,
// no final xor), computed bit by bit.
func CRC16(p []byte) uint16 {
	var reg uint16
	for _, b := range p {
		reg ^= uint16(b) << 8
		for i := 0; i < 8; i++ {
			if reg&0x8000 != 0 {
				reg = reg<<1 ^ 0x1021
			} else {
				reg <<= 1
			}
		}
	}
	return reg
}

// Verdict is what the reference decoder has to say about a stream.
type Verdict struct {
	HeaderOK  bool  // the CRC (if expected) and size fields were present
	Declared  int64 // declared uncompressed size (signed 32 bit), valid if HeaderOK
	Decoded   int   // bytes decoded (<= Declared)
	Exhausted bool  // the input ended before Declared bytes were decoded
	CutMatch  bool  // the last match was longer than what was left to the declared size
	CRCOK     bool  // no CRC expected, or the stored CRC equals the computed one
	SizeOK    bool  // Declared >= 0 and exactly Declared bytes were decoded
	OK        bool  // HeaderOK && CRCOK && SizeOK: what a nil Close must imply
	BitsUsed  int   // bits of the bit stream consumed by completely decoded symbols
	Symbols   int   // symbols decoded
	Rebuilds  int   // adaptive-tree rebuilds during decoding
	Trailing  int   // whole input bytes after the last bit that was needed
	Needed    int   // length of the shortest prefix of the stream that holds every bit that was needed (header included)
}

type bitSource struct {
	p   []byte
	pos int // in bits
}

// take returns the next n (<=8) bits, most significant first; ok=false and no
// bits consumed if fewer than n bits are left.
func (b *bitSource) take(n int) (v int, ok bool) {
	if b.pos+n > len(b.p)*8 {
		return 0, false
	}
	for i := 0; i < n; i++ {
		byt := b.p[b.pos>>3]
		v = v<<1 | int(byt>>(7-uint(b.pos&7)))&1
		b.pos++
	}
	return v, true
}

// Decode decodes a complete stream held in memory. With crc=true the stream
// starts with a little-endian CRC-16 of everything that follows it.
//
// Decoding stops when the declared size is reached or when a symbol would need
// bits beyond the end of the input (such a symbol is not decoded at all). A
// final match that is longer than the remaining declared size is cut there.
// out always holds exactly the bytes a canonical decoder is entitled to emit.
func Decode(stream []byte, crc bool) (out []byte, v Verdict) {
	p := stream
	var stored uint16
	if crc {
		if len(p) < 2 {
			return nil, v
		}
		stored = uint16(p[0]) | uint16(p[1])<<8
		p = p[2:]
	}
	if len(p) < 4 {
		return nil, v
	}
	v.HeaderOK = true
	v.CRCOK = !crc || CRC16(p) == stored
	v.Declared = int64(int32(uint32(p[0]) | uint32(p[1])<<8 | uint32(p[2])<<16 | uint32(p[3])<<24))
	body := p[4:]

	want := v.Declared
	if want < 0 {
		want = 0
	}
	h := newHuff()
	var ring [ringSize]byte
	for i := 0; i < ringSize-lookAhead; i++ {
		ring[i] = ' '
	}
	r := ringSize - lookAhead
	bs := &bitSource{p: body}
	capHint := want
	if capHint > int64(len(body))*lookAhead+16 {
		capHint = int64(len(body))*lookAhead + 16
	}
	out = make([]byte, 0, capHint)

decode:
	for int64(len(out)) < want {
		start := bs.pos
		// symbol
		k := h.child[rootNode]
		for k < tableSize {
			bit, ok := bs.take(1)
			if !ok {
				bs.pos = start
				v.Exhausted = true
				break decode
			}
			k = h.child[k+bit]
		}
		sym := k - tableSize
		if sym < 256 {
			h.bump(sym)
			v.Symbols++
			out = append(out, byte(sym))
			ring[r] = byte(sym)
			r = (r + 1) & ringMask
			continue
		}
		// position: 8 bits select the prefix code word, then the rest of the
		// lower six bits follow
		first, ok := bs.take(8)
		if !ok {
			bs.pos = start
			v.Exhausted = true
			break decode
		}
		nb := int(posBits[first])
		rest, ok := bs.take(nb - 2)
		if !ok {
			bs.pos = start
			v.Exhausted = true
			break decode
		}
		low := (first<<uint(nb-2) | rest) & 0x3f
		pos := int(posSym[first])<<6 | low
		h.bump(sym)
		v.Symbols++
		src := (r - pos - 1) & ringMask
		n := sym - 255 + threshold
		for i := 0; i < n; i++ {
			c := ring[(src+i)&ringMask]
			if int64(len(out)) < want {
				out = append(out, c)
			} else {
				v.CutMatch = true
			}
			ring[r] = c
			r = (r + 1) & ringMask
		}
	}
	v.Decoded = len(out)
	v.BitsUsed = bs.pos
	v.Trailing = len(body) - (bs.pos+7)/8
	v.Needed = len(stream) - v.Trailing
	v.Rebuilds = h.Rebuilds
	v.SizeOK = v.Declared >= 0 && int64(len(out)) == v.Declared
	v.OK = v.HeaderOK && v.CRCOK && v.SizeOK
	return out, v
}
