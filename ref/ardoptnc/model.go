package ardoptnc

import (
	"crypto/sha1"
	"encoding/hex"
	"fmt"
	"strconv"
	"strings"
	"sync"
	"time"

	"verif/sim/core"
	"verif/sim/pipe"
	"verif/sim/simnet"
)

// Emission is one thing the model sent (or queued to send) towards the host.
type Emission struct {
	Seq       int
	Stream    string // "serial" | "ctrl" | "data"
	Kind      string // ctl | arq | fec | idf | err | dframe | raw
	Text      string // control line
	Payload   []byte // data payload without the type bytes
	Conn      int    // connection the ARQ frame belongs to (1-based), 0: none
	Bad       bool   // deliberately damaged copy (bad CRC)
	Cut       bool   // written in several pieces
	Malformed bool
	Script    string
	QueuedAt  time.Duration
	SentAt    time.Duration // last byte written to the link, -1: not yet
	// DeliveredAt: last byte arrived at the host's end of the link, -1: not yet.
	DeliveredAt time.Duration

	endOff      int
	onDelivered []func()
}

// ConnRec is one ARQ connection as the model saw it.
type ConnRec struct {
	ID        int
	Remote    string
	Inbound   bool
	Connected *Emission // the CONNECTED line
	Up        bool
	EndedAt   time.Duration
	EndCause  string // host-disconnect | host-abort | remote
}

// CmdRec is a command received at a given instant (DISCONNECT/ABORT history).
type CmdRec struct {
	At   time.Duration
	Word string
}

// BufPoint is one change of the TX buffer.
type BufPoint struct {
	At       time.Duration
	Accepted int // bytes of data taken from the host so far
	Out      int // bytes that left the buffer so far (transmitted or discarded at disconnect)
}

// CrcFaultRec is one CRCFAULT the model injected in reply to a good host frame.
type CrcFaultRec struct {
	Frame HostFrame
	// Reply is the CRCFAULT line (nil until it was queued).
	Reply *Emission
	// Next is the next frame received afterwards on that stream (nil: none until the end).
	Next *HostFrame
}

type chunk struct {
	data  []byte
	delay time.Duration
	recs  []*Emission
	ends  []int // ends[i]: offset in data just after the last byte of recs[i]
}

type outStream struct {
	name      string
	end       *pipe.End
	queue     []*chunk
	pumping   bool
	written   int
	delivered int
	inflight  []*Emission
	flushed   []func() // run once the stream is empty and everything was delivered
}

// TNC is the model.
type TNC struct {
	sim  *core.Sim
	plan Plan
	mode string // serial | tcp

	mu      sync.Mutex
	stopped bool
	streams map[string]*outStream
	framers map[string]*framer

	// configuration state set by the host
	mycall, grid, arqbw, protoMode string
	arqTimeout                     int
	listen, codec                  bool
	flags                          map[string]string

	state     string // protocol state last reported
	connected bool
	dialing   bool
	remote    string
	cur       *ConnRec
	scriptGen int // bumped to cancel dial/session scripts

	txbuf     int
	accepted  int
	out       int
	draining  bool
	drainStep int

	lastReply time.Duration
	replyIdx  int
	echoIdx   int
	dialIdx   int
	inboundOn bool
	started   bool

	goodCmds   int
	goodData   int
	pendingBad func() // retransmit the frame last sent damaged, now

	// records
	seq       int
	Emissions []*Emission
	Frames    []HostFrame
	Errors    []FrameError
	Conns     []*ConnRec
	Cmds      []CmdRec
	BufLog    []BufPoint
	CrcFaults []*CrcFaultRec
	Accepted  [][]byte // data payloads taken into the TX buffer, in order
	HostAcks  int      // RDY / CRCFAULT received from the host
	lastFault map[string]*CrcFaultRec
	rxEnded   map[string]bool
}

// New creates a model inside the current bubble.
func New(sim *core.Sim, mode string, p Plan) *TNC {
	if mode != "tcp" {
		mode = "serial"
	}
	t := &TNC{sim: sim, plan: p, mode: mode, streams: map[string]*outStream{}, framers: map[string]*framer{},
		flags: map[string]string{}, lastFault: map[string]*CrcFaultRec{}, rxEnded: map[string]bool{}}
	t.state = "DISC"
	t.codec = true
	if strings.EqualFold(p.InitState, "OFFLINE") {
		t.state, t.codec = "OFFLINE", false
	}
	t.mycall, t.grid, t.arqbw, t.protoMode, t.arqTimeout, t.listen = "N0CALL", "AA00aa", "2000MAX", "ARQ", 120, true
	return t
}

// AttachSerial makes the model the far end of a serial link: it owns l.B.
func (t *TNC) AttachSerial(l *pipe.Link) {
	t.attach("serial", "serial", l.B, l)
}

// ServeTCP registers the control and data servers on the simulated network.
func (t *TNC) ServeTCP(n *simnet.Net, ctrlAddr, dataAddr string) {
	n.Serve(ctrlAddr, func(c *pipe.End, l *pipe.Link) { t.attach("ctrl", "ctrl", c, l) })
	n.Serve(dataAddr, func(c *pipe.End, l *pipe.Link) { t.attach("data", "data", c, l) })
}

func (t *TNC) attach(stream, mode string, end *pipe.End, l *pipe.Link) {
	t.mu.Lock()
	if t.stopped || t.streams[stream] != nil {
		// a second connection to the same port: a TNC serves one host
		t.mu.Unlock()
		end.Close()
		return
	}
	os := &outStream{name: stream, end: end}
	t.streams[stream] = os
	t.framers[stream] = newFramer(stream, mode, t.sim.Now, t.onFrame, t.onFrameErr)
	l.Tap(nil, func(p []byte) { t.delivered(os, len(p)) })
	first := !t.started && stream != "data"
	if first {
		t.started = true
	}
	t.mu.Unlock()
	t.sim.Logf("tnc attach %s", stream)
	if first {
		if t.plan.Greeting {
			t.sim.At(t.replyDelay(), func() { t.emitLines("greeting", "RDY") })
		}
		t.startScript("idle", t.plan.Idle, nil, "")
	}
	if stream == "serial" {
		go t.readLoop(stream, end)
		return
	}
	t.readLoop(stream, end) // Serve already gave us a goroutine
}

func (t *TNC) readLoop(stream string, end *pipe.End) {
	buf := make([]byte, 16<<10)
	for {
		n, err := end.Read(buf)
		if n > 0 {
			t.mu.Lock()
			if fr := t.framers[stream]; fr != nil && !t.stopped {
				fr.feed(buf[:n])
			}
			t.mu.Unlock()
		}
		if err != nil {
			t.mu.Lock()
			t.rxEnded[stream] = true
			t.mu.Unlock()
			t.sim.Logf("tnc %s read ends: %v", stream, err)
			return
		}
	}
}

// Stop ends all activity of the model; nothing is emitted afterwards.
func (t *TNC) Stop() {
	t.mu.Lock()
	t.stopped = true
	t.mu.Unlock()
}

// Release drops everything the model recorded (after the oracles are done):
// goroutines left blocked on the links keep the model itself reachable.
func (t *TNC) Release() {
	t.mu.Lock()
	defer t.mu.Unlock()
	t.stopped = true
	t.Emissions, t.Frames, t.Errors, t.Conns, t.Cmds, t.BufLog, t.CrcFaults, t.Accepted = nil, nil, nil, nil, nil, nil, nil, nil
	t.lastFault, t.cur, t.pendingBad = map[string]*CrcFaultRec{}, nil, nil
	t.plan = Plan{}
	for _, os := range t.streams {
		os.queue, os.inflight, os.flushed = nil, nil, nil
	}
	for _, fr := range t.framers {
		fr.raw, fr.body = nil, nil
	}
}

// CloseStream closes the model's end of a stream ("serial", "ctrl", "data").
func (t *TNC) CloseStream(stream string) {
	t.mu.Lock()
	os := t.streams[stream]
	t.mu.Unlock()
	if os != nil && os.end != nil {
		os.end.Close()
	}
}

// PartialFrame reports whether some host->TNC stream ended inside a frame.
// hostClosed: the stream had been closed by the host when it ended there.
func (t *TNC) PartialFrame() (stream string, partial, hostClosed bool) {
	t.mu.Lock()
	defer t.mu.Unlock()
	for _, k := range core.SortedKeys(t.framers) {
		if fr := t.framers[k]; fr.pending() {
			head := fr.raw
			if len(head) > 24 {
				head = head[:24]
			}
			return fmt.Sprintf("%s (%d bytes so far, beginning %q)", k, len(fr.raw), head), true, t.rxEnded[k]
		}
	}
	return "", false, false
}

// ---------------------------------------------------------------- output

func (t *TNC) dataStream() string {
	if t.mode == "tcp" {
		return "data"
	}
	return "serial"
}

func (t *TNC) ctrlStream() string {
	if t.mode == "tcp" {
		return "ctrl"
	}
	return "serial"
}

func (t *TNC) frameCtl(text string) []byte {
	if t.mode == "tcp" {
		return []byte(text + "\r")
	}
	body := []byte(text + "\r")
	c := CRC16(body)
	return append(append([]byte("c:"), body...), byte(c>>8), byte(c))
}

// frameData frames count16 + typ + payload (typ may be empty for "dframe").
func (t *TNC) frameData(typ string, payload []byte) []byte {
	n := len(typ) + len(payload)
	body := make([]byte, 0, n+2)
	body = append(body, byte(n>>8), byte(n))
	body = append(body, typ...)
	body = append(body, payload...)
	if t.mode == "tcp" {
		return body
	}
	c := CRC16(body)
	return append(append([]byte("d:"), body...), byte(c>>8), byte(c))
}

// damage returns a copy of a serial frame that fails its CRC but keeps its
// framing: prefix, count and the terminating CR are left alone.
func damage(frame []byte, seed int) []byte {
	out := append([]byte(nil), frame...)
	if len(out) < 5 {
		return out
	}
	if seed < 0 {
		seed = -seed
	}
	var cand []int
	if out[0] == 'c' {
		for i := 2; i < len(out)-3; i++ {
			cand = append(cand, i) // text
		}
	} else {
		for i := 4; i < len(out)-2; i++ {
			cand = append(cand, i) // type + payload
		}
	}
	cand = append(cand, len(out)-2, len(out)-1) // CRC bytes
	i := cand[seed%len(cand)]
	mask := byte(1 + (seed/7)%255)
	nb := out[i] ^ mask
	if out[0] == 'c' && i < len(out)-3 && (nb == '\r' || nb == out[i]) {
		nb = out[i] ^ 0x40
		if nb == '\r' {
			nb = out[i] ^ 0x20
		}
	}
	out[i] = nb
	return out
}

func shortHash(b []byte) string {
	h := sha1.Sum(b)
	return hex.EncodeToString(h[:4])
}

type outFrame struct {
	stream string
	bytes  []byte
	cuts   []int
	cutD   time.Duration
	rec    *Emission
}

func (t *TNC) newEmission(stream, kind, script string) *Emission {
	t.seq++
	e := &Emission{Seq: t.seq, Stream: stream, Kind: kind, Script: script, QueuedAt: t.sim.Now(), SentAt: -1, DeliveredAt: -1}
	t.Emissions = append(t.Emissions, e)
	return e
}

// enqueue queues frames; frames for the same stream share one link write
// (unless cut). Caller holds mu.
func (t *TNC) enqueue(frames []outFrame) {
	if t.stopped {
		return
	}
	for _, name := range []string{"serial", "ctrl", "data"} {
		os := t.streams[name]
		var cur *chunk
		for _, f := range frames {
			if f.stream != name {
				continue
			}
			if os == nil {
				continue // host not connected on that stream: dropped
			}
			b := f.bytes
			last := 0
			for _, c := range f.cuts {
				if c < 0 {
					c += len(b)
				}
				if c <= last || c >= len(b) {
					continue
				}
				if cur == nil {
					cur = &chunk{}
				}
				cur.data = append(cur.data, b[last:c]...)
				os.queue = append(os.queue, cur)
				cur = &chunk{delay: f.cutD}
				last = c
				f.rec.Cut = true
			}
			if cur == nil {
				cur = &chunk{}
			}
			cur.data = append(cur.data, b[last:]...)
			cur.recs = append(cur.recs, f.rec)
			cur.ends = append(cur.ends, len(cur.data))
		}
		if cur != nil {
			os.queue = append(os.queue, cur)
		}
		if os != nil {
			t.pump(os)
		}
	}
}

func (t *TNC) pump(os *outStream) {
	if os.pumping || len(os.queue) == 0 || t.stopped {
		return
	}
	os.pumping = true
	d := os.queue[0].delay
	t.sim.At(d, func() { t.writeChunk(os) })
}

func (t *TNC) writeChunk(os *outStream) {
	t.mu.Lock()
	if t.stopped || len(os.queue) == 0 {
		os.pumping = false
		t.mu.Unlock()
		return
	}
	c := os.queue[0]
	os.queue = os.queue[1:]
	now := t.sim.Now()
	for i, r := range c.recs {
		r.SentAt = now
		r.endOff = os.written + c.ends[i]
		os.inflight = append(os.inflight, r)
	}
	os.written += len(c.data)
	t.mu.Unlock()
	for _, r := range c.recs {
		switch r.Kind {
		case "ctl":
			t.sim.Logf("tnc tx %s #%d %q bad=%v", os.name, r.Seq, r.Text, r.Bad)
		default:
			t.sim.Logf("tnc tx %s #%d %s n=%d h=%s conn=%d bad=%v", os.name, r.Seq, r.Kind, len(r.Payload), shortHash(r.Payload), r.Conn, r.Bad)
		}
	}
	if len(c.data) > 0 {
		if _, err := os.end.Write(c.data); err != nil {
			t.sim.Logf("tnc tx %s failed: %v", os.name, err)
		}
	}
	t.mu.Lock()
	os.pumping = false
	t.pump(os)
	var run []func()
	if len(c.data) == 0 {
		run = t.collectDelivered(os)
	}
	t.mu.Unlock()
	for _, f := range run {
		f()
	}
}

// delivered is the link tap: n more bytes reached the host's end.
func (t *TNC) delivered(os *outStream, n int) {
	t.mu.Lock()
	os.delivered += n
	run := t.collectDelivered(os)
	t.mu.Unlock()
	for _, f := range run {
		f()
	}
}

func (t *TNC) collectDelivered(os *outStream) (run []func()) {
	now := t.sim.Now()
	k := 0
	for _, r := range os.inflight {
		if r.endOff <= os.delivered {
			r.DeliveredAt = now
			run = append(run, r.onDelivered...)
			r.onDelivered = nil
			k++
		} else {
			break
		}
	}
	os.inflight = os.inflight[k:]
	if len(os.queue) == 0 && !os.pumping && os.delivered >= os.written {
		run = append(run, os.flushed...)
		os.flushed = nil
	}
	return
}

// whenFlushed runs f once everything queued on the stream has reached the host. Caller holds mu.
func (t *TNC) whenFlushed(stream string, f func()) bool {
	os := t.streams[stream]
	if os == nil || (len(os.queue) == 0 && !os.pumping && os.delivered >= os.written) {
		return false
	}
	os.flushed = append(os.flushed, f)
	return true
}

func (t *TNC) replyDelay() time.Duration {
	t.mu.Lock()
	defer t.mu.Unlock()
	return t.replyDelayLocked()
}

// replyDelayLocked returns the delay after which the next reactive reply is
// emitted; replies keep their order.
func (t *TNC) replyDelayLocked() time.Duration {
	lat := time.Duration(clamp(core.TapeAt(t.plan.ReplyLatUs, t.replyIdx, 1000), 0, 3_600_000_000)) * time.Microsecond
	t.replyIdx++
	now := t.sim.Now()
	at := now + lat
	if at <= t.lastReply {
		at = t.lastReply + 1
	}
	t.lastReply = at
	return at - now
}

func clamp(v, lo, hi int) int {
	if v < lo {
		return lo
	}
	if v > hi {
		return hi
	}
	return v
}

// ctlFrame builds the out frame of a control line and applies its side
// effects on the model state. Caller holds mu.
func (t *TNC) ctlFrame(script, text string) outFrame {
	rec := t.newEmission(t.ctrlStream(), "ctl", script)
	rec.Text = text
	rec.Malformed = !LegalLine(text)
	t.applyLine(text, rec)
	return outFrame{stream: rec.Stream, bytes: t.frameCtl(text), rec: rec}
}

// emitLines sends control lines back to back in one write.
func (t *TNC) emitLines(script string, lines ...string) []*Emission {
	t.mu.Lock()
	defer t.mu.Unlock()
	var fs []outFrame
	var recs []*Emission
	for _, l := range lines {
		f := t.ctlFrame(script, l)
		fs = append(fs, f)
		recs = append(recs, f.rec)
	}
	t.enqueue(fs)
	return recs
}

// applyLine keeps the model's own state in step with what it tells the host.
func (t *TNC) applyLine(text string, rec *Emission) {
	word, arg, _ := strings.Cut(strings.TrimSpace(text), " ")
	arg = strings.TrimSpace(arg)
	switch strings.ToUpper(word) {
	case "NEWSTATE":
		st := strings.ToUpper(arg)
		if tncStates[st] {
			t.state = st
			if st == "DISC" {
				t.linkDown("remote")
			}
		}
	case "DISCONNECTED":
		t.state = "DISC"
		t.linkDown("remote")
	case "CONNECTED":
		f := strings.Fields(arg)
		if len(f) == 0 || t.connected {
			return
		}
		if t.txbuf > 0 {
			// data queued while no link was up is not carried into a new connection
			t.out += t.txbuf
			t.txbuf = 0
			t.bufPoint()
		}
		c := &ConnRec{ID: len(t.Conns) + 1, Remote: f[0], Inbound: !t.dialing, Connected: rec, Up: true}
		t.Conns = append(t.Conns, c)
		t.cur, t.connected, t.dialing = c, true, false
		t.sim.Logf("tnc conn %d up remote=%s inbound=%v", c.ID, c.Remote, c.Inbound)
		idx := c.ID - 1
		if len(t.plan.Session) > 0 {
			sess := t.plan.Session[idx%len(t.plan.Session)]
			if t.plan.EarlyData && t.mode == "tcp" {
				t.sim.At(0, func() { t.startScript("session", sess, c, c.Remote) })
			} else {
				rec.onDelivered = append(rec.onDelivered, func() { t.startScript("session", sess, c, c.Remote) })
			}
		}
		t.startDrain()
	}
}

func (t *TNC) linkDown(cause string) {
	t.dialing = false
	if !t.connected {
		return
	}
	t.connected = false
	if t.cur != nil && t.cur.Up {
		t.cur.Up = false
		t.cur.EndedAt = t.sim.Now()
		if t.cur.EndCause == "" {
			t.cur.EndCause = cause
		}
		t.sim.Logf("tnc conn %d down cause=%s", t.cur.ID, t.cur.EndCause)
	}
	if t.txbuf > 0 {
		// untransmitted data is discarded with the link
		t.out += t.txbuf
		t.txbuf = 0
		t.bufPoint()
	}
}

func (t *TNC) bufPoint() {
	t.BufLog = append(t.BufLog, BufPoint{At: t.sim.Now(), Accepted: t.accepted, Out: t.out})
}

// ---------------------------------------------------------------- scripts

type scriptCtx struct {
	name   string
	evs    []Ev
	conn   *ConnRec
	remote string
	gen    int
}

func (t *TNC) startScript(name string, evs []Ev, conn *ConnRec, remote string) {
	if len(evs) == 0 {
		return
	}
	t.mu.Lock()
	sc := &scriptCtx{name: name, evs: evs, conn: conn, remote: remote, gen: t.scriptGen}
	t.mu.Unlock()
	t.schedGroup(sc, 0)
}

func evDelay(e Ev) time.Duration {
	return time.Duration(clamp(e.DelayUs, 0, 3_600_000_000)) * time.Microsecond
}

func (t *TNC) schedGroup(sc *scriptCtx, i int) {
	if i >= len(sc.evs) {
		if sc.name == "dial" {
			// the attempt is over; unless it ended in CONNECTED the TNC is free again
			t.sim.At(0, func() {
				t.mu.Lock()
				if sc.gen == t.scriptGen && !t.connected {
					t.dialing = false
				}
				t.mu.Unlock()
			})
		}
		return
	}
	t.sim.At(evDelay(sc.evs[i]), func() { t.fireGroup(sc, i) })
}

func (t *TNC) cancelled(sc *scriptCtx) bool {
	if t.stopped {
		return true
	}
	switch sc.name {
	case "dial":
		return sc.gen != t.scriptGen
	case "session":
		return sc.conn == nil || !sc.conn.Up
	case "disc", "abort":
		// what is left of an old link's teardown is not said once the host has
		// started the next connection
		return sc.conn != nil && !sc.conn.Up && (t.cur != sc.conn || t.dialing)
	}
	return false
}

func isConnectedLine(e Ev) bool {
	return e.Kind == "ctl" && strings.HasPrefix(strings.ToUpper(strings.TrimSpace(e.Arg)), "CONNECTED")
}

func isDiscLine(e Ev) bool {
	if e.Kind != "ctl" {
		return false
	}
	s := strings.ToUpper(strings.TrimSpace(e.Arg))
	return s == "DISCONNECTED" || s == "NEWSTATE DISC"
}

// fireGroup emits event i and the batched events that follow it.
func (t *TNC) fireGroup(sc *scriptCtx, i int) {
	t.mu.Lock()
	if t.cancelled(sc) {
		t.mu.Unlock()
		return
	}
	j := i + 1
	announces := isConnectedLine(sc.evs[i])
	for j < len(sc.evs) && sc.evs[j].Batch {
		if t.mode == "tcp" && announces && sc.evs[j].Kind == "arq" {
			break // other socket: the data waits until the host has the CONNECTED line (below)
		}
		announces = announces || isConnectedLine(sc.evs[j])
		j++
	}
	group := sc.evs[i:j]
	retry := func() { t.fireGroup(sc, i) }
	if t.mode == "tcp" {
		// The two sockets are unordered with respect to each other. A TNC
		// announces a connection before it hands over data received on it and
		// hands over the data before it announces the disconnect; keep that
		// causality visible to the host: wait for the other socket to drain.
		for _, e := range group {
			if e.Kind == "arq" && !t.plan.EarlyData {
				c := sc.conn
				if c == nil {
					c = t.cur
				}
				if c != nil && c.Up && c.Connected.DeliveredAt < 0 {
					c.Connected.onDelivered = append(c.Connected.onDelivered, retry)
					t.mu.Unlock()
					return
				}
			}
			if isDiscLine(e) && t.connected {
				if t.whenFlushed("data", retry) {
					t.mu.Unlock()
					return
				}
			}
		}
	}
	var frames []outFrame
	var bad *Ev
	for k := range group {
		e := group[k]
		fs := t.evFrames(sc, e)
		if e.Bad > 0 && t.mode == "serial" && len(fs) == 1 && bad == nil && len(group) == 1 {
			bad = &group[k]
		}
		frames = append(frames, fs...)
	}
	if bad != nil && len(frames) == 1 {
		t.sendDamaged(sc, i, j, *bad, frames[0], clamp(bad.Bad, 0, 3))
		t.mu.Unlock()
		return
	}
	t.enqueue(frames)
	t.mu.Unlock()
	t.schedGroup(sc, j)
}

// sendDamaged sends `left` damaged copies of f and then the good one; the
// script continues after the good copy.
func (t *TNC) sendDamaged(sc *scriptCtx, i, next int, e Ev, f outFrame, left int) {
	if t.cancelled(sc) || (f.rec.Kind == "arq" && !t.connUp(f.rec.Conn)) {
		t.pendingBad = nil
		return // the link went away while the frame was being repeated
	}
	if left <= 0 {
		t.pendingBad = nil
		t.enqueue([]outFrame{f})
		t.schedGroup(sc, next)
		return
	}
	rec := t.newEmission(f.stream, f.rec.Kind, sc.name)
	rec.Text, rec.Payload, rec.Conn, rec.Bad = f.rec.Text, f.rec.Payload, f.rec.Conn, true
	t.enqueue([]outFrame{{stream: f.stream, bytes: damage(f.bytes, e.Seed+left), rec: rec}})
	t.sim.Fault("bad-crc-to-host")
	fired := false
	again := func() {
		t.mu.Lock()
		defer t.mu.Unlock()
		if fired || t.stopped {
			return
		}
		fired = true
		t.sendDamaged(sc, i, next, e, f, left-1)
	}
	t.pendingBad = func() { t.sim.At(0, again) }
	d := time.Duration(clamp(e.BadDelayUs, 1, 3_600_000_000)) * time.Microsecond
	t.sim.At(d, again)
}

func (t *TNC) connUp(id int) bool {
	return id >= 1 && id <= len(t.Conns) && t.Conns[id-1].Up
}

// evFrames turns one event into frames (and records). Caller holds mu.
func (t *TNC) evFrames(sc *scriptCtx, e Ev) []outFrame {
	cuts := func(f outFrame) outFrame {
		if t.mode == "serial" && len(e.Cuts) > 0 {
			f.cuts = append([]int(nil), e.Cuts...)
			f.cutD = time.Duration(clamp(e.CutDelayUs, 0, 60_000_000)) * time.Microsecond
		}
		return f
	}
	switch e.Kind {
	case "ctl":
		text := e.Arg
		remote := sc.remote
		if remote == "" {
			remote = t.remote
		}
		if remote == "" {
			remote = "N0CALL"
		}
		text = strings.ReplaceAll(text, "$R", remote)
		text = strings.ReplaceAll(text, "$M", t.mycall)
		if strings.ContainsAny(text, "\r") {
			text = strings.ReplaceAll(text, "\r", "")
		}
		return []outFrame{cuts(t.ctlFrame(sc.name, text))}
	case "arq", "fec", "idf", "err":
		payload := Pattern(e.Seed, clamp(e.Size, 0, 65532))
		if e.Arg != "" {
			payload = []byte(e.Arg)
			if len(payload) > 65532 {
				payload = payload[:65532]
			}
		}
		conn := 0
		if e.Kind == "arq" {
			c := sc.conn
			if c == nil {
				c = t.cur
			}
			if c == nil || !c.Up {
				return nil // a TNC hands over ARQ data only for a connected session
			}
			conn = c.ID
		}
		rec := t.newEmission(t.dataStream(), e.Kind, sc.name)
		rec.Payload, rec.Conn = payload, conn
		out := []outFrame{cuts(outFrame{stream: rec.Stream, bytes: t.frameData(strings.ToUpper(e.Kind), payload), rec: rec})}
		if e.Kind == "arq" && e.Arg == "" {
			for i := 1; i < clamp(e.Rep, 1, 8192); i++ {
				pl := Pattern(e.Seed+i, clamp(e.Size, 0, 65532))
				rec := t.newEmission(t.dataStream(), e.Kind, sc.name)
				rec.Payload, rec.Conn = pl, conn
				out = append(out, outFrame{stream: rec.Stream, bytes: t.frameData("ARQ", pl), rec: rec})
			}
		}
		return out
	case "dframe":
		b := decodeHex(e.Hex)
		if len(b) > 65535 {
			b = b[:65535]
		}
		rec := t.newEmission(t.dataStream(), "dframe", sc.name)
		rec.Payload, rec.Malformed = b, MalformedEv(e)
		if len(b) >= 3 && string(b[:3]) == "ARQ" {
			// spelled out byte by byte it is still an ARQ frame
			c := sc.conn
			if c == nil {
				c = t.cur
			}
			if c == nil || !c.Up {
				t.Emissions = t.Emissions[:len(t.Emissions)-1]
				return nil
			}
			rec.Kind, rec.Payload, rec.Conn = "arq", b[3:], c.ID
		}
		return []outFrame{cuts(outFrame{stream: rec.Stream, bytes: t.frameData("", b), rec: rec})}
	case "raw":
		b := decodeHex(e.Hex)
		if e.Hex == "" {
			b = Pattern(e.Seed, clamp(e.Size, 0, 1<<17))
		}
		stream := t.ctrlStream()
		if e.Arg == "data" {
			stream = t.dataStream()
		}
		rec := t.newEmission(stream, "raw", sc.name)
		rec.Payload, rec.Malformed = b, true
		return []outFrame{{stream: stream, bytes: b, rec: rec}}
	}
	return nil
}

// ---------------------------------------------------------------- input

func (t *TNC) onFrameErr(e FrameError) {
	t.Errors = append(t.Errors, e)
	t.sim.Logf("tnc rx %s FRAMING %s: %s", e.Stream, e.What, e.Detail)
}

// onFrame is called by the framers with mu held.
func (t *TNC) onFrame(f HostFrame) {
	f.Idx = len(t.Frames)
	// the retransmission of a frame is the next frame of its kind: another
	// goroutine of the host may get a command in between
	if lf := t.lastFault[f.Stream]; lf != nil && lf.Next == nil && lf.Frame.Kind == f.Kind {
		cp := f
		lf.Next = &cp
	}
	if f.Kind == 'C' {
		t.sim.Logf("tnc rx %s #%d C %q crc=%v", f.Stream, f.Idx, f.Text, f.CRCOK)
	} else {
		t.sim.Logf("tnc rx %s #%d D n=%d h=%s crc=%v", f.Stream, f.Idx, len(f.Data), shortHash(f.Data), f.CRCOK)
	}
	if !f.CRCOK {
		// spec 5.0: reply CRCFAULT, the host repeats the frame
		t.Frames = append(t.Frames, f)
		d := t.replyDelayLocked()
		t.sim.At(d, func() { t.emitLines("crc", "CRCFAULT") })
		return
	}
	isAck := false
	if f.Kind == 'C' {
		w := strings.ToUpper(strings.TrimSpace(f.Text))
		isAck = w == "RDY" || w == "CRCFAULT"
	}
	if t.mode == "serial" && !isAck {
		list, n := t.plan.CrcFaultCmd, t.goodCmds
		if f.Kind == 'D' {
			list, n = t.plan.CrcFaultData, t.goodData
			t.goodData++
		} else {
			t.goodCmds++
		}
		for _, k := range list {
			if k == n {
				f.Faulted = true
				break
			}
		}
	}
	t.Frames = append(t.Frames, f)
	if f.Faulted {
		t.sim.Fault("crcfault-injected")
		rec := &CrcFaultRec{Frame: f}
		t.CrcFaults = append(t.CrcFaults, rec)
		t.lastFault[f.Stream] = rec
		d := t.replyDelayLocked()
		t.sim.At(d, func() {
			if recs := t.emitLines("crcfault", "CRCFAULT"); len(recs) == 1 {
				t.mu.Lock()
				rec.Reply = recs[0]
				t.mu.Unlock()
			}
		})
		return
	}
	if f.Kind == 'D' {
		t.takeData(f)
		return
	}
	t.execCommand(f)
}

func (t *TNC) takeData(f HostFrame) {
	t.Accepted = append(t.Accepted, f.Data)
	t.accepted += len(f.Data)
	t.txbuf += len(f.Data)
	t.bufPoint()
	d := t.replyDelayLocked()
	t.sim.At(d, func() {
		t.mu.Lock()
		lines := []string{}
		if t.plan.Rdy && t.mode == "serial" {
			lines = append(lines, "RDY")
		}
		lines = append(lines, "BUFFER "+strconv.Itoa(t.txbuf))
		t.mu.Unlock()
		t.emitLines("data-reply", lines...)
	})
	t.startDrain()
}

func (t *TNC) startDrain() {
	if t.draining || !t.connected || t.txbuf == 0 || t.stopped {
		return
	}
	t.draining = true
	t.schedDrain()
}

func (t *TNC) schedDrain() {
	d := time.Duration(clamp(core.TapeAt(t.plan.DrainUs, t.drainStep, 100_000), 1, 600_000_000)) * time.Microsecond
	if t.plan.DrainPTT {
		t.sim.At(d/2, func() {
			t.mu.Lock()
			ok := t.connected && t.txbuf > 0 && !t.stopped
			t.mu.Unlock()
			if ok {
				t.emitLines("drain", "PTT TRUE")
			}
		})
	}
	t.sim.At(d, t.drainTick)
}

func (t *TNC) drainTick() {
	t.mu.Lock()
	if t.stopped || !t.connected || t.txbuf == 0 {
		t.draining = false
		t.mu.Unlock()
		return
	}
	n := clamp(core.TapeAt(t.plan.DrainChunk, t.drainStep, 64), 1, 1<<20)
	t.drainStep++
	if n > t.txbuf {
		n = t.txbuf
	}
	t.txbuf -= n
	t.out += n
	t.bufPoint()
	fs := []outFrame{t.ctlFrame("drain", "BUFFER "+strconv.Itoa(t.txbuf))}
	t.enqueue(fs)
	if t.plan.DrainPTT {
		t.enqueue([]outFrame{t.ctlFrame("drain", "PTT FALSE")})
	}
	more := t.txbuf > 0
	if more {
		t.schedDrain()
	} else {
		t.draining = false
	}
	t.mu.Unlock()
}

func validCall(s string) bool {
	s = strings.ToUpper(s)
	base, ssid, has := strings.Cut(s, "-")
	if len(base) < 3 || len(base) > 7 {
		return false
	}
	for _, c := range base {
		if !(c >= 'A' && c <= 'Z' || c >= '0' && c <= '9') {
			return false
		}
	}
	if !has {
		return true
	}
	if n, err := strconv.Atoi(ssid); err == nil {
		return n >= 0 && n <= 15
	}
	return len(ssid) == 1 && ssid[0] >= 'A' && ssid[0] <= 'Z'
}

var arqBandwidths = map[string]bool{"200MAX": true, "500MAX": true, "1000MAX": true, "2000MAX": true, "200FORCED": true, "500FORCED": true, "1000FORCED": true, "2000FORCED": true}

func parseBool(s string) (v, ok bool) {
	switch strings.ToUpper(s) {
	case "TRUE":
		return true, true
	case "FALSE":
		return false, true
	}
	return false, false
}

func boolStr(b bool) string {
	if b {
		return "TRUE"
	}
	return "FALSE"
}

// execCommand runs one good command frame. Caller holds mu.
func (t *TNC) execCommand(f HostFrame) {
	text := strings.TrimSpace(f.Text)
	word, arg, _ := strings.Cut(text, " ")
	word = strings.ToUpper(word)
	arg = strings.TrimSpace(arg)
	t.Cmds = append(t.Cmds, CmdRec{At: f.At, Word: word})

	var replies []string
	var after func() // runs after the reply was queued
	set := func(v string) string {
		style := core.TapeAt(t.plan.Echo, t.echoIdx, 0)
		t.echoIdx++
		if style == 1 {
			return word + " " + v
		}
		return word + " now " + v
	}
	fault := func(why string) { replies = append(replies, "FAULT "+why+": "+text) }
	boolCmd := func(cur *bool) {
		if arg == "" {
			replies = append(replies, word+" "+boolStr(*cur))
			return
		}
		v, ok := parseBool(arg)
		if !ok {
			fault("Syntax Err")
			return
		}
		*cur = v
		replies = append(replies, set(boolStr(v)))
	}
	switch word {
	case "RDY", "CRCFAULT":
		t.HostAcks++
		if word == "CRCFAULT" && t.pendingBad != nil {
			pb := t.pendingBad
			t.pendingBad = nil
			pb()
		}
		return
	case "INITIALIZE":
		replies = append(replies, "INITIALIZE")
	case "STATE":
		replies = append(replies, "STATE "+t.state)
	case "VERSION":
		replies = append(replies, "VERSION ARDOP_Sim_0.9.1")
	case "BUFFER":
		replies = append(replies, "BUFFER "+strconv.Itoa(t.txbuf))
	case "CODEC":
		was := t.codec
		boolCmd(&t.codec)
		if t.codec && !was && t.state == "OFFLINE" {
			after = func() { t.emitLines("codec", "NEWSTATE DISC") }
		}
	case "LISTEN":
		boolCmd(&t.listen)
		if t.listen && arg != "" && !t.inboundOn && len(t.plan.Inbound) > 0 {
			t.inboundOn = true
			remote := t.plan.InboundRemote
			if !validCall(remote) {
				remote = "SM0XYZ"
			}
			after = func() { t.startScript("inbound", t.plan.Inbound, nil, remote) }
		}
	case "PROTOCOLMODE":
		switch {
		case arg == "":
			replies = append(replies, word+" "+t.protoMode)
		case strings.EqualFold(arg, "ARQ") || strings.EqualFold(arg, "FEC"):
			t.protoMode = strings.ToUpper(arg)
			replies = append(replies, set(t.protoMode))
		default:
			fault("Syntax Err")
		}
	case "ARQTIMEOUT":
		if arg == "" {
			replies = append(replies, word+" "+strconv.Itoa(t.arqTimeout))
		} else if n, err := strconv.Atoi(arg); err == nil && n >= 30 && n <= 600 {
			t.arqTimeout = n
			replies = append(replies, set(strconv.Itoa(n)))
		} else {
			fault("Syntax Err")
		}
	case "MYCALL":
		if arg == "" {
			replies = append(replies, word+" "+t.mycall)
		} else if validCall(arg) {
			t.mycall = strings.ToUpper(arg)
			replies = append(replies, set(t.mycall))
		} else {
			fault("Syntax Err")
		}
	case "GRIDSQUARE":
		if arg == "" {
			replies = append(replies, word+" "+t.grid)
		} else if len(arg) == 4 || len(arg) == 6 || len(arg) == 8 {
			t.grid = arg
			replies = append(replies, set(arg))
		} else {
			fault("Syntax Err")
		}
	case "ARQBW":
		if arg == "" {
			replies = append(replies, word+" "+t.arqbw)
		} else if t.connected || t.dialing {
			fault("Not from state " + t.state)
		} else if arqBandwidths[strings.ToUpper(arg)] {
			t.arqbw = strings.ToUpper(arg)
			replies = append(replies, set(t.arqbw))
		} else {
			fault("Syntax Err")
		}
	case "ARQCALL":
		fs := strings.Fields(arg)
		n := 0
		if len(fs) == 2 {
			n, _ = strconv.Atoi(fs[1])
		}
		switch {
		case len(fs) != 2 || !(validCall(fs[0]) || strings.EqualFold(fs[0], "CQ")) || n < 2 || n > 15:
			fault("Syntax Err")
		case t.connected || t.dialing || t.state == "OFFLINE" || t.protoMode != "ARQ":
			fault("Not from state " + t.state)
		default:
			t.dialing, t.remote = true, strings.ToUpper(fs[0])
			if t.plan.EchoDisc {
				replies = append(replies, set(strings.ToUpper(arg)))
			}
			script := []Ev{{Kind: "ctl", Arg: "NEWSTATE ISS"}, {Kind: "ctl", Arg: "CONNECTED $R 500", DelayUs: 1000}}
			if len(t.plan.Dial) > 0 {
				script = t.plan.Dial[t.dialIdx%len(t.plan.Dial)]
			}
			t.dialIdx++
			t.scriptGen++
			remote := t.remote
			after = func() { t.startScript("dial", script, nil, remote) }
		}
	case "DISCONNECT":
		if t.plan.EchoDisc {
			replies = append(replies, "DISCONNECT")
		}
		if t.connected || t.dialing {
			if t.cur != nil && t.cur.Up && t.cur.EndCause == "" {
				t.cur.EndCause = "host-disconnect"
			}
			t.scriptGen++ // stops a dial in progress
			script := t.plan.Disc
			if len(script) == 0 {
				script = []Ev{{Kind: "ctl", Arg: "DISCONNECTED", DelayUs: 1000}, {Kind: "ctl", Arg: "NEWSTATE DISC", DelayUs: 10}}
			}
			conn, remote := t.cur, t.remote
			after = func() { t.startScript("disc", script, conn, remote) }
		} // spec: "If not connected command is ignored."
	case "ABORT":
		if t.plan.EchoDisc {
			replies = append(replies, "ABORT")
		}
		if t.connected || t.dialing {
			if t.cur != nil && t.cur.Up && t.cur.EndCause == "" {
				t.cur.EndCause = "host-abort"
			}
			t.scriptGen++
			conn, remote := t.cur, t.remote
			// as a script, so that in TCP mode the data socket drains first (see fireGroup)
			after = func() {
				t.startScript("abort", []Ev{{Kind: "ctl", Arg: "DISCONNECTED"}, {Kind: "ctl", Arg: "NEWSTATE DISC", Batch: true}}, conn, remote)
			}
		}
	case "SENDID", "CLOSE", "PURGEBUFFER", "TWOTONETEST", "BREAK":
		replies = append(replies, word)
	case "CWID", "AUTOBREAK", "FSKONLY", "BUSYLOCK", "DEBUGLOG", "CMDTRACE", "MONITOR", "FECID", "MYAUX", "LEADER", "TRAILER", "SQUELCH", "TUNERANGE", "DRIVELEVEL", "FECMODE", "FECREPEATS":
		if arg == "" {
			v := t.flags[word]
			if v == "" {
				v = "FALSE"
			}
			replies = append(replies, word+" "+v)
		} else {
			t.flags[word] = strings.ToUpper(arg)
			replies = append(replies, set(strings.ToUpper(arg)))
		}
	default:
		fault("CMD not recoginized")
	}
	if t.plan.Rdy && t.mode == "serial" {
		replies = append(replies, "RDY")
	}
	d := t.replyDelayLocked()
	t.sim.At(d, func() {
		if len(replies) > 0 {
			t.emitLines("reply", replies...)
		}
		if after != nil {
			after()
		}
	})
}

// ---------------------------------------------------------------- queries for oracles

// Snapshot returns copies of the records under the lock.
type Snapshot struct {
	Emissions []*Emission
	Frames    []HostFrame
	Errors    []FrameError
	Conns     []*ConnRec
	Cmds      []CmdRec
	BufLog    []BufPoint
	CrcFaults []*CrcFaultRec
	Accepted  [][]byte
	HostAcks  int
	TxBuf     int
	Connected bool
}

func (t *TNC) Snapshot() Snapshot {
	t.mu.Lock()
	defer t.mu.Unlock()
	return Snapshot{
		Emissions: append([]*Emission(nil), t.Emissions...),
		Frames:    append([]HostFrame(nil), t.Frames...),
		Errors:    append([]FrameError(nil), t.Errors...),
		Conns:     append([]*ConnRec(nil), t.Conns...),
		Cmds:      append([]CmdRec(nil), t.Cmds...),
		BufLog:    append([]BufPoint(nil), t.BufLog...),
		CrcFaults: append([]*CrcFaultRec(nil), t.CrcFaults...),
		Accepted:  append([][]byte(nil), t.Accepted...),
		HostAcks:  t.HostAcks,
		TxBuf:     t.txbuf,
		Connected: t.connected,
	}
}

func (e *Emission) String() string {
	return fmt.Sprintf("#%d %s %s %q n=%d", e.Seq, e.Stream, e.Kind, e.Text, len(e.Payload))
}
