package ardoptnc

import (
	"encoding/hex"
	"strconv"
	"strings"
)

// Ev is one scripted emission of the model. Scripts are lists of Ev; the
// delay of each event counts from the moment the previous one fired.
type Ev struct {
	DelayUs int `json:"d,omitempty"`
	// Kind:
	//   "ctl"  one control line, text in Arg ($R = remote call sign of the
	//          connection in progress, $M = current MYCALL)
	//   "arq" | "fec" | "idf" | "err"  one data frame of that type; payload =
	//          Pattern(Seed, Size), or Arg if Arg is not empty
	//   "dframe" a data frame whose count covers exactly the bytes of Hex
	//          (no type is added: count < 3 gives a frame too short for a type)
	//   "raw"  the bytes of Hex (or Pattern(Seed,Size)) written unframed on
	//          stream Arg ("ctrl" | "data"; serial mode has one stream)
	Kind string `json:"k"`
	Arg  string `json:"a,omitempty"`
	Size int    `json:"n,omitempty"`
	Seed int    `json:"s,omitempty"`
	Hex  string `json:"x,omitempty"`
	// Rep ("arq"): that many frames (payloads Pattern(Seed+i, Size)) back to
	// back in one stream write instead of one; a compact way to script a long
	// run of small frames.
	Rep int `json:"r,omitempty"`
	// Batch: fire together with the previous event and share its stream write
	// (frames back to back in one segment).
	Batch bool `json:"b,omitempty"`
	// Cuts (serial mode): offsets inside this frame's bytes (negative: counted
	// from its end) at which the model's write is split; the pieces are written CutDelayUs apart (a serial
	// line hands over bytes in arbitrary pieces).
	Cuts       []int `json:"cuts,omitempty"`
	CutDelayUs int   `json:"cut_d,omitempty"`
	// Bad (serial mode, kinds ctl/arq/fec/idf/err): the frame is first sent
	// Bad times with a damaged CRC or body byte (framing intact); the good copy
	// follows BadDelayUs after each bad one, or as soon as the host answers
	// CRCFAULT.
	Bad        int `json:"bad,omitempty"`
	BadDelayUs int `json:"bad_d,omitempty"`
}

// Plan configures the model for one run. Every tape is read cyclically.
type Plan struct {
	ReplyLatUs []int  `json:"reply_lat_us,omitempty"` // latency of command replies and BUFFER reports (default 1000)
	Echo       []int  `json:"echo,omitempty"`         // per set-command reply: 0 "<CMD> now <V>", 1 "<CMD> <V>"
	Rdy        bool   `json:"rdy,omitempty"`          // serial: RDY after every frame taken (spec 5.0/7.0)
	Greeting   bool   `json:"greeting,omitempty"`     // RDY when the host connects (spec 5.0)
	InitState  string `json:"init_state,omitempty"`   // DISC (default) | OFFLINE
	EchoDisc   bool   `json:"echo_disc,omitempty"`    // echo DISCONNECT / ABORT / ARQCALL back
	// EarlyData (TCP): the model does not hold back ARQ frames until the
	// CONNECTED line has reached the host; with a faster data socket they
	// overtake it.
	EarlyData bool `json:"early_data,omitempty"`
	// CrcFaultData / CrcFaultCmd (serial): indices of good host data frames /
	// command frames, each kind counted separately in arrival order
	// (retransmissions count), that the model answers with CRCFAULT instead of
	// taking them.
	CrcFaultData []int `json:"crcfault_data,omitempty"`
	CrcFaultCmd  []int `json:"crcfault_cmd,omitempty"`
	// TX buffer: every DrainUs a chunk of DrainChunk bytes leaves the buffer
	// while connected; each change is reported with BUFFER <n>.
	DrainChunk []int `json:"drain_chunk,omitempty"`
	DrainUs    []int `json:"drain_us,omitempty"`
	DrainPTT   bool  `json:"drain_ptt,omitempty"` // PTT TRUE / PTT FALSE around each chunk
	// Scripts.
	Idle          []Ev   `json:"idle,omitempty"`    // starts when the host connects
	Dial          [][]Ev `json:"dial,omitempty"`    // reaction to the k-th ARQCALL; empty: NEWSTATE ISS, CONNECTED $R 500
	Inbound       []Ev   `json:"inbound,omitempty"` // starts when LISTEN becomes TRUE (once)
	InboundRemote string `json:"inbound_remote,omitempty"`
	Session       [][]Ev `json:"session,omitempty"` // k-th connection; starts when its CONNECTED reached the host
	Disc          []Ev   `json:"disc,omitempty"`    // reaction to DISCONNECT while connected; empty: DISCONNECTED, NEWSTATE DISC
}

// Pattern returns the deterministic payload named by (seed, n).
func Pattern(seed, n int) []byte {
	if n < 0 {
		n = 0
	}
	b := make([]byte, n)
	x := uint32(seed)*2654435761 + 0x9E3779B9
	for i := range b {
		x ^= x << 13
		x ^= x >> 17
		x ^= x << 5
		b[i] = byte(x >> 11)
	}
	return b
}

func decodeHex(s string) []byte {
	if len(s)%2 == 1 {
		s = s[:len(s)-1]
	}
	b, err := hex.DecodeString(s)
	if err != nil {
		// total: keep the valid prefix
		for i := 0; i+1 < len(s); i += 2 {
			if _, e := hex.DecodeString(s[i : i+2]); e != nil {
				b, _ = hex.DecodeString(s[:i])
				return b
			}
		}
		return nil
	}
	return b
}

var tncStates = map[string]bool{"OFFLINE": true, "DISC": true, "ISS": true, "IRS": true, "IRSTOISS": true, "QUIET": true, "IDLE": true, "FECSEND": true, "FECRCV": true}

// LegalLine reports whether a TNC->host control line is something the
// interface specification lets a TNC send (sections 5 and 6): a known word with
// the kind of argument the spec gives it.
func LegalLine(s string) bool {
	if s == "" || strings.ContainsAny(s, "\r\n\x00") {
		return false
	}
	for _, c := range []byte(s) {
		if c >= 0x80 || c < 0x20 {
			return false
		}
	}
	word, arg, has := strings.Cut(s, " ")
	arg = strings.TrimSpace(arg)
	if has && arg == "" {
		has = false
	}
	isBool := func(a string) bool { a = strings.ToUpper(a); return a == "TRUE" || a == "FALSE" }
	val := arg
	if l := strings.ToLower(arg); strings.HasPrefix(l, "now ") {
		val = strings.TrimSpace(arg[4:])
	}
	switch strings.ToUpper(word) {
	case "RDY", "CRCFAULT", "DISCONNECTED", "PENDING", "CANCELPENDING":
		return !has
	case "INITIALIZE", "DISCONNECT", "ABORT", "SENDID", "CLOSE", "ARQCALL", "PROTOCOLMODE":
		return true // echo-backs, with or without the parameters echoed
	case "BUSY", "PTT", "CODEC", "LISTEN", "CWID", "AUTOBREAK", "FSKONLY":
		return has && isBool(val)
	case "NEWSTATE", "STATE":
		return has && tncStates[strings.ToUpper(val)]
	case "BUFFER", "ARQTIMEOUT", "FREQUENCY", "DRIVELEVEL", "TUNE":
		_, err := strconv.Atoi(val)
		return has && err == nil
	case "CONNECTED":
		f := strings.Fields(arg)
		return len(f) >= 1 && len(f) <= 2
	case "TARGET", "FAULT", "STATUS", "MYCALL", "GRIDSQUARE", "VERSION", "ARQBW", "REJECTEDBW", "REJECTEDBUSY", "CAPTURE", "PLAYBACK":
		return has && val != ""
	}
	return false
}

// MalformedEv reports whether the event makes the model send something a TNC
// conforming to the specification would not send (used to choose the oracle
// regime: after malformed input only "does not crash" is demanded).
func MalformedEv(e Ev) bool {
	switch e.Kind {
	case "ctl":
		s := e.Arg
		s = strings.ReplaceAll(s, "$R", "N0CALL")
		s = strings.ReplaceAll(s, "$M", "N0CALL")
		return !LegalLine(s)
	case "arq", "fec", "idf", "err":
		return false
	case "dframe":
		b := decodeHex(e.Hex)
		if len(b) < 3 {
			return true
		}
		switch string(b[:3]) {
		case "ARQ", "FEC", "IDF", "ERR":
			return false
		}
		return true
	case "raw":
		return true
	}
	return false // unknown kinds emit nothing
}

// Malformed reports whether any script of the plan contains a malformed event.
func (p Plan) Malformed() bool {
	any := false
	p.eachEv(func(e Ev) {
		if MalformedEv(e) {
			any = true
		}
	})
	return any
}

func (p Plan) eachEv(f func(Ev)) {
	for _, s := range [][]Ev{p.Idle, p.Inbound, p.Disc} {
		for _, e := range s {
			f(e)
		}
	}
	for _, ss := range [][][]Ev{p.Dial, p.Session} {
		for _, s := range ss {
			for _, e := range s {
				f(e)
			}
		}
	}
}

// Has reports whether any event satisfies pred.
func (p Plan) Has(pred func(Ev) bool) bool {
	any := false
	p.eachEv(func(e Ev) {
		if pred(e) {
			any = true
		}
	})
	return any
}
