// Package ardoptnc is a reactive model of an ARDOP TNC as seen from the host
// interface. It is written from docs/ardop/_ARDOP TNC Interface Spec.pdf
// (sections 5-7) and from the publicly documented behaviour of ARDOP_Win /
// ARDOPc (echo-back replies, two-socket TCP mode); it imports nothing from the
// library under test.
//
// Host interface framing implemented here
//
//	serial (one byte stream, CRC protected):
//	  host -> TNC   "C:" text CR crc16        "D:" count16 data crc16
//	  TNC  -> host  "c:" text CR crc16        "d:" count16 type3 data crc16
//	  the CRC covers everything after the two prefix bytes up to the CRC
//	  itself; count is big endian (0001-FFFF) and, towards the host, includes
//	  the three type bytes "ARQ" | "FEC" | "ERR" | "IDF".
//	  replies: RDY after a frame was taken, CRCFAULT when its CRC failed.
//	TCP (two sockets, no CRC, no prefixes):
//	  control socket: text CR both ways
//	  data socket:    host -> TNC count16 data, TNC -> host count16 type3 data
package ardoptnc

// CRC16 is the ARDOP host-interface checksum: CRC-16-CCITT (x^16+x^12+x^5+1,
// written 0x8810 in the notation that drops the x^0 term and keeps x^16),
// register preset to all ones, message bits entering MSB first at the low end
// of the register, no final inversion.
func CRC16(p []byte) uint16 {
	reg := uint32(0xFFFF)
	for _, b := range p {
		for bit := 7; bit >= 0; bit-- {
			carry := reg & 0x8000
			reg = (reg<<1 | uint32(b>>uint(bit))&1) & 0xFFFF
			if carry != 0 {
				reg ^= 0x8810
			}
		}
	}
	return uint16(reg)
}
