package ardoptnc

import (
	"fmt"
	"time"
)

// HostFrame is one frame received from the host.
type HostFrame struct {
	Idx    int           // index among all frames received (any stream)
	Stream string        // "serial" | "ctrl" | "data"
	Kind   byte          // 'C' command, 'D' data
	Text   string        // command text without the CR
	Data   []byte        // data payload
	Raw    []byte        // the frame exactly as received (prefix .. CRC)
	At     time.Duration // simulated instant its last byte arrived
	CRCOK  bool          // serial: CRC verified; TCP: always true
	// Faulted: the model answered this (good) frame with CRCFAULT on purpose.
	Faulted bool
}

// FrameError is a framing or CRC error in what the host sent.
type FrameError struct {
	At     time.Duration
	Stream string
	What   string // stable class: bad-prefix | lower-case-prefix | crc-mismatch | zero-length | non-ascii-command | oversize-command
	Detail string
}

// framer parses one host->TNC byte stream incrementally.
type framer struct {
	stream string
	mode   string // "serial" | "ctrl" | "data"
	onF    func(f HostFrame)
	onE    func(e FrameError)
	now    func() time.Duration

	state   int
	kind    byte
	raw     []byte
	body    []byte // bytes covered by the CRC (serial) / line / payload
	need    int
	resync  bool
	skipped int
}

const (
	stPrefix = iota
	stColon
	stLine
	stLen
	stData
	stCRC
)

func newFramer(stream, mode string, now func() time.Duration, onF func(HostFrame), onE func(FrameError)) *framer {
	fr := &framer{stream: stream, mode: mode, onF: onF, onE: onE, now: now}
	fr.reset()
	return fr
}

func (fr *framer) reset() {
	fr.raw, fr.body, fr.need = nil, nil, 0
	switch fr.mode {
	case "serial":
		fr.state = stPrefix
	case "ctrl":
		fr.state, fr.kind = stLine, 'C'
	default:
		fr.state, fr.kind = stLen, 'D'
	}
}

func (fr *framer) err(what, format string, args ...any) {
	fr.onE(FrameError{At: fr.now(), Stream: fr.stream, What: what, Detail: fmt.Sprintf(format, args...)})
}

// pending reports whether a frame is partially received.
func (fr *framer) pending() bool { return len(fr.raw) > 0 }

func (fr *framer) feed(p []byte) {
	for _, b := range p {
		fr.step(b)
	}
}

func (fr *framer) step(b byte) {
	switch fr.state {
	case stPrefix:
		switch b {
		case 'C', 'D':
			fr.kind = b
		case 'c', 'd':
			// the lower-case prefixes belong to the TNC->host direction
			fr.err("lower-case-prefix", "host frame starts with %q", b)
			fr.kind = b - 'a' + 'A'
		default:
			if !fr.resync {
				fr.err("bad-prefix", "byte 0x%02x where a frame prefix C: or D: was expected", b)
				fr.resync = true
			}
			fr.skipped++
			return
		}
		fr.raw = append(fr.raw[:0], b)
		fr.state = stColon
	case stColon:
		if b != ':' {
			if !fr.resync {
				fr.err("bad-prefix", "%q followed by 0x%02x instead of ':'", fr.kind, b)
				fr.resync = true
			}
			fr.reset()
			// the byte may itself start a frame
			if b == 'C' || b == 'D' {
				fr.step(b)
			}
			return
		}
		fr.resync = false
		fr.raw = append(fr.raw, b)
		fr.body = fr.body[:0]
		if fr.kind == 'C' {
			fr.state = stLine
		} else {
			fr.state, fr.need = stLen, 2
		}
	case stLine:
		fr.raw = append(fr.raw, b)
		fr.body = append(fr.body, b)
		if b != '\r' {
			if len(fr.body) == 1<<16 {
				fr.err("oversize-command", "command line longer than 65536 bytes without CR")
			}
			return
		}
		if fr.mode == "serial" {
			fr.state, fr.need = stCRC, 2
			return
		}
		fr.complete(true)
	case stLen:
		fr.raw = append(fr.raw, b)
		fr.body = append(fr.body, b)
		if fr.need == 0 {
			fr.need = 2
		}
		fr.need--
		if fr.need > 0 {
			return
		}
		n := int(fr.body[len(fr.body)-2])<<8 | int(fr.body[len(fr.body)-1])
		if n == 0 {
			fr.err("zero-length", "data frame with count 0000 (spec: 0001-FFFF)")
			if fr.mode == "serial" {
				fr.state, fr.need = stCRC, 2
			} else {
				fr.complete(true)
			}
			return
		}
		fr.state, fr.need = stData, n
	case stData:
		fr.raw = append(fr.raw, b)
		fr.body = append(fr.body, b)
		fr.need--
		if fr.need > 0 {
			return
		}
		if fr.mode == "serial" {
			fr.state, fr.need = stCRC, 2
			return
		}
		fr.complete(true)
	case stCRC:
		fr.raw = append(fr.raw, b)
		fr.need--
		if fr.need > 0 {
			return
		}
		got := uint16(fr.raw[len(fr.raw)-2])<<8 | uint16(fr.raw[len(fr.raw)-1])
		want := CRC16(fr.body)
		if got != want {
			fr.err("crc-mismatch", "%c frame of %d bytes: CRC %04x on the wire, %04x computed over the bytes after the prefix", fr.kind, len(fr.raw), got, want)
		}
		fr.complete(got == want)
	}
}

func (fr *framer) complete(crcOK bool) {
	f := HostFrame{Stream: fr.stream, Kind: fr.kind, Raw: append([]byte(nil), fr.raw...), At: fr.now(), CRCOK: crcOK}
	if fr.kind == 'C' {
		line := fr.body[:len(fr.body)-1]
		for _, c := range line {
			if c >= 0x80 || c == 0 {
				fr.err("non-ascii-command", "command contains byte 0x%02x (spec: 7 bit ASCII)", c)
				break
			}
		}
		f.Text = string(line)
	} else {
		f.Data = append([]byte(nil), fr.body[2:]...)
	}
	fr.reset()
	fr.onF(f)
}
