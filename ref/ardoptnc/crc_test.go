package ardoptnc

import "testing"

// Vectors published with the library (transport/ardop/crc16_test.go); the
// first is the spec's own "RDY<Cr>" greeting.
func TestCRC16(t *testing.T) {
	for s, want := range map[string]uint16{
		"RDY\r":                  55805,
		"voluptatem accusantium": 24749,
		"hagavik":                44843,
		"Lorem ipsum dolor sit amet, consectetur adipiscing elit, sed do eiusmod tempor": 50066,
	} {
		if got := CRC16([]byte(s)); got != want {
			t.Errorf("CRC16(%q)=%d want %d", s, got, want)
		}
	}
}
