package ardoptnc

import (
	"testing"
	"time"
)

func collect(mode string, chunks ...[]byte) (fs []HostFrame, es []FrameError) {
	fr := newFramer(mode, mode, func() time.Duration { return 0 }, func(f HostFrame) { fs = append(fs, f) }, func(e FrameError) { es = append(es, e) })
	for _, c := range chunks {
		fr.feed(c)
	}
	return
}

func serialCmd(text string) []byte {
	body := []byte(text + "\r")
	c := CRC16(body)
	return append(append([]byte("C:"), body...), byte(c>>8), byte(c))
}

func serialData(p []byte) []byte {
	body := append([]byte{byte(len(p) >> 8), byte(len(p))}, p...)
	c := CRC16(body)
	return append(append([]byte("D:"), body...), byte(c>>8), byte(c))
}

func TestSerialFramer(t *testing.T) {
	// the spec's greeting, with the published CRC of "RDY<Cr>" (55805 = 0xD9FD)
	rdy := []byte{'C', ':', 'R', 'D', 'Y', '\r', 0xD9, 0xFD}
	stream := append(append(append([]byte{}, rdy...), serialData([]byte("hello"))...), serialCmd("MYCALL LA5NTA")...)
	// whole, and byte by byte
	for _, split := range []bool{false, true} {
		var chunks [][]byte
		if split {
			for i := range stream {
				chunks = append(chunks, stream[i:i+1])
			}
		} else {
			chunks = [][]byte{stream}
		}
		fs, es := collect("serial", chunks...)
		if len(es) != 0 || len(fs) != 3 {
			t.Fatalf("split=%v: frames=%d errors=%v", split, len(fs), es)
		}
		if fs[0].Text != "RDY" || !fs[0].CRCOK || string(fs[1].Data) != "hello" || fs[1].Kind != 'D' || fs[2].Text != "MYCALL LA5NTA" {
			t.Fatalf("split=%v: %+v", split, fs)
		}
	}
	// damaged byte: CRC error reported, framing kept
	bad := serialData([]byte("hello"))
	bad[5] ^= 1
	fs, es := collect("serial", bad, serialCmd("STATE"))
	if len(es) != 1 || es[0].What != "crc-mismatch" || len(fs) != 2 || fs[0].CRCOK || !fs[1].CRCOK {
		t.Fatalf("damaged: %+v %+v", fs, es)
	}
	// little-endian count: the model waits for 0x0500 bytes, i.e. the frame never completes
	le := []byte{'D', ':', 5, 0, 'h', 'e', 'l', 'l', 'o', 0, 0}
	fs, _ = collect("serial", le)
	if len(fs) != 0 {
		t.Fatalf("little endian count accepted: %+v", fs)
	}
	// wrong prefixes
	_, es = collect("serial", []byte("c:RDY\r\xD9\xFD"))
	if len(es) == 0 || es[0].What != "lower-case-prefix" {
		t.Fatalf("lower case prefix not reported: %+v", es)
	}
	_, es = collect("serial", []byte("RDY\r"))
	if len(es) == 0 || es[0].What != "bad-prefix" {
		t.Fatalf("missing prefix not reported: %+v", es)
	}
}

func TestTCPFramers(t *testing.T) {
	fs, es := collect("ctrl", []byte("INITIALIZE\rMYCALL"), []byte(" X\r"))
	if len(es) != 0 || len(fs) != 2 || fs[1].Text != "MYCALL X" {
		t.Fatalf("%+v %+v", fs, es)
	}
	fs, es = collect("data", []byte{0, 3, 'a'}, []byte{'b', 'c', 0, 1, 'z'})
	if len(es) != 0 || len(fs) != 2 || string(fs[0].Data) != "abc" || string(fs[1].Data) != "z" {
		t.Fatalf("%+v %+v", fs, es)
	}
	_, es = collect("data", []byte{0, 0})
	if len(es) != 1 || es[0].What != "zero-length" {
		t.Fatalf("zero count: %+v", es)
	}
}

func TestDamageKeepsFraming(t *testing.T) {
	m := &TNC{mode: "serial"}
	for seed := 0; seed < 500; seed++ {
		for _, f := range [][]byte{m.frameCtl("PTT TRUE"), m.frameData("ARQ", Pattern(seed, seed%40))} {
			d := damage(f, seed)
			if len(d) != len(f) || d[0] != f[0] || d[1] != f[1] {
				t.Fatalf("framing changed")
			}
			if f[0] == 'c' {
				n := 0
				for _, b := range d[2 : len(d)-2] {
					if b == '\r' {
						n++
					}
				}
				if n != 1 || d[len(d)-3] != '\r' {
					t.Fatalf("CR moved: %q", d)
				}
				if CRC16(d[2:len(d)-2]) == uint16(d[len(d)-2])<<8|uint16(d[len(d)-1]) {
					t.Fatalf("damaged frame still has a good CRC")
				}
			} else {
				if d[2] != f[2] || d[3] != f[3] {
					t.Fatalf("count changed")
				}
				if CRC16(d[2:len(d)-2]) == uint16(d[len(d)-2])<<8|uint16(d[len(d)-1]) {
					t.Fatalf("damaged frame still has a good CRC")
				}
			}
		}
	}
}
