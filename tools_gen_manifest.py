#!/usr/bin/env python3
"""Regenerates MANIFEST.json from the table below (kept here so that the manifest stays consistent)."""
import json, sys
ENV = "GOFLAGS=-mod=mod GOPROXY=off GOSUMDB=off GOTOOLCHAIN=local"
checks = {}
# what rounds 3-5 of the seeded changes added (DESIGN.md 8.9, 8.10)
ADD = {
 "C01": "Delivered content is also compared, through an independent header/body/attachment splitter, with the message as composed before the library parsed anything; links may coalesce back-to-back writes.",
 "C03": "A further layer lets the remote leave (EOF) at a chosen byte of a chosen unit; other proposal codes (FD, FA, FB).",
 "C04": "Further damage kinds: empty block, zero-sum block, 256/512 bytes more in the header; gzip experiment on both sides with the standard library's reader as reference.",
 "C05": "The peer also requests transfers from a non-zero offset, may quit CMS style out of turn, and issues a challenge in a fifth of the slave-side plans so that ;FW carries hashes; the forwarder list must announce every configured address. In 15 % of the plans the peer's mail arrives while the session runs: it says FF in its first 1-3 turns and proposes later.",
 "C06": "A second arm runs 2-4 goroutines with their own Writers/Readers at once, with plan-driven pauses in front of any statement of the instrumented codec (yield injection); the Close verdict is asked three times; io.EOF from a Read with an empty buffer must be the truth; a confirmed hang is a violation.",
 "C08": "The Close verdict is asked three times and must not change.",
 "C10": "SetUnread is also repeated on one message object; MIDs that differ in letter case only.",
 "C11": "Mailbox contents include leftovers of an earlier crashed store, foreign spellings of the extension, and /tmp on another file system (EXDEV); every message the set-up stored must be listed after a plain restart.",
 "C12": "Inbound messages also carry remote-chosen header fields with path values; MIDs with runs of multi-byte characters around traversals.",
 "C13": "A run may hold several sessions on one Port: re-dial of the same remote, other remotes, accept after dial, overlap; every clause is judged per session.",
 "C14": "Further arms: ARQ frames overtaking CONNECTED across the two TCP sockets, runs of more than 4096 unread frames, a second application goroutine issuing commands during writes, quiet links (> 60 s), listener and dialer on one TNC with a background accept loop.",
 "C15": "A run may hold several sessions through one listener (sequential and overlapping), connections closed twice or from both sides, and the application also consumes connections through io.Copy, WriterTo/ReaderFrom and bufio.",
 "C16": "A quarter of the plans run 2-3 stations of one process that log in at the same time, with plan-driven pauses in front of any statement of the instrumented fbb code (yield injection); passwords to 1200 bytes, challenges to 300 digits.",
 "C17": "A fifth of the plans run the library station against the reference peer, which requests resumed transfers; a report must name a message in the direction it travels; the recording updater reads MID, sizes and title of the named proposal unlocked, for the race detector.",
 "C19": "Half of the concurrent histories run with plan-driven pauses inside the registry calls (yield injection; a lock-counting sync shim keeps pauses out of critical sections); parsed URLs are changed by the caller afterwards; targets whose upper-casing changes their length; ports up to 65535; a quarter of the concurrent histories use scheme spellings that differ in letter case only and are accepted if linearizable against either a per-spelling or a case-insensitive registry model.",
}
TECH_ADD = {
 "C06": " + yield injection (pauses at instrumented statement boundaries) for concurrent use of independent codecs",
 "C16": " + yield injection for concurrent logins of several stations in one process",
 "C19": " + yield injection inside the registry calls",
}

def chk(pid, engine, category, text, note, technique, design_ref):
    if pid in ADD:
        text = text + " Added later: " + ADD[pid]
    technique = technique + TECH_ADD.get(pid, "")
    checks[pid] = {
        "property_id": pid,
        "quick_cmd": f"bin/verifctl check {pid} --tier quick",
        "thorough_cmd": f"bin/verifctl check {pid} --tier thorough",
        "evidence_file": f"/verif/evidence/{pid}.json",
        "replay_cmd_template": "bin/verifctl replay {path}",
        "engine": engine,
        "level_claimed": {"category": category, "text": text, "design_ref": design_ref},
        "level_note": note,
        "technique": technique,
    }
TB = "Trusted base: testing/synctest fake clock (Go 1.26.8), sim/pipe link, the oracle code, Go runtime scheduling at GOMAXPROCS=1 between two environment events; library exercised on the Go 1.26.8 standard library."

chk("C01", "fbbsim", "exploration",
    "Seeded deterministic simulation of two real fbb.Sessions on a simulated duplex link; a history oracle over the mailbox callbacks decides exactly-once, byte identity, sent/deferred reporting, traffic statistics and connection close for every sampled message set, policy, role assignment, handler kind and segmentation/latency schedule. Sampling, not proof.",
    TB + " Mailbox handler is the in-memory reference handler.",
    "deterministic simulation (synctest bubble, seeded link schedule) + history oracle", "DESIGN.md 3 C01")

chk("C02", "fbbsim", "fault_enumeration",
    "Chains of sessions between the same two mailboxes: 0-2 seeded faulty sessions, the target session, then fault-free sessions until one completes. For each seeded scenario a pilot records the target session's transcript; then every fault is executed as its own chain in its own simulated run: the link cut after every delivered byte offset of either direction (EOF at both ends; later writes fail or vanish silently), and a storage error on the i-th inbound message for every i at either station - with the in-memory reference handler and with the real mailbox.DirHandler on the simulated disk (disk full with a short write). Oracle over the global callback history: bounded simulated return time, sent only if the peer's handler completely received it, byte identity of everything handed to a handler, never stored or reported twice, and complete delivery after the first clean session.",
    TB + " Quick tier cuts at most 2500 offsets per direction (both ends of the transcript plus a seeded sample); DirHandler runs through the os/ioutil/log import swap on sim/simfs.",
    "fault enumeration (every cut offset, every failing store) in deterministic simulation with history oracle", "DESIGN.md 3 C02")
chk("C03", "fbbsim", "exploration",
    "A real fbb.Session faces the reference peer in Byzantine mode: it follows the real protocol to reach deep states and damages its own output at one seeded layer (raw bytes, handshake, proposals, answers, frames, LZHUF payload, message, pure garbage). Oracle: no panic, no process death (worker isolation), Exchange returns within 5 simulated minutes after the remote closed, connection closed, allocation bounded relative to the bytes received; CPU spins are caught by a wall-clock watchdog and confirmed in a fresh process. Seeded sampling of an unbounded input space.",
    TB + " Spin detection relies on a real-time watchdog (30 s for millisecond runs).",
    "deterministic simulation with a Byzantine reference peer (fault injection at every protocol layer)", "DESIGN.md 3 C03")
chk("C04", "fbbsim", "fault_enumeration",
    "For seeded scenarios (reference peer -> Session, and Session -> Session) every damage pattern of the SOH..EOT range is executed as its own simulated run: a +1, a ^0x80 and a seeded substitution, a deletion and an insertion at every byte offset, plus seeded sum-preserving pairs and adjacent swaps that the 8-bit block checksum cannot see. An independent reference receiver (own frame parser + own LZHUF decoder with CRC-16/size check) judges the bytes the Session really received; the Session must deliver iff allowed and then exactly the reference decoding, must fail the exchange otherwise, and the sender must not record the message as sent.",
    TB + " Enumeration covers the first two transfers of each scenario; quick tier thins each transfer's pattern list to 3000.",
    "fault enumeration in deterministic simulation with an independent reference receiver as oracle", "DESIGN.md 3 C04")
chk("C05", "fbbsim", "exploration",
    "A real fbb.Session talks to an independently written B2F peer (ref/b2f, written from the protocol documents, never importing fbb) that validates every line and frame the Session emits and uses every conforming encoding the documents allow; a second oracle checks that both sides end in the outcome the protocol prescribes. Seeded sampling over message sets, roles, peer encodings and link schedules.",
    TB + " The reference peer and the independent LZHUF decoder are part of the trusted base; they encode the documents, not real RMS software.",
    "deterministic simulation against an independent reference peer (differential conformance oracle)", "DESIGN.md 3 C05")
chk("C16", "fbbsim", "exploration",
    "The reference peer acts as CMS issuing ;PQ challenges; the Session's ;PR and ;FW answers are compared with an independent implementation of the Winlink secure-login algorithm and a wire tap searches everything the Session wrote for the password. Narrow claim: no schedule changes the answer; the simulator hosts a two-party differential check.",
    TB + " Salt copy pinned by the published test vectors.",
    "differential check against an independent implementation, hosted in the deterministic simulator", "DESIGN.md 3 C16")

chk("C06", "codecsim", "exploration",
    "Narrow claim: the stream interface of the codec under seeded call schedules - partition of the input into Write calls (incl. empty/1-byte writes and the 59/60/61 and 2047/2048/2049 boundaries), Read buffer-size sequences, short and (0,nil) reads of the underlying reader - with a separate fault arm (underlying writer fails/short-writes at byte k, underlying reader errors at byte k). Oracle: output = input, both Close nil, compressed bytes identical across partitions, and the independent reference decoder reproduces the input from the library's stream; fault arm: never success with wrong or incomplete data. The input families themselves are plain input generation (labelled so in the evidence).",
    "Trusted base: ref/lzhuf (independent decoder, validated on the five golden files), the scripted reader/writer. No clock or concurrency is involved; the simulator contributes the call schedule and the I/O faults.",
    "seeded call-schedule and I/O-fault exploration with an independent reference decoder", "DESIGN.md 3 C06")
chk("C08", "codecsim", "fault_enumeration",
    "Per plan one or two valid streams (library writer and the reference's seed-driven encoder, with and without CRC) are damaged exhaustively: EOF after every prefix length, every single-bit flip (streams <= 512 B, seeded sample above), header edits (negative/zero/too small/too large sizes, CRC bytes), splices, dropped/duplicated bytes, trailing bytes, reader I/O error at offset k, plus random byte strings; each damaged stream is read with plan-chosen buffer sizes. Oracle against the independent decoder: no panic, termination within a step budget, at most the declared number of bytes each equal to the canonical decoding, Close()==nil only if CRC and size hold and the output is canonical, and Close()==nil required for undamaged streams.",
    "Trusted base: ref/lzhuf decoder/encoder (validated on the five golden files; greedy mode reproduces them byte for byte). Termination is a step budget, not a clock; a spin inside one call is left to the wall-clock watchdog.",
    "fault enumeration over stored/transported streams with an independent reference decoder", "DESIGN.md 3 C08")
chk("C13", "agwsim", "exploration",
    "The real agwpe package (TNC reader, demux levels, chain goroutines, polling) talks over simulated TCP to an independently written reactive AGWPE TNC model: seeded segmentation of both byte streams (including inside the 36-byte header and the data field), reply latencies and orders, MAXFRAME/outstanding-frame draining on the simulated clock, interleaved frames for other callsigns and ports, remote disconnects, refusals, malformed frames and link cuts; scripted clients register, dial (0-7 digis) or accept, write, read with buffers from 1 B, flush and close at seed-chosen instants. Regimes paced / burst / coalesced are part of every stream signature. Oracle: Read = concatenated D payloads of that connection in order, every host frame well-formed with the right port/calls/PID, D payloads = successful Writes, X before C/v, Y polled, Flush only after 0 outstanding, d on Close, nothing foreign delivered, no crash.",
    TB + " The TNC model is written from the public AGWPE socket interface description, not from the library. Known finding: the drop-when-full demux loses frames in the burst/coalesced regimes; the paced regime keeps the strict stream oracle.",
    "deterministic simulation against a reactive TNC model (seeded segmentation, pacing, reply orders, malformed frames)", "DESIGN.md 3 C13")
chk("C14", "ardopsim", "exploration",
    "The real ardop package runs against an independently written reactive ARDOP TNC model (written from the host-interface specification in docs/ardop) on both host interfaces: serial through the package's own io.ReadWriteCloser seam (C:/D: prefixes, big-endian count, CRC-16, RDY/CRCFAULT) and TCP through the simulated network (control + data sockets). Seeded ARQ frame sizes up to 65535, write sizes beyond 65535, reader buffers from 1 B, CRCFAULT injection on commands and data, damaged-CRC frames towards the host, frames written in pieces, BUFFER/NEWSTATE/PTT/CONNECTED/DISCONNECTED orders including stale BUFFER 0, garbage on either stream. Oracle: Read = concatenated ARQ payloads in order, every host frame parses (prefix, length, CRC), TNC data = bytes Write reported accepted, identical retransmission after CRCFAULT, Write result in range, Flush only after an empty-buffer report, DISCONNECT/ABORT on Close, PTT calls in order, no crash. The regime (serial/tcp + at most one stress feature) is part of every signature so the plain regimes stay fully strict.",
    TB + " The TNC model follows the spec text; it does not wait for the host's RDY (the library never sends it). Known findings: commands are never retransmitted on CRCFAULT; Write takes any BUFFER report as acknowledgement (-bufrace regime); a rare non-replayable close race in the broadcaster.",
    "deterministic simulation against a reactive TNC model on both host interfaces (seeded framing, CRC faults, event orders)", "DESIGN.md 3 C14")
chk("C15", "telnetsim", "exploration",
    "Real telnet.Listen/Accept and Dial/DialTimeout/DialContext/DialURL on the simulated network: seeded segmentation and coalescing of prompts, replies and first payloads (including payload in the same segment as the last login line), library-vs-library, library dialler vs scripted conforming and hostile servers (silent, partial prompt, garbage, close at offset k, endless drip, SYN never answered), scripted client vs library listener. Oracle: RemoteCall equals the dialled callsign, post-login byte streams complete and unmodified both ways, and every dial call has returned when the simulated clock reaches its deadline + 1 s.",
    TB + " net import swapped for the simulated network shim.",
    "deterministic simulation (simulated TCP with seeded segmentation, hostile server models, simulated deadlines)", "DESIGN.md 3 C15")
chk("C17", "fbbsim", "exploration",
    "C01 scenarios with a recording StatusUpdater on both stations in a -race build; every conn.Write blocks for a seeded simulated time (none ... longer than the 250 ms reporting period) so the reporter goroutines run at seed-chosen points of the transfer; timer-assigned schedules add no synchronisation that could hide a race. Oracle: zero race-detector reports, and per transferred message and direction 0 <= BytesTransferred <= BytesTotal = compressed size, exactly one Done report, none after it.",
    TB + " Data-race freedom is judged by the Go race detector on the sampled executions.",
    "deterministic simulation under the race detector (seeded transport pacing) + status-history oracle", "DESIGN.md 3 C17")
chk("C19", "dialsim", "exploration",
    "Narrow claim: concurrent Register(Context)Dialer / UnregisterDialer / DialURL(Context) calls from 2-6 client goroutines at seed-chosen simulated instants (distinct, and a second arm with identical instants) in a -race build; histories checked with porcupine against a map model (Illegal = violation, Unknown = recorded only). Riding on the same engine: URLs built from component tuples must parse to exactly those components and reach the registered recording dialer; short targets, digis on ardop/telnet and unregistered schemes are refused; arbitrary strings never panic ParseURL.",
    TB + " porcupine v1.3.0; the identical-instants arm is sound but not replayable (synctest randomises same-instant timers).",
    "deterministic simulation under the race detector + porcupine linearizability check; generated URL tuples", "DESIGN.md 3 C19")

chk("C10", "mboxsim", "exploration",
    "The real mailbox.DirHandler runs on a simulated disk; generated operation histories (every sequence up to length 3 over a 16-operation alphabet in both modes, then seeded random histories of 10-60 operations, up to 300 in the thorough tier) over a small universe of MIDs, recipients and forwarder lists, with restarts (fresh handler on the same disk) and send-only mode, are compared step by step with a small executable mailbox model: return values, all four folder listings and counts, dedup answers, per-session deferral, CMS/P2P eligibility and absence of mailbox-private headers.",
    "Trusted base: sim/simfs and the os/ioutil/log shims (validated differentially against the real os on a temp directory), the reference model. Single-threaded, so step-wise comparison is exact; no clock is involved.",
    "model-based history exploration on a simulated disk (reference-model oracle)", "DESIGN.md 3 C10")
chk("C11", "mboxsim", "fault_enumeration",
    "For seeded mailbox states and one operation (ProcessInbound, AddOut, SetSent, SetUnread, Prepare) a pilot records the file-system calls; then the process is killed at every crash point - before and after each call and after every prefix length of each write (all up to 8 KB, boundaries + sample above) - only the simulated disk survives, a fresh DirHandler is started and the recovery invariants of the property are checked. A second arm injects ENOSPC with a short write instead of the crash.",
    "Trusted base: sim/simfs crash model = process death (completed calls survive in order, the write in progress is torn at a byte; no power-loss reordering), validated shims.",
    "crash-point enumeration on a simulated disk (process-death model) with recovery-invariant oracle", "DESIGN.md 3 C11")
chk("C12", "mboxsim", "exploration",
    "Narrow claim: hostile MIDs and Mid header values (path separators, dot-dot segments, absolute paths, empty, 300 bytes, non-ASCII, NUL, trailing dots) are fed to ProcessInbound / GetInboundAnswer / SetSent / SetDeferred of a DirHandler rooted at /sandbox/mbox next to decoy files; the simulated disk logs every call, so transient effects are seen too. Oracle: every applied mutating call names a cleaned path under the mailbox root; a cross-check compares the tree outside the mailbox before and after.",
    "Trusted base: sim/simfs operation log and path cleaning, validated shims. No schedule matters; the simulator contributes the instrumented disk.",
    "hostile-input exploration on an instrumented simulated disk (path-confinement oracle)", "DESIGN.md 3 C12")

na = [
 ("C07", "pure function of the input bytes (codec interoperability): no schedule, clock, fault or second party for a simulator to control; see DESIGN.md section 4"),
 ("C09", "pure function of the message (serialisation round trip); reader chunking is absorbed by a bufio.Reader; see DESIGN.md section 4"),
 ("C18", "SetBody is a pure string-to-bytes function; see DESIGN.md section 4"),
 ("C20", "position-report formatting is a pure function of two floats and options; see DESIGN.md section 4"),
]
pending = {
 "C02":"check not built yet (planned: fbbsim fault enumeration)", "C03":"check not built yet", "C04":"check not built yet", "C05":"check not built yet",
 "C06":"check not built yet", "C08":"check not built yet", "C10":"check not built yet", "C11":"check not built yet", "C12":"check not built yet",
 "C13":"check not built yet", "C14":"check not built yet", "C15":"check not built yet", "C16":"check not built yet", "C17":"check not built yet", "C19":"check not built yet",
}
if __name__ == "__main__":
    exec(open("/verif/manifest_checks.py").read()) if False else None
    for pid in list(pending):
        if pid in checks: del pending[pid]
    m = {
      "version": 1,
      "setup_cmd": f"cd /verif && {ENV} go1.26.8 build -o bin/verifctl ./cmd/verifctl && bin/verifctl warm",
      "hooks": {
        "guard": "verif",
        "enable": "no source hooks: each check compiles /repo's working tree with `go test -c -overlay=<generated>` which swaps the imports os/io/ioutil/log/net (and sync, for the dialer registry) of the packages under test for simulator shims (DESIGN.md 2.1) and, for fbb, lzhuf and transport/dial.go, puts a call to a yield point in front of every statement, on the same line (DESIGN.md 8.9); /repo itself is never modified; the build tag `verif` is reserved and unused",
        "baseline_off_cmd": "cd /repo && go test -vet=off -count=1 ./...",
        "source_commits": [],
        "add_only": True,
      },
      "engines": [],
      "checks": [checks[k] for k in sorted(checks)],
      "not_applicable": [{"property_id": p, "reason": r} for p, r in na] + [{"property_id": p, "reason": r} for p, r in sorted(pending.items())],
      "notes": "All checks: exit 0 held / exit 1 with VIOLATION lines / exit 2 build or harness trouble. VERIF_SEED selects the PRNG seed (default 1). Replay files are plans (JSON); bin/verifctl replay <file> rebuilds from /repo and re-executes in a fresh process.",
    }
    engines = {}
    for c in checks.values():
        engines.setdefault(c["engine"], []).append(c["property_id"])
    for e, ps in sorted(engines.items()):
        m["engines"].append({"name": e, "path": f"/verif/engines/{e}", "serves_properties": sorted(ps), "kind_free_text": "deterministic simulation engine (Go test binary driven by verifctl)"})
    json.dump(m, open("/verif/MANIFEST.json", "w"), indent=1)
    print("claimed:", sorted(checks), "pending:", sorted(pending))
