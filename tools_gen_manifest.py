#!/usr/bin/env python3
"""Regenerates MANIFEST.json from the table below (kept here so that the manifest stays consistent)."""
import json, sys
ENV = "GOFLAGS=-mod=mod GOPROXY=off GOSUMDB=off GOTOOLCHAIN=local"
checks = {}
def chk(pid, engine, category, text, note, technique, design_ref):
    checks[pid] = {
        "property_id": pid,
        "quick_cmd": f"bin/verifctl check {pid} --tier quick",
        "thorough_cmd": f"bin/verifctl check {pid} --tier thorough",
        "evidence_file": f"/verif/evidence/{pid}.json",
        "replay_cmd_template": "bin/verifctl replay {path}",
        "engine": engine,
        "level_claimed": {"category": category, "text": text, "design_ref": design_ref},
        "level_note": note,
        "technique": technique,
    }
TB = "Trusted base: testing/synctest fake clock (Go 1.26.8), sim/pipe link, the oracle code, Go runtime scheduling at GOMAXPROCS=1 between two environment events; library exercised on the Go 1.26.8 standard library."

chk("C01", "fbbsim", "exploration",
    "Seeded deterministic simulation of two real fbb.Sessions on a simulated duplex link; a history oracle over the mailbox callbacks decides exactly-once, byte identity, sent/deferred reporting, traffic statistics and connection close for every sampled message set, policy, role assignment, handler kind and segmentation/latency schedule. Sampling, not proof.",
    TB + " Mailbox handler is the in-memory reference handler.",
    "deterministic simulation (synctest bubble, seeded link schedule) + history oracle", "DESIGN.md 3 C01")

chk("C03", "fbbsim", "exploration",
    "A real fbb.Session faces the reference peer in Byzantine mode: it follows the real protocol to reach deep states and damages its own output at one seeded layer (raw bytes, handshake, proposals, answers, frames, LZHUF payload, message, pure garbage). Oracle: no panic, no process death (worker isolation), Exchange returns within 5 simulated minutes after the remote closed, connection closed, allocation bounded relative to the bytes received; CPU spins are caught by a wall-clock watchdog and confirmed in a fresh process. Seeded sampling of an unbounded input space.",
    TB + " Spin detection relies on a real-time watchdog (30 s for millisecond runs).",
    "deterministic simulation with a Byzantine reference peer (fault injection at every protocol layer)", "DESIGN.md 3 C03")
chk("C04", "fbbsim", "fault_enumeration",
    "For seeded scenarios (reference peer -> Session, and Session -> Session) every damage pattern of the SOH..EOT range is executed as its own simulated run: a +1, a ^0x80 and a seeded substitution, a deletion and an insertion at every byte offset, plus seeded sum-preserving pairs and adjacent swaps that the 8-bit block checksum cannot see. An independent reference receiver (own frame parser + own LZHUF decoder with CRC-16/size check) judges the bytes the Session really received; the Session must deliver iff allowed and then exactly the reference decoding, must fail the exchange otherwise, and the sender must not record the message as sent.",
    TB + " Enumeration covers the first two transfers of each scenario; quick tier thins each transfer's pattern list to 3000.",
    "fault enumeration in deterministic simulation with an independent reference receiver as oracle", "DESIGN.md 3 C04")
chk("C05", "fbbsim", "exploration",
    "A real fbb.Session talks to an independently written B2F peer (ref/b2f, written from the protocol documents, never importing fbb) that validates every line and frame the Session emits and uses every conforming encoding the documents allow; a second oracle checks that both sides end in the outcome the protocol prescribes. Seeded sampling over message sets, roles, peer encodings and link schedules.",
    TB + " The reference peer and the independent LZHUF decoder are part of the trusted base; they encode the documents, not real RMS software.",
    "deterministic simulation against an independent reference peer (differential conformance oracle)", "DESIGN.md 3 C05")
chk("C16", "fbbsim", "exploration",
    "The reference peer acts as CMS issuing ;PQ challenges; the Session's ;PR and ;FW answers are compared with an independent implementation of the Winlink secure-login algorithm and a wire tap searches everything the Session wrote for the password. Narrow claim: no schedule changes the answer; the simulator hosts a two-party differential check.",
    TB + " Salt copy pinned by the published test vectors.",
    "differential check against an independent implementation, hosted in the deterministic simulator", "DESIGN.md 3 C16")

na = [
 ("C07", "pure function of the input bytes (codec interoperability): no schedule, clock, fault or second party for a simulator to control; see DESIGN.md section 4"),
 ("C09", "pure function of the message (serialisation round trip); reader chunking is absorbed by a bufio.Reader; see DESIGN.md section 4"),
 ("C18", "SetBody is a pure string-to-bytes function; see DESIGN.md section 4"),
 ("C20", "position-report formatting is a pure function of two floats and options; see DESIGN.md section 4"),
]
pending = {
 "C02":"check not built yet (planned: fbbsim fault enumeration)", "C03":"check not built yet", "C04":"check not built yet", "C05":"check not built yet",
 "C06":"check not built yet", "C08":"check not built yet", "C10":"check not built yet", "C11":"check not built yet", "C12":"check not built yet",
 "C13":"check not built yet", "C14":"check not built yet", "C15":"check not built yet", "C16":"check not built yet", "C17":"check not built yet", "C19":"check not built yet",
}
if __name__ == "__main__":
    exec(open("/verif/manifest_checks.py").read()) if False else None
    for pid in list(pending):
        if pid in checks: del pending[pid]
    m = {
      "version": 1,
      "setup_cmd": f"cd /verif && {ENV} go1.26.8 build -o bin/verifctl ./cmd/verifctl && bin/verifctl warm",
      "hooks": {
        "guard": "verif",
        "enable": "no source hooks: each check compiles /repo's working tree with `go test -c -overlay=<generated>` which swaps the imports os/io/ioutil/log/net of the packages under test for simulator shims (DESIGN.md 2.1); the build tag `verif` is reserved and unused",
        "baseline_off_cmd": "cd /repo && go test -vet=off -count=1 ./...",
        "source_commits": [],
        "add_only": True,
      },
      "engines": [],
      "checks": [checks[k] for k in sorted(checks)],
      "not_applicable": [{"property_id": p, "reason": r} for p, r in na] + [{"property_id": p, "reason": r} for p, r in sorted(pending.items())],
      "notes": "All checks: exit 0 held / exit 1 with VIOLATION lines / exit 2 build or harness trouble. VERIF_SEED selects the PRNG seed (default 1). Replay files are plans (JSON); bin/verifctl replay <file> rebuilds from /repo and re-executes in a fresh process.",
    }
    engines = {}
    for c in checks.values():
        engines.setdefault(c["engine"], []).append(c["property_id"])
    for e, ps in sorted(engines.items()):
        m["engines"].append({"name": e, "path": f"/verif/engines/{e}", "serves_properties": sorted(ps), "kind_free_text": "deterministic simulation engine (Go test binary driven by verifctl)"})
    json.dump(m, open("/verif/MANIFEST.json", "w"), indent=1)
    print("claimed:", sorted(checks), "pending:", sorted(pending))
