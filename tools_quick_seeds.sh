#!/bin/sh
# Quick tier of every claimed check under several seeds (false-alarm hunt on the unchanged tree).
export GOFLAGS=-mod=mod GOPROXY=off GOSUMDB=off GOTOOLCHAIN=local
go1.26.8 build -o bin/verifctl ./cmd/verifctl || exit 2
for seed in ${*:-2 3 4}; do
for id in C01 C02 C03 C04 C05 C06 C08 C10 C11 C12 C13 C14 C15 C16 C17 C19; do
  echo "=== $id quick seed=$seed $(date +%T)"
  VERIF_SEED=$seed bin/verifctl check $id --tier quick 2>&1 | grep -E "VIOLATION|signature:|^done|INFRA|occurrences" | cut -c1-260
done; done
