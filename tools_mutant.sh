#!/bin/sh
# usage: tools_mutant.sh <prop> <runs> <file-in-repo> <sed-expression>
# Applies a one-line mutation to a private copy of /repo and runs the check against it.
set -e
prop=$1; runs=$2; file=$3; expr=$4
d=$(mktemp -d /tmp/mut-XXXXXX)
cp -r /repo/. $d/repo
rm -rf $d/repo/.git
sed -i "$expr" $d/repo/$file
if cmp -s $d/repo/$file /repo/$file; then echo "MUTATION DID NOT APPLY"; rm -rf $d; exit 3; fi
diff /repo/$file $d/repo/$file | head -6
export GOFLAGS=-mod=mod GOPROXY=off GOSUMDB=off GOTOOLCHAIN=local
set +e
VERIF_REPO=$d/repo VERIF_OUT=$d/out /verif/bin/verifctl check $prop --runs $runs --workers ${WORKERS:-8} 2>&1 | grep -v "minimised" | grep -E "VIOLATION|signature|done|KNOWN|BUILD" | cut -c1-300 | head -${LINES_MAX:-8}
rm -rf $d
