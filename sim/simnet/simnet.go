// Package simnet is the simulated TCP network behind the "net" shim: a registry
// of listening addresses of the current run; Dial creates a sim/pipe link whose
// schedule the engine chose.
package simnet

import (
	"context"
	"errors"
	"net"
	"os"
	"sync"
	"time"

	"verif/sim/core"
	"verif/sim/pipe"
)

// Net is the network of one run. Engines create it inside the bubble and
// install it with Use.
type Net struct {
	Sim *core.Sim

	mu        sync.Mutex
	listeners map[string]*Listener
	servers   map[string]func(c *pipe.End, l *pipe.Link)
	dials     int

	// LinkPlan returns the link schedule for the n-th connection (0-based) to addr.
	LinkPlan func(addr string, n int) pipe.Plan
	// ConnectDelay is the simulated time a successful or refused connect takes
	// (default 1ms). ConnectHang: addresses whose SYN is never answered.
	ConnectDelay func(addr string, n int) time.Duration
	ConnectHang  map[string]bool
	// Links records every link created, in order.
	Links []*pipe.Link
	// OnLink, if set, is called with every new link before either end is
	// handed out (attach taps here); n is the connection index.
	OnLink func(addr string, n int, l *pipe.Link)
}

var (
	curMu sync.Mutex
	cur   *Net
)

// Use installs n as the network seen by the net shim (one run at a time per process).
func Use(n *Net) {
	curMu.Lock()
	cur = n
	curMu.Unlock()
}

// Current returns the installed network or nil.
func Current() *Net {
	curMu.Lock()
	defer curMu.Unlock()
	return cur
}

func New(sim *core.Sim) *Net {
	return &Net{Sim: sim, listeners: map[string]*Listener{}, servers: map[string]func(*pipe.End, *pipe.Link){}, ConnectHang: map[string]bool{}}
}

// Addr is a simulated TCP address.
type Addr string

func (a Addr) Network() string { return "tcp" }
func (a Addr) String() string  { return string(a) }

// Listener is a simulated listening socket.
type Listener struct {
	n      *Net
	addr   string
	mu     sync.Mutex
	cond   *sync.Cond
	queue  []*pipe.End
	closed bool
}

var errRefused = errors.New("connection refused")

// Listen registers addr.
func (n *Net) Listen(addr string) (*Listener, error) {
	n.mu.Lock()
	defer n.mu.Unlock()
	if _, ok := n.listeners[addr]; ok {
		return nil, &net.OpError{Op: "listen", Net: "tcp", Addr: Addr(addr), Err: errors.New("address already in use")}
	}
	l := &Listener{n: n, addr: addr}
	l.cond = sync.NewCond(&l.mu)
	n.listeners[addr] = l
	return l, nil
}

// Serve registers a raw server: fn runs on its own goroutine for every
// connection to addr with the server-side end of the link.
func (n *Net) Serve(addr string, fn func(c *pipe.End, l *pipe.Link)) {
	n.mu.Lock()
	n.servers[addr] = fn
	n.mu.Unlock()
}

func (l *Listener) Accept() (net.Conn, error) {
	l.mu.Lock()
	defer l.mu.Unlock()
	for len(l.queue) == 0 && !l.closed {
		l.cond.Wait()
	}
	if l.closed {
		return nil, &net.OpError{Op: "accept", Net: "tcp", Addr: Addr(l.addr), Err: net.ErrClosed}
	}
	c := l.queue[0]
	l.queue = l.queue[1:]
	return c, nil
}

func (l *Listener) Close() error {
	l.mu.Lock()
	if l.closed {
		l.mu.Unlock()
		return &net.OpError{Op: "close", Net: "tcp", Addr: Addr(l.addr), Err: net.ErrClosed}
	}
	l.closed = true
	l.cond.Broadcast()
	l.mu.Unlock()
	l.n.mu.Lock()
	delete(l.n.listeners, l.addr)
	l.n.mu.Unlock()
	return nil
}

func (l *Listener) Addr() net.Addr { return Addr(l.addr) }

// Dial connects to addr, honouring ctx on the simulated clock.
func (n *Net) Dial(ctx context.Context, addr string) (*pipe.End, error) {
	n.mu.Lock()
	idx := n.dials
	n.dials++
	hang := n.ConnectHang[addr]
	n.mu.Unlock()
	delay := time.Millisecond
	if n.ConnectDelay != nil {
		delay = n.ConnectDelay(addr, idx)
	}
	opErr := func(err error) error {
		return &net.OpError{Op: "dial", Net: "tcp", Addr: Addr(addr), Err: err}
	}
	if hang {
		<-ctx.Done()
		return nil, opErr(timeoutErr{ctx.Err()})
	}
	t := time.NewTimer(delay)
	defer t.Stop()
	select {
	case <-t.C:
	case <-ctx.Done():
		return nil, opErr(timeoutErr{ctx.Err()})
	}
	n.mu.Lock()
	l := n.listeners[addr]
	srv := n.servers[addr]
	n.mu.Unlock()
	if l == nil && srv == nil {
		return nil, opErr(errRefused)
	}
	var plan pipe.Plan
	if n.LinkPlan != nil {
		plan = n.LinkPlan(addr, idx)
	}
	link := pipe.New(n.Sim, plan)
	link.SetAddrs(Addr("client:"+addr), Addr(addr))
	n.mu.Lock()
	n.Links = append(n.Links, link)
	n.mu.Unlock()
	if n.OnLink != nil {
		n.OnLink(addr, idx, link)
	}
	n.Sim.Logf("connect %s #%d", addr, idx)
	if srv != nil {
		go srv(link.B, link)
		return link.A, nil
	}
	l.mu.Lock()
	if l.closed {
		l.mu.Unlock()
		return nil, opErr(errRefused)
	}
	l.queue = append(l.queue, link.B)
	l.cond.Broadcast()
	l.mu.Unlock()
	return link.A, nil
}

type timeoutErr struct{ err error }

func (e timeoutErr) Error() string {
	if errors.Is(e.err, context.DeadlineExceeded) {
		return "i/o timeout"
	}
	return "operation was canceled"
}
func (e timeoutErr) Timeout() bool   { return errors.Is(e.err, context.DeadlineExceeded) }
func (e timeoutErr) Temporary() bool { return false }
func (e timeoutErr) Unwrap() error {
	if errors.Is(e.err, context.DeadlineExceeded) {
		return os.ErrDeadlineExceeded
	}
	return e.err
}
