// Package simfs is the simulated disk behind the "os", "io/ioutil" and "log"
// shims (DESIGN 2.3): an in-memory POSIX-like file tree that logs every call,
// can kill the "process" at any call boundary or inside a write, and can inject
// ENOSPC / EIO / EACCES.
//
// Model
//
//   - Directories and regular files (plus hard links); no symbolic links, no
//     devices. Modes are metadata only: the simulated process behaves like one
//     that owns everything (as root does on a real disk); EACCES exists as an
//     injected fault only.
//   - Path resolution walks the components the way the kernel does ("a/b/.."
//     needs a/b to exist and be a directory), "." and ".." and repeated slashes
//     are handled, NUL gives EINVAL, components over 255 bytes and paths of 4096
//     bytes or more give ENAMETOOLONG. The operation log always holds cleaned
//     absolute paths.
//   - Errors are *os.PathError / *os.LinkError around a syscall.Errno with the
//     same Op strings the real package os uses, so os.IsNotExist and friends work.
//   - Crash model = process death: completed calls survive, nothing is
//     reordered, the write in progress is torn at a byte.
//   - Time comes from time.Now(), which is the fake clock inside a synctest
//     bubble. No real I/O, no real clock. One mutex guards everything, so the
//     disk may be used from several goroutines of a bubble.
package simfs

import (
	"io"
	"io/fs"
	"os"
	"path"
	"sort"
	"strings"
	"sync"
	"syscall"
	"time"
)

// Limits.
const (
	NameMax     = 255
	PathMax     = 4096
	MaxFileSize = 256 << 20 // larger files give EFBIG: protects the worker from a runaway Truncate
)

type node struct {
	ino      uint64
	mode     fs.FileMode // ModeDir | permission bits
	data     []byte
	cow      bool // data is shared with a clone: copy before changing
	children map[string]*node
	parent   *node // directories only
	mtime    time.Time
	nlink    int
}

func (n *node) isDir() bool { return n.mode&fs.ModeDir != 0 }

// FS is one simulated disk.
type FS struct {
	mu      sync.Mutex
	root    *node
	nextIno uint64
	cwd     string
	Umask   fs.FileMode
	// Now supplies mtimes; default time.Now (fake inside a bubble).
	Now func() time.Time

	ops    []Op
	base   int // index of the first op after the last ResetLog (fault call indices are relative to it)
	faults []Fault
	fired  []Fault
	nWrite int
	nRead  int
	nOpen  int
	nStat  int  // stat/lstat calls since the last ResetLog (eacces-stat)
	full   bool // a sticky ENOSPC fired

	crashed  bool
	sentinel *crash
	epoch    int // handles of an older epoch are dead (Revive)
	dead     map[uint64]*Death
	deaths   []Death
	notes    []Note
	tempSeq  uint32
	// mounts: directories that are file systems of their own (Mount): rename
	// and link across a mount boundary fail with EXDEV.
	mounts []string
}

// Mount declares dir (an absolute, clean path) a file system of its own.
func (f *FS) Mount(dir string) {
	f.mu.Lock()
	defer f.mu.Unlock()
	f.mounts = append(f.mounts, strings.TrimRight(dir, "/"))
}

// devOf is the index of the longest mount point path lies under (-1: the root
// file system).
func (f *FS) devOf(path string) int {
	best, bestLen := -1, -1
	for i, m := range f.mounts {
		if (path == m || strings.HasPrefix(path, m+"/")) && len(m) > bestLen {
			best, bestLen = i, len(m)
		}
	}
	return best
}

// New returns an empty disk: just "/" (mode 0755).
func New() *FS {
	f := &FS{cwd: "/", Umask: 0o022, Now: time.Now, nextIno: 1}
	f.root = f.newNode(fs.ModeDir | 0o755)
	f.root.nlink = 2
	return f
}

func (f *FS) newNode(mode fs.FileMode) *node {
	n := &node{ino: f.nextIno, mode: mode, mtime: f.Now(), nlink: 1}
	f.nextIno++
	if mode&fs.ModeDir != 0 {
		n.children = map[string]*node{}
		n.nlink = 2
	}
	return n
}

var (
	curMu sync.Mutex
	cur   *FS
)

// Use installs f as the disk the shims operate on (one run at a time per process).
func Use(f *FS) {
	curMu.Lock()
	cur = f
	curMu.Unlock()
}

// Current returns the installed disk or nil.
func Current() *FS {
	curMu.Lock()
	defer curMu.Unlock()
	return cur
}

// Must returns the installed disk; calling a shim without one is a harness bug.
func Must() *FS {
	f := Current()
	if f == nil {
		panic("simfs: a file-system shim was called but no disk is installed (simfs.Use)")
	}
	return f
}

// ---------------------------------------------------------------------------
// operation log

// Op is one logged call.
type Op struct {
	Idx     int    `json:"idx"`  // position in the log since the last ResetLog
	Kind    string `json:"kind"` // open read write close sync seek stat lstat mkdir remove rename link chmod chtimes truncate readdir chdir getwd
	Path    string `json:"path"` // cleaned absolute path
	Path2   string `json:"path2,omitempty"`
	Flags   int    `json:"flags,omitempty"` // open flags
	N       int    `json:"n,omitempty"`     // bytes requested (write) or returned (read)
	Done    int    `json:"done,omitempty"`  // bytes applied by a write
	Off     int64  `json:"off,omitempty"`
	Mut     bool   `json:"mut,omitempty"`     // the call is of a mutating kind (create, write, truncate, rename, remove, mkdir, chmod, ...)
	Applied bool   `json:"applied,omitempty"` // ... and it changed the disk (possibly partially)
	Created bool   `json:"created,omitempty"` // open created the file
	Trunc   bool   `json:"trunc,omitempty"`   // open truncated an existing file
	Err     string `json:"err,omitempty"`     // errno name when the call failed
	Fault   string `json:"fault,omitempty"`   // injected fault that fired on this call
}

// Log returns a copy of the operations since the last ResetLog.
func (f *FS) Log() []Op {
	f.mu.Lock()
	defer f.mu.Unlock()
	return append([]Op(nil), f.ops[f.base:]...)
}

// FullLog returns every operation since the disk was created.
func (f *FS) FullLog() []Op {
	f.mu.Lock()
	defer f.mu.Unlock()
	return append([]Op(nil), f.ops...)
}

// Calls is the number of calls since the last ResetLog.
func (f *FS) Calls() int {
	f.mu.Lock()
	defer f.mu.Unlock()
	return len(f.ops) - f.base
}

// ResetLog starts a new log segment: Log() and fault call indices count from here.
// The per-kind counters used by error faults (n-th write/read/open) restart too.
func (f *FS) ResetLog() {
	f.mu.Lock()
	defer f.mu.Unlock()
	f.base = len(f.ops)
	f.nWrite, f.nRead, f.nOpen = 0, 0, 0
	f.nStat = 0
}

// enter is called at the start of every call with f.mu held. It refuses service
// to a dead process, appends the op and fires crash-before.
func (f *FS) enter(op Op) *Op {
	if f.crashed {
		panic(f.sentinel)
	}
	if len(f.dead) > 0 {
		if d := f.dead[goid()]; d != nil {
			panic(d)
		}
	}
	op.Idx = len(f.ops) - f.base
	f.ops = append(f.ops, op)
	p := &f.ops[len(f.ops)-1]
	if c := f.crashFor(p.Idx); c != nil && c.Phase == "before" {
		f.die(p, *c, "crash-before")
	}
	return p
}

// leave is called when a call has been applied; it fires crash-after.
func (f *FS) leave(p *Op, errno syscall.Errno) {
	if errno != 0 {
		p.Err = ErrnoName(errno)
	}
	if c := f.crashFor(p.Idx); c != nil && c.Phase != "before" {
		// "torn" on a call that is not a write (or after a full write) = after
		f.die(p, *c, "crash-after")
	}
}

func (f *FS) crashFor(idx int) *Fault {
	for i := range f.faults {
		c := &f.faults[i]
		if c.Kind == "crash" && c.Call == idx {
			return c
		}
	}
	return nil
}

func (f *FS) die(p *Op, c Fault, label string) {
	p.Fault = label
	f.crashed = true
	f.fired = append(f.fired, c)
	f.sentinel = &crash{op: *p}
	panic(f.sentinel)
}

// ---------------------------------------------------------------------------
// path resolution

type resolved struct {
	parent  *node  // nil when the target is the root
	base    string // final component in parent ("" for the root)
	n       *node  // nil when the final component does not exist
	path    string // cleaned absolute path of the target
	dirOnly bool   // the name ended in "/", "." or "..": the target must be a directory
	long    bool   // the final component exceeds NameMax (then n is nil)
}

// missing is the errno for "the final component is not there".
func (r resolved) missing() syscall.Errno {
	if r.long {
		return syscall.ENAMETOOLONG
	}
	return syscall.ENOENT
}

func (f *FS) abs(name string) string {
	if strings.HasPrefix(name, "/") {
		return path.Clean(name)
	}
	return path.Clean(f.cwd + "/" + name)
}

func hasNUL(s string) bool { return strings.IndexByte(s, 0) >= 0 }

// walk resolves name. When the final component is missing, n is nil and errno 0;
// any earlier trouble is an errno.
func (f *FS) walk(name string) (r resolved, errno syscall.Errno) {
	r.path = "?"
	switch {
	case name == "":
		return r, syscall.ENOENT
	case hasNUL(name):
		r.path = strings.ReplaceAll(name, "\x00", "\\0")
		return r, syscall.EINVAL
	}
	r.path = f.abs(name)
	if len(name) >= PathMax {
		return r, syscall.ENAMETOOLONG
	}
	stack := []*node{f.root}
	names := []string{""}
	if name[0] != '/' {
		// resolve the working directory first
		for _, c := range strings.Split(f.cwd, "/") {
			if c == "" {
				continue
			}
			ch := stack[len(stack)-1].children[c]
			if ch == nil || !ch.isDir() {
				return r, syscall.ENOENT
			}
			stack = append(stack, ch)
			names = append(names, c)
		}
	}
	comps := strings.Split(name, "/")
	// index of the last component that is a real name
	for i, c := range comps {
		last := i == len(comps)-1
		cur := stack[len(stack)-1]
		switch c {
		case "", ".":
			if last {
				r.dirOnly = true
			}
			continue
		case "..":
			if len(stack) > 1 {
				stack = stack[:len(stack)-1]
				names = names[:len(names)-1]
			}
			if last {
				r.dirOnly = true
			}
			continue
		}
		ch := cur.children[c]
		if last {
			// trouble with the final component is the caller's business: the
			// kernel reports it after the parents of all names of a call resolved
			r.parent, r.base, r.n = cur, c, ch
			r.long = len(c) > NameMax
			r.path = joinNames(names, c)
			return r, 0
		}
		if len(c) > NameMax {
			return r, syscall.ENAMETOOLONG
		}
		if ch == nil {
			return r, syscall.ENOENT
		}
		if !ch.isDir() {
			return r, syscall.ENOTDIR
		}
		stack = append(stack, ch)
		names = append(names, c)
	}
	// the name ended in "/", "." or "..": the target is the current directory
	r.n = stack[len(stack)-1]
	if len(stack) > 1 {
		r.parent = stack[len(stack)-2]
		r.base = names[len(names)-1]
	}
	r.path = joinNames(names, "")
	return r, 0
}

func joinNames(names []string, last string) string {
	var sb strings.Builder
	for _, n := range names {
		if n == "" {
			continue
		}
		sb.WriteByte('/')
		sb.WriteString(n)
	}
	if last != "" {
		sb.WriteByte('/')
		sb.WriteString(last)
	}
	if sb.Len() == 0 {
		return "/"
	}
	return sb.String()
}

func stripSlashes(name string) (string, bool) {
	had := false
	for len(name) > 1 && name[len(name)-1] == '/' {
		name = name[:len(name)-1]
		had = true
	}
	return name, had
}

// lastComp returns the final textual component of name ("." / ".." detection).
func lastComp(name string) string {
	name, _ = stripSlashes(name)
	if i := strings.LastIndexByte(name, '/'); i >= 0 {
		return name[i+1:]
	}
	return name
}

func (f *FS) touchDir(d *node) { d.mtime = f.Now() }

// ---------------------------------------------------------------------------
// errors

func pathErr(op, name string, errno syscall.Errno) error {
	return &os.PathError{Op: op, Path: name, Err: errno}
}

// ErrnoName gives the symbolic name used in the operation log.
func ErrnoName(e syscall.Errno) string {
	switch e {
	case syscall.ENOENT:
		return "ENOENT"
	case syscall.EEXIST:
		return "EEXIST"
	case syscall.ENOTDIR:
		return "ENOTDIR"
	case syscall.EISDIR:
		return "EISDIR"
	case syscall.ENOTEMPTY:
		return "ENOTEMPTY"
	case syscall.EINVAL:
		return "EINVAL"
	case syscall.ENAMETOOLONG:
		return "ENAMETOOLONG"
	case syscall.ENOSPC:
		return "ENOSPC"
	case syscall.EIO:
		return "EIO"
	case syscall.EACCES:
		return "EACCES"
	case syscall.EBADF:
		return "EBADF"
	case syscall.EBUSY:
		return "EBUSY"
	case syscall.EFBIG:
		return "EFBIG"
	case syscall.EPERM:
		return "EPERM"
	case syscall.EXDEV:
		return "EXDEV"
	case syscall.EMLINK:
		return "EMLINK"
	}
	return "E" + e.Error()
}

// ---------------------------------------------------------------------------
// FileInfo

// Info is the fs.FileInfo (and fs.DirEntry) of the simulated disk.
type Info struct {
	name  string
	size  int64
	mode  fs.FileMode
	mtime time.Time
	ino   uint64
	nlink int
}

func (i *Info) Name() string       { return i.name }
func (i *Info) Size() int64        { return i.size }
func (i *Info) Mode() fs.FileMode  { return i.mode }
func (i *Info) ModTime() time.Time { return i.mtime }
func (i *Info) IsDir() bool        { return i.mode&fs.ModeDir != 0 }
func (i *Info) Ino() uint64        { return i.ino }

// Sys returns a *syscall.Stat_t with the fields the simulation knows.
func (i *Info) Sys() any {
	st := &syscall.Stat_t{Ino: i.ino, Nlink: uint64(i.nlink), Size: i.size, Blksize: 4096, Blocks: (i.size + 511) / 512}
	st.Mode = uint32(i.mode.Perm())
	if i.IsDir() {
		st.Mode |= syscall.S_IFDIR
	} else {
		st.Mode |= syscall.S_IFREG
	}
	st.Mtim = syscall.NsecToTimespec(i.mtime.UnixNano())
	st.Atim, st.Ctim = st.Mtim, st.Mtim
	return st
}

// fs.DirEntry
func (i *Info) Type() fs.FileMode          { return i.mode.Type() }
func (i *Info) Info() (fs.FileInfo, error) { return i, nil }
func (i *Info) String() string             { return fs.FormatFileInfo(i) }

func infoOf(n *node, name string) *Info {
	in := &Info{name: name, mode: n.mode, mtime: n.mtime, ino: n.ino, nlink: n.nlink, size: int64(len(n.data))}
	if n.isDir() {
		in.size = 4096
	}
	return in
}

// Basename is the unix basename used by os.Stat for FileInfo.Name.
func Basename(name string) string {
	i := len(name) - 1
	for ; i > 0 && name[i] == '/'; i-- {
		name = name[:i]
	}
	for i--; i >= 0; i-- {
		if name[i] == '/' {
			name = name[i+1:]
			break
		}
	}
	return name
}

// ---------------------------------------------------------------------------
// calls on names

// Stat and Lstat are the same thing: there are no symbolic links.
func (f *FS) Stat(name string) (fs.FileInfo, error)  { return f.stat("stat", name) }
func (f *FS) Lstat(name string) (fs.FileInfo, error) { return f.stat("lstat", name) }

func (f *FS) stat(kind, name string) (fs.FileInfo, error) {
	f.mu.Lock()
	defer f.mu.Unlock()
	r, errno := f.walk(name)
	p := f.enter(Op{Kind: kind, Path: r.path})
	if errno == 0 {
		if c := f.errFault("eacces-stat", &f.nStat); c != nil {
			p.Fault = "eacces-stat"
			errno = syscall.EACCES
		}
	}
	if errno == 0 && r.n == nil {
		errno = r.missing()
	}
	var fi fs.FileInfo
	if errno == 0 {
		fi = infoOf(r.n, Basename(name))
	}
	f.leave(p, errno)
	if errno != 0 {
		return nil, pathErr(kind, name, errno)
	}
	return fi, nil
}

// Mkdir creates one directory.
func (f *FS) Mkdir(name string, perm fs.FileMode) error {
	f.mu.Lock()
	defer f.mu.Unlock()
	stripped, _ := stripSlashes(name)
	r, errno := f.walk(stripped)
	p := f.enter(Op{Kind: "mkdir", Path: r.path, Mut: true})
	switch {
	case errno != 0:
	case r.n != nil:
		errno = syscall.EEXIST
	case r.long:
		errno = syscall.ENAMETOOLONG
	case r.parent.nlink == 0:
		errno = syscall.ENOENT // parent was removed while we hold it
	default:
		n := f.newNode(fs.ModeDir | (perm.Perm() &^ f.Umask))
		n.parent = r.parent
		r.parent.children[r.base] = n
		r.parent.nlink++
		f.touchDir(r.parent)
		p.Applied = true
	}
	f.leave(p, errno)
	if errno != 0 {
		return pathErr("mkdir", name, errno)
	}
	return nil
}

// Remove unlinks a file or removes an empty directory (os.Remove semantics:
// unlink, and rmdir if that fails; one logged call because at most one of the
// two has an effect).
func (f *FS) Remove(name string) error { return f.remove(name, 0) }

// Unlink is unlink(2): directories give EISDIR.
func (f *FS) Unlink(name string) error { return f.remove(name, 1) }

// Rmdir is rmdir(2): files give ENOTDIR.
func (f *FS) Rmdir(name string) error { return f.remove(name, 2) }

func (f *FS) remove(name string, how int) error {
	f.mu.Lock()
	defer f.mu.Unlock()
	r, errno := f.walk(name)
	p := f.enter(Op{Kind: "remove", Path: r.path, Mut: true})
	if errno == 0 {
		lc := lastComp(name)
		special := lc == "." || lc == ".." || r.n == f.root
		switch {
		case special && how == 1:
			errno = syscall.EISDIR
		case r.n == f.root:
			errno = syscall.EBUSY
		case lc == ".":
			errno = syscall.EINVAL
		case lc == "..":
			errno = syscall.ENOTEMPTY
		case r.n == nil:
			errno = r.missing()
		case r.n.isDir():
			switch {
			case how == 1:
				errno = syscall.EISDIR
			case len(r.n.children) > 0:
				errno = syscall.ENOTEMPTY
			default:
				delete(r.parent.children, r.base)
				r.parent.nlink--
				r.n.nlink = 0
				r.n.parent = nil
				f.touchDir(r.parent)
				p.Applied = true
			}
		case how == 2:
			errno = syscall.ENOTDIR
		default:
			delete(r.parent.children, r.base)
			r.n.nlink--
			f.touchDir(r.parent)
			p.Applied = true
		}
	}
	f.leave(p, errno)
	if errno != 0 {
		return pathErr("remove", name, errno)
	}
	return nil
}

func isAncestor(a, n *node) bool {
	for ; n != nil; n = n.parent {
		if n == a {
			return true
		}
	}
	return false
}

// Rename is rename(2): atomic replace of the target.
func (f *FS) Rename(oldname, newname string) error {
	f.mu.Lock()
	defer f.mu.Unlock()
	oldS, oldSlash := stripSlashes(oldname)
	newS, newSlash := stripSlashes(newname)
	ro, eo := f.walk(oldS)
	rn, en := f.walk(newS)
	p := f.enter(Op{Kind: "rename", Path: ro.path, Path2: rn.path, Mut: true})
	errno := syscall.Errno(0)
	lo, ln := lastComp(oldname), lastComp(newname)
	switch {
	case hasNUL(oldname) || hasNUL(newname):
		errno = syscall.EINVAL // refused by the system-call wrapper before the kernel looks at either name
	case eo != 0:
		errno = eo
	case en != 0:
		errno = en
	case lo == "." || lo == ".." || ln == "." || ln == ".." || ro.n == f.root || rn.n == f.root:
		errno = syscall.EBUSY
	case ro.n == nil:
		errno = ro.missing()
	case rn.long:
		errno = syscall.ENAMETOOLONG
	case len(f.mounts) > 0 && f.devOf(ro.path) != f.devOf(rn.path):
		errno = syscall.EXDEV
	case (oldSlash || newSlash) && !ro.n.isDir():
		errno = syscall.ENOTDIR
	case rn.n == ro.n:
		// same file: success, nothing happens
	case ro.n.isDir() && isAncestor(ro.n, rn.parent):
		errno = syscall.EINVAL
	case rn.n != nil && ro.n.isDir() && !rn.n.isDir():
		errno = syscall.ENOTDIR
	case rn.n != nil && !ro.n.isDir() && rn.n.isDir():
		errno = syscall.EISDIR
	case rn.n != nil && rn.n.isDir() && len(rn.n.children) > 0:
		errno = syscall.ENOTEMPTY
	case rn.n != nil && isAncestor(rn.n, ro.parent):
		// the target is a (necessarily non-empty) ancestor of the source
		errno = syscall.ENOTEMPTY
	case rn.parent.nlink == 0:
		errno = syscall.ENOENT
	default:
		if rn.n != nil {
			if rn.n.isDir() {
				rn.n.nlink = 0
				rn.n.parent = nil
				rn.parent.nlink--
			} else {
				rn.n.nlink--
			}
		}
		delete(ro.parent.children, ro.base)
		rn.parent.children[rn.base] = ro.n
		if ro.n.isDir() {
			ro.parent.nlink--
			rn.parent.nlink++
			ro.n.parent = rn.parent
		}
		f.touchDir(ro.parent)
		f.touchDir(rn.parent)
		p.Applied = true
	}
	f.leave(p, errno)
	if errno != 0 {
		return &os.LinkError{Op: "rename", Old: oldname, New: newname, Err: errno}
	}
	return nil
}

// Link creates a hard link to a regular file.
func (f *FS) Link(oldname, newname string) error {
	f.mu.Lock()
	defer f.mu.Unlock()
	ro, eo := f.walk(oldname)
	newS, newSlash := stripSlashes(newname)
	rn, en := f.walk(newS)
	p := f.enter(Op{Kind: "link", Path: ro.path, Path2: rn.path, Mut: true})
	errno := syscall.Errno(0)
	switch {
	case hasNUL(oldname) || hasNUL(newname):
		errno = syscall.EINVAL
	case eo != 0:
		errno = eo
	case ro.n == nil:
		errno = ro.missing()
	case en != 0:
		errno = en
	case rn.n != nil:
		errno = syscall.EEXIST
	case rn.long:
		errno = syscall.ENAMETOOLONG
	case rn.dirOnly || newSlash:
		errno = syscall.ENOENT
	case ro.n.isDir():
		errno = syscall.EPERM
	default:
		rn.parent.children[rn.base] = ro.n
		ro.n.nlink++
		f.touchDir(rn.parent)
		p.Applied = true
	}
	f.leave(p, errno)
	if errno != 0 {
		return &os.LinkError{Op: "link", Old: oldname, New: newname, Err: errno}
	}
	return nil
}

// Chmod changes the permission bits.
func (f *FS) Chmod(name string, mode fs.FileMode) error {
	f.mu.Lock()
	defer f.mu.Unlock()
	r, errno := f.walk(name)
	p := f.enter(Op{Kind: "chmod", Path: r.path, Mut: true})
	if errno == 0 && r.n == nil {
		errno = r.missing()
	}
	if errno == 0 {
		r.n.mode = r.n.mode&fs.ModeDir | mode.Perm()
		p.Applied = true
	}
	f.leave(p, errno)
	if errno != 0 {
		return pathErr("chmod", name, errno)
	}
	return nil
}

// Chtimes sets the modification time (a zero mtime leaves it alone).
func (f *FS) Chtimes(name string, atime, mtime time.Time) error {
	f.mu.Lock()
	defer f.mu.Unlock()
	r, errno := f.walk(name)
	p := f.enter(Op{Kind: "chtimes", Path: r.path, Mut: true})
	if errno == 0 && r.n == nil {
		errno = r.missing()
	}
	if errno == 0 {
		if !mtime.IsZero() {
			r.n.mtime = mtime
		}
		p.Applied = true
	}
	f.leave(p, errno)
	if errno != 0 {
		return pathErr("chtimes", name, errno)
	}
	return nil
}

// Truncate changes the size of a named file.
func (f *FS) Truncate(name string, size int64) error {
	f.mu.Lock()
	defer f.mu.Unlock()
	r, errno := f.walk(name)
	p := f.enter(Op{Kind: "truncate", Path: r.path, Mut: true, Off: size})
	switch {
	case size < 0:
		errno = syscall.EINVAL // checked before the name is looked at
	case errno != 0:
	case r.n == nil:
		errno = r.missing()
	case r.n.isDir():
		errno = syscall.EISDIR
	default:
		errno = f.resize(r.n, size)
		p.Applied = errno == 0
	}
	f.leave(p, errno)
	if errno != 0 {
		return pathErr("truncate", name, errno)
	}
	return nil
}

func (f *FS) resize(n *node, size int64) syscall.Errno {
	switch {
	case size < 0:
		return syscall.EINVAL
	case size > MaxFileSize:
		return syscall.EFBIG
	}
	if n.cow {
		n.data = append([]byte(nil), n.data...)
		n.cow = false
	}
	if int(size) <= len(n.data) {
		n.data = n.data[:size]
	} else {
		n.data = append(n.data, make([]byte, int(size)-len(n.data))...)
	}
	n.mtime = f.Now()
	return 0
}

// Chdir / Getwd: a per-disk working directory for relative names.
func (f *FS) Chdir(name string) error {
	f.mu.Lock()
	defer f.mu.Unlock()
	r, errno := f.walk(name)
	p := f.enter(Op{Kind: "chdir", Path: r.path})
	switch {
	case errno != 0:
	case r.n == nil:
		errno = r.missing()
	case !r.n.isDir():
		errno = syscall.ENOTDIR
	default:
		f.cwd = r.path
	}
	f.leave(p, errno)
	if errno != 0 {
		return pathErr("chdir", name, errno)
	}
	return nil
}

func (f *FS) Getwd() (string, error) {
	f.mu.Lock()
	defer f.mu.Unlock()
	p := f.enter(Op{Kind: "getwd", Path: f.cwd})
	wd := f.cwd
	f.leave(p, 0)
	return wd, nil
}

// TempName returns the next pseudo-random decimal string for CreateTemp /
// MkdirTemp: a deterministic function of how many were drawn on this disk.
func (f *FS) TempName() string {
	f.mu.Lock()
	defer f.mu.Unlock()
	f.tempSeq++
	x := f.tempSeq * 2654435761 // Knuth multiplicative hash: looks random, is not
	x ^= x >> 15
	return uitoa(uint64(x))
}

func uitoa(v uint64) string {
	if v == 0 {
		return "0"
	}
	var b [20]byte
	i := len(b)
	for v > 0 {
		i--
		b[i] = byte('0' + v%10)
		v /= 10
	}
	return string(b[i:])
}

// ---------------------------------------------------------------------------
// open files

// Handle is an open file or directory.
type Handle struct {
	fs     *FS
	n      *node
	name   string // as given to OpenFile (error messages)
	path   string // cleaned absolute path at open time (operation log)
	flag   int
	pos    int64
	closed bool
	epoch  int
	dirPos int
	dirEnt []*Info // snapshot taken by the first directory read
}

// OpenFile is open(2) with the os package's flag values.
func (f *FS) OpenFile(name string, flag int, perm fs.FileMode) (*Handle, error) {
	f.mu.Lock()
	defer f.mu.Unlock()
	r, errno := f.walk(name)
	if lc := lastComp(name); flag&os.O_CREATE != 0 && len(name) > 1 && strings.HasSuffix(name, "/") && !hasNUL(name) && lc != "." && lc != ".." && lc != "" {
		// open(2) with O_CREAT refuses a trailing slash with EISDIR once the
		// parent resolved, whatever the final component is
		stripped, _ := stripSlashes(name)
		if r, errno = f.walk(stripped); errno == 0 {
			errno = syscall.EISDIR
		}
	}
	mut := flag&(os.O_CREATE|os.O_TRUNC) != 0
	p := f.enter(Op{Kind: "open", Path: r.path, Flags: flag, Mut: mut})
	acc := flag & (os.O_RDONLY | os.O_WRONLY | os.O_RDWR)
	wr := acc == os.O_WRONLY || acc == os.O_RDWR
	var n *node
	if errno == 0 {
		if c := f.errFault("eacces-open", &f.nOpen); c != nil {
			p.Fault = "eacces-open"
			errno = syscall.EACCES
		}
	}
	switch {
	case errno != 0:
	case r.n == nil:
		switch {
		case r.long:
			errno = syscall.ENAMETOOLONG
		case flag&os.O_CREATE == 0:
			errno = syscall.ENOENT
		case strings.HasSuffix(name, "/"):
			errno = syscall.EISDIR
		case r.parent.nlink == 0:
			errno = syscall.ENOENT
		case f.full:
			errno = syscall.ENOSPC
		default:
			n = f.newNode(perm.Perm() &^ f.Umask)
			r.parent.children[r.base] = n
			f.touchDir(r.parent)
			p.Created, p.Applied = true, true
		}
	case flag&os.O_CREATE != 0 && flag&os.O_EXCL != 0:
		errno = syscall.EEXIST
	case r.n.isDir():
		if wr || flag&(os.O_CREATE|os.O_TRUNC) != 0 {
			errno = syscall.EISDIR
		} else {
			n = r.n
		}
	case r.dirOnly || flag&syscall.O_DIRECTORY != 0:
		errno = syscall.ENOTDIR
	default:
		n = r.n
		if flag&os.O_TRUNC != 0 {
			if n.cow {
				n.cow = false
				n.data = nil
			}
			n.data = n.data[:0:0]
			n.mtime = f.Now()
			p.Trunc, p.Applied = true, true
		}
	}
	f.leave(p, errno)
	if errno != 0 {
		return nil, pathErr("open", name, errno)
	}
	return &Handle{fs: f, n: n, name: name, path: r.path, flag: flag, epoch: f.epoch}, nil
}

func (h *Handle) Name() string { return h.name }
func (h *Handle) Path() string { return h.path }

func (h *Handle) readable() bool { return h.flag&(os.O_WRONLY|os.O_RDWR) != os.O_WRONLY }
func (h *Handle) writable() bool { return h.flag&(os.O_WRONLY|os.O_RDWR) != 0 }

// check returns the error every call on a closed or orphaned handle gives.
func (h *Handle) check(op string) error {
	if h.closed {
		return &os.PathError{Op: op, Path: h.name, Err: os.ErrClosed}
	}
	if h.epoch != h.fs.epoch {
		return pathErr(op, h.name, syscall.EBADF)
	}
	return nil
}

// errFault returns the error fault of the given kind that is due now, counting the call.
func (f *FS) errFault(kind string, counter *int) *Fault {
	n := *counter
	*counter = n + 1
	for i := range f.faults {
		c := &f.faults[i]
		if c.Kind != kind {
			continue
		}
		if c.Nth == n || (c.Sticky && n > c.Nth) {
			f.fired = append(f.fired, *c)
			return c
		}
	}
	return nil
}

func (h *Handle) Read(b []byte) (int, error) {
	f := h.fs
	f.mu.Lock()
	defer f.mu.Unlock()
	p := f.enter(Op{Kind: "read", Path: h.path, Off: h.pos})
	if err := h.check("read"); err != nil {
		f.leave(p, syscall.EBADF)
		return 0, err
	}
	if len(b) == 0 {
		f.leave(p, 0) // the real File.Read returns before the system call
		return 0, nil
	}
	n, errno := h.readAt(b, h.pos, p)
	h.pos += int64(n)
	p.N = n
	f.leave(p, errno)
	if errno != 0 {
		return n, pathErr("read", h.name, errno)
	}
	if n == 0 && len(b) > 0 {
		return 0, io.EOF
	}
	return n, nil
}

func (h *Handle) readAt(b []byte, off int64, p *Op) (int, syscall.Errno) {
	switch {
	case !h.readable():
		return 0, syscall.EBADF
	case h.n.isDir():
		return 0, syscall.EISDIR
	}
	if c := h.fs.errFault("eio-read", &h.fs.nRead); c != nil {
		p.Fault = "eio-read"
		return 0, syscall.EIO
	}
	if off >= int64(len(h.n.data)) {
		return 0, 0
	}
	return copy(b, h.n.data[off:]), 0
}

// ReadAt is pread(2) with io.ReaderAt's contract.
func (h *Handle) ReadAt(b []byte, off int64) (int, error) {
	f := h.fs
	f.mu.Lock()
	defer f.mu.Unlock()
	p := f.enter(Op{Kind: "read", Path: h.path, Off: off})
	if err := h.check("read"); err != nil {
		f.leave(p, syscall.EBADF)
		return 0, err
	}
	if off < 0 {
		f.leave(p, syscall.EINVAL)
		return 0, &os.PathError{Op: "readat", Path: h.name, Err: errNegativeOffset}
	}
	if len(b) == 0 {
		f.leave(p, 0)
		return 0, nil
	}
	n, errno := h.readAt(b, off, p)
	p.N = n
	f.leave(p, errno)
	if errno != 0 {
		return n, pathErr("read", h.name, errno)
	}
	if n < len(b) {
		return n, io.EOF
	}
	return n, nil
}

type strErr string

func (e strErr) Error() string { return string(e) }

const errNegativeOffset = strErr("negative offset")

func (h *Handle) Write(b []byte) (int, error) {
	f := h.fs
	f.mu.Lock()
	defer f.mu.Unlock()
	off := h.pos
	if h.flag&os.O_APPEND != 0 && h.n != nil {
		off = int64(len(h.n.data))
	}
	n, err := h.write(b, off)
	switch {
	case n == 0: // the file position is untouched by a failed or empty write
	case h.flag&os.O_APPEND != 0:
		h.pos = off + int64(n)
	default:
		h.pos += int64(n)
	}
	return n, err
}

// WriteAt is pwrite(2).
func (h *Handle) WriteAt(b []byte, off int64) (int, error) {
	f := h.fs
	f.mu.Lock()
	defer f.mu.Unlock()
	if h.flag&os.O_APPEND != 0 {
		return 0, strErr("os: invalid use of WriteAt on file opened with O_APPEND")
	}
	if off < 0 {
		return 0, &os.PathError{Op: "writeat", Path: h.name, Err: errNegativeOffset}
	}
	if len(b) == 0 {
		return 0, nil // the real WriteAt loops "while bytes remain": no system call
	}
	return h.write(b, off)
}

// write is the one place where data reaches the disk; f.mu is held.
func (h *Handle) write(b []byte, off int64) (int, error) {
	f := h.fs
	p := f.enter(Op{Kind: "write", Path: h.path, N: len(b), Off: off, Mut: true})
	if err := h.check("write"); err != nil {
		f.leave(p, syscall.EBADF)
		return 0, err
	}
	errno := syscall.Errno(0)
	k := len(b)
	var torn *Fault
	switch {
	case !h.writable():
		errno, k = syscall.EBADF, 0
	case h.n.isDir():
		errno, k = syscall.EBADF, 0
	case off+int64(len(b)) > MaxFileSize:
		errno, k = syscall.EFBIG, 0
	default:
		if c := f.crashFor(p.Idx); c != nil && c.Phase == "torn" {
			torn = c
			k = clamp(c.Bytes, 0, len(b))
		} else if c := f.writeFault(); c != nil {
			p.Fault = c.Kind
			k = clamp(c.Bytes, 0, len(b))
			errno = syscall.ENOSPC
			if c.Kind == "eio-write" {
				errno = syscall.EIO
			}
		}
	}
	if k > 0 {
		n := h.n
		if n.cow {
			n.data = append([]byte(nil), n.data...)
			n.cow = false
		}
		end := int(off) + k
		if old := len(n.data); end > old {
			if end <= cap(n.data) {
				n.data = n.data[:end]
				clear(n.data[old:end]) // a hole reads as zeros, never as stale bytes
			} else {
				grown := make([]byte, end, end+end/4+64)
				copy(grown, n.data)
				n.data = grown
			}
		}
		copy(n.data[off:], b[:k])
		n.mtime = f.Now()
		p.Applied = true
	}
	p.Done = k
	if torn != nil && k < len(b) {
		f.die(p, *torn, "crash-torn")
	}
	f.leave(p, errno)
	if errno != 0 {
		return k, pathErr("write", h.name, errno)
	}
	return k, nil
}

func (f *FS) writeFault() *Fault {
	n := f.nWrite
	f.nWrite++
	for i := range f.faults {
		c := &f.faults[i]
		if c.Kind != "enospc" && c.Kind != "eio-write" {
			continue
		}
		if c.Nth == n {
			if c.Sticky {
				f.full = true
			}
			f.fired = append(f.fired, *c)
			return c
		}
		if c.Sticky && n > c.Nth {
			z := *c
			z.Bytes = 0
			f.fired = append(f.fired, z)
			return &z
		}
	}
	return nil
}

func clamp(v, lo, hi int) int {
	if v < lo {
		return lo
	}
	if v > hi {
		return hi
	}
	return v
}

func (h *Handle) Seek(offset int64, whence int) (int64, error) {
	f := h.fs
	f.mu.Lock()
	defer f.mu.Unlock()
	p := f.enter(Op{Kind: "seek", Path: h.path, Off: offset})
	if err := h.check("seek"); err != nil {
		f.leave(p, syscall.EBADF)
		return 0, err
	}
	var np int64
	switch whence {
	case io.SeekStart:
		np = offset
	case io.SeekCurrent:
		np = h.pos + offset
	case io.SeekEnd:
		np = int64(len(h.n.data)) + offset
		if h.n.isDir() {
			np = offset
		}
	default:
		np = -1
	}
	if np < 0 {
		f.leave(p, syscall.EINVAL)
		return 0, pathErr("seek", h.name, syscall.EINVAL)
	}
	h.pos = np
	if h.n.isDir() && np == 0 {
		h.dirEnt, h.dirPos = nil, 0
	}
	f.leave(p, 0)
	return np, nil
}

func (h *Handle) Close() error {
	f := h.fs
	f.mu.Lock()
	defer f.mu.Unlock()
	p := f.enter(Op{Kind: "close", Path: h.path})
	if h.closed {
		f.leave(p, syscall.EBADF)
		return &os.PathError{Op: "close", Path: h.name, Err: os.ErrClosed}
	}
	h.closed = true
	f.leave(p, 0)
	return nil
}

func (h *Handle) Sync() error {
	f := h.fs
	f.mu.Lock()
	defer f.mu.Unlock()
	p := f.enter(Op{Kind: "sync", Path: h.path})
	if err := h.check("sync"); err != nil {
		f.leave(p, syscall.EBADF)
		return err
	}
	f.leave(p, 0)
	return nil
}

func (h *Handle) Stat() (fs.FileInfo, error) {
	f := h.fs
	f.mu.Lock()
	defer f.mu.Unlock()
	p := f.enter(Op{Kind: "stat", Path: h.path})
	if err := h.check("stat"); err != nil {
		f.leave(p, syscall.EBADF)
		return nil, err
	}
	fi := infoOf(h.n, Basename(h.name))
	f.leave(p, 0)
	return fi, nil
}

func (h *Handle) Truncate(size int64) error {
	f := h.fs
	f.mu.Lock()
	defer f.mu.Unlock()
	p := f.enter(Op{Kind: "truncate", Path: h.path, Off: size, Mut: true})
	if err := h.check("truncate"); err != nil {
		f.leave(p, syscall.EBADF)
		return err
	}
	errno := syscall.Errno(0)
	switch {
	case h.n.isDir() || !h.writable():
		errno = syscall.EINVAL
	default:
		errno = f.resize(h.n, size)
		p.Applied = errno == 0
	}
	f.leave(p, errno)
	if errno != 0 {
		return pathErr("truncate", h.name, errno)
	}
	return nil
}

func (h *Handle) Chmod(mode fs.FileMode) error {
	f := h.fs
	f.mu.Lock()
	defer f.mu.Unlock()
	p := f.enter(Op{Kind: "chmod", Path: h.path, Mut: true})
	if err := h.check("chmod"); err != nil {
		f.leave(p, syscall.EBADF)
		return err
	}
	h.n.mode = h.n.mode&fs.ModeDir | mode.Perm()
	p.Applied = true
	f.leave(p, 0)
	return nil
}

// ReadDir returns up to n entries (all when n <= 0) in directory order, which
// is deliberately not alphabetical: a deterministic scramble of the names, so
// that code relying on sorted directory reads is exposed as it would be on a
// real disk. With n > 0 the end of the directory is io.EOF.
func (h *Handle) ReadDir(n int) ([]*Info, error) {
	f := h.fs
	f.mu.Lock()
	defer f.mu.Unlock()
	p := f.enter(Op{Kind: "readdir", Path: h.path})
	if err := h.check("readdirent"); err != nil {
		f.leave(p, syscall.EBADF)
		return nil, err
	}
	if !h.n.isDir() {
		f.leave(p, syscall.ENOTDIR)
		return nil, pathErr("readdirent", h.name, syscall.ENOTDIR)
	}
	if h.n.nlink == 0 {
		// the directory was removed while open
		f.leave(p, syscall.ENOENT)
		return nil, pathErr("readdirent", h.name, syscall.ENOENT)
	}
	if h.dirEnt == nil {
		names := make([]string, 0, len(h.n.children))
		for k := range h.n.children {
			names = append(names, k)
		}
		sort.Slice(names, func(i, j int) bool {
			hi, hj := scramble(names[i]), scramble(names[j])
			if hi != hj {
				return hi < hj
			}
			return names[i] < names[j]
		})
		h.dirEnt = make([]*Info, len(names))
		for i, k := range names {
			h.dirEnt[i] = infoOf(h.n.children[k], k)
		}
		h.dirPos = 0
	}
	rest := h.dirEnt[h.dirPos:]
	if n > 0 && len(rest) > n {
		rest = rest[:n]
	}
	h.dirPos += len(rest)
	p.N = len(rest)
	f.leave(p, 0)
	if n > 0 && len(rest) == 0 {
		return nil, io.EOF
	}
	return rest, nil
}

func scramble(s string) uint32 {
	h := uint32(2166136261)
	for i := 0; i < len(s); i++ {
		h ^= uint32(s[i])
		h *= 16777619
	}
	return h
}
