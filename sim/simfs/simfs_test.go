package simfs_test

import (
	"errors"
	"os"
	"sync"
	"syscall"
	"testing"
	"testing/synctest"
	"time"

	shimioutil "verif/sim/shim/ioutil"
	shimlog "verif/sim/shim/log"
	shimos "verif/sim/shim/os"
	"verif/sim/simfs"
)

func setup(t *testing.T) *simfs.FS {
	d := simfs.New()
	simfs.Use(d)
	t.Cleanup(func() { simfs.Use(nil) })
	if err := d.PutDir("/m/in"); err != nil {
		t.Fatal(err)
	}
	d.Put("/m/in/old.b2f", []byte("OLD-CONTENT"), 0o644)
	return d
}

// run executes f as "the process": a crash or exit sentinel is recovered.
func run(f func()) (died any) {
	defer func() {
		if r := recover(); r != nil {
			if !simfs.IsProcessDeath(r) {
				panic(r)
			}
			died = r
		}
	}()
	f()
	return nil
}

func TestCrashPointsOfWriteFile(t *testing.T) {
	payload := []byte("0123456789")
	// pilot
	d := setup(t)
	d.ResetLog()
	if err := shimioutil.WriteFile("/m/in/new.b2f", payload, 0o644); err != nil {
		t.Fatal(err)
	}
	log := d.Log()
	if len(log) != 3 || log[0].Kind != "open" || log[1].Kind != "write" || log[2].Kind != "close" {
		t.Fatalf("pilot log: %+v", log)
	}
	if !log[0].Created || !log[0].Applied || log[1].Done != 10 || !log[1].Mut {
		t.Fatalf("pilot flags: %+v", log)
	}
	type want struct {
		exists bool
		data   string
	}
	cases := []struct {
		f simfs.Fault
		w want
	}{
		{simfs.Fault{Kind: "crash", Call: 0, Phase: "before"}, want{false, ""}},
		{simfs.Fault{Kind: "crash", Call: 0, Phase: "after"}, want{true, ""}},
		{simfs.Fault{Kind: "crash", Call: 1, Phase: "before"}, want{true, ""}},
		{simfs.Fault{Kind: "crash", Call: 1, Phase: "torn", Bytes: 0}, want{true, ""}},
		{simfs.Fault{Kind: "crash", Call: 1, Phase: "torn", Bytes: 4}, want{true, "0123"}},
		{simfs.Fault{Kind: "crash", Call: 1, Phase: "torn", Bytes: 10}, want{true, "0123456789"}},
		{simfs.Fault{Kind: "crash", Call: 1, Phase: "after"}, want{true, "0123456789"}},
		{simfs.Fault{Kind: "crash", Call: 2, Phase: "before"}, want{true, "0123456789"}},
		{simfs.Fault{Kind: "crash", Call: 2, Phase: "after"}, want{true, "0123456789"}},
	}
	for _, c := range cases {
		d := setup(t)
		d.ResetLog()
		d.SetFaults(c.f)
		cleanupRan, cleanupDied := false, false
		died := run(func() {
			defer func() {
				// deferred clean-up code of the dying process must not reach the disk
				cleanupRan = true
				defer func() {
					if r := recover(); r != nil {
						cleanupDied = simfs.IsProcessDeath(r)
						panic(r)
					}
				}()
				shimos.Remove("/m/in/new.b2f")
			}()
			shimioutil.WriteFile("/m/in/new.b2f", payload, 0o644)
		})
		if died == nil {
			t.Fatalf("%v: no crash", c.f)
		}
		if _, ok := simfs.IsCrash(died); !ok {
			t.Fatalf("%v: wrong sentinel %v", c.f, died)
		}
		if !cleanupRan || !cleanupDied {
			t.Fatalf("%v: deferred clean-up was able to use the disk after the crash", c.f)
		}
		if !d.Crashed() || len(d.Fired()) != 1 {
			t.Fatalf("%v: crashed=%v fired=%v", c.f, d.Crashed(), d.Fired())
		}
		d.Revive()
		data, ok := d.Peek("/m/in/new.b2f")
		if ok != c.w.exists || string(data) != c.w.data {
			t.Errorf("%v: survived exists=%v %q, want %v %q", c.f, ok, data, c.w.exists, c.w.data)
		}
		if old, _ := d.Peek("/m/in/old.b2f"); string(old) != "OLD-CONTENT" {
			t.Errorf("%v: unrelated file changed", c.f)
		}
		// the restarted process can use the disk
		if _, err := shimos.ReadFile("/m/in/old.b2f"); err != nil {
			t.Errorf("%v: after Revive: %v", c.f, err)
		}
	}
}

func TestHandlesDieWithTheProcess(t *testing.T) {
	d := setup(t)
	f, err := shimos.Create("/m/x")
	if err != nil {
		t.Fatal(err)
	}
	d.Revive()
	if _, err := f.Write([]byte("a")); !errors.Is(err, syscall.EBADF) {
		t.Fatalf("write through a handle of the previous life: %v", err)
	}
}

func TestErrorFaults(t *testing.T) {
	d := setup(t)
	d.ResetLog()
	d.SetFaults(simfs.Fault{Kind: "enospc", Nth: 0, Bytes: 3})
	err := shimioutil.WriteFile("/m/in/new.b2f", []byte("0123456789"), 0o644)
	if !errors.Is(err, syscall.ENOSPC) {
		t.Fatalf("want ENOSPC, got %v", err)
	}
	var pe *os.PathError
	if !errors.As(err, &pe) || pe.Op != "write" {
		t.Fatalf("want *PathError{write}, got %#v", err)
	}
	if data, _ := d.Peek("/m/in/new.b2f"); string(data) != "012" {
		t.Fatalf("short write left %q", data)
	}
	if len(d.Fired()) != 1 {
		t.Fatalf("fired %v", d.Fired())
	}
	// non-sticky: the next write works
	if err := shimioutil.WriteFile("/m/in/new.b2f", []byte("ab"), 0o644); err != nil {
		t.Fatal(err)
	}

	d = setup(t)
	d.ResetLog()
	d.SetFaults(simfs.Fault{Kind: "enospc", Nth: 0, Bytes: 1, Sticky: true})
	shimioutil.WriteFile("/m/a", []byte("xyz"), 0o644)
	if err := shimioutil.WriteFile("/m/b", []byte("xyz"), 0o644); !errors.Is(err, syscall.ENOSPC) {
		t.Fatalf("sticky ENOSPC: second file: %v", err)
	}
	if err := shimos.Remove("/m/a"); err != nil {
		t.Fatalf("remove on a full disk: %v", err)
	}

	d = setup(t)
	d.ResetLog()
	d.SetFaults(simfs.Fault{Kind: "eio-read", Nth: 0})
	if _, err := shimioutil.ReadFile("/m/in/old.b2f"); !errors.Is(err, syscall.EIO) {
		t.Fatalf("want EIO, got %v", err)
	}
	if b, err := shimioutil.ReadFile("/m/in/old.b2f"); err != nil || string(b) != "OLD-CONTENT" {
		t.Fatalf("second read: %q %v", b, err)
	}

	d = setup(t)
	d.ResetLog()
	d.SetFaults(simfs.Fault{Kind: "eacces-open", Nth: 1})
	if _, err := shimos.Open("/m/in/old.b2f"); err != nil {
		t.Fatal(err)
	}
	if _, err := shimos.Open("/m/in/old.b2f"); !shimos.IsPermission(err) {
		t.Fatalf("want EACCES, got %v", err)
	}
}

func TestCloneIsIndependentAndDeterministic(t *testing.T) {
	d := setup(t)
	h0 := d.Hash()
	c := d.Clone()
	if c.Hash() != h0 || c.Dump(simfs.DumpOpt{Mode: true, Ino: true, MTime: true}) != d.Dump(simfs.DumpOpt{Mode: true, Ino: true, MTime: true}) {
		t.Fatal("clone differs")
	}
	simfs.Use(c)
	f, _ := shimos.OpenFile("/m/in/old.b2f", shimos.O_WRONLY, 0)
	f.Write([]byte("new"))
	f.Close()
	shimos.WriteFile("/m/in/other", []byte("x"), 0o600)
	if d.Hash() != h0 {
		t.Fatal("writing to the clone changed the original")
	}
	if b, _ := c.Peek("/m/in/old.b2f"); string(b) != "new-CONTENT" {
		t.Fatalf("clone content %q", b)
	}
	// and the other direction
	c2 := d.Clone()
	simfs.Use(d)
	shimos.Truncate("/m/in/old.b2f", 3)
	if b, _ := c2.Peek("/m/in/old.b2f"); string(b) != "OLD-CONTENT" {
		t.Fatalf("writing to the original changed a clone: %q", b)
	}
}

func TestEscapes(t *testing.T) {
	d := setup(t)
	d.PutDir("/m/out")
	d.PutDir("/m/sent")
	d.Put("/victim.b2f", []byte("v"), 0o644)
	d.ResetLog()
	shimioutil.WriteFile("/m/in/../../x.b2f", []byte("abc"), 0o644)      // create + write outside
	shimos.Open("/victim.b2f")                                           // read-only probe
	shimos.Rename("/m/out/../../victim.b2f", "/m/sent/../../victim.b2f") // onto itself: no effect
	shimos.Remove("/nothing")                                            // fails
	shimioutil.WriteFile("/m/in/ok.b2f", []byte("abc"), 0o644)           // inside
	shimos.Rename("/m/in/ok.b2f", "/elsewhere.b2f")                      // target outside
	esc := d.Escapes("/m")
	var kinds []string
	for _, o := range esc {
		kinds = append(kinds, o.Kind+":"+o.Path+":"+o.Path2)
	}
	want := []string{"open:/x.b2f:", "write:/x.b2f:", "rename:/m/in/ok.b2f:/elsewhere.b2f"}
	if len(kinds) != len(want) {
		t.Fatalf("escapes %v, want %v", kinds, want)
	}
	for i := range want {
		if kinds[i] != want[i] {
			t.Fatalf("escapes %v, want %v", kinds, want)
		}
	}
	if n := len(d.Attempts("/m")); n != 2 {
		t.Fatalf("attempts: %d %+v", n, d.Attempts("/m"))
	}
	if n := len(d.ReadsOutside("/m")); n < 1 {
		t.Fatalf("reads outside: %d", n)
	}
	if !simfs.Under("/m", "/m") || !simfs.Under("/m/", "/m/in/x") || simfs.Under("/m", "/m-evil/x") || simfs.Under("/m", "/") {
		t.Fatal("Under")
	}
}

func TestFatalfAndExitAreRecordedDeaths(t *testing.T) {
	d := setup(t)
	died := run(func() {
		defer shimos.Remove("/m/in/old.b2f") // must not happen: exit runs no deferred functions
		shimlog.Printf("hello %d", 1)
		shimlog.Fatalf("Unable to move %s", "x")
	})
	de, ok := simfs.IsDeath(died)
	if !ok || de.Reason != "log-fatal" || de.Msg != "Unable to move x" {
		t.Fatalf("death: %#v", died)
	}
	if ex, _ := d.Exists("/m/in/old.b2f"); !ex {
		t.Fatal("deferred clean-up of a dead process reached the disk")
	}
	// other goroutines are other processes: unaffected
	var wg sync.WaitGroup
	wg.Add(1)
	var err error
	go func() { defer wg.Done(); _, err = shimos.Stat("/m") }()
	wg.Wait()
	if err != nil {
		t.Fatal(err)
	}
	d.Revive()
	if _, err := shimos.Stat("/m"); err != nil {
		t.Fatal(err)
	}
	notes := d.Notes()
	if len(notes) != 2 || notes[0].Kind != "log" || notes[0].Text != "hello 1" || notes[1].Kind != "log-fatal" {
		t.Fatalf("notes %+v", notes)
	}
	if ds := d.Deaths(); len(ds) != 1 || ds[0].Code != 1 {
		t.Fatalf("deaths %+v", ds)
	}
	died = run(func() { shimos.Exit(3) })
	if de, ok := simfs.IsDeath(died); !ok || de.Reason != "os-exit" || de.Code != 3 {
		t.Fatalf("exit: %#v", died)
	}
}

func TestInsideBubbleWithGoroutines(t *testing.T) {
	synctest.Test(t, func(t *testing.T) {
		d := simfs.New()
		simfs.Use(d)
		defer simfs.Use(nil)
		d.PutDir("/m")
		start := time.Now()
		var wg sync.WaitGroup
		for i := 0; i < 4; i++ {
			wg.Add(1)
			go func(i int) {
				defer wg.Done()
				time.Sleep(time.Duration(i+1) * time.Hour)
				shimos.WriteFile("/m/"+string(rune('a'+i)), []byte("x"), 0o644)
			}(i)
		}
		wg.Wait()
		fi, err := shimos.Stat("/m/d")
		if err != nil {
			t.Fatal(err)
		}
		if got := fi.ModTime().Sub(start); got != 4*time.Hour {
			t.Fatalf("mtime on the simulated clock: %v", got)
		}
		if len(d.Names("/m")) != 4 {
			t.Fatal(d.Names("/m"))
		}
	})
}

func TestTempNamesAreDeterministic(t *testing.T) {
	var names [2][]string
	for k := 0; k < 2; k++ {
		d := setup(t)
		d.PutDir("/tmp")
		for i := 0; i < 5; i++ {
			f, err := shimos.CreateTemp("", "msg-*.tmp")
			if err != nil {
				t.Fatal(err)
			}
			names[k] = append(names[k], f.Name())
			f.Close()
		}
		dir, err := shimos.MkdirTemp("/m", "d")
		if err != nil {
			t.Fatal(err)
		}
		names[k] = append(names[k], dir)
	}
	for i := range names[0] {
		if names[0][i] != names[1][i] {
			t.Fatalf("temp names differ between identical runs: %v vs %v", names[0], names[1])
		}
	}
}
