package simfs

import (
	"crypto/sha256"
	"encoding/hex"
	"fmt"
	"io/fs"
	"path"
	"sort"
	"strings"
	"syscall"
)

// Clone returns an independent copy of the tree (same inode numbers, modes and
// mtimes; file contents are shared copy-on-write). The copy has an empty log,
// no fault plan, no open handles, no recorded deaths or notes.
func (f *FS) Clone() *FS {
	f.mu.Lock()
	defer f.mu.Unlock()
	c := &FS{cwd: "/", Umask: f.Umask, Now: f.Now, nextIno: f.nextIno, tempSeq: f.tempSeq, mounts: append([]string(nil), f.mounts...)}
	seen := map[*node]*node{}
	var cp func(n, parent *node) *node
	cp = func(n, parent *node) *node {
		if m := seen[n]; m != nil {
			return m // hard link
		}
		m := &node{ino: n.ino, mode: n.mode, mtime: n.mtime, nlink: n.nlink}
		seen[n] = m
		if n.isDir() {
			m.parent = parent
			m.children = make(map[string]*node, len(n.children))
			for k, ch := range n.children {
				m.children[k] = cp(ch, m)
			}
		} else {
			n.cow = true
			m.cow = true
			m.data = n.data
		}
		return m
	}
	c.root = cp(f.root, nil)
	return c
}

// Entry is one line of a tree listing.
type Entry struct {
	Path  string
	Dir   bool
	Mode  fs.FileMode
	Size  int
	Ino   uint64
	Nlink int
	MTime int64 // UnixNano
	Data  []byte
}

// Tree lists the whole tree in path order (no logging, not a "call").
func (f *FS) Tree() []Entry {
	f.mu.Lock()
	defer f.mu.Unlock()
	var out []Entry
	var rec func(p string, n *node)
	rec = func(p string, n *node) {
		e := Entry{Path: p, Dir: n.isDir(), Mode: n.mode, Ino: n.ino, Nlink: n.nlink, MTime: n.mtime.UnixNano()}
		if !n.isDir() {
			e.Size = len(n.data)
			e.Data = n.data
		}
		out = append(out, e)
		if n.isDir() {
			names := make([]string, 0, len(n.children))
			for k := range n.children {
				names = append(names, k)
			}
			sort.Strings(names)
			for _, k := range names {
				rec(path.Join(p, k), n.children[k])
			}
		}
	}
	rec("/", f.root)
	return out
}

// DumpOpt selects what a dump shows besides path, kind and content hash.
type DumpOpt struct {
	Mode, Ino, MTime bool
}

// Dump renders the tree deterministically, one line per entry.
func (f *FS) Dump(o DumpOpt) string {
	var sb strings.Builder
	for _, e := range f.Tree() {
		if e.Dir {
			fmt.Fprintf(&sb, "d %s", e.Path)
		} else {
			sum := sha256.Sum256(e.Data)
			fmt.Fprintf(&sb, "f %s size=%d sha=%s", e.Path, e.Size, hex.EncodeToString(sum[:8]))
		}
		if o.Mode {
			fmt.Fprintf(&sb, " mode=%04o", e.Mode.Perm())
		}
		if o.Ino {
			fmt.Fprintf(&sb, " ino=%d nlink=%d", e.Ino, e.Nlink)
		}
		if o.MTime {
			fmt.Fprintf(&sb, " mtime=%d", e.MTime)
		}
		sb.WriteByte('\n')
	}
	return sb.String()
}

// Hash is a short digest of Dump with modes (no inode numbers, no mtimes).
func (f *FS) Hash() string {
	sum := sha256.Sum256([]byte(f.Dump(DumpOpt{Mode: true})))
	return hex.EncodeToString(sum[:12])
}

// ---------------------------------------------------------------------------
// harness-side access: not "calls", never logged, never faulted

// Peek returns the content of a regular file.
func (f *FS) Peek(name string) ([]byte, bool) {
	f.mu.Lock()
	defer f.mu.Unlock()
	r, errno := f.walk(name)
	if errno != 0 || r.n == nil || r.n.isDir() {
		return nil, false
	}
	return append([]byte(nil), r.n.data...), true
}

// Exists reports whether name exists, and whether it is a directory.
func (f *FS) Exists(name string) (exists, dir bool) {
	f.mu.Lock()
	defer f.mu.Unlock()
	r, errno := f.walk(name)
	if errno != 0 || r.n == nil {
		return false, false
	}
	return true, r.n.isDir()
}

// Names returns the sorted entry names of a directory (nil if it is none).
func (f *FS) Names(dir string) []string {
	f.mu.Lock()
	defer f.mu.Unlock()
	r, errno := f.walk(dir)
	if errno != 0 || r.n == nil || !r.n.isDir() {
		return nil
	}
	names := make([]string, 0, len(r.n.children))
	for k := range r.n.children {
		names = append(names, k)
	}
	sort.Strings(names)
	return names
}

// PutDir creates a directory and its parents (mode 0755), bypassing log and faults.
func (f *FS) PutDir(name string) error {
	f.mu.Lock()
	defer f.mu.Unlock()
	_, err := f.putDir(name)
	return err
}

func (f *FS) putDir(name string) (*node, error) {
	if hasNUL(name) {
		return nil, syscall.EINVAL
	}
	cur := f.root
	for _, c := range strings.Split(f.abs(name), "/") {
		if c == "" {
			continue
		}
		if len(c) > NameMax {
			return nil, syscall.ENAMETOOLONG
		}
		ch := cur.children[c]
		if ch == nil {
			ch = f.newNode(fs.ModeDir | 0o755)
			ch.parent = cur
			cur.children[c] = ch
			cur.nlink++
		} else if !ch.isDir() {
			return nil, syscall.ENOTDIR
		}
		cur = ch
	}
	return cur, nil
}

// Put creates or replaces a regular file (parents are created), bypassing log and faults.
func (f *FS) Put(name string, data []byte, mode fs.FileMode) error {
	f.mu.Lock()
	defer f.mu.Unlock()
	abs := f.abs(name)
	if hasNUL(name) || abs == "/" {
		return syscall.EINVAL
	}
	dir, err := f.putDir(path.Dir(abs))
	if err != nil {
		return err
	}
	base := path.Base(abs)
	if len(base) > NameMax {
		return syscall.ENAMETOOLONG
	}
	n := dir.children[base]
	if n == nil {
		n = f.newNode(mode.Perm())
		dir.children[base] = n
	} else if n.isDir() {
		return syscall.EISDIR
	}
	n.data = append([]byte(nil), data...)
	n.cow = false
	n.mtime = f.Now()
	return nil
}
