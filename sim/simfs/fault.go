package simfs

import (
	"bytes"
	"fmt"
	"runtime"
	"strconv"
	"strings"
)

// Fault is one entry of a disk's fault plan. It is plain JSON so that it can
// live inside an engine's plan / replay file.
//
//	crash        the process dies at call index Call (counted from the last
//	             ResetLog): Phase "before" = nothing of the call is applied,
//	             "after" = all of it, "torn" = the first Bytes bytes of that
//	             write are applied (a "torn" on a call that is not a write, or
//	             with Bytes >= the write's length, behaves like "after").
//	enospc       the Nth write call (0-based, counted from the last ResetLog)
//	             applies its first Bytes bytes and fails with ENOSPC; Sticky:
//	             every later write and file creation fails too (disk stays full).
//	eio-write    same with EIO.
//	eio-read     the Nth read call fails with EIO.
//	eacces-open  the Nth open call fails with EACCES.
//	eacces-stat  the Nth stat/lstat call fails with EACCES.
type Fault struct {
	Kind   string `json:"kind"`
	Call   int    `json:"call,omitempty"`
	Phase  string `json:"phase,omitempty"`
	Bytes  int    `json:"bytes,omitempty"`
	Nth    int    `json:"nth,omitempty"`
	Sticky bool   `json:"sticky,omitempty"`
}

func (c Fault) String() string {
	switch c.Kind {
	case "crash":
		if c.Phase == "torn" {
			return fmt.Sprintf("crash inside call #%d after %d bytes", c.Call, c.Bytes)
		}
		return fmt.Sprintf("crash %s call #%d", c.Phase, c.Call)
	case "enospc", "eio-write":
		return fmt.Sprintf("%s on write #%d after %d bytes (sticky=%v)", c.Kind, c.Nth, c.Bytes, c.Sticky)
	}
	return fmt.Sprintf("%s on #%d", c.Kind, c.Nth)
}

// SetFaults installs the fault plan (replacing any earlier one). Unknown kinds
// and phases are tolerated: an unknown phase counts as "after".
func (f *FS) SetFaults(faults ...Fault) {
	f.mu.Lock()
	defer f.mu.Unlock()
	f.faults = append([]Fault(nil), faults...)
	f.fired = nil
	f.full = false
}

// Fired lists the faults that actually fired since SetFaults.
func (f *FS) Fired() []Fault {
	f.mu.Lock()
	defer f.mu.Unlock()
	return append([]Fault(nil), f.fired...)
}

// crash is the private sentinel a crash fault panics with.
type crash struct{ op Op }

func (c *crash) Error() string {
	return fmt.Sprintf("VERIF-SIMFS-CRASH: simulated process death at file-system call #%d (%s %s, %s)", c.op.Idx, c.op.Kind, c.op.Path, c.op.Fault)
}

// IsCrash reports whether a recovered panic value is the crash sentinel; if so
// it also returns the call at which the process died.
func IsCrash(v any) (Op, bool) {
	if c, ok := v.(*crash); ok {
		return c.op, true
	}
	return Op{}, false
}

// Crashed reports whether a crash fault has fired and the disk refuses service.
func (f *FS) Crashed() bool {
	f.mu.Lock()
	defer f.mu.Unlock()
	return f.crashed
}

// Death is what os.Exit and log.Fatal* of the shims panic with: the calling
// goroutine's "process" is dead. It is recoverable because it happens on the
// calling goroutine. Until Revive, every further disk call from that goroutine
// panics with the same value, so deferred clean-up code cannot change what
// survived (a real exit runs no deferred functions).
type Death struct {
	Reason string // "log-fatal" | "os-exit"
	Code   int
	Msg    string
}

func (d *Death) Error() string {
	tag := "VERIF-EXIT"
	if d.Reason == "log-fatal" {
		tag = "VERIF-FATALF"
	}
	return fmt.Sprintf("%s: simulated process exit (%s, code %d): %s", tag, d.Reason, d.Code, d.Msg)
}

// IsDeath reports whether a recovered panic value is a simulated process exit.
func IsDeath(v any) (*Death, bool) {
	d, ok := v.(*Death)
	return d, ok
}

// IsProcessDeath covers both sentinels: crash fault and exit/fatal.
func IsProcessDeath(v any) bool {
	if _, ok := v.(*crash); ok {
		return true
	}
	_, ok := v.(*Death)
	return ok
}

// Die records a process exit on the current disk (if any) and panics with a
// *Death. Used by the shims' os.Exit and log.Fatal*.
func Die(reason string, code int, msg string) {
	d := &Death{Reason: reason, Code: code, Msg: msg}
	if f := Current(); f != nil {
		f.mu.Lock()
		f.deaths = append(f.deaths, *d)
		if f.dead == nil {
			f.dead = map[uint64]*Death{}
		}
		f.dead[goid()] = d
		f.mu.Unlock()
	}
	panic(d)
}

// Deaths lists the recorded exits ("log-fatal", "os-exit") since the last Revive... they
// are kept across Revive; use TakeDeaths to consume them.
func (f *FS) Deaths() []Death {
	f.mu.Lock()
	defer f.mu.Unlock()
	return append([]Death(nil), f.deaths...)
}

func (f *FS) TakeDeaths() []Death {
	f.mu.Lock()
	defer f.mu.Unlock()
	d := f.deaths
	f.deaths = nil
	return d
}

// Revive is "the machine restarts the program": the surviving tree becomes
// usable again, the fault plan is dropped, every handle opened before is dead
// (EBADF), goroutines marked dead by Die may call again, the working directory
// is "/" again. The log is kept (use ResetLog).
func (f *FS) Revive() {
	f.mu.Lock()
	defer f.mu.Unlock()
	f.crashed = false
	f.sentinel = nil
	f.faults = nil
	f.full = false
	f.dead = nil
	f.epoch++
	f.cwd = "/"
}

// Note is a line recorded by the log shim (or anything else that wants to leave
// a trace next to the disk's own log).
type Note struct {
	Kind string // "log" | "log-fatal" | "os-exit" | ...
	Text string
}

const maxNotes = 4096

func (f *FS) AddNote(kind, text string) {
	f.mu.Lock()
	defer f.mu.Unlock()
	if len(f.notes) < maxNotes {
		f.notes = append(f.notes, Note{kind, text})
	}
}

func (f *FS) Notes() []Note {
	f.mu.Lock()
	defer f.mu.Unlock()
	return append([]Note(nil), f.notes...)
}

func (f *FS) TakeNotes() []Note {
	f.mu.Lock()
	defer f.mu.Unlock()
	n := f.notes
	f.notes = nil
	return n
}

// goid parses the current goroutine id from the stack header.
func goid() uint64 {
	var buf [64]byte
	n := runtime.Stack(buf[:], false)
	b := bytes.TrimPrefix(buf[:n], []byte("goroutine "))
	i := bytes.IndexByte(b, ' ')
	if i < 0 {
		return 0
	}
	id, _ := strconv.ParseUint(string(b[:i]), 10, 64)
	return id
}

// ---------------------------------------------------------------------------
// path-confinement oracle (C12)

// Under reports whether the cleaned absolute path p is root itself or below it.
func Under(root, p string) bool {
	root = strings.TrimRight(root, "/")
	if root == "" {
		return true
	}
	return p == root || strings.HasPrefix(p, root+"/")
}

func outside(root string, o Op) bool {
	if !Under(root, o.Path) {
		return true
	}
	return o.Path2 != "" && !Under(root, o.Path2)
}

// EscapesOf returns the calls in ops that changed the disk (create, write,
// truncate, rename source or target, remove, mkdir, link, chmod, chtimes) and
// name a path outside root. A call that failed or changed nothing (rename of a
// file onto itself, write of zero bytes) is not listed; see AttemptsOf.
func EscapesOf(ops []Op, root string) []Op {
	var out []Op
	for _, o := range ops {
		if o.Mut && o.Applied && outside(root, o) {
			out = append(out, o)
		}
	}
	return out
}

// AttemptsOf returns mutating calls naming a path outside root that did not
// change anything (they failed, or were no-ops).
func AttemptsOf(ops []Op, root string) []Op {
	var out []Op
	for _, o := range ops {
		if o.Mut && !o.Applied && outside(root, o) {
			out = append(out, o)
		}
	}
	return out
}

// ReadsOutsideOf returns successful non-mutating calls (open for reading, stat,
// read, readdir) on paths outside root: a probe, not a violation.
func ReadsOutsideOf(ops []Op, root string) []Op {
	var out []Op
	for _, o := range ops {
		if !o.Mut && o.Err == "" && outside(root, o) && o.Kind != "getwd" && o.Kind != "chdir" {
			out = append(out, o)
		}
	}
	return out
}

// Escapes applies EscapesOf to the disk's log since the last ResetLog.
func (f *FS) Escapes(root string) []Op { return EscapesOf(f.Log(), root) }

// Attempts applies AttemptsOf to the disk's log since the last ResetLog.
func (f *FS) Attempts(root string) []Op { return AttemptsOf(f.Log(), root) }

// ReadsOutside applies ReadsOutsideOf to the disk's log since the last ResetLog.
func (f *FS) ReadsOutside(root string) []Op { return ReadsOutsideOf(f.Log(), root) }
