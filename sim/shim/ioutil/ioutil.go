// Package ioutil (import path verif/sim/shim/ioutil) replaces "io/ioutil" in
// the mailbox package at check-build time (DESIGN 2.1): the file helpers go to
// the simulated disk through the os shim, the rest forwards to package io.
package ioutil

import (
	"io"
	"io/fs"
	"sort"

	os "verif/sim/shim/os"
)

// Discard is io.Discard.
var Discard io.Writer = io.Discard

func ReadAll(r io.Reader) ([]byte, error)      { return io.ReadAll(r) }
func NopCloser(r io.Reader) io.ReadCloser      { return io.NopCloser(r) }
func ReadFile(filename string) ([]byte, error) { return os.ReadFile(filename) }

// WriteFile is open(O_WRONLY|O_CREATE|O_TRUNC) + write + close, three separate
// simulated calls.
func WriteFile(filename string, data []byte, perm fs.FileMode) error {
	return os.WriteFile(filename, data, perm)
}

// ReadDir is the deprecated ioutil form: open, Readdir(-1), close, sort by name.
func ReadDir(dirname string) ([]fs.FileInfo, error) {
	f, err := os.Open(dirname)
	if err != nil {
		return nil, err
	}
	list, err := f.Readdir(-1)
	f.Close()
	if err != nil {
		return nil, err
	}
	sort.Slice(list, func(i, j int) bool { return list[i].Name() < list[j].Name() })
	return list, nil
}

func TempFile(dir, pattern string) (*os.File, error) { return os.CreateTemp(dir, pattern) }
func TempDir(dir, pattern string) (string, error)    { return os.MkdirTemp(dir, pattern) }
