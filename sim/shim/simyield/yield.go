// Package simyield is the landing point of the yield calls that the build
// overlay inserts in front of every statement of selected library packages
// (cmd/verifctl/overlay.go, yieldDirs). Outside a run that asked for them the
// calls cost one atomic load. Inside such a run the simulator's hook decides,
// from the plan alone, at which of these points the calling goroutine stands
// still for a while so that other goroutines get to run in the middle of code
// that has no blocking operation of its own (DESIGN 8.9).
package simyield

import "sync/atomic"

var hook atomic.Pointer[func()]

// Held counts the locks of instrumented packages that are held right now
// (sim/shim/simsync); the hook does not pause while it is positive.
var Held atomic.Int64

// P is called in front of a statement of the code under test.
func P() {
	if h := hook.Load(); h != nil {
		(*h)()
	}
}

// Set installs the hook of the current run; Clear removes it.
func Set(f func()) { hook.Store(&f) }
func Clear()       { hook.Store(nil) }
