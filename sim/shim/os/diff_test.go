package os_test

// Differential self-test of the trusted base (DESIGN 2.1): random operation
// sequences are applied both to the shim (on a simulated disk) and to the real
// package os (on a temporary directory). Every result must agree: success or
// error class (errno, PathError/LinkError Op and Path, IsNotExist/IsExist),
// returned data and counts, Stat results, directory listings; and the final
// trees must be identical. Runs offline: `go test ./sim/shim/os`.

import (
	"errors"
	"fmt"
	"io"
	"io/fs"
	realioutil "io/ioutil"
	"math/rand/v2"
	realos "os"
	"path/filepath"
	"sort"
	"strconv"
	"strings"
	"syscall"
	"testing"
	"time"

	shimioutil "verif/sim/shim/ioutil"
	shimos "verif/sim/shim/os"
	"verif/sim/simfs"
)

const simTop = "/w"

type pair struct {
	t        *testing.T
	simRoot  string
	realRoot string
	rng      *rand.Rand
	step     int
	trace    []string
	files    []*openPair
}

type openPair struct {
	s    *shimos.File
	r    *realos.File
	rel  string
	dir  bool
	dead bool
}

func (p *pair) sp(rel string) string { return p.simRoot + "/" + rel }
func (p *pair) rp(rel string) string { return p.realRoot + "/" + rel }

// errSig reduces an error to what must agree between the two worlds.
func (p *pair) errSig(err error, root string) string {
	if err == nil {
		return "ok"
	}
	var sb strings.Builder
	var pe *fs.PathError
	var le *realos.LinkError
	strip := func(s string) string { return strings.ReplaceAll(s, root, "<root>") }
	switch {
	case errors.As(err, &pe):
		fmt.Fprintf(&sb, "PathError{%s %q} ", pe.Op, strip(pe.Path))
	case errors.As(err, &le):
		fmt.Fprintf(&sb, "LinkError{%s %q %q} ", le.Op, strip(le.Old), strip(le.New))
	}
	var en syscall.Errno
	switch {
	case errors.As(err, &en):
		sb.WriteString(simfs.ErrnoName(en))
	case errors.Is(err, fs.ErrClosed):
		sb.WriteString("closed")
	case err == io.EOF:
		sb.WriteString("EOF")
	case err == io.ErrUnexpectedEOF:
		sb.WriteString("UEOF")
	default:
		sb.WriteString("other")
	}
	fmt.Fprintf(&sb, " notexist=%v exist=%v perm=%v", realos.IsNotExist(err), realos.IsExist(err), realos.IsPermission(err))
	return sb.String()
}

func (p *pair) same(what string, sErr, rErr error, sVal, rVal string) {
	p.t.Helper()
	se, re := p.errSig(sErr, p.simRoot), p.errSig(rErr, p.realRoot)
	line := fmt.Sprintf("#%d %s -> %s | %s", p.step, what, re, rVal)
	p.trace = append(p.trace, line)
	if se != re || sVal != rVal {
		for _, l := range p.trace[max(0, len(p.trace)-40):] {
			p.t.Log(l)
		}
		p.t.Fatalf("step %d %s\n  shim: %s | %s\n  real: %s | %s", p.step, what, se, sVal, re, rVal)
	}
}

var names = []string{"a", "b", "c", "d.txt", "e.b2f", "sub", "in", "out", "Z"}

func (p *pair) relPath() string {
	r := p.rng
	depth := 1 + r.IntN(3)
	var parts []string
	for i := 0; i < depth; i++ {
		switch x := r.IntN(40); {
		case x == 0:
			parts = append(parts, "..")
		case x == 1:
			parts = append(parts, ".")
		case x == 2:
			parts = append(parts, strings.Repeat("n", 256))
		case x == 3:
			parts = append(parts, strings.Repeat("m", 255))
		case x == 4:
			parts = append(parts, "nul\x00x")
		case x == 5:
			parts = append(parts, "")
		default:
			parts = append(parts, names[r.IntN(len(names))])
		}
	}
	s := strings.Join(parts, "/")
	// never climb out of the sandbox: the roots sit three levels deep, allow two
	if strings.Count(s, "..") > 2 {
		s = strings.ReplaceAll(s, "..", "a")
	}
	if r.IntN(25) == 0 {
		s += "/"
	}
	return s
}

func fiSig(fi fs.FileInfo) string {
	if fi == nil {
		return "-"
	}
	size := fi.Size()
	if fi.IsDir() {
		size = 0
	}
	return fmt.Sprintf("%q dir=%v size=%d mode=%v", fi.Name(), fi.IsDir(), size, fi.Mode())
}

func listSig[T interface {
	Name() string
	IsDir() bool
}](l []T) string {
	var s []string
	for _, e := range l {
		s = append(s, fmt.Sprintf("%s:%v", e.Name(), e.IsDir()))
	}
	sort.Strings(s)
	return fmt.Sprintf("%d%v", len(l), s)
}

func orderedSig[T interface {
	Name() string
	IsDir() bool
}](l []T) string {
	var s []string
	for _, e := range l {
		s = append(s, fmt.Sprintf("%s:%v", e.Name(), e.IsDir()))
	}
	return fmt.Sprintf("%d%v", len(l), s)
}

func (p *pair) randData() []byte {
	n := p.rng.IntN(40)
	if p.rng.IntN(6) == 0 {
		n = p.rng.IntN(3000)
	}
	b := make([]byte, n)
	for i := range b {
		b[i] = byte('a' + p.rng.IntN(26))
	}
	return b
}

func (p *pair) randFlags() int {
	r := p.rng
	flag := []int{realos.O_RDONLY, realos.O_WRONLY, realos.O_RDWR}[r.IntN(3)]
	for _, f := range []int{realos.O_APPEND, realos.O_CREATE, realos.O_EXCL, realos.O_TRUNC} {
		if r.IntN(3) == 0 {
			flag |= f
		}
	}
	return flag
}

func (p *pair) randPerm() fs.FileMode {
	// keep owner rw(x) so that the comparison does not depend on being root
	return fs.FileMode(0o600 | p.rng.IntN(0o200))
}

func (p *pair) doStep() {
	r := p.rng
	p.step++
	rel := p.relPath()
	switch op := r.IntN(30); op {
	case 0, 1:
		perm := p.randPerm() | 0o700
		p.same(fmt.Sprintf("Mkdir(%q,%o)", rel, perm), shimos.Mkdir(p.sp(rel), perm), realos.Mkdir(p.rp(rel), perm), "", "")
	case 2:
		p.same(fmt.Sprintf("MkdirAll(%q)", rel), shimos.MkdirAll(p.sp(rel), 0o755|fs.ModeDir), realos.MkdirAll(p.rp(rel), 0o755|fs.ModeDir), "", "")
	case 3, 4:
		p.same(fmt.Sprintf("Remove(%q)", rel), shimos.Remove(p.sp(rel)), realos.Remove(p.rp(rel)), "", "")
	case 5:
		if r.IntN(4) == 0 && !strings.Contains(rel, "..") {
			p.same(fmt.Sprintf("RemoveAll(%q)", rel), shimos.RemoveAll(p.sp(rel)), realos.RemoveAll(p.rp(rel)), "", "")
		}
	case 6, 7, 8:
		rel2 := p.relPath()
		if lc := filepath.Base(rel); lc == "." || lc == ".." {
			return
		}
		if lc := filepath.Base(rel2); lc == "." || lc == ".." {
			return
		}
		p.same(fmt.Sprintf("Rename(%q,%q)", rel, rel2), shimos.Rename(p.sp(rel), p.sp(rel2)), realos.Rename(p.rp(rel), p.rp(rel2)), "", "")
	case 9, 10:
		sfi, se := shimos.Stat(p.sp(rel))
		rfi, re := realos.Stat(p.rp(rel))
		p.same(fmt.Sprintf("Stat(%q)", rel), se, re, fiSig(sfi), fiSig(rfi))
	case 11:
		sfi, se := shimos.Lstat(p.sp(rel))
		rfi, re := realos.Lstat(p.rp(rel))
		p.same(fmt.Sprintf("Lstat(%q)", rel), se, re, fiSig(sfi), fiSig(rfi))
	case 12, 13:
		sd, se := shimos.ReadFile(p.sp(rel))
		rd, re := realos.ReadFile(p.rp(rel))
		p.same(fmt.Sprintf("ReadFile(%q)", rel), se, re, string(sd), string(rd))
	case 14, 15, 16:
		data, perm := p.randData(), p.randPerm()
		if r.IntN(2) == 0 {
			p.same(fmt.Sprintf("WriteFile(%q,%d bytes,%o)", rel, len(data), perm), shimos.WriteFile(p.sp(rel), data, perm), realos.WriteFile(p.rp(rel), data, perm), "", "")
		} else {
			p.same(fmt.Sprintf("ioutil.WriteFile(%q,%d bytes,%o)", rel, len(data), perm), shimioutil.WriteFile(p.sp(rel), data, perm), realioutil.WriteFile(p.rp(rel), data, perm), "", "")
		}
	case 17:
		sl, se := shimos.ReadDir(p.sp(rel))
		rl, re := realos.ReadDir(p.rp(rel))
		p.same(fmt.Sprintf("ReadDir(%q)", rel), se, re, orderedSig(sl), orderedSig(rl))
	case 18:
		sl, se := shimioutil.ReadDir(p.sp(rel))
		rl, re := realioutil.ReadDir(p.rp(rel))
		p.same(fmt.Sprintf("ioutil.ReadDir(%q)", rel), se, re, orderedSig(sl), orderedSig(rl))
	case 19:
		perm := p.randPerm() | 0o700
		p.same(fmt.Sprintf("Chmod(%q,%o)", rel, perm), shimos.Chmod(p.sp(rel), perm), realos.Chmod(p.rp(rel), perm), "", "")
	case 20:
		size := int64(r.IntN(100)) - 3
		p.same(fmt.Sprintf("Truncate(%q,%d)", rel, size), shimos.Truncate(p.sp(rel), size), realos.Truncate(p.rp(rel), size), "", "")
	case 21:
		rel2 := p.relPath()
		p.same(fmt.Sprintf("Link(%q,%q)", rel, rel2), shimos.Link(p.sp(rel), p.sp(rel2)), realos.Link(p.rp(rel), p.rp(rel2)), "", "")
	case 22:
		mt := time.Unix(int64(1_000_000_000+r.IntN(1000000)), 0)
		se := shimos.Chtimes(p.sp(rel), mt, mt)
		re := realos.Chtimes(p.rp(rel), mt, mt)
		sv, rv := "", ""
		if se == nil && re == nil {
			sfi, _ := shimos.Stat(p.sp(rel))
			rfi, _ := realos.Stat(p.rp(rel))
			sv, rv = sfi.ModTime().UTC().String(), rfi.ModTime().UTC().String()
		}
		p.same(fmt.Sprintf("Chtimes(%q)", rel), se, re, sv, rv)
	case 23, 24, 25:
		if len(p.files) >= 5 {
			p.closeOne(0)
		}
		flag, perm := p.randFlags(), p.randPerm()
		sf, se := shimos.OpenFile(p.sp(rel), flag, perm)
		rf, re := realos.OpenFile(p.rp(rel), flag, perm)
		p.same(fmt.Sprintf("OpenFile(%q,%#x,%o)", rel, flag, perm), se, re, "", "")
		if se == nil {
			fi, _ := rf.Stat()
			p.files = append(p.files, &openPair{s: sf, r: rf, rel: rel, dir: fi.IsDir()})
		}
	case 26:
		if len(p.files) >= 5 {
			p.closeOne(0)
		}
		var sf *shimos.File
		var rf *realos.File
		var se, re error
		if r.IntN(2) == 0 {
			sf, se = shimos.Create(p.sp(rel))
			rf, re = realos.Create(p.rp(rel))
			p.same(fmt.Sprintf("Create(%q)", rel), se, re, "", "")
		} else {
			sf, se = shimos.Open(p.sp(rel))
			rf, re = realos.Open(p.rp(rel))
			p.same(fmt.Sprintf("Open(%q)", rel), se, re, "", "")
		}
		if se == nil {
			fi, _ := rf.Stat()
			p.files = append(p.files, &openPair{s: sf, r: rf, rel: rel, dir: fi.IsDir()})
		}
	default:
		p.fileStep()
	}
}

func (p *pair) closeOne(i int) {
	f := p.files[i]
	p.same(fmt.Sprintf("Close[%s]", f.rel), f.s.Close(), f.r.Close(), "", "")
	p.files = append(p.files[:i], p.files[i+1:]...)
}

func (p *pair) fileStep() {
	r := p.rng
	if len(p.files) == 0 {
		return
	}
	i := r.IntN(len(p.files))
	f := p.files[i]
	tag := fmt.Sprintf("[%s]", f.rel)
	switch op := r.IntN(14); op {
	case 0, 1:
		n := r.IntN(50)
		sb, rb := make([]byte, n), make([]byte, n)
		sn, se := f.s.Read(sb)
		rn, re := f.r.Read(rb)
		if f.dir && se != nil && re != nil {
			// read(2) on a directory: EISDIR, or EINVAL once the descriptor was
			// used for getdents on some file systems; only "fails" is compared
			return
		}
		p.same(fmt.Sprintf("Read%s(%d)", tag, n), se, re, fmt.Sprint(sn, string(sb[:sn])), fmt.Sprint(rn, string(rb[:rn])))
	case 2, 3, 4:
		data := p.randData()
		sn, se := f.s.Write(data)
		rn, re := f.r.Write(data)
		p.same(fmt.Sprintf("Write%s(%d bytes)", tag, len(data)), se, re, fmt.Sprint(sn), fmt.Sprint(rn))
	case 5:
		data := string(p.randData())
		sn, se := f.s.WriteString(data)
		rn, re := f.r.WriteString(data)
		p.same(fmt.Sprintf("WriteString%s(%d bytes)", tag, len(data)), se, re, fmt.Sprint(sn), fmt.Sprint(rn))
	case 6:
		if f.dir {
			return
		}
		off, wh := int64(r.IntN(80))-10, r.IntN(3)
		sn, se := f.s.Seek(off, wh)
		rn, re := f.r.Seek(off, wh)
		p.same(fmt.Sprintf("Seek%s(%d,%d)", tag, off, wh), se, re, fmt.Sprint(sn), fmt.Sprint(rn))
	case 7:
		n, off := r.IntN(50), int64(r.IntN(60))-2
		sb, rb := make([]byte, n), make([]byte, n)
		sn, se := f.s.ReadAt(sb, off)
		rn, re := f.r.ReadAt(rb, off)
		if f.dir && se != nil && re != nil {
			return
		}
		p.same(fmt.Sprintf("ReadAt%s(%d,%d)", tag, n, off), se, re, fmt.Sprint(sn, string(sb[:sn])), fmt.Sprint(rn, string(rb[:rn])))
	case 8:
		data, off := p.randData(), int64(r.IntN(60))-2
		sn, se := f.s.WriteAt(data, off)
		rn, re := f.r.WriteAt(data, off)
		p.same(fmt.Sprintf("WriteAt%s(%d bytes,%d)", tag, len(data), off), se, re, fmt.Sprint(sn), fmt.Sprint(rn))
	case 9:
		size := int64(r.IntN(100)) - 3
		p.same(fmt.Sprintf("File.Truncate%s(%d)", tag, size), f.s.Truncate(size), f.r.Truncate(size), "", "")
	case 10:
		sfi, se := f.s.Stat()
		rfi, re := f.r.Stat()
		p.same(fmt.Sprintf("File.Stat%s", tag), se, re, fiSig(sfi), fiSig(rfi))
	case 11:
		p.same(fmt.Sprintf("Sync%s", tag), f.s.Sync(), f.r.Sync(), "", "")
	case 12:
		// Directory order is arbitrary and a partially read directory that is
		// modified meanwhile may legitimately show either state, so a directory
		// handle is read once, completely, without interleaved operations.
		if f.dir && f.dead {
			return
		}
		f.dead = true
		n := r.IntN(5) - 1
		kind := r.IntN(3)
		var sAll, rAll []string
		var se, re error
		calls := 0
		for {
			calls++
			var sl, rl []string
			switch kind {
			case 0:
				sl, se = f.s.Readdirnames(n)
				rl, re = f.r.Readdirnames(n)
			case 1:
				var si, ri []fs.FileInfo
				si, se = f.s.Readdir(n)
				ri, re = f.r.Readdir(n)
				for _, e := range si {
					sl = append(sl, fmt.Sprintf("%s:%v:%v", e.Name(), e.IsDir(), e.Mode()))
				}
				for _, e := range ri {
					rl = append(rl, fmt.Sprintf("%s:%v:%v", e.Name(), e.IsDir(), e.Mode()))
				}
			default:
				var si, ri []fs.DirEntry
				si, se = f.s.ReadDir(n)
				ri, re = f.r.ReadDir(n)
				for _, e := range si {
					sl = append(sl, fmt.Sprintf("%s:%v:%v", e.Name(), e.IsDir(), e.Type()))
				}
				for _, e := range ri {
					rl = append(rl, fmt.Sprintf("%s:%v:%v", e.Name(), e.IsDir(), e.Type()))
				}
			}
			if n > 0 && (len(sl) != len(rl) || len(sl) > n) {
				p.same(fmt.Sprintf("readdir%d%s(%d) call %d: chunk sizes", kind, tag, n, calls), se, re, fmt.Sprint(len(sl)), fmt.Sprint(len(rl)))
			}
			sAll, rAll = append(sAll, sl...), append(rAll, rl...)
			if n <= 0 || se != nil || re != nil || calls > 50 {
				break
			}
		}
		sort.Strings(sAll)
		sort.Strings(rAll)
		p.same(fmt.Sprintf("readdir%d%s(%d) x%d", kind, tag, n, calls), se, re, fmt.Sprint(sAll), fmt.Sprint(rAll))
	default:
		p.closeOne(i)
		if r.IntN(3) == 0 { // use after close
			sn, se := f.s.Write([]byte("x"))
			rn, re := f.r.Write([]byte("x"))
			p.same(fmt.Sprintf("Write-after-close%s", tag), se, re, fmt.Sprint(sn), fmt.Sprint(rn))
			p.same(fmt.Sprintf("Close-after-close%s", tag), f.s.Close(), f.r.Close(), "", "")
		}
	}
}

// realTree lists a real directory tree in the format of simTree.
func realTree(t *testing.T, root string) []string {
	var out []string
	err := filepath.WalkDir(root, func(p string, d fs.DirEntry, err error) error {
		if err != nil {
			return err
		}
		rel := strings.TrimPrefix(p, root)
		if rel == "" {
			rel = "/"
		}
		fi, err := d.Info()
		if err != nil {
			return err
		}
		if d.IsDir() {
			out = append(out, fmt.Sprintf("d %s mode=%04o", rel, fi.Mode().Perm()))
		} else {
			data, err := realos.ReadFile(p)
			if err != nil {
				return err
			}
			st := fi.Sys().(*syscall.Stat_t)
			out = append(out, fmt.Sprintf("f %s mode=%04o nlink=%d %q", rel, fi.Mode().Perm(), st.Nlink, data))
		}
		return nil
	})
	if err != nil {
		t.Fatal(err)
	}
	sort.Strings(out)
	return out
}

func simTree(d *simfs.FS, root string) []string {
	var out []string
	for _, e := range d.Tree() {
		if !simfs.Under(root, e.Path) {
			continue
		}
		rel := strings.TrimPrefix(e.Path, root)
		if rel == "" {
			rel = "/"
		}
		if e.Dir {
			out = append(out, fmt.Sprintf("d %s mode=%04o", rel, e.Mode.Perm()))
		} else {
			out = append(out, fmt.Sprintf("f %s mode=%04o nlink=%d %q", rel, e.Mode.Perm(), e.Nlink, e.Data))
		}
	}
	sort.Strings(out)
	return out
}

func TestDifferentialAgainstRealOS(t *testing.T) {
	seqs, steps, base := 300, 250, 0
	if testing.Short() {
		seqs = 60
	}
	// SIMFS_DIFF_SEQS / SIMFS_DIFF_SEED widen or move the sample by hand
	if v, err := strconv.Atoi(realos.Getenv("SIMFS_DIFF_SEQS")); err == nil && v > 0 {
		seqs = v
	}
	if v, err := strconv.Atoi(realos.Getenv("SIMFS_DIFF_SEED")); err == nil {
		base = v
	}
	um := syscall.Umask(0)
	syscall.Umask(um)
	defer simfs.Use(nil)
	for seq := 0; seq < seqs; seq++ {
		tmp := t.TempDir()
		// both roots sit three levels below a directory we own, so that the
		// generated ".." components can never leave the sandbox
		p := &pair{t: t, rng: rand.New(rand.NewPCG(uint64(base+seq), 42)), simRoot: simTop + "/r1/r2/r3", realRoot: tmp + "/r1/r2/r3"}
		if err := realos.MkdirAll(p.realRoot, 0o755); err != nil {
			t.Fatal(err)
		}
		disk := simfs.New()
		disk.Umask = fs.FileMode(um)
		simfs.Use(disk)
		if err := shimos.MkdirAll(p.simRoot, 0o755); err != nil {
			t.Fatal(err)
		}
		for i := 0; i < steps; i++ {
			p.doStep()
		}
		for len(p.files) > 0 {
			p.closeOne(0)
		}
		st, rt := simTree(disk, simTop), realTree(t, tmp)
		if strings.Join(st, "\n") != strings.Join(rt, "\n") {
			t.Fatalf("seq %d: final trees differ\nshim:\n%s\nreal:\n%s", seq, strings.Join(st, "\n"), strings.Join(rt, "\n"))
		}
	}
}
