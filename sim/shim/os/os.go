// Package os (import path verif/sim/shim/os) replaces "os" in the mailbox
// package at check-build time (DESIGN 2.1). Everything that touches files goes
// to the simulated disk installed with simfs.Use; process exit becomes a
// recorded, recoverable event; the rest forwards to the real package os.
//
// Multi-call helpers (ReadFile, WriteFile, MkdirAll, RemoveAll, ReadDir,
// CreateTemp, Rename's pre-checks) are ports of the real implementations, one
// simulated system call per real system call, so that crash points fall
// between and inside them exactly as they would on a real disk.
package os

import (
	"errors"
	"io"
	"io/fs"
	realos "os"
	"slices"
	"strings"
	"syscall"
	"time"

	"verif/sim/simfs"
)

// ---------------------------------------------------------------------------
// types, constants, variables shared with the real package

type (
	FileInfo     = fs.FileInfo
	FileMode     = fs.FileMode
	DirEntry     = fs.DirEntry
	PathError    = fs.PathError
	LinkError    = realos.LinkError
	SyscallError = realos.SyscallError
	Signal       = realos.Signal
	Process      = realos.Process
	ProcAttr     = realos.ProcAttr
	ProcessState = realos.ProcessState
)

const (
	O_RDONLY = realos.O_RDONLY
	O_WRONLY = realos.O_WRONLY
	O_RDWR   = realos.O_RDWR
	O_APPEND = realos.O_APPEND
	O_CREATE = realos.O_CREATE
	O_EXCL   = realos.O_EXCL
	O_SYNC   = realos.O_SYNC
	O_TRUNC  = realos.O_TRUNC

	SEEK_SET = 0
	SEEK_CUR = 1
	SEEK_END = 2

	PathSeparator     = '/'
	PathListSeparator = ':'
	DevNull           = "/dev/null"

	ModeDir        = fs.ModeDir
	ModeAppend     = fs.ModeAppend
	ModeExclusive  = fs.ModeExclusive
	ModeTemporary  = fs.ModeTemporary
	ModeSymlink    = fs.ModeSymlink
	ModeDevice     = fs.ModeDevice
	ModeNamedPipe  = fs.ModeNamedPipe
	ModeSocket     = fs.ModeSocket
	ModeSetuid     = fs.ModeSetuid
	ModeSetgid     = fs.ModeSetgid
	ModeCharDevice = fs.ModeCharDevice
	ModeSticky     = fs.ModeSticky
	ModeIrregular  = fs.ModeIrregular
	ModeType       = fs.ModeType
	ModePerm       = fs.ModePerm
)

var (
	ErrInvalid          = fs.ErrInvalid
	ErrPermission       = fs.ErrPermission
	ErrExist            = fs.ErrExist
	ErrNotExist         = fs.ErrNotExist
	ErrClosed           = fs.ErrClosed
	ErrNoDeadline       = realos.ErrNoDeadline
	ErrDeadlineExceeded = realos.ErrDeadlineExceeded
	ErrProcessDone      = realos.ErrProcessDone

	Interrupt = realos.Interrupt
	Kill      = realos.Kill

	// Args is what a simulated program sees.
	Args = []string{"simprog"}

	Stdin  = &File{real: realos.Stdin, name: "/dev/stdin"}
	Stdout = &File{real: realos.Stdout, name: "/dev/stdout"}
	Stderr = &File{real: realos.Stderr, name: "/dev/stderr"}
)

func IsExist(err error) bool      { return realos.IsExist(err) }
func IsNotExist(err error) bool   { return realos.IsNotExist(err) }
func IsPermission(err error) bool { return realos.IsPermission(err) }
func IsTimeout(err error) bool    { return realos.IsTimeout(err) }
func IsPathSeparator(c uint8) bool {
	return c == PathSeparator
}
func NewSyscallError(syscall string, err error) error { return realos.NewSyscallError(syscall, err) }

// SameFile compares simulated inode numbers.
func SameFile(fi1, fi2 FileInfo) bool {
	a, ok1 := fi1.(*simfs.Info)
	b, ok2 := fi2.(*simfs.Info)
	if ok1 && ok2 {
		return a.Ino() == b.Ino()
	}
	if !ok1 && !ok2 {
		return realos.SameFile(fi1, fi2)
	}
	return false
}

// ---------------------------------------------------------------------------
// process-level things

// Exit does not end the worker: it is recorded on the simulated disk and
// panics with *simfs.Death on the calling goroutine (= this station died).
func Exit(code int) { simfs.Die("os-exit", code, "os.Exit") }

func Getenv(key string) string                      { return realos.Getenv(key) }
func LookupEnv(key string) (string, bool)           { return realos.LookupEnv(key) }
func Environ() []string                             { return realos.Environ() }
func Setenv(key, value string) error                { return realos.Setenv(key, value) }
func Unsetenv(key string) error                     { return realos.Unsetenv(key) }
func ExpandEnv(s string) string                     { return realos.ExpandEnv(s) }
func Expand(s string, m func(string) string) string { return realos.Expand(s, m) }

func Getpid() int      { return 4242 }
func Getppid() int     { return 1 }
func Getuid() int      { return 0 }
func Geteuid() int     { return 0 }
func Getgid() int      { return 0 }
func Getegid() int     { return 0 }
func Getpagesize() int { return 4096 }

func Hostname() (string, error)      { return "simhost", nil }
func Executable() (string, error)    { return "/usr/bin/simprog", nil }
func UserHomeDir() (string, error)   { return "/home/sim", nil }
func UserCacheDir() (string, error)  { return "/home/sim/.cache", nil }
func UserConfigDir() (string, error) { return "/home/sim/.config", nil }

// TempDir is a fixed simulated location; the engine creates it if the code under test needs it.
func TempDir() string { return "/tmp" }

func FindProcess(pid int) (*Process, error) { return realos.FindProcess(pid) }
func StartProcess(name string, argv []string, attr *ProcAttr) (*Process, error) {
	return nil, &PathError{Op: "fork/exec", Path: name, Err: syscall.ENOSYS}
}

// ---------------------------------------------------------------------------
// calls on names

func Getwd() (string, error) { return simfs.Must().Getwd() }
func Chdir(dir string) error { return simfs.Must().Chdir(dir) }

func Stat(name string) (FileInfo, error)  { return simfs.Must().Stat(name) }
func Lstat(name string) (FileInfo, error) { return simfs.Must().Lstat(name) }

func syscallMode(m FileMode) FileMode { return m.Perm() }

func Mkdir(name string, perm FileMode) error { return simfs.Must().Mkdir(name, syscallMode(perm)) }

// MkdirAll is the real algorithm: Stat, recurse on the parent, Mkdir, Lstat on failure.
func MkdirAll(path string, perm FileMode) error {
	dir, err := Stat(path)
	if err == nil {
		if dir.IsDir() {
			return nil
		}
		return &PathError{Op: "mkdir", Path: path, Err: syscall.ENOTDIR}
	}
	i := len(path) - 1
	for i >= 0 && IsPathSeparator(path[i]) {
		i--
	}
	for i >= 0 && !IsPathSeparator(path[i]) {
		i--
	}
	if i < 0 {
		i = 0
	}
	if parent := path[:i]; len(parent) > 0 {
		if err = MkdirAll(parent, perm); err != nil {
			return err
		}
	}
	err = Mkdir(path, perm)
	if err != nil {
		dir, err1 := Lstat(path)
		if err1 == nil && dir.IsDir() {
			return nil
		}
		return err
	}
	return nil
}

func Remove(name string) error { return simfs.Must().Remove(name) }

func endsWithDot(path string) bool {
	if path == "." {
		return true
	}
	if len(path) >= 2 && path[len(path)-1] == '.' && IsPathSeparator(path[len(path)-2]) {
		return true
	}
	return false
}

// RemoveAll follows the real (openat-based) algorithm with path-based calls:
// Remove; on failure open the parent, then per entry: remove, else read the
// directory, recurse, remove the directory. Error values (Op "unlinkat",
// "openfdat", "readdirnames"; Path rebuilt from parent + entry) are the real ones.
func RemoveAll(path string) error {
	if path == "" {
		return nil
	}
	if endsWithDot(path) {
		return &PathError{Op: "RemoveAll", Path: path, Err: syscall.EINVAL}
	}
	err := Remove(path)
	if err == nil || IsNotExist(err) {
		return nil
	}
	parentDir, base := splitPath(path)
	parent, err := OpenFile(parentDir, O_RDONLY, 0)
	if IsNotExist(err) {
		return nil
	}
	if err != nil {
		return err
	}
	defer parent.Close()
	if err := removeAllFrom(parentDir, base); err != nil {
		if pathErr, ok := err.(*PathError); ok {
			pathErr.Path = parentDir + string(PathSeparator) + pathErr.Path
			err = pathErr
		}
		return err
	}
	return nil
}

func errnoOf(err error) error {
	if pe, ok := err.(*PathError); ok {
		return pe.Err
	}
	return err
}

func removeAllFrom(parentPath, base string) error {
	full := parentPath + string(PathSeparator) + base
	// Simple case: if Unlink (aka remove) works, we're done.
	err := simfs.Must().Unlink(full)
	if err == nil || IsNotExist(err) {
		return nil
	}
	// EISDIR means that we have a directory, and we need to remove its
	// contents. EPERM or EACCES means that we don't have write permission on
	// the parent directory, but this entry might still be a directory whose
	// contents need to be removed. Otherwise just return the error.
	uErr := errnoOf(err)
	if uErr != syscall.EISDIR && uErr != syscall.EPERM && uErr != syscall.EACCES {
		return &PathError{Op: "unlinkat", Path: base, Err: uErr}
	}
	var recurseErr error
	file, err := OpenFile(full, O_RDONLY|syscall.O_DIRECTORY, 0)
	if err != nil {
		if IsNotExist(err) {
			return nil
		}
		if errnoOf(err) == syscall.ENOTDIR {
			return &PathError{Op: "unlinkat", Path: base, Err: uErr}
		}
		recurseErr = &PathError{Op: "openfdat", Path: base, Err: errnoOf(err)}
	} else {
		names, readErr := file.Readdirnames(-1)
		file.Close()
		if readErr != nil && readErr != io.EOF {
			if IsNotExist(readErr) {
				return nil
			}
			return &PathError{Op: "readdirnames", Path: base, Err: errnoOf(readErr)}
		}
		for _, name := range names {
			if err := removeAllFrom(full, name); err != nil {
				if pathErr, ok := err.(*PathError); ok {
					pathErr.Path = base + string(PathSeparator) + pathErr.Path
				}
				if recurseErr == nil {
					recurseErr = err
				}
			}
		}
	}
	unlinkError := simfs.Must().Rmdir(full)
	if unlinkError == nil || IsNotExist(unlinkError) {
		return nil
	}
	if recurseErr != nil {
		return recurseErr
	}
	return &PathError{Op: "unlinkat", Path: base, Err: errnoOf(unlinkError)}
}

// splitPath is the real package's helper: parent directory and final element.
func splitPath(path string) (string, string) {
	dirname := "."
	for len(path) > 1 && path[0] == '/' && path[1] == '/' {
		path = path[1:]
	}
	i := len(path) - 1
	for ; i > 0 && path[i] == '/'; i-- {
		path = path[:i]
	}
	basename := path
	for i--; i >= 0; i-- {
		if path[i] == '/' {
			if i == 0 {
				dirname = path[:1]
			} else {
				dirname = path[:i]
			}
			basename = path[i+1:]
			break
		}
	}
	return dirname, basename
}

// Rename performs the real package's pre-checks (Lstat of the target, and of the
// source when the target is a directory) and then rename(2).
func Rename(oldpath, newpath string) error {
	fi, err := Lstat(newpath)
	if err == nil && fi.IsDir() {
		if ofi, err := Lstat(oldpath); err != nil {
			if pe, ok := err.(*PathError); ok {
				err = pe.Err
			}
			return &LinkError{Op: "rename", Old: oldpath, New: newpath, Err: err}
		} else if newpath == oldpath || !SameFile(fi, ofi) {
			return &LinkError{Op: "rename", Old: oldpath, New: newpath, Err: syscall.EEXIST}
		}
	}
	return simfs.Must().Rename(oldpath, newpath)
}

func Link(oldname, newname string) error { return simfs.Must().Link(oldname, newname) }

// Symlink: the simulated disk is a file system without symbolic links.
func Symlink(oldname, newname string) error {
	return &LinkError{Op: "symlink", Old: oldname, New: newname, Err: syscall.EPERM}
}

func Readlink(name string) (string, error) {
	if _, err := Lstat(name); err != nil {
		if pe, ok := err.(*PathError); ok {
			return "", &PathError{Op: "readlink", Path: name, Err: pe.Err}
		}
		return "", err
	}
	return "", &PathError{Op: "readlink", Path: name, Err: syscall.EINVAL}
}

func Chmod(name string, mode FileMode) error { return simfs.Must().Chmod(name, mode) }

func Chown(name string, uid, gid int) error {
	if _, err := Stat(name); err != nil {
		return &PathError{Op: "chown", Path: name, Err: err.(*PathError).Err}
	}
	return nil
}

func Lchown(name string, uid, gid int) error {
	if _, err := Lstat(name); err != nil {
		return &PathError{Op: "lchown", Path: name, Err: err.(*PathError).Err}
	}
	return nil
}

func Chtimes(name string, atime, mtime time.Time) error {
	return simfs.Must().Chtimes(name, atime, mtime)
}

func Truncate(name string, size int64) error { return simfs.Must().Truncate(name, size) }

// ---------------------------------------------------------------------------
// files

// File is an open simulated file (or a wrapper around one of the real
// Stdin/Stdout/Stderr).
type File struct {
	h    *simfs.Handle
	real *realos.File
	name string
}

func Open(name string) (*File, error) { return OpenFile(name, O_RDONLY, 0) }

func Create(name string) (*File, error) {
	return OpenFile(name, O_RDWR|O_CREATE|O_TRUNC, 0o666)
}

func OpenFile(name string, flag int, perm FileMode) (*File, error) {
	h, err := simfs.Must().OpenFile(name, flag, syscallMode(perm))
	if err != nil {
		return nil, err
	}
	return &File{h: h, name: name}, nil
}

// NewFile wraps a real descriptor (forwarded to the real package).
func NewFile(fd uintptr, name string) *File {
	rf := realos.NewFile(fd, name)
	if rf == nil {
		return nil
	}
	return &File{real: rf, name: name}
}

func (f *File) Name() string { return f.name }

func (f *File) Fd() uintptr {
	if f != nil && f.real != nil {
		return f.real.Fd()
	}
	return ^uintptr(0)
}

func (f *File) Read(b []byte) (int, error) {
	switch {
	case f == nil:
		return 0, ErrInvalid
	case f.real != nil:
		return f.real.Read(b)
	}
	return f.h.Read(b)
}

func (f *File) ReadAt(b []byte, off int64) (int, error) {
	switch {
	case f == nil:
		return 0, ErrInvalid
	case f.real != nil:
		return f.real.ReadAt(b, off)
	}
	// the real ReadAt loops until the buffer is full or an error occurs; one
	// simulated call suffices because a simulated read is never short.
	return f.h.ReadAt(b, off)
}

func (f *File) Write(b []byte) (int, error) {
	switch {
	case f == nil:
		return 0, ErrInvalid
	case f.real != nil:
		return f.real.Write(b)
	}
	n, err := f.h.Write(b)
	if err == nil && n != len(b) {
		err = io.ErrShortWrite
	}
	return n, err
}

func (f *File) WriteAt(b []byte, off int64) (int, error) {
	switch {
	case f == nil:
		return 0, ErrInvalid
	case f.real != nil:
		return f.real.WriteAt(b, off)
	}
	return f.h.WriteAt(b, off)
}

func (f *File) WriteString(s string) (int, error) { return f.Write([]byte(s)) }

// onlyWriter / onlyReader hide ReadFrom / WriteTo so that io.Copy does not recurse.
type onlyWriter struct{ io.Writer }
type onlyReader struct{ io.Reader }

func (f *File) ReadFrom(r io.Reader) (int64, error) {
	if f == nil {
		return 0, ErrInvalid
	}
	return io.Copy(onlyWriter{f}, r)
}

func (f *File) WriteTo(w io.Writer) (int64, error) {
	if f == nil {
		return 0, ErrInvalid
	}
	return io.Copy(w, onlyReader{f})
}

func (f *File) Seek(offset int64, whence int) (int64, error) {
	switch {
	case f == nil:
		return 0, ErrInvalid
	case f.real != nil:
		return f.real.Seek(offset, whence)
	}
	return f.h.Seek(offset, whence)
}

func (f *File) Close() error {
	switch {
	case f == nil:
		return ErrInvalid
	case f.real != nil:
		return f.real.Close()
	}
	return f.h.Close()
}

func (f *File) Sync() error {
	switch {
	case f == nil:
		return ErrInvalid
	case f.real != nil:
		return f.real.Sync()
	}
	return f.h.Sync()
}

func (f *File) Stat() (FileInfo, error) {
	switch {
	case f == nil:
		return nil, ErrInvalid
	case f.real != nil:
		return f.real.Stat()
	}
	return f.h.Stat()
}

func (f *File) Truncate(size int64) error {
	switch {
	case f == nil:
		return ErrInvalid
	case f.real != nil:
		return f.real.Truncate(size)
	}
	return f.h.Truncate(size)
}

func (f *File) Chmod(mode FileMode) error {
	switch {
	case f == nil:
		return ErrInvalid
	case f.real != nil:
		return f.real.Chmod(mode)
	}
	return f.h.Chmod(mode)
}

func (f *File) Chown(uid, gid int) error {
	if f == nil {
		return ErrInvalid
	}
	return nil
}

func (f *File) Chdir() error {
	switch {
	case f == nil:
		return ErrInvalid
	case f.real != nil:
		return f.real.Chdir()
	}
	return Chdir(f.h.Path())
}

func (f *File) SetDeadline(t time.Time) error      { return f.noDeadline() }
func (f *File) SetReadDeadline(t time.Time) error  { return f.noDeadline() }
func (f *File) SetWriteDeadline(t time.Time) error { return f.noDeadline() }

func (f *File) noDeadline() error {
	if f == nil {
		return ErrInvalid
	}
	return ErrNoDeadline
}

func (f *File) SyscallConn() (syscall.RawConn, error) {
	if f != nil && f.real != nil {
		return f.real.SyscallConn()
	}
	return nil, errors.New("simulated file has no raw connection")
}

// ReadDir reads directory entries in directory order (see simfs.Handle.ReadDir).
func (f *File) ReadDir(n int) ([]DirEntry, error) {
	switch {
	case f == nil:
		return nil, ErrInvalid
	case f.real != nil:
		return f.real.ReadDir(n)
	}
	infos, err := f.h.ReadDir(n)
	out := make([]DirEntry, len(infos))
	for i, in := range infos {
		out[i] = in
	}
	if err == nil && n <= 0 && out == nil {
		out = []DirEntry{}
	}
	return out, err
}

func (f *File) Readdir(n int) ([]FileInfo, error) {
	switch {
	case f == nil:
		return nil, ErrInvalid
	case f.real != nil:
		return f.real.Readdir(n)
	}
	infos, err := f.h.ReadDir(n)
	out := make([]FileInfo, len(infos))
	for i, in := range infos {
		out[i] = in
	}
	return out, err
}

func (f *File) Readdirnames(n int) ([]string, error) {
	switch {
	case f == nil:
		return nil, ErrInvalid
	case f.real != nil:
		return f.real.Readdirnames(n)
	}
	infos, err := f.h.ReadDir(n)
	out := make([]string, len(infos))
	for i, in := range infos {
		out[i] = in.Name()
	}
	return out, err
}

// ---------------------------------------------------------------------------
// helpers built from the calls above, as in the real package

// ReadDir = open, read all entries, close; sorted by name.
func ReadDir(name string) ([]DirEntry, error) {
	f, err := OpenFile(name, O_RDONLY|syscall.O_DIRECTORY, 0)
	if err != nil {
		return nil, err
	}
	defer f.Close()
	dirs, err := f.ReadDir(-1)
	slices.SortFunc(dirs, func(a, b DirEntry) int { return strings.Compare(a.Name(), b.Name()) })
	return dirs, err
}

// ReadFile = open, fstat, read until EOF, close.
func ReadFile(name string) ([]byte, error) {
	f, err := Open(name)
	if err != nil {
		return nil, err
	}
	defer f.Close()
	var size int
	if info, err := f.Stat(); err == nil {
		if s := info.Size(); int64(int(s)) == s {
			size = int(s)
		}
	}
	zeroSize := size == 0
	size++
	const minBuf = 512
	if size < minBuf {
		size = minBuf
	}
	data := make([]byte, 0, size)
	for {
		n, err := f.Read(data[len(data):cap(data)])
		data = data[:len(data)+n]
		if err != nil {
			if err == io.EOF {
				err = nil
			}
			return data, err
		}
		capRemain := cap(data) - len(data)
		if capRemain == 0 || (zeroSize && capRemain < minBuf) {
			data = slices.Grow(data, minBuf)
		}
	}
}

// WriteFile = open(O_WRONLY|O_CREATE|O_TRUNC), one write, close: three calls,
// so a crash can land between them and inside the write.
func WriteFile(name string, data []byte, perm FileMode) error {
	f, err := OpenFile(name, O_WRONLY|O_CREATE|O_TRUNC, perm)
	if err != nil {
		return err
	}
	_, err = f.Write(data)
	if err1 := f.Close(); err1 != nil && err == nil {
		err = err1
	}
	return err
}

var errPatternHasSeparator = errors.New("pattern contains path separator")

func prefixAndSuffix(pattern string) (prefix, suffix string, err error) {
	for i := 0; i < len(pattern); i++ {
		if IsPathSeparator(pattern[i]) {
			return "", "", errPatternHasSeparator
		}
	}
	if pos := strings.LastIndexByte(pattern, '*'); pos != -1 {
		prefix, suffix = pattern[:pos], pattern[pos+1:]
	} else {
		prefix = pattern
	}
	return prefix, suffix, nil
}

func joinPath(dir, name string) string {
	if len(dir) > 0 && IsPathSeparator(dir[len(dir)-1]) {
		return dir + name
	}
	return dir + string(PathSeparator) + name
}

// CreateTemp is the real algorithm with the disk's deterministic name source.
func CreateTemp(dir, pattern string) (*File, error) {
	if dir == "" {
		dir = TempDir()
	}
	prefix, suffix, err := prefixAndSuffix(pattern)
	if err != nil {
		return nil, &PathError{Op: "createtemp", Path: pattern, Err: err}
	}
	prefix = joinPath(dir, prefix)
	try := 0
	for {
		name := prefix + simfs.Must().TempName() + suffix
		f, err := OpenFile(name, O_RDWR|O_CREATE|O_EXCL, 0o600)
		if IsExist(err) {
			if try++; try < 10000 {
				continue
			}
			return nil, &PathError{Op: "createtemp", Path: prefix + "*" + suffix, Err: ErrExist}
		}
		return f, err
	}
}

func MkdirTemp(dir, pattern string) (string, error) {
	if dir == "" {
		dir = TempDir()
	}
	prefix, suffix, err := prefixAndSuffix(pattern)
	if err != nil {
		return "", &PathError{Op: "mkdirtemp", Path: pattern, Err: err}
	}
	prefix = joinPath(dir, prefix)
	try := 0
	for {
		name := prefix + simfs.Must().TempName() + suffix
		err := Mkdir(name, 0o700)
		if err == nil {
			return name, nil
		}
		if IsExist(err) {
			if try++; try < 10000 {
				continue
			}
			return "", &PathError{Op: "mkdirtemp", Path: prefix + "*" + suffix, Err: ErrExist}
		}
		if IsNotExist(err) {
			if _, err := Stat(dir); IsNotExist(err) {
				return "", err
			}
		}
		return "", err
	}
}

// DirFS returns an fs.FS over a directory of the simulated disk.
func DirFS(dir string) fs.FS { return dirFS(dir) }

type dirFS string

func (d dirFS) join(op, name string) (string, error) {
	if !fs.ValidPath(name) {
		return "", &PathError{Op: op, Path: name, Err: ErrInvalid}
	}
	if name == "." {
		return string(d), nil
	}
	return joinPath(string(d), name), nil
}

func (d dirFS) Open(name string) (fs.File, error) {
	p, err := d.join("open", name)
	if err != nil {
		return nil, err
	}
	f, err := Open(p)
	if err != nil {
		err.(*PathError).Path = name
		return nil, err
	}
	return f, nil
}

func (d dirFS) ReadFile(name string) ([]byte, error) {
	p, err := d.join("readfile", name)
	if err != nil {
		return nil, err
	}
	return ReadFile(p)
}

func (d dirFS) ReadDir(name string) ([]DirEntry, error) {
	p, err := d.join("readdir", name)
	if err != nil {
		return nil, err
	}
	return ReadDir(p)
}

func (d dirFS) Stat(name string) (FileInfo, error) {
	p, err := d.join("stat", name)
	if err != nil {
		return nil, err
	}
	return Stat(p)
}
