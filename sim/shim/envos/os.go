// Package os (import path verif/sim/shim/envos) replaces "os" in the fbb
// package at check-build time (DESIGN 2.1). fbb uses exactly two things from
// os: Stderr for its default logger and Getenv for GZIP_EXPERIMENT.
package os

import (
	realos "os"

	"verif/sim/simenv"
)

var (
	Stderr = realos.Stderr
	Stdout = realos.Stdout
	Stdin  = realos.Stdin
)

type File = realos.File

func Getenv(key string) string { return simenv.Getenv(key) }

func LookupEnv(key string) (string, bool) {
	v := simenv.Getenv(key)
	return v, v != ""
}
