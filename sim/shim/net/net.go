// Package net (import path verif/sim/shim/net) replaces "net" in the transport
// packages at check-build time (DESIGN 2.1). Types that cross into unmodified
// packages are aliases of the real ones; everything that would open a socket
// goes to the simulated network of the current run (sim/simnet).
package net

import (
	"context"
	"errors"
	"io"
	realnet "net"
	"strconv"
	"time"

	"verif/sim/pipe"
	"verif/sim/simnet"
)

type (
	Addr                = realnet.Addr
	Conn                = realnet.Conn
	Listener            = realnet.Listener
	Error               = realnet.Error
	OpError             = realnet.OpError
	AddrError           = realnet.AddrError
	TCPAddr             = realnet.TCPAddr
	IP                  = realnet.IP
	PacketConn          = realnet.PacketConn
	UnknownNetworkError = realnet.UnknownNetworkError
)

var (
	ErrClosed = realnet.ErrClosed
)

func JoinHostPort(host, port string) string { return realnet.JoinHostPort(host, port) }
func SplitHostPort(hp string) (string, string, error) {
	return realnet.SplitHostPort(hp)
}
func ParseIP(s string) IP { return realnet.ParseIP(s) }

func current() (*simnet.Net, error) {
	n := simnet.Current()
	if n == nil {
		return nil, errors.New("net shim: no simulated network installed")
	}
	return n, nil
}

// Dialer mirrors the fields the code base uses.
type Dialer struct {
	Timeout   time.Duration
	Deadline  time.Time
	KeepAlive time.Duration
	LocalAddr Addr
}

func (d *Dialer) DialContext(ctx context.Context, network, address string) (Conn, error) {
	n, err := current()
	if err != nil {
		return nil, err
	}
	if d.Timeout > 0 {
		var cancel context.CancelFunc
		ctx, cancel = context.WithTimeout(ctx, d.Timeout)
		defer cancel()
	}
	if !d.Deadline.IsZero() {
		var cancel context.CancelFunc
		ctx, cancel = context.WithDeadline(ctx, d.Deadline)
		defer cancel()
	}
	c, err := n.Dial(ctx, address)
	if err != nil {
		return nil, err
	}
	// as in production, a "tcp" connection is a *TCPConn
	return &TCPConn{c}, nil
}

func (d *Dialer) Dial(network, address string) (Conn, error) {
	return d.DialContext(context.Background(), network, address)
}

func Dial(network, address string) (Conn, error) {
	var d Dialer
	return d.Dial(network, address)
}

func DialTimeout(network, address string, timeout time.Duration) (Conn, error) {
	d := Dialer{Timeout: timeout}
	return d.Dial(network, address)
}

func Listen(network, address string) (Listener, error) {
	n, err := current()
	if err != nil {
		return nil, err
	}
	l, err := n.Listen(address)
	if err != nil {
		return nil, err
	}
	return &TCPListener{l}, nil
}

// TCPListener is the simulated counterpart of *net.TCPListener: the
// connections it accepts are *TCPConn, as in production.
type TCPListener struct {
	*simnet.Listener
}

func (l *TCPListener) Accept() (Conn, error) {
	c, err := l.Listener.Accept()
	if e, ok := c.(*pipe.End); ok && e != nil {
		return &TCPConn{e}, err
	}
	return c, err
}

func (l *TCPListener) AcceptTCP() (*TCPConn, error) {
	c, err := l.Listener.Accept()
	if e, ok := c.(*pipe.End); ok && e != nil {
		return &TCPConn{e}, err
	}
	return nil, err
}

// ResolveTCPAddr parses host:port without any lookup.
func ResolveTCPAddr(network, address string) (*TCPAddr, error) {
	host, port, err := realnet.SplitHostPort(address)
	if err != nil {
		return nil, err
	}
	p, err := strconv.Atoi(port)
	if err != nil {
		return nil, &realnet.AddrError{Err: "invalid port", Addr: address}
	}
	a := &TCPAddr{Port: p}
	if ip := realnet.ParseIP(host); ip != nil {
		a.IP = ip
	} else {
		a.Zone = host // keep the name; String() is not used for dialling
	}
	return a, nil
}

// TCPConn is the simulated counterpart of *net.TCPConn.
type TCPConn struct {
	*pipe.End
}

func (c *TCPConn) SetNoDelay(bool) error                  { return nil }
func (c *TCPConn) SetKeepAlive(bool) error                { return nil }
func (c *TCPConn) SetKeepAlivePeriod(time.Duration) error { return nil }
func (c *TCPConn) SetLinger(int) error                    { return nil }
func (c *TCPConn) CloseWrite() error                      { return c.End.Close() }
func (c *TCPConn) CloseRead() error                       { return nil }

// ReadFrom and WriteTo exist on the real *net.TCPConn (WriteTo since Go 1.22)
// and are found by io.Copy before it falls back to Read/Write. Like the real
// ones (net.genericReadFrom / net.genericWriteTo, what remains when
// sendfile/splice do not apply) they move the bytes directly between the
// socket and the other party: nothing that wraps this connection - e.g. a
// bufio.Reader holding read-ahead - is consulted.
func (c *TCPConn) ReadFrom(r io.Reader) (int64, error) {
	return io.Copy(tcpConnWithoutReadFrom{TCPConn: c}, r)
}

func (c *TCPConn) WriteTo(w io.Writer) (int64, error) {
	return io.Copy(w, tcpConnWithoutWriteTo{TCPConn: c})
}

type noReadFrom struct{}

func (noReadFrom) ReadFrom(io.Reader) (int64, error) { panic("can't happen") }

type noWriteTo struct{}

func (noWriteTo) WriteTo(io.Writer) (int64, error) { panic("can't happen") }

// the same trick as in the standard library: the embedded no* type makes the
// selector ambiguous, so the wrapper has neither ReadFrom nor WriteTo
type tcpConnWithoutReadFrom struct {
	noReadFrom
	*TCPConn
}

type tcpConnWithoutWriteTo struct {
	noWriteTo
	*TCPConn
}

func tcpAddrString(a *TCPAddr) string {
	host := a.Zone
	if a.IP != nil {
		host = a.IP.String()
	}
	return realnet.JoinHostPort(host, strconv.Itoa(a.Port))
}

func DialTCP(network string, laddr, raddr *TCPAddr) (*TCPConn, error) {
	if raddr == nil {
		return nil, &OpError{Op: "dial", Net: network, Err: errors.New("missing address")}
	}
	n, err := current()
	if err != nil {
		return nil, err
	}
	e, err := n.Dial(context.Background(), tcpAddrString(raddr))
	if err != nil {
		return nil, err
	}
	return &TCPConn{e}, nil
}
