// Package net (import path verif/sim/shim/net) replaces "net" in the transport
// packages at check-build time (DESIGN 2.1). Types that cross into unmodified
// packages are aliases of the real ones; everything that would open a socket
// goes to the simulated network of the current run (sim/simnet).
package net

import (
	"context"
	"errors"
	realnet "net"
	"strconv"
	"time"

	"verif/sim/pipe"
	"verif/sim/simnet"
)

type (
	Addr                = realnet.Addr
	Conn                = realnet.Conn
	Listener            = realnet.Listener
	Error               = realnet.Error
	OpError             = realnet.OpError
	AddrError           = realnet.AddrError
	TCPAddr             = realnet.TCPAddr
	IP                  = realnet.IP
	PacketConn          = realnet.PacketConn
	UnknownNetworkError = realnet.UnknownNetworkError
)

var (
	ErrClosed = realnet.ErrClosed
)

func JoinHostPort(host, port string) string { return realnet.JoinHostPort(host, port) }
func SplitHostPort(hp string) (string, string, error) {
	return realnet.SplitHostPort(hp)
}
func ParseIP(s string) IP { return realnet.ParseIP(s) }

func current() (*simnet.Net, error) {
	n := simnet.Current()
	if n == nil {
		return nil, errors.New("net shim: no simulated network installed")
	}
	return n, nil
}

// Dialer mirrors the fields the code base uses.
type Dialer struct {
	Timeout   time.Duration
	Deadline  time.Time
	KeepAlive time.Duration
	LocalAddr Addr
}

func (d *Dialer) DialContext(ctx context.Context, network, address string) (Conn, error) {
	n, err := current()
	if err != nil {
		return nil, err
	}
	if d.Timeout > 0 {
		var cancel context.CancelFunc
		ctx, cancel = context.WithTimeout(ctx, d.Timeout)
		defer cancel()
	}
	if !d.Deadline.IsZero() {
		var cancel context.CancelFunc
		ctx, cancel = context.WithDeadline(ctx, d.Deadline)
		defer cancel()
	}
	c, err := n.Dial(ctx, address)
	if err != nil {
		return nil, err
	}
	return c, nil
}

func (d *Dialer) Dial(network, address string) (Conn, error) {
	return d.DialContext(context.Background(), network, address)
}

func Dial(network, address string) (Conn, error) {
	var d Dialer
	return d.Dial(network, address)
}

func DialTimeout(network, address string, timeout time.Duration) (Conn, error) {
	d := Dialer{Timeout: timeout}
	return d.Dial(network, address)
}

func Listen(network, address string) (Listener, error) {
	n, err := current()
	if err != nil {
		return nil, err
	}
	l, err := n.Listen(address)
	if err != nil {
		return nil, err
	}
	return l, nil
}

// ResolveTCPAddr parses host:port without any lookup.
func ResolveTCPAddr(network, address string) (*TCPAddr, error) {
	host, port, err := realnet.SplitHostPort(address)
	if err != nil {
		return nil, err
	}
	p, err := strconv.Atoi(port)
	if err != nil {
		return nil, &realnet.AddrError{Err: "invalid port", Addr: address}
	}
	a := &TCPAddr{Port: p}
	if ip := realnet.ParseIP(host); ip != nil {
		a.IP = ip
	} else {
		a.Zone = host // keep the name; String() is not used for dialling
	}
	return a, nil
}

// TCPConn is the simulated counterpart of *net.TCPConn.
type TCPConn struct {
	*pipe.End
}

func (c *TCPConn) SetNoDelay(bool) error                  { return nil }
func (c *TCPConn) SetKeepAlive(bool) error                { return nil }
func (c *TCPConn) SetKeepAlivePeriod(time.Duration) error { return nil }
func (c *TCPConn) SetLinger(int) error                    { return nil }
func (c *TCPConn) CloseWrite() error                      { return c.End.Close() }
func (c *TCPConn) CloseRead() error                       { return nil }

func tcpAddrString(a *TCPAddr) string {
	host := a.Zone
	if a.IP != nil {
		host = a.IP.String()
	}
	return realnet.JoinHostPort(host, strconv.Itoa(a.Port))
}

func DialTCP(network string, laddr, raddr *TCPAddr) (*TCPConn, error) {
	if raddr == nil {
		return nil, &OpError{Op: "dial", Net: network, Err: errors.New("missing address")}
	}
	n, err := current()
	if err != nil {
		return nil, err
	}
	e, err := n.Dial(context.Background(), tcpAddrString(raddr))
	if err != nil {
		return nil, err
	}
	return &TCPConn{e}, nil
}
