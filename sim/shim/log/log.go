// Package log (import path verif/sim/shim/log) replaces "log" in the mailbox
// package at check-build time (DESIGN 2.1).
//
// Package-level Print* are recorded as notes on the current simulated disk
// (nothing reaches the real stderr). Fatal* record a "log-fatal" event and
// panic with a *simfs.Death on the calling goroutine: the harness treats that as
// process death of the station; it is recoverable because it happens on the
// goroutine that called into the library. Panic* behave as in the real package.
//
// Logger is the real type: a *log.Logger made with New writes where it is told
// to, and its own Fatal* methods still call the real os.Exit (nothing in
// /repo/mailbox does that today; it cannot be intercepted through an alias).
package log

import (
	"fmt"
	"io"
	reallog "log"

	"verif/sim/simfs"
)

type Logger = reallog.Logger

const (
	Ldate         = reallog.Ldate
	Ltime         = reallog.Ltime
	Lmicroseconds = reallog.Lmicroseconds
	Llongfile     = reallog.Llongfile
	Lshortfile    = reallog.Lshortfile
	LUTC          = reallog.LUTC
	Lmsgprefix    = reallog.Lmsgprefix
	LstdFlags     = reallog.LstdFlags
)

// noteWriter is where the shim's standard logger writes.
type noteWriter struct{}

func (noteWriter) Write(p []byte) (int, error) {
	record("log", string(p))
	return len(p), nil
}

var std = reallog.New(noteWriter{}, "", 0)

func record(kind, text string) {
	if f := simfs.Current(); f != nil {
		for len(text) > 0 && text[len(text)-1] == '\n' {
			text = text[:len(text)-1]
		}
		f.AddNote(kind, text)
	}
}

func New(out io.Writer, prefix string, flag int) *Logger { return reallog.New(out, prefix, flag) }

// Default returns the shim's standard logger (its Fatal* methods are the real
// ones; use the package-level functions).
func Default() *Logger { return std }

func SetOutput(w io.Writer)   { std.SetOutput(w) }
func SetFlags(flag int)       { std.SetFlags(flag) }
func SetPrefix(prefix string) { std.SetPrefix(prefix) }
func Flags() int              { return std.Flags() }
func Prefix() string          { return std.Prefix() }
func Writer() io.Writer       { return std.Writer() }

func Output(calldepth int, s string) error { return std.Output(calldepth+1, s) }

func Print(v ...any)                 { std.Output(2, fmt.Sprint(v...)) }
func Printf(format string, v ...any) { std.Output(2, fmt.Sprintf(format, v...)) }
func Println(v ...any)               { std.Output(2, fmt.Sprintln(v...)) }

func fatal(msg string) {
	record("log-fatal", msg)
	simfs.Die("log-fatal", 1, msg)
}

func Fatal(v ...any)                 { fatal(fmt.Sprint(v...)) }
func Fatalf(format string, v ...any) { fatal(fmt.Sprintf(format, v...)) }
func Fatalln(v ...any)               { fatal(fmt.Sprintln(v...)) }

func Panic(v ...any) {
	s := fmt.Sprint(v...)
	std.Output(2, s)
	panic(s)
}

func Panicf(format string, v ...any) {
	s := fmt.Sprintf(format, v...)
	std.Output(2, s)
	panic(s)
}

func Panicln(v ...any) {
	s := fmt.Sprintln(v...)
	std.Output(2, s)
	panic(s)
}
