// Package simsync stands in for "sync" in library packages that are built
// with yield points (cmd/verifctl/overlay.go): its Mutex and RWMutex are the
// real ones, but they count how many locks are held so that a yield point
// never parks a goroutine inside a critical section - other goroutines would
// then block on the mutex, which is not a durable block, and the bubble's
// clock would stop (DESIGN 8.9). Everything else is the standard library's.
package simsync

import (
	"sync"

	"verif/sim/shim/simyield"
)

type (
	WaitGroup = sync.WaitGroup
	Once      = sync.Once
	Pool      = sync.Pool
	Map       = sync.Map
	Cond      = sync.Cond
	Locker    = sync.Locker
)

func NewCond(l Locker) *Cond { return sync.NewCond(l) }

type Mutex struct{ mu sync.Mutex }

func (m *Mutex) Lock() { m.mu.Lock(); simyield.Held.Add(1) }
func (m *Mutex) TryLock() bool {
	if m.mu.TryLock() {
		simyield.Held.Add(1)
		return true
	}
	return false
}
func (m *Mutex) Unlock() { simyield.Held.Add(-1); m.mu.Unlock() }

type RWMutex struct{ mu sync.RWMutex }

func (m *RWMutex) Lock()    { m.mu.Lock(); simyield.Held.Add(1) }
func (m *RWMutex) Unlock()  { simyield.Held.Add(-1); m.mu.Unlock() }
func (m *RWMutex) RLock()   { m.mu.RLock(); simyield.Held.Add(1) }
func (m *RWMutex) RUnlock() { simyield.Held.Add(-1); m.mu.RUnlock() }
func (m *RWMutex) RLocker() Locker {
	return (*rlocker)(m)
}

type rlocker RWMutex

func (r *rlocker) Lock()   { (*RWMutex)(r).RLock() }
func (r *rlocker) Unlock() { (*RWMutex)(r).RUnlock() }
