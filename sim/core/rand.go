// Package core holds what every simulation engine shares: the seeded PRNG, the
// plan/outcome types, the simulated-instant allocator and event log, the worker
// loop that runs inside an engine's test binary, and the plan reducer.
package core

import (
	"hash/fnv"
	"math/rand/v2"
)

// Rand is the only source of randomness in generators. Executors never see one.
type Rand struct{ r *rand.Rand }

// NewRand derives an independent stream from the seed and a list of labels
// (engine, property, run index ...). Same inputs, same stream, on any machine.
func NewRand(seed uint64, labels ...string) *Rand {
	h := fnv.New64a()
	for _, l := range labels {
		h.Write([]byte(l))
		h.Write([]byte{0})
	}
	return &Rand{rand.New(rand.NewPCG(seed, h.Sum64()))}
}

func (r *Rand) Uint64() uint64 { return r.r.Uint64() }

// Intn returns a value in [0,n); 0 when n <= 0.
func (r *Rand) Intn(n int) int {
	if n <= 0 {
		return 0
	}
	return r.r.IntN(n)
}

// Range returns a value in [lo,hi].
func (r *Rand) Range(lo, hi int) int {
	if hi <= lo {
		return lo
	}
	return lo + r.r.IntN(hi-lo+1)
}

func (r *Rand) Float() float64 { return r.r.Float64() }
func (r *Rand) Bool() bool     { return r.r.IntN(2) == 1 }
func (r *Rand) Chance(p float64) bool {
	return r.r.Float64() < p
}

// Bytes returns n uniformly random bytes.
func (r *Rand) Bytes(n int) []byte {
	b := make([]byte, n)
	for i := range b {
		b[i] = byte(r.r.IntN(256))
	}
	return b
}

// Pick returns one of the weights' indices with probability proportional to its weight.
func (r *Rand) Pick(weights ...int) int {
	t := 0
	for _, w := range weights {
		t += w
	}
	if t <= 0 {
		return 0
	}
	x := r.r.IntN(t)
	for i, w := range weights {
		if x < w {
			return i
		}
		x -= w
	}
	return len(weights) - 1
}

// Choice picks one element of a non-empty slice.
func Choice[T any](r *Rand, xs []T) T { return xs[r.Intn(len(xs))] }

// Shuffle permutes xs in place.
func Shuffle[T any](r *Rand, xs []T) {
	for i := len(xs) - 1; i > 0; i-- {
		j := r.Intn(i + 1)
		xs[i], xs[j] = xs[j], xs[i]
	}
}

// Tape returns n values drawn by f; tapes are consumed cyclically by executors.
func Tape(r *Rand, n int, f func() int) []int {
	t := make([]int, n)
	for i := range t {
		t[i] = f()
	}
	return t
}

// TapeAt reads a cyclic tape; an empty tape yields def.
func TapeAt(t []int, i int, def int) int {
	if len(t) == 0 {
		return def
	}
	if i < 0 {
		i = -i
	}
	return t[i%len(t)]
}

// TapeAtF reads a cyclic float tape; an empty tape yields 0.
func TapeAtF(t []float64, i int) float64 {
	if len(t) == 0 {
		return 0
	}
	if i < 0 {
		i = -i
	}
	return t[i%len(t)]
}
