package core

import (
	"encoding/json"
	"testing"
)

// Violation is one oracle failure. Signature is property/oracle/detail and is
// what known_findings.json and the reducer match on.
type Violation struct {
	Property  string `json:"property"`
	Signature string `json:"signature"`
	Message   string `json:"message"`
	// Replay, when set, is the narrowed plan that reproduces just this
	// violation (fault-enumerating executors set it to scenario + the one fault).
	Replay json.RawMessage `json:"replay,omitempty"`
}

// Outcome is what executing one plan produced.
type Outcome struct {
	Violations []Violation    `json:"violations,omitempty"`
	LogHash    string         `json:"log_hash"`
	NonTrivial bool           `json:"nontrivial"`
	SimNanos   int64          `json:"sim_ns"`
	Evals      int            `json:"evals"`            // executions inside this plan (>=1)
	Hashes     []string       `json:"hashes,omitempty"` // per-execution log hashes of non-trivial executions (fault enumeration)
	Faults     map[string]int `json:"faults,omitempty"`
	Probes     map[string]int `json:"probes,omitempty"`
	Sample     any            `json:"sample,omitempty"`
	Trace      []string       `json:"trace,omitempty"`
	Stalled    bool           `json:"stalled,omitempty"`
}

func (o *Outcome) AddCounters(faults, probes map[string]int) {
	if o.Faults == nil {
		o.Faults = map[string]int{}
	}
	if o.Probes == nil {
		o.Probes = map[string]int{}
	}
	for k, v := range faults {
		o.Faults[k] += v
	}
	for k, v := range probes {
		o.Probes[k] += v
	}
}

func (o *Outcome) Violate(property, oracle, detail, msg string) {
	o.Violations = append(o.Violations, Violation{
		Property:  property,
		Signature: property + "/" + oracle + "/" + detail,
		Message:   msg,
	})
}

// Engine is implemented once per engine package and driven by WorkerMain.
type Engine interface {
	Name() string
	// Generate turns the PRNG stream into a plan (any JSON-marshalable value).
	Generate(prop, tier string, r *Rand, run int) any
	// Execute is a total function of the plan: no PRNG, no real clock.
	Execute(t *testing.T, prop string, plan json.RawMessage, trace bool) Outcome
	// Info describes the check for the evidence file.
	Info(prop string) Info
}

// Info is static description used in evidence files.
type Info struct {
	Level       string   `json:"level"` // exploration | fault_enumeration
	Rule        string   `json:"rule"`
	Real        []string `json:"real"`
	Stub        []string `json:"stub"`
	Assumptions []string `json:"assumptions"`
	// Runs per tier (number of plans generated; each may contain many executions).
	QuickRuns    int `json:"quick_runs"`
	ThoroughRuns int `json:"thorough_runs"`
	// WatchdogSec: wall-clock budget for one plan (default 60).
	WatchdogSec int `json:"watchdog_s"`
	// HangIsViolation: the property itself promises termination/bounded time.
	HangIsViolation bool `json:"hang_is_violation"`
	Race            bool `json:"race"` // build with -race
}

// WorkerConfig is passed to the test binary through the file named by
// $VERIF_WORKER.
type WorkerConfig struct {
	Mode     string   `json:"mode"` // range | plans | info
	Property string   `json:"property"`
	Tier     string   `json:"tier"`
	Seed     uint64   `json:"seed"`
	Start    int      `json:"start"`
	Stride   int      `json:"stride"`
	End      int      `json:"end"` // exclusive
	Plans    []string `json:"plans,omitempty"`
	Out      string   `json:"out"`      // JSONL of Record
	Inflight string   `json:"inflight"` // plan being executed right now
	Trace    bool     `json:"trace"`
	// WallDeadlineUnix stops a range worker early (safety cap), 0 = none.
	WallDeadlineUnix int64 `json:"wall_deadline_unix"`
}

// Record is one line of a worker's output.
type Record struct {
	Run      int             `json:"run"`
	PlanFile string          `json:"plan_file,omitempty"`
	Outcome  Outcome         `json:"outcome"`
	Plan     json.RawMessage `json:"plan,omitempty"` // kept for violations and samples
	WallUs   int64           `json:"wall_us"`
}

// Inflight is what a worker writes before it starts a plan.
type Inflight struct {
	Run      int             `json:"run"`
	PlanFile string          `json:"plan_file,omitempty"`
	Plan     json.RawMessage `json:"plan"`
	// Recycle: not a plan in flight: the worker asks to be restarted at Run.
	Recycle bool `json:"recycle,omitempty"`
}
