package core

import (
	"bufio"
	"encoding/json"
	"fmt"
	"os"
	"runtime"
	"runtime/debug"
	"strconv"
	"strings"
	"sync/atomic"
	"testing"
	"time"
)

// wdStarted is the real time (unix ns) at which the execution now running
// began; 0 while no plan runs. Every Bubble resets it, so the wall-clock
// watchdog bounds one simulated execution, not a whole fault-enumerating plan
// (thousands of executions, legitimately minutes on a loaded machine).
var wdStarted atomic.Int64

// petWatchdog is called at the start of every bubble.
func petWatchdog() {
	if wdStarted.Load() != 0 {
		now := time.Now()
		wdStarted.Store(now.UnixNano())
		heartbeat(now)
	}
}

// The in-process watchdog is a goroutine: with GOMAXPROCS=1 and asynchronous
// preemption off, a loop without a function call in the code under test never
// lets it run. The parent therefore watches a heartbeat file as well: its
// modification time is refreshed (at most once a second) whenever an
// execution starts; a worker whose heartbeat is older than the watchdog
// period plus a grace is killed from outside (cmd/verifctl runMonitored).
var (
	hbPath string
	hbLast atomic.Int64
)

func heartbeat(now time.Time) {
	if hbPath == "" || now.UnixNano()-hbLast.Load() < int64(time.Second) {
		return
	}
	hbLast.Store(now.UnixNano())
	os.Chtimes(hbPath, now, now)
}

// Exit codes of a worker process.
const (
	ExitOK       = 0
	ExitWatchdog = 3 // wall-clock watchdog fired: the in-flight plan did not finish
	ExitInfra    = 4 // harness trouble
	ExitRecycle  = 5 // the worker grew too large: restart it at Inflight.Run
)

// recycleKB: see WorkerMain; $VERIF_RECYCLE_KB overrides it (tests).
var recycleKB = func() int {
	if n, err := strconv.Atoi(os.Getenv("VERIF_RECYCLE_KB")); err == nil && n > 0 {
		return n
	}
	return 2_500_000
}()

// residentKB reads the resident set size of this process (0 if unknown).
func residentKB() int {
	raw, err := os.ReadFile("/proc/self/statm")
	if err != nil {
		return 0
	}
	f := strings.Fields(string(raw))
	if len(f) < 2 {
		return 0
	}
	pages, _ := strconv.Atoi(f[1])
	return pages * (os.Getpagesize() / 1024)
}

// WorkerMain is the body of every engine's TestWorker. Without $VERIF_WORKER it
// is a no-op so that a plain `go test ./...` in /verif stays green.
func WorkerMain(t *testing.T, e Engine) {
	cfgPath := os.Getenv("VERIF_WORKER")
	if cfgPath == "" {
		t.Skip("VERIF_WORKER not set")
	}
	raw, err := os.ReadFile(cfgPath)
	if err != nil {
		infra("read config: %v", err)
	}
	var cfg WorkerConfig
	if err := json.Unmarshal(raw, &cfg); err != nil {
		infra("parse config: %v", err)
	}
	if cfg.Mode == "info" {
		b, _ := json.Marshal(e.Info(cfg.Property))
		if err := os.WriteFile(cfg.Out, b, 0o644); err != nil {
			infra("write info: %v", err)
		}
		return
	}

	// GC only between plans: keeps the scheduler's choices repeatable and the
	// allocation oracle (C03) readable.
	debug.SetGCPercent(400)

	out, err := os.OpenFile(cfg.Out, os.O_CREATE|os.O_WRONLY|os.O_APPEND, 0o644)
	if err != nil {
		infra("open out: %v", err)
	}
	defer out.Close()
	w := bufio.NewWriter(out)
	defer w.Flush()

	if hb := os.Getenv("VERIF_HEARTBEAT"); hb != "" {
		if f, err := os.Create(hb); err == nil {
			f.Close()
			hbPath = hb
		}
	}
	info := e.Info(cfg.Property)
	wdSec := info.WatchdogSec
	if wdSec <= 0 {
		wdSec = 60
	}
	if s := os.Getenv("VERIF_WATCHDOG_S"); s != "" {
		if n, err := strconv.Atoi(s); err == nil && n > 0 {
			wdSec = n
		}
	}

	// The watchdog lives outside every bubble and reads the real clock. It is
	// the only place where real time decides anything (DESIGN 2.7): a CPU spin
	// or a mutex deadlock never lets the fake clock advance.
	var epoch atomic.Int64 // plan counter; watchdog compares
	started := &wdStarted
	go func() {
		for {
			time.Sleep(250 * time.Millisecond)
			st := started.Load()
			if st == 0 {
				continue
			}
			if time.Since(time.Unix(0, st)) > time.Duration(wdSec)*time.Second {
				e := epoch.Load()
				buf := make([]byte, 1<<20)
				n := runtime.Stack(buf, true)
				fmt.Fprintf(os.Stderr, "VERIF-WATCHDOG plan#%d exceeded %ds wall\n%s\n", e, wdSec, buf[:n])
				os.Exit(ExitWatchdog)
			}
		}
	}()

	runOne := func(run int, planFile string, plan json.RawMessage, keepPlan bool) {
		inf, _ := json.Marshal(Inflight{Run: run, PlanFile: planFile, Plan: plan})
		if cfg.Inflight != "" {
			if err := os.WriteFile(cfg.Inflight, inf, 0o644); err != nil {
				infra("write inflight: %v", err)
			}
		}
		epoch.Add(1)
		t0 := time.Now()
		started.Store(t0.UnixNano())
		hbLast.Store(0)
		heartbeat(t0)
		o := e.Execute(t, cfg.Property, plan, cfg.Trace)
		started.Store(0)
		if o.Evals == 0 {
			o.Evals = 1
		}
		rec := Record{Run: run, PlanFile: planFile, Outcome: o, WallUs: time.Since(t0).Microseconds()}
		if keepPlan || len(o.Violations) > 0 || o.Stalled {
			rec.Plan = plan
		}
		b, err := json.Marshal(rec)
		if err != nil {
			infra("marshal record: %v", err)
		}
		w.Write(b)
		w.WriteByte('\n')
		w.Flush()
		if cfg.Inflight != "" {
			os.Remove(cfg.Inflight)
		}
	}

	switch cfg.Mode {
	case "range":
		if cfg.Stride <= 0 {
			cfg.Stride = 1
		}
		n := 0
		for run := cfg.Start; run < cfg.End; run += cfg.Stride {
			if cfg.WallDeadlineUnix > 0 && time.Now().Unix() > cfg.WallDeadlineUnix {
				break
			}
			r := NewRand(cfg.Seed, e.Name(), cfg.Property, cfg.Tier, strconv.Itoa(run))
			p := e.Generate(cfg.Property, cfg.Tier, r, run)
			plan, err := json.Marshal(p)
			if err != nil {
				infra("marshal plan: %v", err)
			}
			runOne(run, "", plan, n < 2)
			n++
			if n%16 == 0 {
				runtime.GC()
			}
			// Goroutines the code under test leaves blocked, and the race
			// runtime's own bookkeeping, are never given back: a worker that has
			// grown past 2.5 GiB hands the rest of its stripe to a fresh process
			// (16 of them at 5 GB each met the kernel's OOM killer in a thorough
			// C19 run).
			if n%64 == 0 && run+cfg.Stride < cfg.End && residentKB() > recycleKB {
				w.Flush()
				out.Close()
				if cfg.Inflight != "" {
					inf, _ := json.Marshal(Inflight{Run: run + cfg.Stride, Recycle: true})
					os.WriteFile(cfg.Inflight, inf, 0o644)
				}
				os.Exit(ExitRecycle)
			}
		}
	case "plans":
		for i, pf := range cfg.Plans {
			plan, err := os.ReadFile(pf)
			if err != nil {
				infra("read plan %s: %v", pf, err)
			}
			// a replay file wraps the plan; accept both forms
			var wrap struct {
				Plan json.RawMessage `json:"plan"`
			}
			if json.Unmarshal(plan, &wrap) == nil && len(wrap.Plan) > 0 {
				plan = wrap.Plan
			}
			runOne(i, pf, plan, false)
		}
	default:
		infra("unknown mode %q", cfg.Mode)
	}
}

func infra(format string, args ...any) {
	fmt.Fprintf(os.Stderr, "VERIF-INFRA "+format+"\n", args...)
	os.Exit(ExitInfra)
}
