package core

import (
	"crypto/sha256"
	"encoding/hex"
	"fmt"
	"hash"
	"os"
	"runtime"
	"runtime/debug"
	"sort"
	"strings"
	"sync"
	"sync/atomic"
	"testing"
	"testing/synctest"
	"time"

	"verif/sim/shim/simyield"
)

// Sim is the per-run simulation context. It must be created inside the bubble.
//
// Scheduling rule (DESIGN 2.2): the environment never acts directly; it schedules
// each effect with At(), which gives it a simulated instant no other environment
// event has. The fake clock only advances when every goroutine in the bubble is
// durably blocked, so one event happens, whatever it woke runs until it blocks
// again, and then the next event happens.
type Sim struct {
	start time.Time

	mu      sync.Mutex
	used    map[int64]struct{}
	resN    uint64
	seq     uint64
	h       hash.Hash
	keep    bool
	lines   []string
	faults  map[string]int
	probes  map[string]int
	viols   []Violation
	stopped bool
	yields  atomic.Int64
}

// NewSim must be called from inside a synctest bubble.
func NewSim(keepLog bool) *Sim {
	return &Sim{
		start:  time.Now(),
		used:   map[int64]struct{}{},
		h:      sha256.New(),
		keep:   keepLog,
		faults: map[string]int{},
		probes: map[string]int{},
	}
}

func (s *Sim) release() {
	s.mu.Lock()
	s.used = map[int64]struct{}{}
	s.lines = nil
	s.mu.Unlock()
}

// Now is the simulated time since the run started.
func (s *Sim) Now() time.Duration { return time.Since(s.start) }

// Reserve returns the first free instant >= at (relative to the run start) and
// marks it used.
func (s *Sim) Reserve(at time.Duration) time.Duration {
	s.mu.Lock()
	defer s.mu.Unlock()
	return s.reserveLocked(at)
}

func (s *Sim) reserveLocked(at time.Duration) time.Duration {
	now := time.Since(s.start)
	if at <= now {
		at = now + 1
	}
	// Deterministic sub-microsecond jitter: timers the code under test starts
	// (tickers, deadlines) fire at "some earlier environment instant + a round
	// duration". Plan latencies are whole microseconds, so without jitter such
	// a timer often lands exactly on a later environment instant, and synctest
	// randomises the order of timers that share an instant.
	s.resN++
	at += time.Duration((s.resN * 2654435761 >> 5) % 977)
	for {
		if _, taken := s.used[int64(at)]; !taken {
			break
		}
		at++
	}
	s.used[int64(at)] = struct{}{}
	return at
}

// At schedules f at a unique instant no earlier than now+d and returns that
// instant. f runs on its own goroutine inside the bubble.
func (s *Sim) At(d time.Duration, f func()) time.Duration {
	if d < 0 {
		d = 0
	}
	s.mu.Lock()
	at := s.reserveLocked(time.Since(s.start) + d)
	s.mu.Unlock()
	time.AfterFunc(at-time.Since(s.start), f)
	return at
}

// AtAbs schedules f at the first free instant >= at (relative to run start).
func (s *Sim) AtAbs(at time.Duration, f func()) time.Duration {
	at = s.Reserve(at)
	time.AfterFunc(at-time.Since(s.start), f)
	return at
}

// Pause blocks the calling goroutine until a fresh unique instant: everything
// that is runnable now runs until it blocks before the caller continues.
func (s *Sim) Pause() {
	at := s.Reserve(s.Now() + 1)
	time.Sleep(at - s.Now())
}

// EnableYields turns the yield points of the instrumented library packages
// (sim/shim/simyield) into plan-driven pauses: the n-th point reached in this
// run pauses its goroutine for tape[n mod len] microseconds (0: it goes on at
// once). Nothing else decides: the same plan gives the same pauses. Call
// DisableYields before the run ends.
func (s *Sim) EnableYields(tape []int) {
	if len(tape) == 0 {
		return
	}
	var n atomic.Int64
	simyield.Set(func() {
		i := n.Add(1) - 1
		us := tape[int(i%int64(len(tape)))]
		if us <= 0 || simyield.Held.Load() > 0 {
			return
		}
		if us > 10_000_000 {
			us = 10_000_000
		}
		s.yields.Add(1)
		at := s.Reserve(s.Now() + time.Duration(us)*time.Microsecond)
		time.Sleep(at - s.Now())
	})
}

// DisableYields removes the hook and returns how many pauses were taken.
func (s *Sim) DisableYields() int {
	simyield.Clear()
	if s.yields.Load() > 0 {
		// A goroutine of the code under test may be standing at a yield point
		// right now (a reporter the library started and does not join): let
		// the longest possible pause run out before the run is wound up, or the
		// bubble ends with a sleeping goroutine and calls that a leak.
		time.Sleep(11 * time.Second)
	}
	return int(s.yields.Load())
}

// Events returns how many environment instants were reserved so far (a measure
// of the harness's own per-event work in this run).
func (s *Sim) Events() uint64 {
	s.mu.Lock()
	defer s.mu.Unlock()
	return s.resN
}

// Seq hands out the global event sequence number used to stamp histories.
func (s *Sim) Seq() uint64 {
	s.mu.Lock()
	defer s.mu.Unlock()
	s.seq++
	return s.seq
}

// Logf appends one line to the event log. The log is hashed; identical hashes
// mean identical executions (determinism self-test, distinct-run counting).
// It draws no randomness and reads only the simulated clock.
//
// Never call Logf from a goroutine whose races a check wants to observe (C17
// status recorder, C19 clients): the lock would order them.
func (s *Sim) Logf(format string, args ...any) {
	s.mu.Lock()
	defer s.mu.Unlock()
	line := fmt.Sprintf("%d ", int64(time.Since(s.start))) + fmt.Sprintf(format, args...)
	s.h.Write([]byte(line))
	s.h.Write([]byte{'\n'})
	if s.keep {
		s.lines = append(s.lines, line)
	}
}

func (s *Sim) Fault(kind string) { s.mu.Lock(); s.faults[kind]++; s.mu.Unlock() }
func (s *Sim) Probe(name string) { s.mu.Lock(); s.probes[name]++; s.mu.Unlock() }
func (s *Sim) ProbeN(name string, n int) {
	s.mu.Lock()
	s.probes[name] += n
	s.mu.Unlock()
}

// Violate records an oracle failure.
func (s *Sim) Violate(property, oracle, detail, format string, args ...any) {
	s.mu.Lock()
	defer s.mu.Unlock()
	s.viols = append(s.viols, Violation{
		Property:  property,
		Signature: property + "/" + oracle + "/" + detail,
		Message:   fmt.Sprintf(format, args...),
	})
}

func (s *Sim) Violations() []Violation {
	s.mu.Lock()
	defer s.mu.Unlock()
	return append([]Violation(nil), s.viols...)
}

func (s *Sim) LogHash() string {
	s.mu.Lock()
	defer s.mu.Unlock()
	return hex.EncodeToString(s.h.Sum(nil))[:24]
}

func (s *Sim) Lines() []string {
	s.mu.Lock()
	defer s.mu.Unlock()
	return append([]string(nil), s.lines...)
}

func (s *Sim) Counters() (faults, probes map[string]int) {
	s.mu.Lock()
	defer s.mu.Unlock()
	faults, probes = map[string]int{}, map[string]int{}
	for k, v := range s.faults {
		faults[k] = v
	}
	for k, v := range s.probes {
		probes[k] = v
	}
	return
}

// FillOutcome copies the run's log hash, counters, violations and simulated
// time into an Outcome.
func (s *Sim) FillOutcome(o *Outcome) {
	o.LogHash = s.LogHash()
	o.SimNanos += int64(s.Now())
	f, p := s.Counters()
	o.AddCounters(f, p)
	o.Violations = append(o.Violations, s.Violations()...)
	if s.keep {
		o.Trace = s.Lines()
	}
}

// Bubble runs f inside a synctest bubble with a fresh Sim and reports whether
// the bubble ended with goroutines still blocked (leak=true; those goroutines
// stay parked for the life of the process) or with a panic on the bubble's
// main goroutine (returned as panicVal + stack).
func Bubble(t *testing.T, keepLog bool, f func(s *Sim)) (leak bool, panicVal any, stack string) {
	defer func() {
		if r := recover(); r != nil {
			msg := fmt.Sprint(r)
			if strings.Contains(msg, "deadlock: main bubble goroutine has exited") {
				leak = true
				if keepLog {
					// who is it? (trace mode only)
					buf := make([]byte, 1<<20)
					fmt.Fprintf(os.Stderr, "%s\n%s\n", msg, buf[:runtime.Stack(buf, true)])
				}
				return
			}
			panicVal = r
			stack = string(debug.Stack())
		}
	}()
	// No garbage collection while a run executes: a GC cycle preempts whatever
	// goroutine is running and re-queues it, which changes the order in which
	// simultaneously runnable goroutines proceed and with it the event log
	// (measured: 1-4 % of fbbsim runs diverged between executions before this).
	// The memory limit keeps a runaway run from exhausting the machine.
	petWatchdog()
	old := debug.SetGCPercent(-1)
	debug.SetMemoryLimit(6 << 30)
	defer func() {
		debug.SetGCPercent(old)
	}()
	synctest.Test(t, func(t *testing.T) {
		sim := NewSim(keepLog)
		// goroutines the code under test leaves blocked keep the Sim reachable
		// for the life of the process: drop its big tables when the run is over
		defer sim.release()
		f(sim)
	})
	return
}

// Go starts fn on a new goroutine in the current bubble and returns a channel
// closed when it finished. A panic in fn is captured, not propagated.
type GoResult struct {
	Done     chan struct{}
	Panic    any
	Stack    string
	Finished bool
}

func Go(fn func()) *GoResult {
	r := &GoResult{Done: make(chan struct{})}
	go func() {
		defer func() {
			if p := recover(); p != nil {
				r.Panic = p
				r.Stack = string(debug.Stack())
			}
			r.Finished = true
			close(r.Done)
		}()
		fn()
	}()
	return r
}

// WaitAll blocks until all results finished or the simulated budget elapsed.
// It returns false on timeout.
func WaitAll(budget time.Duration, rs ...*GoResult) bool {
	deadline := time.NewTimer(budget)
	defer deadline.Stop()
	for _, r := range rs {
		select {
		case <-r.Done:
		case <-deadline.C:
			return false
		}
	}
	return true
}

// RepoFrame extracts the innermost stack frame that belongs to the repository
// under test, as "pkg.Func" (no line numbers: signatures must survive edits).
func RepoFrame(stack string) string {
	for _, line := range strings.Split(stack, "\n") {
		line = strings.TrimSpace(line)
		const mod = "github.com/la5nta/wl2k-go/"
		i := strings.Index(line, mod)
		if i < 0 || strings.HasPrefix(line, "/") {
			continue
		}
		fn := line[i+len(mod):]
		if j := strings.LastIndex(fn, "("); j > 0 {
			fn = fn[:j]
		}
		fn = strings.NewReplacer("(*", "", ")", "").Replace(fn)
		// drop closure suffixes such as .func1.2
		for {
			k := strings.LastIndex(fn, ".")
			if k < 0 {
				break
			}
			suf := fn[k+1:]
			if strings.HasPrefix(suf, "func") || isDigits(suf) {
				fn = fn[:k]
				continue
			}
			break
		}
		return fn
	}
	return "unknown"
}

func isDigits(s string) bool {
	if s == "" {
		return false
	}
	for _, c := range s {
		if c < '0' || c > '9' {
			return false
		}
	}
	return true
}

// PanicClass reduces a panic value to a stable class string.
func PanicClass(v any) string {
	msg := fmt.Sprint(v)
	switch {
	case strings.Contains(msg, "slice bounds out of range"):
		return "slice-bounds"
	case strings.Contains(msg, "index out of range"):
		return "index-range"
	case strings.Contains(msg, "nil pointer"):
		return "nil-deref"
	case strings.Contains(msg, "makeslice"):
		return "makeslice"
	case strings.Contains(msg, "nil map"):
		return "nil-map"
	case strings.Contains(msg, "closed channel"):
		return "closed-channel"
	case strings.Contains(msg, "out of memory"):
		return "oom"
	}
	// error values thrown with panic(err): keep a short sanitised prefix
	msg = strings.Map(func(r rune) rune {
		switch {
		case r >= 'a' && r <= 'z', r >= 'A' && r <= 'Z':
			return r
		case r == ' ' || r == '-' || r == ':':
			return '-'
		}
		return -1
	}, msg)
	if len(msg) > 32 {
		msg = msg[:32]
	}
	return "panic-" + msg
}

// SortedKeys returns the keys of m in sorted order (maps are never ranged
// directly where order could leak into a plan, a log or an oracle).
func SortedKeys[V any](m map[string]V) []string {
	ks := make([]string, 0, len(m))
	for k := range m {
		ks = append(ks, k)
	}
	sort.Strings(ks)
	return ks
}
