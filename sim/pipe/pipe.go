// Package pipe is the simulated duplex byte link: two independent directions,
// each with plan-chosen segmentation, latency, pacing and faults, delivered at
// unique simulated instants (see core.Sim).
package pipe

import (
	"errors"
	"fmt"
	"io"
	"net"
	"os"
	"sync"
	"time"

	"verif/sim/core"
)

// DirPlan is the schedule of one direction. All tapes are read cyclically.
type DirPlan struct {
	// Seg: sizes of the segments a Write is split into (<=0: rest of the write).
	Seg []int `json:"seg,omitempty"`
	// LatUs: latency of each segment in microseconds (default 100).
	LatUs []int `json:"lat_us,omitempty"`
	// WriteDelayUs: simulated time each Write call blocks before returning
	// (transport pacing); 0/absent: Write returns at once.
	WriteDelayUs []int `json:"wdelay_us,omitempty"`
	// Coalesce: one entry per Write call (tape, read cyclically by write index).
	// A value > 0 merges the first segment of that write into the segment
	// scheduled last in this direction if that segment is still undelivered
	// (TCP coalescing of back-to-back writes: the receiver finds the bytes of
	// both writes in one read). Absent/0: every segment is its own delivery.
	Coalesce []int `json:"coalesce,omitempty"`
	// Window > 0: back-pressure. At most Window bytes may be accepted from the
	// writer and not yet read by the receiver; Write blocks (honouring the write
	// deadline) until the reader makes room. 0: unbounded, Write never blocks.
	Window int `json:"window,omitempty"`
	// Edits alter the byte stream in flight (offsets count bytes written by the sender).
	Edits []Edit `json:"edits,omitempty"`
}

// pendSeg is a scheduled, possibly not yet delivered segment (guarded by dir.mu).
type pendSeg struct {
	data []byte
	done bool
}

// Edit is an in-flight alteration at a sender-side stream offset.
type Edit struct {
	Off  int    `json:"off"`
	Kind string `json:"kind"` // sub | del | ins | xor | add
	Val  int    `json:"val"`
}

// Cut kills the link once Off bytes were delivered in direction Dir.
type Cut struct {
	Dir string `json:"dir"` // "ab" or "ba"
	Off int    `json:"off"`
	// Silent: writes after the cut succeed and vanish (a TNC that keeps
	// accepting data); otherwise they fail with a broken-pipe error.
	Silent bool `json:"silent,omitempty"`
}

// Plan describes one link.
type Plan struct {
	AB  DirPlan `json:"ab"`
	BA  DirPlan `json:"ba"`
	Cut *Cut    `json:"cut,omitempty"`
	// Caps: optional transport capabilities of the A and B ends:
	// any of "flusher", "txbuffer", "robust".
	CapsA []string `json:"caps_a,omitempty"`
	CapsB []string `json:"caps_b,omitempty"`
}

var errBroken = &net.OpError{Op: "write", Net: "sim", Err: errors.New("broken pipe")}

type addr string

func (a addr) Network() string { return "sim" }
func (a addr) String() string  { return string(a) }

// dir is one direction of the link.
type dir struct {
	name string
	plan DirPlan
	sim  *core.Sim

	// mu is the LINK's mutex, shared by both directions: delivery, cut and
	// the log line for them are one atomic step, so nothing the woken reader
	// does can slip in between (which would make the event order depend on
	// when the runtime happens to preempt the delivering goroutine).
	mu *sync.Mutex
	// cond: the reader of this direction waits here; fcond: the writer of this
	// direction waits here in Flush. Each end is driven by one goroutine, and
	// one environment event wakes at most one end: the other end's wake-up is
	// a separate event at its own instant. Two goroutines made runnable by
	// the same event would proceed in an order only the Go scheduler knows.
	cond  *sync.Cond
	fcond *sync.Cond
	wcond *sync.Cond // the writer waits here for window space
	peer  *dir

	// sender side
	written      int // bytes accepted from the writer (before edits)
	segIdx       int
	writeIdx     int
	lastSched    time.Duration
	inflight     int // bytes scheduled but not yet delivered (or dropped)
	flushWaiters int
	writeWaiters int
	wdeadline    time.Time
	wdTimer      *time.Timer
	wclosed      bool
	lastSeg      *pendSeg // segment scheduled last (Coalesce)

	// receiver side
	buf       []byte
	delivered int  // bytes handed to the receive buffer so far
	eof       bool // no more data will arrive (FIN or cut)
	cutOff    int  // -1: none
	dead      bool // cut happened: in-flight data is dropped
	silent    bool
	rclosed   bool // reader closed its end

	rdeadline time.Time
	rdTimer   *time.Timer

	cutSilent bool
	tap       func(p []byte) // sees bytes as delivered
}

// End is one end of a link and implements net.Conn.
type End struct {
	name   string
	rx, tx *dir
	sim    *core.Sim
	closed bool
	mu     sync.Mutex
	// OnClose is called (once) when Close is called on this end.
	OnClose func()
	closes  int
	robust  []bool
	laddr   net.Addr
	raddr   net.Addr
}

// Link is a pair of connected ends.
type Link struct {
	A, B      *End
	ab        *dir
	ba        *dir
	sim       *core.Sim
	mu        *sync.Mutex
	silentCut bool
}

// New creates a link inside the current bubble.
func New(sim *core.Sim, p Plan) *Link {
	lmu := &sync.Mutex{}
	mk := func(name string, dp DirPlan) *dir {
		d := &dir{name: name, plan: dp, sim: sim, cutOff: -1, mu: lmu}
		d.cond = sync.NewCond(lmu)
		d.fcond = sync.NewCond(lmu)
		d.wcond = sync.NewCond(lmu)
		return d
	}
	l := &Link{sim: sim, ab: mk("ab", p.AB), ba: mk("ba", p.BA), mu: lmu}
	l.ab.peer, l.ba.peer = l.ba, l.ab
	l.silentCut = p.Cut != nil && p.Cut.Silent
	l.A = &End{name: "A", rx: l.ba, tx: l.ab, sim: sim, laddr: addr("A"), raddr: addr("B")}
	l.B = &End{name: "B", rx: l.ab, tx: l.ba, sim: sim, laddr: addr("B"), raddr: addr("A")}
	if p.Cut != nil {
		d := l.ab
		if p.Cut.Dir == "ba" {
			d = l.ba
		}
		off := p.Cut.Off
		if off < 0 {
			off = 0
		}
		d.cutOff = off
		d.cutSilent = l.silentCut
		if off == 0 {
			// nothing is ever delivered in that direction: the link dies at once
			sim.At(0, func() {
				lmu.Lock()
				sim.Fault("cut")
				sim.Logf("cut %s@0", d.name)
				d.cutLocked(l.silentCut)
				lmu.Unlock()
			})
		}
	}
	return l
}

// SetAddrs sets the addresses reported by the ends.
func (l *Link) SetAddrs(a, b net.Addr) {
	l.A.laddr, l.A.raddr = a, b
	l.B.laddr, l.B.raddr = b, a
}

// Tap registers observers for the bytes delivered in each direction.
func (l *Link) Tap(ab, ba func(p []byte)) { l.ab.tap, l.ba.tap = ab, ba }

// Delivered returns the number of bytes delivered so far in each direction.
func (l *Link) Delivered() (ab, ba int) {
	l.mu.Lock()
	defer l.mu.Unlock()
	return l.ab.delivered, l.ba.delivered
}

// Kill cuts the link now (both directions), as a link failure.
func (l *Link) Kill() { l.kill(false) }

func (l *Link) kill(silent bool) {
	l.mu.Lock()
	l.killLocked(silent)
	l.mu.Unlock()
}

func (l *Link) killLocked(silent bool) {
	for _, d := range []*dir{l.ab, l.ba} {
		d.killLocked(silent)
	}
}

func (d *dir) killLocked(silent bool) {
	d.dead = true
	d.eof = true
	d.silent = silent
	d.inflight = 0
	d.cond.Broadcast()
	d.fcond.Broadcast()
	d.wcond.Broadcast()
}

// cutLocked is a link failure detected while delivering in direction d. Both
// directions stop carrying data at once. The end that reads d notices now; the
// other end notices at a later instant of its own.
func (d *dir) cutLocked(silent bool) {
	for _, x := range []*dir{d, d.peer} {
		x.dead = true
		x.silent = silent
		x.inflight = 0
	}
	d.eof = true
	d.cond.Broadcast()       // the reader of d ...
	d.peer.fcond.Broadcast() // ... which is also the writer of d.peer
	d.peer.wcond.Broadcast()
	p := d.peer
	d.sim.At(0, func() {
		d.mu.Lock()
		d.sim.Logf("cut noticed by the %s side", p.name[:1])
		p.eof = true
		p.cond.Broadcast()
		d.fcond.Broadcast()
		d.wcond.Broadcast()
		d.mu.Unlock()
	})
}

func (d *dir) applyEdits(p []byte) []byte {
	if len(d.plan.Edits) == 0 {
		return p
	}
	out := make([]byte, 0, len(p)+4)
	for i, b := range p {
		off := d.written + i
		keep := true
		for _, e := range d.plan.Edits {
			if e.Off != off {
				continue
			}
			d.sim.Logf("edit %s %s@%d val=%d", d.name, e.Kind, off, e.Val)
			switch e.Kind {
			case "sub":
				b = byte(e.Val)
				d.sim.Fault("edit-sub")
			case "xor":
				b ^= byte(e.Val)
				d.sim.Fault("edit-xor")
			case "add":
				b += byte(e.Val)
				d.sim.Fault("edit-add")
			case "del":
				keep = false
				d.sim.Fault("edit-del")
			case "ins":
				out = append(out, byte(e.Val))
				d.sim.Fault("edit-ins")
			}
		}
		if keep {
			out = append(out, b)
		}
	}
	return out
}

func (d *dir) write(p []byte) (int, error) {
	d.mu.Lock()
	total := 0
	wi := d.writeIdx
	d.writeIdx++
	merge := core.TapeAt(d.plan.Coalesce, wi, 0) > 0
	for {
		if d.wclosed {
			d.mu.Unlock()
			return total, net.ErrClosed
		}
		if d.dead || d.rclosed {
			silent := d.silent && d.dead
			d.mu.Unlock()
			if silent {
				return len(p), nil
			}
			return total, errBroken
		}
		chunk := p[total:]
		if len(chunk) == 0 {
			break
		}
		if w := d.plan.Window; w > 0 {
			// back-pressure: at most Window bytes accepted but not yet read
			avail := w - d.inflight - len(d.buf)
			if avail <= 0 {
				if !d.wdeadline.IsZero() && !time.Now().Before(d.wdeadline) {
					d.mu.Unlock()
					return total, os.ErrDeadlineExceeded
				}
				d.sim.Probe("writer-blocked-on-window")
				d.writeWaiters++
				d.wcond.Wait()
				d.writeWaiters--
				continue
			}
			if avail < len(chunk) {
				chunk = chunk[:avail]
			}
		}
		data := d.applyEdits(chunk)
		d.written += len(chunk)
		total += len(chunk)
		// split into segments and schedule each at its own instant
		for len(data) > 0 {
			sz := core.TapeAt(d.plan.Seg, d.segIdx, 0)
			d.segIdx++
			if sz <= 0 || sz > len(data) {
				sz = len(data)
			}
			seg := append([]byte(nil), data[:sz]...)
			data = data[sz:]
			if merge {
				merge = false
				if ps := d.lastSeg; ps != nil && !ps.done {
					ps.data = append(ps.data, seg...)
					d.inflight += len(seg)
					continue
				}
			}
			lat := time.Duration(core.TapeAt(d.plan.LatUs, d.segIdx, 100)) * time.Microsecond
			if lat < 0 {
				lat = 0
			}
			base := d.sim.Now()
			if d.lastSched > base {
				base = d.lastSched
			}
			d.inflight += len(seg)
			ps := &pendSeg{data: seg}
			d.lastSeg = ps
			at := d.sim.AtAbs(base+lat, func() { d.deliver(ps) })
			d.lastSched = at
		}
	}
	d.mu.Unlock()
	if wd := core.TapeAt(d.plan.WriteDelayUs, wi, 0); wd > 0 {
		time.Sleep(time.Duration(wd) * time.Microsecond)
	}
	return total, nil
}

// wakeWriterLater wakes a writer blocked on the window at an instant of its own.
func (d *dir) wakeWriterLater() {
	if d.writeWaiters == 0 {
		return
	}
	d.sim.At(0, func() {
		d.mu.Lock()
		d.wcond.Broadcast()
		d.mu.Unlock()
	})
}

func (d *dir) setWriteDeadline(t time.Time) {
	d.mu.Lock()
	defer d.mu.Unlock()
	d.wdeadline = t
	if d.wdTimer != nil {
		d.wdTimer.Stop()
		d.wdTimer = nil
	}
	if !t.IsZero() && d.plan.Window > 0 {
		dur := time.Until(t)
		if dur < 0 {
			dur = 0
		}
		d.wdTimer = time.AfterFunc(dur, func() {
			d.mu.Lock()
			d.wcond.Broadcast()
			d.mu.Unlock()
		})
	}
}

func (d *dir) deliver(ps *pendSeg) {
	d.mu.Lock()
	defer d.mu.Unlock()
	ps.done = true
	seg := ps.data
	if d.dead {
		return
	}
	cutNow := false
	if d.cutOff >= 0 && d.delivered+len(seg) >= d.cutOff {
		seg = seg[:d.cutOff-d.delivered]
		cutNow = true
	}
	d.inflight -= len(seg)
	if d.inflight < 0 {
		d.inflight = 0
	}
	// log first, then make the data visible: whatever the reader logs comes after
	d.sim.Logf("dlv %s +%d =%d", d.name, len(seg), d.delivered+len(seg))
	if !d.rclosed {
		d.buf = append(d.buf, seg...)
	}
	d.delivered += len(seg)
	if d.tap != nil && len(seg) > 0 {
		d.tap(seg) // taps only record; they never call back into the link
	}
	if cutNow {
		d.sim.Fault("cut")
		d.sim.Logf("cut %s@%d", d.name, d.delivered)
		d.cutLocked(d.cutSilent)
		return
	}
	d.cond.Broadcast()
	if d.inflight == 0 && d.flushWaiters > 0 {
		// the writer's Flush completes at an instant of its own
		d.sim.At(0, func() {
			d.mu.Lock()
			d.fcond.Broadcast()
			d.mu.Unlock()
		})
	}
}

func (d *dir) read(p []byte) (int, error) {
	d.mu.Lock()
	defer d.mu.Unlock()
	for {
		if d.rclosed {
			return 0, net.ErrClosed
		}
		if len(d.buf) > 0 {
			n := copy(p, d.buf)
			d.buf = d.buf[n:]
			d.wakeWriterLater()
			return n, nil
		}
		if d.eof {
			return 0, io.EOF
		}
		if !d.rdeadline.IsZero() && !time.Now().Before(d.rdeadline) {
			return 0, os.ErrDeadlineExceeded
		}
		if len(p) == 0 {
			return 0, nil
		}
		d.cond.Wait()
	}
}

func (d *dir) setReadDeadline(t time.Time) {
	d.mu.Lock()
	defer d.mu.Unlock()
	d.rdeadline = t
	if d.rdTimer != nil {
		d.rdTimer.Stop()
		d.rdTimer = nil
	}
	if !t.IsZero() {
		dur := time.Until(t)
		if dur < 0 {
			dur = 0
		}
		d.rdTimer = time.AfterFunc(dur, func() {
			d.mu.Lock()
			d.cond.Broadcast()
			d.mu.Unlock()
		})
	}
	d.cond.Broadcast()
}

// closeWrite: the writer closed; the reader sees EOF after everything in flight.
func (d *dir) closeWrite() {
	d.mu.Lock()
	if d.wclosed {
		d.mu.Unlock()
		return
	}
	d.wclosed = true
	base := d.sim.Now()
	if d.lastSched > base {
		base = d.lastSched
	}
	lat := time.Duration(core.TapeAt(d.plan.LatUs, d.segIdx, 100)) * time.Microsecond
	at := d.sim.AtAbs(base+lat, func() {
		d.mu.Lock()
		d.sim.Logf("fin %s", d.name)
		d.eof = true
		d.cond.Broadcast()
		d.mu.Unlock()
	})
	d.lastSched = at
	d.mu.Unlock()
}

func (d *dir) closeRead() {
	d.mu.Lock()
	d.rclosed = true
	d.buf = nil
	d.wakeWriterLater()
	if d.rdTimer != nil {
		d.rdTimer.Stop()
		d.rdTimer = nil
	}
	d.cond.Broadcast()
	d.mu.Unlock()
}

func (e *End) Read(p []byte) (int, error) {
	n, err := e.rx.read(p)
	if err != nil && err != io.EOF {
		if errors.Is(err, net.ErrClosed) {
			err = &net.OpError{Op: "read", Net: "sim", Err: net.ErrClosed}
		}
	}
	return n, err
}

func (e *End) Write(p []byte) (int, error) {
	e.mu.Lock()
	closed := e.closed
	e.mu.Unlock()
	if closed {
		return 0, &net.OpError{Op: "write", Net: "sim", Err: net.ErrClosed}
	}
	return e.tx.write(p)
}

// Close closes this end: local reads/writes fail with net.ErrClosed, the peer
// reads EOF after the data already in flight.
func (e *End) Close() error {
	e.mu.Lock()
	e.closes++
	if e.closed {
		e.mu.Unlock()
		return &net.OpError{Op: "close", Net: "sim", Err: net.ErrClosed}
	}
	e.closed = true
	cb := e.OnClose
	e.mu.Unlock()
	e.sim.Logf("close %s", e.name)
	e.tx.closeWrite()
	e.rx.closeRead()
	if cb != nil {
		cb()
	}
	return nil
}

// Closed reports whether Close was called and how often.
func (e *End) Closed() (bool, int) {
	e.mu.Lock()
	defer e.mu.Unlock()
	return e.closed, e.closes
}

func (e *End) LocalAddr() net.Addr  { return e.laddr }
func (e *End) RemoteAddr() net.Addr { return e.raddr }

func (e *End) SetDeadline(t time.Time) error {
	e.rx.setReadDeadline(t)
	e.tx.setWriteDeadline(t)
	return nil
}
func (e *End) SetReadDeadline(t time.Time) error {
	e.rx.setReadDeadline(t)
	return nil
}

// SetWriteDeadline matters only on links with a Window (back-pressure).
func (e *End) SetWriteDeadline(t time.Time) error {
	e.tx.setWriteDeadline(t)
	return nil
}

// TxBufferLen is the number of bytes written but not yet delivered.
func (e *End) txBufferLen() int {
	e.tx.mu.Lock()
	defer e.tx.mu.Unlock()
	return e.tx.inflight
}

// flush blocks until everything written was delivered (or the link died).
func (e *End) flush() error {
	e.tx.mu.Lock()
	defer e.tx.mu.Unlock()
	for e.tx.inflight > 0 && !e.tx.dead {
		e.tx.flushWaiters++
		e.tx.fcond.Wait()
		e.tx.flushWaiters--
	}
	if e.tx.dead && !e.tx.silent {
		return errBroken
	}
	return nil
}

func (e *End) setRobust(r bool) {
	e.mu.Lock()
	e.robust = append(e.robust, r)
	e.mu.Unlock()
}

// RobustCalls returns the SetRobust history of this end.
func (e *End) RobustCalls() []bool {
	e.mu.Lock()
	defer e.mu.Unlock()
	return append([]bool(nil), e.robust...)
}

func (e *End) String() string { return fmt.Sprintf("pipe.End(%s)", e.name) }

// Capability wrappers: Go interfaces are structural, so "has Flush" must be a
// different type from "has no Flush".
type (
	connF   struct{ *End }
	connT   struct{ *End }
	connR   struct{ *End }
	connFT  struct{ *End }
	connFR  struct{ *End }
	connTR  struct{ *End }
	connFTR struct{ *End }
)

func (c connF) Flush() error             { return c.flush() }
func (c connFT) Flush() error            { return c.flush() }
func (c connFR) Flush() error            { return c.flush() }
func (c connFTR) Flush() error           { return c.flush() }
func (c connT) TxBufferLen() int         { return c.txBufferLen() }
func (c connFT) TxBufferLen() int        { return c.txBufferLen() }
func (c connTR) TxBufferLen() int        { return c.txBufferLen() }
func (c connFTR) TxBufferLen() int       { return c.txBufferLen() }
func (c connR) SetRobust(r bool) error   { c.setRobust(r); return nil }
func (c connFR) SetRobust(r bool) error  { c.setRobust(r); return nil }
func (c connTR) SetRobust(r bool) error  { c.setRobust(r); return nil }
func (c connFTR) SetRobust(r bool) error { c.setRobust(r); return nil }

// WithCaps wraps an end so that it offers exactly the named optional
// transport interfaces ("flusher", "txbuffer", "robust").
func WithCaps(e *End, caps []string) net.Conn {
	var f, t, r bool
	for _, c := range caps {
		switch c {
		case "flusher":
			f = true
		case "txbuffer":
			t = true
		case "robust":
			r = true
		}
	}
	switch {
	case f && t && r:
		return connFTR{e}
	case f && t:
		return connFT{e}
	case f && r:
		return connFR{e}
	case t && r:
		return connTR{e}
	case f:
		return connF{e}
	case t:
		return connT{e}
	case r:
		return connR{e}
	}
	return e
}
