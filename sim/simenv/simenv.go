// Package simenv answers process-environment questions per simulated station.
// The fbb package asks os.Getenv("GZIP_EXPERIMENT") on the goroutine that runs
// Exchange; the engine binds that goroutine to a station's environment.
package simenv

import (
	"bytes"
	"runtime"
	"strconv"
	"sync"
)

var (
	mu  sync.Mutex
	env = map[uint64]map[string]string{}
)

// goid parses the current goroutine id from the stack header. Only used at a
// handful of call sites per session.
func goid() uint64 {
	var buf [64]byte
	n := runtime.Stack(buf[:], false)
	b := bytes.TrimPrefix(buf[:n], []byte("goroutine "))
	i := bytes.IndexByte(b, ' ')
	if i < 0 {
		return 0
	}
	id, _ := strconv.ParseUint(string(b[:i]), 10, 64)
	return id
}

// Bind sets the environment seen by the calling goroutine until Unbind.
func Bind(vars map[string]string) {
	id := goid()
	mu.Lock()
	env[id] = vars
	mu.Unlock()
}

func Unbind() {
	id := goid()
	mu.Lock()
	delete(env, id)
	mu.Unlock()
}

// Getenv returns the bound value for the calling goroutine, "" if none.
func Getenv(key string) string {
	id := goid()
	mu.Lock()
	defer mu.Unlock()
	if m, ok := env[id]; ok {
		return m[key]
	}
	return ""
}
