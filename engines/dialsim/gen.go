package dialsim

import (
	"strings"

	"verif/sim/core"
)

var concOps = []string{"reg", "regctx", "regboth", "unreg", "dial", "dialctx"}

var caseSchemes = [][]string{{"SimX"}, {"simx", "SIMX"}, {"Simy", "simY", "simz"}, {"Sim-X.1", "simy"}, {"sImx", "siMx"}}

func genConc(r *core.Rand, tier string) Plan {
	p := Plan{Arm: "conc"}
	p.Schemes = defaultSchemes[:r.Range(1, 3)]
	if r.Chance(0.25) {
		// spellings that differ in letter case (the engine adds the lower-case one)
		p.Schemes = core.Choice(r, caseSchemes)
	}
	spell, _ := expandSpellings(p.Schemes)
	nSpell := len(spell)
	nc := r.Range(2, 6)
	maxSteps := 12
	if tier == "thorough" && r.Chance(0.3) {
		maxSteps = 40
	}
	// operation mix of this run
	w := []int{r.Range(1, 4), r.Range(0, 3), r.Range(0, 2), r.Range(0, 3), r.Range(1, 6), r.Range(0, 4)}
	p.Clients = make([]ClientPlan, nc)
	left := make([]int, nc)
	for i := range left {
		left[i] = r.Range(1, maxSteps)
		p.Clients[i].Steps = make([]Step, 0, left[i])
	}
	step := func() Step {
		return Step{Op: concOps[r.Pick(w...)], Scheme: r.Intn(nSpell)}
	}
	// Identical instants: the Go runtime orders fake timers that fire at the same
	// instant by a per-timer random number (runtime/time.go, "randomizes order
	// of timers at same instant") and the -race scheduler randomises its run
	// queue, so these histories are not replayable bit for bit; tier names
	// ending in "-distinct" leave the arm out (determinism self-test).
	p.Simultaneous = r.Chance(0.2) && !strings.HasSuffix(tier, "-distinct")
	if p.Simultaneous {
		// a common grid: at every tick a seeded subset of the clients acts, all
		// at the identical instant
		gap := int64(r.Range(1, 2000000))
		t := int64(0)
		for {
			any := false
			for i := range left {
				if left[i] > 0 {
					any = true
				}
			}
			if !any {
				break
			}
			t += 1 + int64(r.Intn(int(gap)))
			for i := range left {
				if left[i] > 0 && r.Chance(0.7) {
					s := step()
					s.AtNs = t
					p.Clients[i].Steps = append(p.Clients[i].Steps, s)
					left[i]--
				}
			}
		}
		return p
	}
	// distinct instants: one global clock, a seeded client takes the next tick
	scale := []int{1, 50, 5000, 3000000}[r.Intn(4)]
	t := int64(0)
	for {
		var alive []int
		for i := range left {
			if left[i] > 0 {
				alive = append(alive, i)
			}
		}
		if len(alive) == 0 {
			break
		}
		i := alive[r.Intn(len(alive))]
		t += 1 + int64(r.Intn(scale))
		s := step()
		s.AtNs = t
		p.Clients[i].Steps = append(p.Clients[i].Steps, s)
		left[i]--
	}
	if r.Chance(0.5) {
		// pauses inside the registry's code (outside its critical sections):
		// calls of different clients overlap for real
		n := core.Choice(r, []int{7, 13, 29, 53})
		dens := core.Choice(r, []float64{0.05, 0.15, 0.4})
		hi := core.Choice(r, []int{1, 3, 50, 4000})
		p.Yield = make([]int, n)
		for i := range p.Yield {
			if r.Chance(dens) {
				p.Yield[i] = 1 + r.Intn(hi)
			}
		}
		p.Yield[r.Intn(n)] = 1 + r.Intn(hi)
	}
	return p
}

var (
	urlSchemes = []string{"simx", "simy", "ax25", "ax25+agwpe", "ax25+linux", "ardop", "telnet", "serial-tnc", "pactor", "vara", "a", "x-y.z+1"}
	urlHosts   = []string{"", "", "axport", "0", "ax0", "localhost:8000", "127.0.0.1:8515", "server.winlink.org:8772", "[::1]:8000", "[fe80::1]", "Mixed.Case.Host", "tnc-1.local:1", "a", "wl2k.example.", "10.0.0.1",
		"tnc.local:32767", "tnc.local:32768", "localhost:49152", "127.0.0.1:65535", "[::1]:65535", "h:0"}
	hostParams  = []string{"/dev/ttyS0", "ax0", "/dev/serial/by-id/usb-FTDI_FT232R_USB_UART_A50285BI-if00-port0", "COM3", "192.168.1.2:8515", "a b", "x&y=z", "höst", "%2F", "host?#", "localhost:8000"}
	callLetters = "ABCDEFGHIJKLMNOPQRSTUVWXYZabcdefghijklmnopqrstuvwxyz0123456789"
	someTargets = []string{"LA5NTA", "la5nta", "LA1B-10", "wl2k", "N0CALL-15", "sm0xyz-5", "K7ABC", "W1AW"}
	paramKeys   = []string{"freq", "bw", "dial_timeout", "baud", "hbaud", "prehook", "Host", "hosts", "HOST", "a b", "k&k", "ünï", "", "x=y", "%41"}
)

func genCall(r *core.Rand) string {
	if r.Chance(0.5) {
		return core.Choice(r, someTargets)
	}
	n := r.Range(3, 7)
	b := make([]byte, n)
	for i := range b {
		b[i] = callLetters[r.Intn(len(callLetters))]
	}
	s := string(b)
	if r.Chance(0.4) {
		s += "-" + []string{"0", "1", "7", "10", "15"}[r.Intn(5)]
	}
	return s
}

const punct = " :/@?#&=+%;,!$'()*[]<>\"\\^`{|}~-._"

func genText(r *core.Rand, max int) string {
	n := r.Range(0, max)
	var sb strings.Builder
	for i := 0; i < n; i++ {
		switch r.Pick(6, 3, 1) {
		case 0:
			sb.WriteByte(callLetters[r.Intn(len(callLetters))])
		case 1:
			sb.WriteByte(punct[r.Intn(len(punct))])
		default:
			sb.WriteString(core.Choice(r, []string{"æ", "ß", "日本", " ", "\t", "\n", "\x00", "\x7f"}))
		}
	}
	return sb.String()
}

func genUserBytes(r *core.Rand) Bin {
	switch r.Pick(5, 4, 1) {
	case 0:
		return Bin(genCall(r))
	case 1:
		s := genText(r, 24)
		if s == "" {
			s = "u"
		}
		return Bin(s)
	}
	b := r.Bytes(r.Range(1, 32)) // arbitrary bytes, escaped by the builder
	return Bin(b)
}

func genTuple(r *core.Rand) URLCase {
	c := URLCase{Kind: "tuple"}
	c.Scheme = core.Choice(r, urlSchemes)
	if r.Chance(0.5) {
		c.HasUser, c.User = true, genUserBytes(r)
		if r.Chance(0.5) {
			c.HasPass = true
			if r.Chance(0.2) {
				c.Pass = nil // empty password: "user:@host"
			} else {
				c.Pass = genUserBytes(r)
			}
		}
	}
	c.Host = core.Choice(r, urlHosts)
	if r.Chance(0.3) {
		c.HostParam = core.Choice(r, hostParams)
		if r.Chance(0.2) {
			c.HostParam = genText(r, 30)
		}
		c.HostPos = r.Intn(6)
	}
	nd := 0
	switch r.Pick(5, 3, 2, 1) {
	case 1:
		nd = 1
	case 2:
		nd = r.Range(2, 4)
	case 3:
		nd = r.Range(5, 8)
	}
	for i := 0; i < nd; i++ {
		d := genCall(r)
		if r.Chance(0.1) {
			d = d[:r.Range(1, 2)] // digis may be short
		}
		c.Digis = append(c.Digis, d)
	}
	if nd > 1 && r.Chance(0.2) {
		c.Digis[nd-1] = c.Digis[0] // repeated digi
	}
	c.Target = genCall(r)
	if r.Chance(0.15) {
		c.Target = c.Target[:r.Intn(3)] // 0..2 characters: must be refused
	}
	if r.Chance(0.05) && len(c.Target) > 3 {
		c.Target = c.Target[:3] // exactly three characters: the shortest legal target
	}
	for i, n := 0, r.Pick(5, 3, 2, 1); i < n; i++ {
		k := core.Choice(r, paramKeys)
		if r.Chance(0.2) {
			k = genText(r, 10)
		}
		if k == "host" {
			k = "hostx"
		}
		c.Params = append(c.Params, [2]string{k, genText(r, 16)})
	}
	if len(c.Params) > 0 && r.Chance(0.2) { // repeated key: order of its values matters
		c.Params = append(c.Params, [2]string{c.Params[0][0], genText(r, 8)})
	}
	c.Register = r.Chance(0.75)
	c.Via = core.Choice(r, []string{"dial", "dialctx"})
	c.Stub = core.Choice(r, []string{"plain", "ctx", "both", "plain", "ctx", "both", "alias"})
	c.Scribble = r.Chance(0.4)
	return c
}

func genRaw(r *core.Rand, tier string) URLCase {
	c := URLCase{Kind: "raw", Via: core.Choice(r, []string{"dial", "dialctx"}), Stub: core.Choice(r, []string{"plain", "ctx", "both"})}
	special := []string{"%", "%zz", "%0", "%00", "%2F", "%2f..", ":", "/", "//", "///", "@", "?", "#", "[", "]", "[::", "\x00", "\x7f", "\n", "\r", " ", ";", "&", "=", "host=", "?host=", "?host=%", "..", "/../", "\\", "é", "\xff", ":99999999", "://"}
	switch r.Pick(3, 5, 2, 1, 2, 2) {
	case 5: // short targets spelled with letters whose case mapping changes their length
		// (U+017F long s -> S, U+0131 dotless i -> I: two bytes become one; U+0250 -> U+2C6F: two become three)
		units := []string{"\u017f", "\u0131", "%C5%BF", "%C4%B1", "\u0250", "%C9%90", "a", "I", "-", "1", "\u00e9", "%c5%bf"}
		var t string
		for i, n := 0, r.Range(1, 4); i < n; i++ {
			t += core.Choice(r, units)
		}
		via := ""
		if r.Chance(0.3) {
			via = "/" + core.Choice(r, []string{"LD5SK", "\u017f\u017f", "d1"})
		}
		c.Raw = Bin(core.Choice(r, []string{"ax25", "ax25+agwpe", "simx", "telnet", "ardop"}) + "://" + core.Choice(r, []string{"", "h", "u:p@h:1"}) + via + "/" + t + core.Choice(r, []string{"", "?a=b", "?host=x"}))
	case 0: // seeded garbage
		c.Raw = r.Bytes(r.Range(0, 200))
	case 1: // mutated valid URL
		b := []byte(normalise(genTuple(r)).build())
		for i, n := 0, r.Range(1, 4); i < n; i++ {
			pos := r.Intn(len(b) + 1)
			switch r.Pick(3, 2, 2, 1) {
			case 0:
				ins := []byte(core.Choice(r, special))
				b = append(b[:pos], append(ins, b[pos:]...)...)
			case 1:
				if pos < len(b) {
					b = append(b[:pos], b[pos+1:]...)
				}
			case 2:
				if pos < len(b) {
					b[pos] = byte(r.Intn(256))
				}
			default:
				if pos < len(b) {
					b = b[:pos]
				}
			}
		}
		c.Raw = b
	case 2: // built from the special fragments
		var sb strings.Builder
		for i, n := 0, r.Range(1, 12); i < n; i++ {
			if r.Bool() {
				sb.WriteString(core.Choice(r, special))
			} else {
				sb.WriteString(genCall(r))
			}
		}
		c.Raw = Bin(sb.String())
	case 3: // very long
		n := r.Range(5000, 60000)
		if tier == "thorough" {
			n = r.Range(5000, 200000)
		}
		unit := core.Choice(r, []string{"/LA1B", "a", "%41", "/", "?a=b&", "x:", "@", "[", "%"})
		c.Raw = Bin("ax25://h" + strings.Repeat(unit, n/len(unit)) + "/LA5NTA")
	default: // control bytes and escapes inside an otherwise plausible URL
		c.Raw = Bin(core.Choice(r, urlSchemes) + "://" + genText(r, 12) + "@" + core.Choice(r, urlHosts) + "/" + genText(r, 12) + "/" + genText(r, 8) + "?" + genText(r, 20))
	}
	return c
}

func genURL(r *core.Rand, tier string) Plan {
	p := Plan{Arm: "url"}
	n := r.Range(8, 40)
	for i := 0; i < n; i++ {
		if r.Chance(0.7) {
			p.Cases = append(p.Cases, genTuple(r))
		} else {
			p.Cases = append(p.Cases, genRaw(r, tier))
		}
	}
	return p
}

func generate(tier string, r *core.Rand) Plan {
	if r.Chance(0.7) {
		return genConc(r, tier)
	}
	return genURL(r, tier)
}
