package dialsim

import (
	"context"
	"errors"
	"fmt"
	"net"
	"net/url"
	"runtime/debug"
	"strings"

	"github.com/la5nta/wl2k-go/transport"
	"verif/sim/core"
)

func validScheme(s string) bool {
	if s == "" || len(s) > 40 {
		return false
	}
	for i, c := range []byte(s) {
		switch {
		case c >= 'a' && c <= 'z':
		case i > 0 && (c >= '0' && c <= '9' || c == '+' || c == '-' || c == '.'):
		default:
			return false
		}
	}
	return true
}

func isAlnumDash(s string) bool {
	for _, c := range []byte(s) {
		switch {
		case c >= 'a' && c <= 'z', c >= 'A' && c <= 'Z', c >= '0' && c <= '9', c == '-':
		default:
			return false
		}
	}
	return true
}

// validHost: reg-name of letters, digits, '.', '-' (or one of two IPv6
// literals), optionally followed by :port. Anything else is ambiguous under
// url.Parse and is not generated.
func validHost(h string) bool {
	if h == "" {
		return true
	}
	name, port := h, ""
	if strings.HasPrefix(h, "[") {
		i := strings.Index(h, "]")
		if i < 0 {
			return false
		}
		lit := h[:i+1]
		if lit != "[::1]" && lit != "[fe80::1]" && lit != "[2001:db8::2]" {
			return false
		}
		name, port = "x", h[i+1:]
		if port != "" {
			if port[0] != ':' {
				return false
			}
			port = port[1:]
			if port == "" {
				return false
			}
		}
	} else if i := strings.LastIndex(h, ":"); i >= 0 {
		name, port = h[:i], h[i+1:]
		if port == "" {
			return false
		}
	}
	if len(port) > 5 {
		return false
	}
	for _, c := range []byte(port) {
		if c < '0' || c > '9' {
			return false
		}
	}
	if name == "" && port != "" {
		return false
	}
	for _, c := range []byte(name) {
		switch {
		case c >= 'a' && c <= 'z', c >= 'A' && c <= 'Z', c >= '0' && c <= '9', c == '-', c == '.':
		default:
			return false
		}
	}
	return true
}

func asciiUpper(s string) string {
	b := []byte(s)
	for i, c := range b {
		if c >= 'a' && c <= 'z' {
			b[i] = c - 32
		}
	}
	return string(b)
}

// tuple is a URLCase mapped into the unambiguous component domain.
type tuple struct {
	scheme           string
	hasUser, hasPass bool
	user, pass       string
	host, hostParam  string
	digis            []string
	target           string
	params           [][2]string
	hostPos          int
}

func normalise(c URLCase) tuple {
	t := tuple{scheme: c.Scheme, host: c.Host, hostParam: c.HostParam, target: c.Target}
	if !validScheme(t.scheme) {
		t.scheme = "simx"
	}
	if c.HasUser && len(c.User) > 0 {
		t.hasUser, t.user = true, string(c.User)
		if len(t.user) > 4096 {
			t.user = t.user[:4096]
		}
		if c.HasPass {
			t.hasPass, t.pass = true, string(c.Pass)
			if len(t.pass) > 4096 {
				t.pass = t.pass[:4096]
			}
		}
	}
	if !validHost(t.host) || len(t.host) > 300 {
		t.host = ""
	}
	for _, d := range c.Digis {
		if d != "" && isAlnumDash(d) && len(d) <= 64 && len(t.digis) < 16 {
			t.digis = append(t.digis, d)
		}
	}
	if !isAlnumDash(t.target) || len(t.target) > 64 {
		t.target = "N0CALL"
	}
	for _, kv := range c.Params {
		if kv[0] == "host" || len(kv[0]) > 512 || len(kv[1]) > 4096 || len(t.params) >= 16 {
			continue
		}
		t.params = append(t.params, kv)
	}
	if len(t.hostParam) > 512 {
		t.hostParam = t.hostParam[:512]
	}
	t.hostPos = c.HostPos
	return t
}

// build composes the URL text from the components with standard RFC 3986
// escaping of userinfo and query.
func (t tuple) build() string {
	var sb strings.Builder
	sb.WriteString(t.scheme + "://")
	if t.hasUser {
		if t.hasPass {
			sb.WriteString(url.UserPassword(t.user, t.pass).String())
		} else {
			sb.WriteString(url.User(t.user).String())
		}
		sb.WriteString("@")
	}
	sb.WriteString(t.host)
	for _, d := range t.digis {
		sb.WriteString("/" + d)
	}
	sb.WriteString("/" + t.target)
	var q []string
	for _, kv := range t.params {
		q = append(q, url.QueryEscape(kv[0])+"="+url.QueryEscape(kv[1]))
	}
	if t.hostParam != "" {
		pos := 0
		if len(q) > 0 {
			pos = t.hostPos % (len(q) + 1)
			if pos < 0 {
				pos = -pos
			}
		}
		hp := "host=" + url.QueryEscape(t.hostParam)
		q = append(q[:pos], append([]string{hp}, q[pos:]...)...)
	}
	if len(q) > 0 {
		sb.WriteString("?" + strings.Join(q, "&"))
	}
	return sb.String()
}

// checkComponents compares a parsed URL with the tuple it was built from and
// returns the first difference ("" if none) as (detail, message).
func (t tuple) checkComponents(u *transport.URL) (string, string) {
	if u == nil {
		return "nil-url-without-error", "ParseURL returned nil, nil"
	}
	if u.Scheme != t.scheme {
		return "scheme-differs", fmt.Sprintf("Scheme=%q want %q", u.Scheme, t.scheme)
	}
	wantHost := t.host
	if t.hostParam != "" {
		wantHost = t.hostParam
		if u.Host != wantHost {
			return "host-parameter-does-not-override-host", fmt.Sprintf("Host=%q want the host parameter %q", u.Host, wantHost)
		}
	} else if !strings.EqualFold(u.Host, wantHost) {
		return "host-differs", fmt.Sprintf("Host=%q want %q", u.Host, wantHost)
	}
	if t.hasUser {
		if u.User == nil || u.User.Username() != t.user {
			return "user-differs", fmt.Sprintf("User=%v want user %q", u.User, t.user)
		}
		pw, has := u.User.Password()
		if has != t.hasPass || pw != t.pass {
			return "password-differs", fmt.Sprintf("password=%q (set=%v) want %q (set=%v)", pw, has, t.pass, t.hasPass)
		}
	} else if u.User != nil {
		if _, has := u.User.Password(); has || u.User.Username() != "" {
			return "user-differs", fmt.Sprintf("User=%v although the URL has no userinfo", u.User)
		}
	}
	if want := asciiUpper(t.target); u.Target != want {
		return "target-differs", fmt.Sprintf("Target=%q want %q", u.Target, want)
	}
	if len(u.Digis) != len(t.digis) {
		return "digis-differ", fmt.Sprintf("Digis=%q want %q upper-cased", u.Digis, t.digis)
	}
	for i, d := range t.digis {
		if u.Digis[i] != asciiUpper(d) {
			return "digis-differ", fmt.Sprintf("Digis=%q want %q upper-cased, in this order", u.Digis, t.digis)
		}
	}
	want := map[string][]string{}
	for _, kv := range t.params {
		want[kv[0]] = append(want[kv[0]], kv[1])
	}
	for _, k := range core.SortedKeys(want) {
		got := u.Params[k]
		if len(got) != len(want[k]) {
			return "parameters-differ", fmt.Sprintf("Params[%q]=%q want %q", k, got, want[k])
		}
		for i := range got {
			if got[i] != want[k][i] {
				return "parameters-differ", fmt.Sprintf("Params[%q]=%q want %q", k, got, want[k])
			}
		}
	}
	for _, k := range core.SortedKeys(map[string][]string(u.Params)) {
		if _, ok := want[k]; !ok && k != "host" {
			return "parameters-differ", fmt.Sprintf("Params has key %q that the URL does not contain", k)
		}
	}
	return "", ""
}

func safeParse(raw string) (u *transport.URL, err error, pv any, stack string) {
	defer func() {
		if r := recover(); r != nil {
			pv, stack = r, string(debug.Stack())
		}
	}()
	u, err = transport.ParseURL(raw)
	return
}

func newStub(kind string, id int) (reg func(scheme string), name string) {
	switch kind {
	case "ctx":
		return func(s string) { transport.RegisterContextDialer(s, &ctxStub{id}) }, "ctx"
	case "both":
		return func(s string) { transport.RegisterDialer(s, &bothStub{id}) }, "both"
	}
	return func(s string) { transport.RegisterDialer(s, &plainStub{id}) }, "plain"
}

func dialVia(via string, u *transport.URL) (c net.Conn, err error, pv any, stack string) {
	defer func() {
		if r := recover(); r != nil {
			pv, stack = r, string(debug.Stack())
		}
	}()
	if via == "dialctx" {
		c, err = transport.DialURLContext(context.Background(), u)
	} else {
		c, err = transport.DialURL(u)
	}
	return
}

func q(s string) string {
	if len(s) > 300 {
		return fmt.Sprintf("%q...(%d bytes)", s[:300], len(s))
	}
	return fmt.Sprintf("%q", s)
}

// execURL runs the URL arm: every case is parsed and dialled on the harness
// goroutine.
func execURL(sim *core.Sim, prop string, p *Plan, out *core.Outcome) {
	cases := p.Cases
	if len(cases) > 400 {
		cases = cases[:400]
	}
	okDialled := 0
	for i, c := range cases {
		id := 900000 + i
		if c.Kind == "raw" {
			raw := string(c.Raw)
			if len(raw) > 1<<20 {
				raw = raw[:1<<20]
			}
			sim.Probe("raw-strings")
			u, err, pv, stack := safeParse(raw)
			if pv != nil {
				sim.Violate(prop, "parse-panic", core.PanicClass(pv)+"@"+core.RepoFrame(stack), "ParseURL(%s) panicked: %v\n%s", q(raw), pv, stack)
				continue
			}
			sim.Logf("raw #%d len=%d err=%v", i, len(raw), err != nil)
			if err != nil {
				sim.Probe("raw-strings-refused")
				continue
			}
			if u == nil {
				sim.Violate(prop, "parse", "nil-url-without-error", "ParseURL(%s) returned nil, nil", q(raw))
				continue
			}
			sim.Probe("raw-strings-parsed")
			if len(u.Target) < 3 {
				sim.Violate(prop, "refusal", "short-target-returned", "ParseURL(%s) returned the %d-byte target %q without an error", q(raw), len(u.Target), u.Target)
			}
			// whatever parsed must dispatch to the dialer of its scheme
			reg, _ := newStub(c.Stub, id)
			reg(u.Scheme)
			conn, derr, pv, stack := dialVia(c.Via, u)
			transport.UnregisterDialer(u.Scheme)
			if pv != nil {
				sim.Violate(prop, "dial-panic", core.PanicClass(pv)+"@"+core.RepoFrame(stack), "dialling the URL parsed from %s panicked: %v\n%s", q(raw), pv, stack)
			} else if dialResult(conn, derr) != id {
				sim.Violate(prop, "dispatch", "registered-dialer-not-reached/raw-string", "URL parsed from %s (scheme %q): dial did not reach the dialer registered for that scheme (err=%v)", q(raw), u.Scheme, derr)
			}
			continue
		}

		t := normalise(c)
		raw := t.build()
		sim.Probe("urls-generated")
		u, err, pv, stack := safeParse(raw)
		if pv != nil {
			sim.Violate(prop, "parse-panic", core.PanicClass(pv)+"@"+core.RepoFrame(stack), "ParseURL(%s) panicked: %v\n%s", q(raw), pv, stack)
			continue
		}
		sim.Logf("url #%d %s err=%v", i, t.scheme, err != nil)
		switch {
		case len(t.target) < 3:
			sim.Probe("urls-with-short-target")
			if err == nil {
				sim.Violate(prop, "refusal", "short-target-accepted", "ParseURL(%s) accepted the %d-character target %q", q(raw), len(t.target), t.target)
			} else if !errors.Is(err, transport.ErrInvalidTarget) {
				sim.Probe("short-target-refused-with-another-error")
			}
			continue
		case len(t.digis) > 0 && (t.scheme == "ardop" || t.scheme == "telnet"):
			sim.Probe("urls-with-digis-on-ardop-or-telnet")
			if err == nil {
				sim.Violate(prop, "refusal", "digis-accepted-for-scheme-without-digis", "ParseURL(%s) accepted digipeaters %q for scheme %q", q(raw), t.digis, t.scheme)
			} else if !errors.Is(err, transport.ErrDigisUnsupported) {
				sim.Probe("digis-refused-with-another-error")
			}
			continue
		case err != nil:
			sim.Violate(prop, "components", "valid-url-refused", "ParseURL(%s) failed: %v", q(raw), err)
			continue
		}
		if detail, msg := t.checkComponents(u); detail != "" {
			sim.Violate(prop, "components", detail, "ParseURL(%s): %s", q(raw), msg)
			continue
		}
		sim.Probe("urls-parsed-into-their-components")
		if len(t.digis) > 0 {
			sim.Probe("urls-with-digis")
		}
		if t.hostParam != "" {
			sim.Probe("urls-with-host-parameter")
		}
		if t.hasUser {
			sim.Probe("urls-with-userinfo")
		}
		if len(t.params) > 0 {
			sim.Probe("urls-with-extra-parameters")
		}

		scribble := func() {
			if !c.Scribble {
				return
			}
			sim.Probe("parsed-urls-changed-by-the-caller-afterwards")
			if u.Params != nil {
				u.Params.Set("host", fmt.Sprintf("scribble%d", i))
				u.Params.Set("freq", "7103.5")
				u.Params.Add("scribbled", "1")
			}
			for k := range u.Digis {
				u.Digis[k] = "SCRIB-" + fmt.Sprint(k)
			}
			if u.User != nil {
				u.User = url.UserPassword("scribble", "scribble")
			}
		}
		transport.UnregisterDialer(t.scheme)
		if !c.Register {
			conn, derr, pv, stack := dialVia(c.Via, u)
			sim.Probe("dials-on-unregistered-scheme")
			if pv != nil {
				sim.Violate(prop, "dial-panic", core.PanicClass(pv)+"@"+core.RepoFrame(stack), "dialling %s panicked: %v\n%s", q(raw), pv, stack)
			} else if dialResult(conn, derr) != resMissing {
				sim.Violate(prop, "dispatch", "unregistered-scheme-not-reported", "dialling %s with no dialer registered for %q returned (%v, %v), want ErrMissingDialer", q(raw), t.scheme, conn, derr)
			}
			scribble()
			continue
		}
		reg, stubKind := newStub(c.Stub, id)
		// a decoy on another scheme must not be reached
		decoy := t.scheme + "x"
		transport.RegisterDialer(decoy, &plainStub{id + 50000})
		if c.Stub == "alias" {
			// ... except by the alias dialer, which forwards to it through the registry
			stubKind = "alias"
			sim.Probe("dials-through-a-forwarding-dialer")
			reg = func(s string) { transport.RegisterContextDialer(s, &aliasStub{id: id, target: decoy}) }
		}
		reg(t.scheme)
		conn, derr, pv, stack := dialVia(c.Via, u)
		transport.UnregisterDialer(t.scheme)
		transport.UnregisterDialer(decoy)
		if pv != nil {
			sim.Violate(prop, "dial-panic", core.PanicClass(pv)+"@"+core.RepoFrame(stack), "dialling %s panicked: %v\n%s", q(raw), pv, stack)
			continue
		}
		if dialResult(conn, derr) != id {
			sim.Violate(prop, "dispatch", "registered-dialer-not-reached/"+stubKind, "dialling %s: the %s dialer registered for %q was not reached (conn=%v err=%v)", q(raw), stubKind, t.scheme, conn, derr)
			continue
		}
		if detail, msg := t.checkComponents(conn.(*stubConn).url); detail != "" {
			sim.Violate(prop, "dispatch", "dialer-received-other-components/"+detail, "dialling %s: the dialer received %s", q(raw), msg)
			continue
		}
		okDialled++
		sim.Probe("urls-dialled-through-registered-dialer")
		scribble()
	}
	out.NonTrivial = okDialled > 0
}
