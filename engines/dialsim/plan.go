package dialsim

import (
	"bytes"
	"encoding/hex"
	"encoding/json"
	"strings"
	"unicode/utf8"
)

// Bin is a byte string of a plan: a plain JSON string when valid UTF-8,
// "hex:<digits>" otherwise; decoding accepts whatever the reducer leaves.
type Bin []byte

func (b Bin) MarshalJSON() ([]byte, error) {
	if utf8.Valid(b) && !bytes.HasPrefix(b, []byte("hex:")) {
		return json.Marshal(string(b))
	}
	return json.Marshal("hex:" + hex.EncodeToString(b))
}

func (b *Bin) UnmarshalJSON(raw []byte) error {
	var s string
	if err := json.Unmarshal(raw, &s); err != nil {
		*b = nil
		return nil
	}
	if !strings.HasPrefix(s, "hex:") {
		*b = []byte(s)
		return nil
	}
	s = s[4:]
	out := make([]byte, 0, len(s)/2)
	for i := 0; i+1 < len(s); i += 2 {
		v, err := hex.DecodeString(s[i : i+2])
		if err != nil {
			break
		}
		out = append(out, v[0])
	}
	*b = out
	return nil
}

// Step is one registry call of a client at an absolute simulated instant.
type Step struct {
	AtNs   int64  `json:"at_ns"`
	Op     string `json:"op"` // reg | regctx | regboth | unreg | dial | dialctx
	Scheme int    `json:"scheme"`
}

type ClientPlan struct {
	Steps []Step `json:"steps"`
}

// URLCase is one URL of the URL arm: a component tuple the executor builds a
// URL string from, or a raw string.
type URLCase struct {
	Kind string `json:"kind"` // tuple | raw
	Raw  Bin    `json:"raw,omitempty"`

	Scheme    string      `json:"scheme,omitempty"`
	HasUser   bool        `json:"has_user,omitempty"`
	User      Bin         `json:"user,omitempty"`
	HasPass   bool        `json:"has_pass,omitempty"`
	Pass      Bin         `json:"pass,omitempty"`
	Host      string      `json:"host,omitempty"`
	HostParam string      `json:"host_param,omitempty"` // "": no host= parameter
	HostPos   int         `json:"host_pos,omitempty"`   // position of host= among the parameters
	Digis     []string    `json:"digis,omitempty"`
	Target    string      `json:"target,omitempty"`
	Params    [][2]string `json:"params,omitempty"`
	// Register: a recording dialer is registered for the scheme before the
	// dial (otherwise the scheme is unregistered). Via: dial | dialctx.
	// Stub: plain | ctx | both.
	Register bool   `json:"register,omitempty"`
	Via      string `json:"via,omitempty"`
	Stub     string `json:"stub,omitempty"`
	// Scribble: once the parsed URL has been judged the caller changes it
	// (adds parameters, a host parameter, renames digipeaters) the way an
	// application prepares a URL for its next dial. What one call returned
	// belongs to its caller: later parses must not see any of it.
	Scribble bool `json:"scribble,omitempty"`
}

// Plan is one run of the dialer-registry engine.
type Plan struct {
	// Arm: "conc" (concurrent registry history) or "url" (URL batch).
	Arm string `json:"arm"`
	// Simultaneous is a label only (the instants are in the steps): the
	// generator put steps of different clients on identical instants.
	Simultaneous bool         `json:"simultaneous,omitempty"`
	Schemes      []string     `json:"schemes,omitempty"`
	Clients      []ClientPlan `json:"clients,omitempty"`
	Cases        []URLCase    `json:"cases,omitempty"`
	// Yield (conc arm): pauses (microseconds, cyclic) at the statement
	// boundaries of the instrumented registry code, never inside its critical
	// sections (core.Sim.EnableYields, DESIGN 8.9).
	Yield []int `json:"yield,omitempty"`
}
