package dialsim

import (
	"context"
	"errors"
	"fmt"
	"net"
	"sort"
	"strings"
	"time"

	"github.com/anishathalye/porcupine"
	"github.com/la5nta/wl2k-go/transport"
	"verif/sim/core"
)

// stubConn is what a recording dialer returns: it names the registration that
// was reached and carries the URL it was handed.
type stubConn struct {
	net.Conn
	id     int
	url    *transport.URL
	viaCtx bool
}

// plainStub implements transport.Dialer only (the registry wraps it),
// ctxStub transport.ContextDialer only, bothStub both.
type plainStub struct{ id int }
type ctxStub struct{ id int }
type bothStub struct{ id int }

func (s *plainStub) DialURL(u *transport.URL) (net.Conn, error) {
	return &stubConn{id: s.id, url: u}, nil
}
func (s *ctxStub) DialURLContext(_ context.Context, u *transport.URL) (net.Conn, error) {
	return &stubConn{id: s.id, url: u, viaCtx: true}, nil
}
func (s *bothStub) DialURL(u *transport.URL) (net.Conn, error) {
	return &stubConn{id: s.id, url: u}, nil
}
func (s *bothStub) DialURLContext(_ context.Context, u *transport.URL) (net.Conn, error) {
	return &stubConn{id: s.id, url: u, viaCtx: true}, nil
}

// aliasStub is a dialer that serves its scheme by dialling another registered
// scheme through the registry (a forwarding/alias transport). It only works if
// the registry does not hold its lock while a dialer runs.
type aliasStub struct {
	id     int
	target string
}

func (s *aliasStub) DialURLContext(ctx context.Context, u *transport.URL) (net.Conn, error) {
	fwd := *u
	fwd.Scheme = s.target
	c, err := transport.DialURLContext(ctx, &fwd)
	if err != nil {
		return nil, err
	}
	if sc, ok := c.(*stubConn); ok && sc.id == s.id+50000 {
		return &stubConn{id: s.id, url: u, viaCtx: true}, nil
	}
	return nil, fmt.Errorf("alias reached something else: %v", c)
}

const (
	resMissing = -1 // ErrMissingDialer
	resOther   = -2 // any other outcome
)

func dialResult(c net.Conn, err error) int {
	if err != nil {
		if errors.Is(err, transport.ErrMissingDialer) && c == nil {
			return resMissing
		}
		return resOther
	}
	if sc, ok := c.(*stubConn); ok {
		return sc.id
	}
	return resOther
}

// rec is one entry of a client's private history.
type rec struct {
	op        string
	scheme    int
	id        int   // registration id for reg*, result for dial*
	call, ret int64 // simulated instants (ns since run start), read without any lock
}

var defaultSchemes = []string{"simx", "simy", "simz"}

func cleanSchemes(in []string) []string {
	var out []string
	seen := map[string]bool{}
	for _, s := range in {
		if validScheme(strings.ToLower(s)) && !seen[s] && len(out) < 4 {
			seen[s] = true
			out = append(out, s)
		}
	}
	if len(out) == 0 {
		return defaultSchemes[:1]
	}
	return out
}

// expandSpellings adds the all-lower-case spelling of every scheme name that
// contains capitals (the spelling ParseURL produces), so that a history can
// register under one spelling and dial under another. class[i] is the index of
// the first spelling that equals spelling i when letter case is ignored.
func expandSpellings(schemes []string) (spell []string, class []int) {
	spell = append(spell, schemes...)
	for _, s := range schemes {
		l := strings.ToLower(s)
		found := false
		for _, t := range spell {
			found = found || t == l
		}
		if !found {
			spell = append(spell, l)
		}
	}
	class = make([]int, len(spell))
	for i := range spell {
		class[i] = i
		for j := 0; j < i; j++ {
			if strings.EqualFold(spell[j], spell[i]) {
				class[i] = j
				break
			}
		}
	}
	return spell, class
}

// runClient performs the steps of one client. It touches nothing shared with
// the other clients or the harness except the library under test: no Sim
// method, no lock, no channel; the instants come from the plan and the stamps
// from the bubble's clock.
func runClient(start time.Time, ci int, steps []Step, schemes []string, recs []rec) {
	last := int64(0)
	for i, st := range steps {
		at := st.AtNs
		if at > int64(time.Hour) {
			at = int64(time.Hour)
		}
		if at <= last {
			at = last + 1
		}
		last = at
		if d := time.Duration(at) - time.Since(start); d > 0 {
			time.Sleep(d)
		}
		si := st.Scheme % len(schemes)
		if si < 0 {
			si = -si
		}
		scheme := schemes[si]
		id := ci*1000 + i + 1
		r := &recs[i]
		r.scheme = si
		r.op = st.Op
		switch st.Op {
		case "reg":
			d := &plainStub{id}
			r.id = id
			r.call = int64(time.Since(start))
			transport.RegisterDialer(scheme, d)
		case "regctx":
			d := &ctxStub{id}
			r.id = id
			r.call = int64(time.Since(start))
			transport.RegisterContextDialer(scheme, d)
		case "regboth":
			d := &bothStub{id}
			r.id = id
			r.call = int64(time.Since(start))
			transport.RegisterDialer(scheme, d)
		case "unreg":
			r.call = int64(time.Since(start))
			transport.UnregisterDialer(scheme)
		case "dialctx":
			u, err := transport.ParseURL(strings.ToLower(scheme) + ":///N0CALL-" + fmt.Sprint(ci))
			if err != nil {
				r.op, r.id = "dialctx", resOther
				r.call = int64(time.Since(start))
				break
			}
			u.Scheme = scheme // the spelling of this step (ParseURL gives the lower-case one)
			r.call = int64(time.Since(start))
			c, err := transport.DialURLContext(context.Background(), u)
			r.id = dialResult(c, err)
		default:
			r.op = "dial"
			u, err := transport.ParseURL(strings.ToLower(scheme) + ":///N0CALL-" + fmt.Sprint(ci))
			if err != nil {
				r.id = resOther
				r.call = int64(time.Since(start))
				break
			}
			u.Scheme = scheme
			r.call = int64(time.Since(start))
			c, err := transport.DialURL(u)
			r.id = dialResult(c, err)
		}
		r.ret = int64(time.Since(start))
	}
}

type regInput struct {
	kind   int // 0 register, 1 unregister, 2 dial
	scheme int // index of the spelling used
	class  int // index of the first spelling equal to it when case is ignored
	id     int
}

// registryModel is the sequential specification: per scheme, the id of the
// dialer registered last, or resMissing.
//
// The property does not say whether scheme names that differ in letter case
// only name the same registration. Both readings are accepted, each as a
// whole: registryModel keeps one entry per spelling (what /repo does),
// registryModelFold one entry per case-insensitive name. A history is a
// violation only if it is linearizable against neither - e.g. a registry that
// folds case when registering and dialling but not when unregistering.
var registryModel = registryModelBy(func(in regInput) int { return in.scheme })
var registryModelFold = registryModelBy(func(in regInput) int { return in.class })

func registryModelBy(key func(regInput) int) porcupine.Model {
	return porcupine.Model{
		Partition: func(h []porcupine.Operation) [][]porcupine.Operation {
			by := map[int][]porcupine.Operation{}
			var keys []int
			for _, op := range h {
				s := key(op.Input.(regInput))
				if _, ok := by[s]; !ok {
					keys = append(keys, s)
				}
				by[s] = append(by[s], op)
			}
			sort.Ints(keys)
			out := make([][]porcupine.Operation, 0, len(keys))
			for _, k := range keys {
				out = append(out, by[k])
			}
			return out
		},
		Init: func() interface{} { return resMissing },
		Step: func(state, input, output interface{}) (bool, interface{}) {
			in := input.(regInput)
			switch in.kind {
			case 0:
				return true, in.id
			case 1:
				return true, resMissing
			}
			return output.(int) == state.(int), state
		},
		DescribeOperation: func(input, output interface{}) string {
			in := input.(regInput)
			switch in.kind {
			case 0:
				return fmt.Sprintf("register(s%d,#%d)", in.scheme, in.id)
			case 1:
				return fmt.Sprintf("unregister(s%d)", in.scheme)
			}
			return fmt.Sprintf("dial(s%d)->#%d", in.scheme, output.(int))
		},
	}
}

type concResult struct {
	ops   []porcupine.Operation
	lines []string
	fold  bool // some spellings differ in letter case only
}

// execConc runs the concurrent arm inside the bubble and returns the merged
// history; linearizability is checked by the caller outside the bubble
// (porcupine's timeout must read the real clock).
func execConc(sim *core.Sim, prop string, p *Plan, out *core.Outcome) *concResult {
	schemes, class := expandSpellings(cleanSchemes(p.Schemes))
	fold := false
	for i, c := range class {
		fold = fold || c != i
	}
	if fold {
		sim.Probe("histories-with-spellings-that-differ-in-case-only")
	}
	clients := p.Clients
	if len(clients) > 8 {
		clients = clients[:8]
	}
	for _, s := range schemes {
		transport.UnregisterDialer(s)
	}
	if len(p.Yield) > 0 {
		sim.Probe("registry-calls-with-pauses-inside")
		sim.EnableYields(p.Yield)
		defer func() {
			if n := sim.DisableYields(); n > 0 {
				sim.ProbeN("pauses-inside-library-code", n)
			}
		}()
	}
	start := time.Now()
	recs := make([][]rec, len(clients))
	gos := make([]*core.GoResult, len(clients))
	for ci := range clients {
		steps := clients[ci].Steps
		if len(steps) > 200 {
			steps = steps[:200]
		}
		recs[ci] = make([]rec, len(steps))
		ci, steps := ci, steps
		gos[ci] = core.Go(func() { runClient(start, ci, steps, schemes, recs[ci]) })
	}
	finished := core.WaitAll(24*time.Hour, gos...)
	for _, s := range schemes {
		transport.UnregisterDialer(s)
	}
	if !finished {
		sim.Violate(prop, "registry", "call-did-not-return", "a registry call did not return within 24 h of simulated time")
		return nil
	}
	for ci, g := range gos {
		if g.Panic != nil {
			sim.Violate(prop, "panic", core.PanicClass(g.Panic)+"@"+core.RepoFrame(g.Stack), "client %d panicked: %v\n%s", ci, g.Panic, g.Stack)
		}
	}
	// merge
	type flat struct {
		ci int
		r  rec
	}
	var all []flat
	for ci := range recs {
		for _, r := range recs[ci] {
			if r.op == "" {
				continue // client died before this step
			}
			all = append(all, flat{ci, r})
		}
	}
	sort.SliceStable(all, func(i, j int) bool {
		if all[i].r.call != all[j].r.call {
			return all[i].r.call < all[j].r.call
		}
		return all[i].ci < all[j].ci
	})
	res := &concResult{fold: fold}
	dialHits, shared := 0, 0
	for i, f := range all {
		in := regInput{scheme: f.r.scheme, class: class[f.r.scheme], id: f.r.id}
		var o interface{} = 0
		switch f.r.op {
		case "reg", "regctx", "regboth":
			in.kind = 0
		case "unreg":
			in.kind = 1
		default:
			in.kind, in.id = 2, 0
			o = f.r.id
			if f.r.id > 0 {
				dialHits++
			}
			if f.r.id == resOther {
				sim.Violate(prop, "dispatch", "dial-returned-neither-a-registered-dialer-nor-ErrMissingDialer", "client %d %s(%s) returned something that is neither a registered dialer's connection nor ErrMissingDialer", f.ci, f.r.op, schemes[f.r.scheme])
			}
		}
		if i > 0 && all[i-1].r.call == f.r.call && all[i-1].ci != f.ci {
			shared++
		}
		res.ops = append(res.ops, porcupine.Operation{ClientId: f.ci, Input: in, Output: o, Call: f.r.call, Return: f.r.ret})
		line := fmt.Sprintf("c%d %s %s #%d [%d,%d]", f.ci, f.r.op, schemes[f.r.scheme], f.r.id, f.r.call, f.r.ret)
		res.lines = append(res.lines, line)
		sim.Logf("%s", line)
	}
	sim.ProbeN("history-operations", len(all))
	sim.ProbeN("dials-that-reached-a-registered-dialer", dialHits)
	if shared > 0 {
		sim.Probe("histories-with-calls-at-identical-instants")
		sim.ProbeN("calls-sharing-an-instant-with-another-client", shared)
	}
	out.NonTrivial = len(clients) >= 2 && dialHits > 0
	return res
}

// checkLinearizable runs porcupine on a merged history (outside the bubble).
func checkLinearizable(prop string, cr *concResult, out *core.Outcome) {
	if cr == nil || len(cr.ops) == 0 {
		return
	}
	res := porcupine.CheckOperationsTimeout(registryModel, cr.ops, 10*time.Second)
	out.AddCounters(nil, map[string]int{"concurrent-histories-checked": 1})
	if res == porcupine.Illegal && cr.fold {
		// not one entry per spelling: then it has to be one per case-insensitive name
		if res = porcupine.CheckOperationsTimeout(registryModelFold, cr.ops, 10*time.Second); res != porcupine.Illegal {
			out.AddCounters(nil, map[string]int{"histories-legal-only-under-the-case-insensitive-reading": 1})
		}
	}
	switch res {
	case porcupine.Illegal:
		msg := "history is not linearizable against the map model (scheme -> dialer registered last), neither with one entry per spelling nor with one per case-insensitive name:\n"
		for i, l := range cr.lines {
			if i >= 80 {
				msg += "...\n"
				break
			}
			msg += l + "\n"
		}
		out.Violate(prop, "linearizability", "registry-history-illegal", msg)
	case porcupine.Unknown:
		out.AddCounters(nil, map[string]int{"porcupine-unknown": 1})
	}
}
