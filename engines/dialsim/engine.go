// Package dialsim is the engine behind C19: the transport package's dialer
// registry under concurrent clients (race detector + linearizability) and the
// connect-URL parser on generated component tuples and raw strings.
package dialsim

import (
	"encoding/json"
	"fmt"
	"testing"

	"verif/sim/core"
)

type Engine struct{}

func (Engine) Name() string { return "dialsim" }

func (Engine) Info(prop string) core.Info {
	if prop != "C19" {
		return core.Info{}
	}
	return core.Info{
		Level: "exploration",
		Rule: "one plan is either (conc, ~70%) a concurrent registry history: 2-6 client goroutines perform RegisterDialer / RegisterContextDialer / UnregisterDialer / DialURL / DialURLContext " +
			"on 1-3 private schemes at seed-chosen simulated instants - all distinct, or (second arm, 20% of the histories) several clients on identical instants " +
			"(the Go runtime orders fake timers of one instant by a per-timer random number and the -race scheduler shuffles its run queue, so that arm is concurrent in earnest and not replayable bit for bit; " +
			"tier names ending in -distinct leave it out); clients share nothing with each other or the harness " +
			"except the library (no lock, no channel, no event-log call; stamps are lock-free reads of the bubble clock), so a missing lock is a race-detector report (-race build); " +
			"every registered dialer is a recording stub with a unique id; the merged history is checked with porcupine against a map model scheme -> dialer registered last " +
			"(Illegal = violation, Unknown = probe only); or (url, ~30%) a batch of 8-40 URLs: component tuples (scheme, optional user / password with bytes that need escaping, " +
			"host with/without port or IPv6 literal, host= parameter, 0-8 digis, target with SSID or shorter than 3, extra and repeated parameters) built into URL text with RFC 3986 escaping, " +
			"parsed with ParseURL and dialled through a registered recording dialer or an unregistered scheme; and raw strings (seeded garbage, mutated valid URLs, special fragments, control bytes, " +
			"%-escapes, up to 60 KB quick / 200 KB thorough) that must not panic ParseURL and, when they parse, must dispatch to the dialer of their scheme. " +
			"Unambiguous-component narrowing: schemes lower-case; targets and digis non-empty ASCII letters/digits/'-' (upper-casing = ASCII); hosts are reg-names of letters/digits/'.'/'-' " +
			"or an IPv6 literal, compared case-insensitively; host= parameters non-empty; user names non-empty; an absent user may come back as nil or empty; whether the host key stays in Params is not checked. " +
			"Non-trivial: (conc) >= 2 clients and >= 1 dial reached a registered dialer; (url) >= 1 tuple parsed into its components and reached its dialer. Distinct: distinct event-log hash (merged history / per-URL results). " +
			"40 % of the parsed URLs are changed by the caller after they were judged (later parses must not see it); raw strings include short targets spelled with letters whose upper-casing changes their byte length; no accepted URL may carry a target shorter than three bytes. ",
		Real:         []string{"transport (RegisterDialer, RegisterContextDialer, UnregisterDialer, DialURL, DialURLContext, ParseURL, URL)"},
		Stub:         []string{"clock (testing/synctest)", "registered dialers (recording stubs)", "client goroutines"},
		Assumptions:  []string{"library runs on the Go 1.26.8 standard library (net/url of 1.26.8), not 1.24.0", "workers run at GOMAXPROCS=1: calls at identical simulated instants are serialised by the runtime in timer order; the race detector's happens-before analysis does not depend on real overlap", "transport/telnet, ardop and ax25 are not linked into this binary, so no scheme is registered by package init"},
		QuickRuns:    50000,
		ThoroughRuns: 1500000,
		WatchdogSec:  40,
		// a dial that never returns neither dispatches nor reports: the registry
		// deadlocking on itself (lock held while a dialer runs) shows up as a
		// goroutine blocked on a sync.Mutex, which stops the fake clock.
		HangIsViolation: true,
		Race:            true,
	}
}

func (Engine) Generate(prop, tier string, r *core.Rand, run int) any {
	return generate(tier, r)
}

type sample struct {
	Arm          string
	Clients, Ops int
	Simultaneous bool
	URLs         int
	FirstURL     string
}

func (Engine) Execute(t *testing.T, prop string, raw json.RawMessage, trace bool) core.Outcome {
	var p Plan
	var out core.Outcome
	if prop != "C19" {
		out.Violate(prop, "harness", "unknown-property", "engine dialsim does not serve "+prop)
		return out
	}
	if err := json.Unmarshal(raw, &p); err != nil {
		out.Violate(prop, "harness", "bad-plan", fmt.Sprint("unusable plan: ", err))
		return out
	}
	var cr *concResult
	leak, pv, stack := core.Bubble(t, trace, func(sim *core.Sim) {
		s := sample{Arm: p.Arm}
		if p.Arm == "url" {
			execURL(sim, prop, &p, &out)
			s.URLs = len(p.Cases)
			if len(p.Cases) > 0 {
				c := p.Cases[0]
				if c.Kind == "raw" {
					s.FirstURL = q(string(c.Raw))
				} else {
					s.FirstURL = q(normalise(c).build())
				}
			}
			sim.Probe("url-batches")
		} else {
			s.Arm = "conc"
			cr = execConc(sim, prop, &p, &out)
			s.Clients, s.Simultaneous = len(p.Clients), p.Simultaneous
			if cr != nil {
				s.Ops = len(cr.ops)
			}
		}
		out.Sample = s
		sim.FillOutcome(&out)
	})
	if pv != nil {
		out.Violate(prop, "harness", "bubble-panic", fmt.Sprintf("%v\n%s", pv, stack))
	}
	if leak {
		out.Violate(prop, "harness", "goroutines-left-blocked", "goroutines were still blocked when the run ended")
	}
	checkLinearizable(prop, cr, &out)
	return out
}
