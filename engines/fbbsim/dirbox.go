package fbbsim

import (
	"bytes"
	"fmt"
	"path"
	"sort"
	"strings"

	"github.com/la5nta/wl2k-go/fbb"
	"github.com/la5nta/wl2k-go/mailbox"
	"verif/ref/mbox"
	"verif/sim/simfs"
)

// dirBox runs the real mailbox.DirHandler (on the simulated disk, through the
// os/ioutil/log import swap) as a station's mailbox and records the same
// callback history as the reference handler.
type dirBox struct {
	name    string
	hist    *mbox.History
	fs      *simfs.FS
	root    string
	h       *mailbox.DirHandler
	session int
	calls   int // ProcessInbound calls in this session
	failAt  int
	short   int // bytes written before ENOSPC
	maxB    int
	fired   int  // injected disk faults that really fired
	reuse   bool // keep the same DirHandler object across sessions (a long-running program)
	// deferNow: proposals for these MIDs are answered Defer by the wrapper
	// (an operator's or size-limit policy in front of the mailbox)
	deferNow map[string]bool
	// failAnswerAt: while the n-th proposal of this session is answered, the
	// inbox cannot be examined (the next open and the next stat fail with EACCES)
	failAnswerAt int
	answers      int
}

func newDirBox(name string, hist *mbox.History, fs *simfs.FS) *dirBox {
	root := "/" + name + "/mbox"
	fs.PutDir(root)
	d := &dirBox{name: name, hist: hist, fs: fs, root: root, h: mailbox.NewDirHandler(root, false)}
	if err := d.h.Prepare(); err != nil {
		panic("harness: Prepare on a healthy disk failed: " + err.Error())
	}
	return d
}

func parseMsg(raw []byte) *fbb.Message {
	m := new(fbb.Message)
	if err := m.ReadFrom(bytes.NewReader(raw)); err != nil {
		panic("harness: queued message does not parse: " + err.Error())
	}
	return m
}

func (d *dirBox) Queue(mid string, raw []byte) {
	if err := d.h.AddOut(parseMsg(raw)); err != nil {
		panic("harness: AddOut on a healthy disk failed: " + err.Error())
	}
}

func (d *dirBox) Seed(mid string, raw []byte) {
	if err := d.h.ProcessInbound(parseMsg(raw)); err != nil {
		panic("harness: seeding the inbox failed: " + err.Error())
	}
}

func (d *dirBox) NextSession() {
	d.session++
	d.calls = 0
	d.answers = 0
	if !d.reuse {
		// a fresh handler per session: what survives is the disk (restart)
		d.h = mailbox.NewDirHandler(d.root, false)
	}
}

func (d *dirBox) mids(folder string) []string {
	var out []string
	for _, n := range d.fs.Names(path.Join(d.root, folder)) {
		if strings.HasSuffix(n, mailbox.Ext) && !strings.HasPrefix(n, ".") {
			out = append(out, strings.TrimSuffix(n, mailbox.Ext))
		}
	}
	sort.Strings(out)
	return out
}

func (d *dirBox) Pending() []string { return d.mids("out") }

// stored returns the canonical bytes of in/<mid>.b2f without the private headers.
func (d *dirBox) stored(mid string) ([]byte, error) {
	raw, ok := d.fs.Peek(path.Join(d.root, "in", mid+mailbox.Ext))
	if !ok {
		return nil, fmt.Errorf("no file")
	}
	m := new(fbb.Message)
	if err := m.ReadFrom(bytes.NewReader(raw)); err != nil {
		return nil, err
	}
	m.Header.Del("X-Unread")
	m.Header.Del("X-FilePath")
	return m.Bytes()
}

func (d *dirBox) Prepare() error {
	d.hist.Record(mbox.Event{Station: d.name, Session: d.session, Kind: "prepare"})
	return d.h.Prepare()
}

func (d *dirBox) GetOutbound(fw ...fbb.Address) []*fbb.Message {
	out := d.h.GetOutbound(fw...)
	d.hist.Record(mbox.Event{Station: d.name, Session: d.session, Kind: "getoutbound", N: len(out)})
	return out
}

func (d *dirBox) SetSent(mid string, rejected bool) {
	d.hist.Record(mbox.Event{Station: d.name, Session: d.session, Kind: "setsent", MID: mid, Rejected: rejected})
	d.h.SetSent(mid, rejected)
}

func (d *dirBox) SetDeferred(mid string) {
	d.hist.Record(mbox.Event{Station: d.name, Session: d.session, Kind: "setdeferred", MID: mid})
	d.h.SetDeferred(mid)
}

func (d *dirBox) ProcessInbound(msgs ...*fbb.Message) error {
	for _, m := range msgs {
		data, err := m.Bytes()
		if err != nil {
			return err
		}
		d.calls++
		d.hist.Record(mbox.Event{Station: d.name, Session: d.session, Kind: "inbound-begin", MID: m.MID(), Data: data})
		if d.failAt > 0 && d.calls == d.failAt {
			// the disk fills up in the middle of this message's first write
			d.fs.ResetLog()
			d.fs.SetFaults(simfs.Fault{Kind: "enospc", Nth: 0, Bytes: d.short % (len(data) + 1), Sticky: true})
		}
		err = d.h.ProcessInbound(m)
		if d.failAt > 0 && d.calls == d.failAt {
			d.fired += len(d.fs.Fired())
			d.fs.SetFaults()
		}
		if err != nil {
			d.hist.Record(mbox.Event{Station: d.name, Session: d.session, Kind: "inbound-err", MID: m.MID()})
			return err
		}
		d.hist.Record(mbox.Event{Station: d.name, Session: d.session, Kind: "inbound-ok", MID: m.MID(), Data: data})
	}
	return nil
}

func (d *dirBox) GetInboundAnswer(p fbb.Proposal) fbb.ProposalAnswer {
	if d.maxB < 1 {
		d.maxB = 1
	}
	d.answers++
	if d.deferNow[p.MID()] {
		d.hist.Record(mbox.Event{Station: d.name, Session: d.session, Kind: "answer", MID: p.MID(), Answer: byte(fbb.Defer)})
		return fbb.Defer
	}
	armed := d.failAnswerAt > 0 && d.answers == d.failAnswerAt
	if armed {
		d.fs.ResetLog()
		d.fs.SetFaults(simfs.Fault{Kind: "eacces-open", Nth: 0}, simfs.Fault{Kind: "eacces-stat", Nth: 0})
	}
	a := d.h.GetInboundAnswer(p)
	if armed {
		d.fired += len(d.fs.Fired())
		d.fs.SetFaults()
	}
	d.hist.Record(mbox.Event{Station: d.name, Session: d.session, Kind: "answer", MID: p.MID(), Answer: byte(a)})
	return a
}
