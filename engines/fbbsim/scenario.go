package fbbsim

import (
	"fmt"
	"io"
	"log"
	"net"
	"sort"
	"sync"
	"time"

	"github.com/la5nta/wl2k-go/fbb"
	"verif/ref/mbox"
	"verif/sim/core"
	"verif/sim/pipe"
	"verif/sim/simenv"
)

// StationPlan configures one of the two real Sessions.
type StationPlan struct {
	Call    string            `json:"call"`
	Locator string            `json:"locator"`
	Msgs    []Msg             `json:"msgs,omitempty"`
	Policy  map[string]string `json:"policy,omitempty"` // inbound MID -> "+", "-", "="
	Batched bool              `json:"batched,omitempty"`
	Gzip    bool              `json:"gzip,omitempty"`
	Motd    []string          `json:"motd,omitempty"`
	Status  bool              `json:"status,omitempty"`
	// StatusDelayUs: simulated time each UpdateStatus call takes (a slow GUI);
	// the report counts as delivered when the call returns.
	StatusDelayUs []int    `json:"status_delay_us,omitempty"`
	Robust        string   `json:"robust,omitempty"` // "", "forced", "disabled"
	UA            []string `json:"ua,omitempty"`
}

// SessionPlan is one Exchange of the two stations over one link.
type SessionPlan struct {
	AMaster bool      `json:"a_master"`
	Link    pipe.Plan `json:"link"`
	// FailInboundA/B: the n-th ProcessInbound at that station fails (0: none).
	FailInboundA int `json:"fail_inbound_a,omitempty"`
	FailInboundB int `json:"fail_inbound_b,omitempty"`
}

// Scenario is the plan of the two-station engines (C01, C02, C04-ii, C17).
type Scenario struct {
	A        StationPlan   `json:"a"`
	B        StationPlan   `json:"b"`
	Sessions []SessionPlan `json:"sessions"`
	// Handler: "ref" (in-memory reference) or "dir" (real DirHandler on simfs).
	Handler string `json:"handler,omitempty"`
}

// StatusRec records UpdateStatus calls. It has its own lock and touches
// nothing the session goroutine touches (DESIGN C17).
type StatusRec struct {
	mu       sync.Mutex
	list     []StatusEv
	delays   []int
	calls    int
	inflight int
}

type StatusEv struct {
	Sending, Receiving string
	Transferred, Total int
	CSize              int // compressed size of the proposal the report names
	Title              string
	Size               int
	Done               bool
}

func (s *StatusRec) UpdateStatus(st fbb.Status) {
	ev := StatusEv{Transferred: st.BytesTransferred, Total: st.BytesTotal, Done: st.Done}
	if st.Sending != nil {
		ev.Sending = st.Sending.MID()
		ev.CSize = st.Sending.CompressedSize()
		ev.Title, ev.Size = st.Sending.Title(), st.Sending.Size() // what a GUI shows; read here, unlocked, for the race detector
	}
	if st.Receiving != nil {
		ev.Receiving = st.Receiving.MID()
		ev.CSize = st.Receiving.CompressedSize()
		ev.Title, ev.Size = st.Receiving.Title(), st.Receiving.Size()
	}
	s.mu.Lock()
	d := core.TapeAt(s.delays, s.calls, 0)
	s.calls++
	s.inflight++
	s.mu.Unlock()
	if d > 0 {
		time.Sleep(time.Duration(d) * time.Microsecond)
	}
	s.mu.Lock()
	s.inflight--
	s.list = append(s.list, ev)
	s.mu.Unlock()
}

// Busy reports whether an UpdateStatus call is still in progress.
func (s *StatusRec) Busy() bool {
	s.mu.Lock()
	defer s.mu.Unlock()
	return s.inflight > 0
}

func (s *StatusRec) Events() []StatusEv {
	s.mu.Lock()
	defer s.mu.Unlock()
	return append([]StatusEv(nil), s.list...)
}

// stationRT is the run-time state of a station across the sessions of a run.
type stationRT struct {
	name   string
	plan   StationPlan
	h      *mbox.Handler
	queued map[string][]byte // valid outbound messages: MID -> serialised
	// composed: the same messages serialised before the library ever parsed
	// them (see Msg.BuildFull)
	composed map[string][]byte
	order    []string
	status   *StatusRec
	dir      *dirBox // when set, the real DirHandler is the mailbox (h is unused)
}

// box is what the chain logic needs from either mailbox kind.
func (st *stationRT) nextSession(failInbound int) {
	if st.dir != nil {
		st.dir.NextSession()
		st.dir.failAt = failInbound
		st.dir.failAnswerAt = 0
		return
	}
	st.h.NextSession()
	st.h.FailInboundAt = failInbound
}

func (st *stationRT) pending() []string {
	if st.dir != nil {
		return st.dir.Pending()
	}
	return st.h.Pending()
}

func (st *stationRT) seed(mid string, raw []byte) {
	if st.dir != nil {
		st.dir.Seed(mid, raw)
		return
	}
	st.h.Seed(mid, raw)
}

func newStation(name string, p StationPlan, hist *mbox.History) *stationRT {
	st := &stationRT{name: name, plan: p, h: mbox.New(name, hist), queued: map[string][]byte{}, composed: map[string][]byte{}}
	for _, d := range p.Msgs {
		_, raw, composed, ok := d.BuildFull()
		if !ok {
			continue
		}
		if _, dup := st.queued[d.MID]; dup {
			continue
		}
		st.queued[d.MID] = raw
		st.composed[d.MID] = composed
		st.order = append(st.order, d.MID)
		st.h.Queue(d.MID, raw)
	}
	for _, mid := range core.SortedKeys(p.Policy) {
		if a := p.Policy[mid]; len(a) == 1 {
			st.h.Policy[mid] = a[0]
		}
	}
	if p.Status {
		st.status = &StatusRec{delays: p.StatusDelayUs}
	}
	return st
}

// sessResult is what one Exchange produced at one station.
type sessResult struct {
	stats    fbb.TrafficStats
	err      error
	panicVal any
	stack    string
	finished bool
	closed   bool
	closes   int
	endedAt  time.Duration
}

var discard = log.New(io.Discard, "", 0)

func (st *stationRT) session(peer *stationRT, master bool) *fbb.Session {
	var h fbb.MBoxHandler = st.h
	if st.plan.Batched {
		h = mbox.Batched{Handler: st.h}
	}
	if st.dir != nil {
		h = st.dir
	}
	s := fbb.NewSession(st.plan.Call, peer.plan.Call, st.plan.Locator, h)
	s.SetLogger(discard)
	s.IsMaster(master)
	if len(st.plan.Motd) > 0 {
		s.SetMOTD(st.plan.Motd...)
	}
	if len(st.plan.UA) == 2 {
		s.SetUserAgent(fbb.UserAgent{Name: st.plan.UA[0], Version: st.plan.UA[1]})
	}
	switch st.plan.Robust {
	case "forced":
		s.SetRobustMode(fbb.RobustForced)
	case "disabled":
		s.SetRobustMode(fbb.RobustDisabled)
	}
	if st.status != nil {
		s.SetStatusUpdater(st.status)
	}
	return s
}

// exchange runs one Exchange on its own goroutine.
func (st *stationRT) exchange(sim *core.Sim, s *fbb.Session, conn net.Conn, end *pipe.End, res *sessResult) *core.GoResult {
	return core.Go(func() {
		env := map[string]string{}
		if st.plan.Gzip {
			env["GZIP_EXPERIMENT"] = "1"
		}
		simenv.Bind(env)
		defer simenv.Unbind()
		defer func() {
			if r := recover(); r != nil {
				res.panicVal = r
				res.stack = stackOf()
				// a panicking Exchange leaves the conn to the caller; close it
				// so that the peer is not left waiting for ever.
				end.Close()
			}
			res.endedAt = sim.Now()
		}()
		res.stats, res.err = s.Exchange(conn)
		res.finished = true
		res.closed, res.closes = end.Closed()
		sim.Logf("exchange %s done err=%v sent=%v recv=%v", st.name, res.err, sortedCopy(res.stats.Sent), sortedCopy(res.stats.Received))
	})
}

const sessionBudget = 200 * time.Hour // simulated; liveness is really decided by the bubble's own deadlock detection

// runSession runs one Exchange between the two stations and returns both results.
// ok=false: at least one side did not return within the simulated budget.
func runSession(sim *core.Sim, a, b *stationRT, sp SessionPlan, tapAB, tapBA func([]byte)) (ra, rb *sessResult, link *pipe.Link, ok bool) {
	a.h.NextSession()
	b.h.NextSession()
	a.h.FailInboundAt, b.h.FailInboundAt = sp.FailInboundA, sp.FailInboundB
	link = pipe.New(sim, sp.Link)
	if tapAB != nil || tapBA != nil {
		link.Tap(tapAB, tapBA)
	}
	ra, rb = &sessResult{}, &sessResult{}
	sa := a.session(b, sp.AMaster)
	sb := b.session(a, !sp.AMaster)
	ga := a.exchange(sim, sa, pipe.WithCaps(link.A, sp.Link.CapsA), link.A, ra)
	sim.Pause()
	gb := b.exchange(sim, sb, pipe.WithCaps(link.B, sp.Link.CapsB), link.B, rb)
	ok = core.WaitAll(sessionBudget, ga, gb)
	if !ok {
		// unblock whatever is left so that the bubble can end
		link.Kill()
		link.A.Close()
		link.B.Close()
		core.WaitAll(time.Hour, ga, gb)
	}
	return
}

func describeErr(err error) string {
	if err == nil {
		return "nil"
	}
	return fmt.Sprintf("%T:%v", err, err)
}

// runSessionTapSent is runSession with a tap on what A writes (before in-flight
// edits) and a finite budget after which the link is killed (damaged streams
// can leave both sides waiting for each other).
func runSessionTapSent(sim *core.Sim, a, b *stationRT, sp SessionPlan, tapA, seenB func([]byte), budget time.Duration) (ra, rb *sessResult, link *pipe.Link, ok bool) {
	a.h.NextSession()
	b.h.NextSession()
	a.h.FailInboundAt, b.h.FailInboundAt = sp.FailInboundA, sp.FailInboundB
	link = pipe.New(sim, sp.Link)
	link.Tap(seenB, nil)
	ra, rb = &sessResult{}, &sessResult{}
	sa := a.session(b, sp.AMaster)
	sb := b.session(a, !sp.AMaster)
	var ca net.Conn = pipe.WithCaps(link.A, sp.Link.CapsA)
	if tapA != nil {
		ca = tapConn{link.A, tapA}
	}
	ga := a.exchange(sim, sa, ca, link.A, ra)
	sim.Pause()
	gb := b.exchange(sim, sb, pipe.WithCaps(link.B, sp.Link.CapsB), link.B, rb)
	ok = core.WaitAll(budget, ga, gb)
	if !ok {
		link.Kill()
		core.WaitAll(10*time.Minute, ga, gb)
		link.A.Close()
		link.B.Close()
		core.WaitAll(time.Hour, ga, gb)
	}
	return
}

func sortedCopy(xs []string) []string {
	out := append([]string(nil), xs...)
	sort.Strings(out)
	return out
}

// setDefers makes the station answer Defer for the given MIDs from now on
// (nil: no deferrals).
func (st *stationRT) setDefers(mids []string) {
	m := map[string]bool{}
	for _, x := range mids {
		m[x] = true
	}
	if st.dir != nil {
		st.dir.deferNow = m
		return
	}
	for _, k := range core.SortedKeys(st.h.Policy) {
		if st.h.Policy[k] == '=' {
			delete(st.h.Policy, k)
		}
	}
	for x := range m {
		st.h.Policy[x] = '='
	}
}
