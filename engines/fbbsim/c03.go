package fbbsim

import (
	"encoding/binary"
	"encoding/json"
	"fmt"
	"runtime"
	"strings"
	"testing"
	"time"

	"verif/ref/b2f"
	"verif/sim/core"
	"verif/sim/pipe"
)

// HostileMsg is a message the Byzantine peer offers: either a hostile raw
// message inside a valid compressed stream, or a hostile compressed stream
// inside a valid frame (block checksum correct).
type HostileMsg struct {
	MID    string `json:"mid"`
	Title  string `json:"title"`
	Raw    []byte `json:"raw,omitempty"`
	Stream []byte `json:"stream,omitempty"`
}

// C03Plan: the remote is the reference peer in Byzantine mode.
type C03Plan struct {
	PeerPlan
	Hostile []HostileMsg `json:"hostile,omitempty"`
	// Garbage: when set the remote sends just these bytes and then stops.
	Garbage []byte `json:"garbage,omitempty"`
	Layer   string `json:"layer"` // label only (evidence): raw handshake proposal answer frame payload message garbage lines leave none
}

// crc16x is CRC-16/XMODEM (poly 0x1021, init 0), bitwise.
func crc16x(b []byte) uint16 {
	var crc uint16
	for _, c := range b {
		crc ^= uint16(c) << 8
		for i := 0; i < 8; i++ {
			if crc&0x8000 != 0 {
				crc = crc<<1 ^ 0x1021
			} else {
				crc <<= 1
			}
		}
	}
	return crc
}

func fixCRC(s []byte) {
	if len(s) >= 2 {
		binary.LittleEndian.PutUint16(s, crc16x(s[2:]))
	}
}

var hostileLines = []string{
	"", " ", "\x00", "\x00\x00", "\x00x", "x\x00", "*", "***", "*** ", "*** error", ";", ";PQ", ";PQ:", ";PQ: ", ";PM", ";PM: a b", ";PM: a b c d e",
	";FW", ";FW:", ";FW: ", ";FW:  |", "[", "]", "[]", "[-]", "[a-b", "[x-y-z]", "[x-B2F$]", "[x--B2FHM$]", "[WL2K-5.0-B1FHM$]", ">", "CMS>", "F", "F>", "F> ", "F>  ", "F> ZZ", "F>00", "F> 1", "F> 123456789", "FA", "FB", "FC", "FD", "FE", "FZ x",
	"FC EM", "FC EM X", "FC EM X 1", "FC EM X 1 1", "FC EM X -1 -1 0", "FC EM X 99999999999999999999 1 0", "FC EM X 1 99999999999 0", "FC XX X 1 1 0", "FC  EM X 1 1 0", "FC EM  1 1 0", "FC EM X a b 0", "FC EM X 1 1 0 0 0", "FD EM X 5 5 0",
	"FA P A B C 1_X 5", "FB P A B C 1_X 5", "FF", "FQ", "FS", "FS ", "FS +", "FS ++++++++++", "FS A", "FS !", "FS A99999999999999999999", "FS !500000", "FS A5", "FS x", "FS +-=YNLHR", "\xff\xfe", "é", strings.Repeat("A", 300),
}

func genHostileLine(r *core.Rand) []byte {
	switch r.Pick(10, 1, 1) {
	case 1:
		return append(r.Bytes(r.Range(1, 40)), '\r')
	case 2:
		return []byte(strings.Repeat(string(rune('A'+r.Intn(26))), r.Range(1000, 100000)) + "\r")
	}
	return []byte(core.Choice(r, hostileLines) + "\r")
}

func genHostileRaw(r *core.Rand, mid string) []byte {
	hdr := func(body string, extra ...string) []byte {
		h := "Mid: " + mid + "\r\nDate: 2020/01/01 10:00\r\nFrom: X\r\nTo: Y\r\nSubject: s\r\nMbo: X\r\nType: Private\r\n"
		h += "Body: " + body + "\r\n"
		for _, e := range extra {
			h += e + "\r\n"
		}
		return []byte(h + "\r\nhello\r\n")
	}
	switch r.Pick(3, 2, 2, 2, 1, 1, 1, 1, 1, 1, 1, 3) {
	case 0:
		return hdr(core.Choice(r, []string{"-1", "-5", "-2147483648", "-9223372036854775808"}))
	case 1:
		return hdr(core.Choice(r, []string{"3000000000", "99999999999", "2147483647", "4294967296", "9223372036854775807"}))
	case 2:
		return hdr("7", "File: "+core.Choice(r, []string{"-1 a.txt", "-100 a", "3000000000 big.bin", "99999999999 x", "5", "x y", " ", "5 ", "2147483647 z"}))
	case 3:
		return hdr(core.Choice(r, []string{"0", "1", "6", "8", "100", "abc", "", " 5", "5 5", "0x10"}))
	case 4: // no Mid
		return []byte("Date: 2020/01/01 10:00\r\nFrom: X\r\nTo: Y\r\nSubject: s\r\nBody: 5\r\n\r\nhello\r\n")
	case 5: // bad date
		return []byte("Mid: " + mid + "\r\nDate: yesterday\r\nFrom: X\r\nTo: Y\r\nSubject: s\r\nBody: 5\r\n\r\nhello\r\n")
	case 6: // no blank line / no headers
		return []byte(core.Choice(r, []string{"", "\r\n", "hello", "Mid", "Mid:", ": x\r\n\r\n", "\r\n\r\n\r\n", "Mid: " + mid, "Mid: " + mid + "\r\n"}))
	case 7: // a different / hostile Mid header than proposed
		return []byte("Mid: " + core.Choice(r, []string{"../../x", "/etc/passwd", "", "A B", strings.Repeat("M", 300), "x\x00y"}) + "\r\nDate: 2020/01/01 10:00\r\nFrom: X\r\nTo: Y\r\nSubject: s\r\nBody: 5\r\n\r\nhello\r\n")
	case 8:
		return r.Bytes(r.Range(1, 300))
	case 9: // huge header line
		return []byte("Mid: " + mid + "\r\nSubject: " + strings.Repeat("s", r.Range(5000, 200000)) + "\r\nBody: 5\r\n\r\nhello\r\n")
	case 11: // malformed and well-formed File headers mixed, sections of exactly the declared size
		h := "Mid: " + mid + "\r\nDate: 2020/01/01 10:00\r\nFrom: X\r\nTo: Y\r\nSubject: s\r\nBody: 5\r\n"
		var data string
		for i, n := 0, r.Range(2, 4); i < n; i++ {
			switch r.Pick(2, 2, 1) {
			case 0:
				h += "File: " + core.Choice(r, []string{"x", "nosize", "", " ", "7"}) + "\r\n"
			case 1:
				k := r.Range(0, 9)
				h += fmt.Sprintf("File: %d f%d.txt\r\n", k, i)
				data += strings.Repeat("d", k) + "\r\n"
			case 2:
				h += "File: 0 empty.bin\r\n"
				data += "\r\n"
			}
		}
		return []byte(h + "\r\nhello\r\n" + data)
	default: // many files
		h := "Mid: " + mid + "\r\nDate: 2020/01/01 10:00\r\nFrom: X\r\nTo: Y\r\nSubject: s\r\nBody: 5\r\n"
		for i := 0; i < r.Range(1, 2000); i++ {
			h += "File: 0 f\r\n"
		}
		return []byte(h + "\r\nhello\r\n")
	}
}

func genHostileStream(r *core.Rand, valid []byte, usize int) []byte {
	s := append([]byte(nil), valid...)
	setSize := func(v int32) {
		if len(s) >= 6 {
			binary.LittleEndian.PutUint32(s[2:], uint32(v))
		}
	}
	fix := r.Chance(0.6)
	switch r.Pick(3, 3, 2, 2, 2, 2, 1, 1) {
	case 0:
		setSize(core.Choice(r, []int32{-1, -2, -1000, -2147483648}))
	case 1: // final match overruns the declared size
		setSize(int32(usize - r.Range(1, 59)))
	case 2:
		setSize(core.Choice(r, []int32{0, 1, int32(usize) + 1, int32(usize) + 1000, 2147483647, 100000000}))
	case 3: // truncated bit stream
		if len(s) > 7 {
			s = s[:r.Range(6, len(s)-1)]
		}
	case 4: // bit flips
		for i, n := 0, r.Range(1, 4); i < n && len(s) > 6; i++ {
			s[r.Range(6, len(s)-1)] ^= 1 << r.Intn(8)
		}
	case 5: // checksum-compensating pair: +d at i, -d at j
		if len(s) > 8 {
			i, j, d := r.Range(6, len(s)-1), r.Range(6, len(s)-1), byte(r.Range(1, 255))
			s[i] += d
			s[j] -= d
			fix = false
		}
	case 6:
		s = s[:r.Intn(min(7, len(s)+1))]
		fix = false
	case 7:
		s = append(s[:min(6, len(s))], r.Bytes(r.Range(1, 400))...)
	}
	if fix {
		fixCRC(s)
	}
	return s
}

func genC03(tier string, r *core.Rand) C03Plan {
	base := genC05(tier, r)
	base.Peer.Late = 0 // held mail is C05's arm
	// small conforming base scenario so that deep states are reached quickly
	if len(base.Lib.Msgs) > 4 {
		base.Lib.Msgs = base.Lib.Msgs[:r.Range(0, 4)]
	}
	if r.Chance(0.3) {
		base.Lib.Msgs = nil // nothing outbound pending
	}
	if len(base.PeerMsgs) > 3 {
		base.PeerMsgs = base.PeerMsgs[:r.Range(1, 3)]
	}
	for k, v := range base.Peer.Answers {
		if strings.EqualFold(v, "H") {
			base.Peer.Answers[k] = "+"
		}
	}
	base.Peer.Byzantine = true
	base.Peer.StaleChecksum = r.Chance(0.25)
	p := C03Plan{PeerPlan: base}
	if !base.LibMaster && r.Chance(0.2) {
		p.Peer.Challenge = genChallenge(r)
		if r.Chance(0.5) {
			p.NoCallback = true
		}
	}
	mut := func(kind string, nth int, op string, arg, val int, b []byte) {
		p.Peer.Mut = append(p.Peer.Mut, b2f.Mutation{Kind: kind, Nth: nth, Op: op, Arg: arg, Val: val, Bytes: b})
	}
	lineKinds := []string{"motd", "sid", "pq", "fw", "prompt", "comment", "pm", "proposal", "fprompt", "fs", "ff", "fq"}
	layer := r.Pick(2, 3, 3, 2, 3, 3, 3, 1, 1, 3)
	switch layer {
	case 0: // raw: in-flight edits of the peer's byte stream
		p.Layer = "raw"
		for i, n := 0, r.Range(1, 4); i < n; i++ {
			kind := core.Choice(r, []string{"sub", "del", "ins", "xor"})
			val := r.Intn(256)
			if r.Chance(0.4) {
				val = int(core.Choice(r, []byte{0, '\r', '\n', 'F', '*', ';', '>', 0xff, 1, 2, 4}))
			}
			p.Link.BA.Edits = append(p.Link.BA.Edits, pipe.Edit{Off: r.Intn(400), Kind: kind, Val: val})
		}
	case 1: // handshake
		p.Layer = "handshake"
		kind := core.Choice(r, []string{"motd", "sid", "pq", "fw", "prompt", "comment"})
		if kind == "motd" && len(p.Peer.Motd) == 0 {
			p.Peer.Motd = []string{"welcome"}
		}
		if kind == "fw" && len(p.Peer.FW) == 0 {
			p.Peer.FW = []string{"X"}
		}
		if kind == "pq" && p.Peer.Challenge == "" {
			p.Peer.Challenge = "1"
		}
		switch r.Pick(5, 2, 1, 1) {
		case 0:
			mut(kind, 0, "replace", 0, 0, genHostileLine(r))
		case 1:
			mut(kind, 0, "trunc", r.Intn(8), 0, nil)
		case 2:
			mut(kind, 0, "drop", 0, 0, nil)
		case 3:
			mut(kind, 0, "insert", r.Intn(6), 0, []byte{byte(core.Choice(r, []int{0, 10, 13, 255}))})
		}
	case 2: // proposals
		p.Layer = "proposal"
		kind := core.Choice(r, []string{"proposal", "fprompt", "pm", "ff", "fq"})
		if kind == "pm" {
			p.Peer.PM = true
		}
		nth := r.Pick(4, 1, 1)
		switch r.Pick(4, 3, 2, 1, 1, 2) {
		case 5: // another proposal code in front of an otherwise consistent proposal (FD = gzip experiment, FA/FB = older protocols)
			mut("proposal", nth, "field", 0, 0, []byte(core.Choice(r, []string{"FD", "FD", "FA", "FB", "fc", "fd", "FE", "F"})))
		case 0:
			mut(kind, nth, "replace", 0, 0, genHostileLine(r))
		case 1:
			mut(kind, nth, "field", r.Intn(6), 0, []byte(core.Choice(r, []string{"-1", "0", "99999999999999999999", "2147483648", "x", "", "../../../tmp/x", "/abs/path", strings.Repeat("M", 300), "A\x00B", "4294967295", "536870912", "9223372036854775807", "1073741824", "-9223372036854775808", "1", "65536"})))
		case 2:
			mut(kind, nth, "trunc", r.Intn(12), 0, nil)
		case 3:
			mut(kind, nth, "dup", 0, 0, nil)
		case 4:
			mut(kind, nth, "nocr", 0, 0, nil)
		}
	case 3: // answers to the library's proposals
		p.Layer = "answer"
		if len(p.Lib.Msgs) == 0 {
			used := map[string]bool{}
			p.Lib.Msgs = []Msg{GenMsg(r, used, p.Lib.Call, "", 200)}
		}
		switch r.Pick(5, 2, 2) {
		case 0:
			mut("fs", 0, "replace", 0, 0, []byte(core.Choice(r, []string{"FS", "FS ", "FS +", "FS ++++++++++", "FS A", "FS !", "FS A99999999999999999999", "FS !500000", "FS A5", "FS !7", "FS x", "FS +-=YNLHR", "FS A1A2A3A4A5", "FS !999999", "FS !1000000", "FX +", "fs +",
				"FS !9223372036854775808", "FS A9999999999999999999", "FS !18446744073709551615", "FS A9223372036854775807", "FS !18446744073709551617", "FS A00000000000000000000001", "FS !" + digitsOf(r, r.Range(18, 40))})+"\r"))
		case 1:
			mut("fs", 0, "trunc", r.Intn(5), 0, nil)
		case 2:
			mut("fs", 0, "append", 0, 0, []byte("FS +\r*** boom\r"))
		}
	case 4: // frames
		p.Layer = "frame"
		kind := core.Choice(r, []string{"hdr", "hdr", "block", "eot"})
		switch r.Pick(4, 2, 2, 1, 1) {
		case 0:
			mut(kind, r.Pick(4, 1), "setbyte", r.Intn(6), r.Intn(256), nil)
		case 1:
			mut(kind, r.Pick(4, 1), "trunc", r.Intn(6), 0, nil)
		case 2:
			mut(kind, r.Pick(4, 1), "replace", 0, 0, core.Choice(r, [][]byte{{1}, {1, 0}, {1, 2, 0, 0}, {1, 5, 'a', 0, '-', '1', 0}, {1, 4, 'a', 0, 'x', 0}, {1, 255, 'a', 0, '0', 0}, {2, 0}, {2, 5, 1}, {4}, {4, 0}, {9, 9}, {'*', '*', '*', ' ', 'x', '\r'}, {1, 3, 0, 0, 0}, {1, 2, 0, 0}}))
		case 3:
			mut(kind, 0, "drop", 0, 0, nil)
		case 4:
			mut(kind, 0, "dup", 0, 0, nil)
		}
	case 5: // payload: hostile LZHUF inside a valid frame
		p.Layer = "payload"
		used := map[string]bool{}
		mid := GenMID(r, used)
		_, raw, _ := GenMsg(r, used, "X1X", "", r.Range(10, 3000)).Build()
		if raw == nil {
			raw = []byte("Mid: X\r\nBody: 1\r\n\r\nx\r\n")
		}
		valid := libCodec{}.Compress(raw)
		p.Hostile = append(p.Hostile, HostileMsg{MID: mid, Title: "t", Raw: raw, Stream: genHostileStream(r, valid, len(raw))})
		if r.Bool() {
			p.PeerMsgs = nil
		}
	case 6: // message: hostile headers inside a valid LZHUF stream
		p.Layer = "message"
		used := map[string]bool{}
		mid := GenMID(r, used)
		p.Hostile = append(p.Hostile, HostileMsg{MID: mid, Title: "t", Raw: genHostileRaw(r, mid)})
		if r.Bool() {
			p.PeerMsgs = nil
		}
	case 7: // garbage transcript
		p.Layer = "garbage"
		switch r.Pick(2, 2, 1) {
		case 0:
			p.Garbage = r.Bytes(r.Range(0, 2000))
		case 1:
			for i, n := 0, r.Range(1, 30); i < n; i++ {
				p.Garbage = append(p.Garbage, genHostileLine(r)...)
			}
		case 2:
			p.Garbage = []byte("[WL2K-5.0-B2FWIHJM$]\r;PQ: 1\rCMS>\r")
			for i, n := 0, r.Range(1, 20); i < n; i++ {
				p.Garbage = append(p.Garbage, genHostileLine(r)...)
			}
		}
	case 9: // the remote goes away (EOF) at a chosen point inside a unit of an otherwise conforming session
		p.Layer = "leave"
		kind := core.Choice(r, []string{"hdr", "hdr", "hdr", "block", "block", "eot", "proposal", "fprompt", "fs", "ff", "sid", "pq", "prompt", "fw", "pm"})
		if kind == "pm" {
			p.Peer.PM = true
		}
		if kind == "pq" && p.Peer.Challenge == "" {
			p.Peer.Challenge = "12345678"
		}
		nth := r.Pick(5, 2, 1)
		switch r.Pick(4, 3, 2, 3) {
		case 0:
			mut(kind, nth, "stop", r.Intn(8), 0, nil)
		case 1:
			mut(kind, nth, "stop", -r.Intn(4), 0, nil)
		case 2:
			mut(kind, nth, "stop", r.Intn(300), 0, nil)
		case 3: // right behind a delimiter
			mut(kind, nth, "stop", r.Pick(4, 2, 1), 0, []byte{core.Choice(r, []byte{0, 0, ' ', '\r', 1, 2, 4, '-', ':'})})
		}
	case 8: // several random line replacements anywhere
		p.Layer = "lines"
		for i, n := 0, r.Range(1, 3); i < n; i++ {
			mut(core.Choice(r, lineKinds), r.Pick(3, 1, 1), "replace", 0, 0, genHostileLine(r))
		}
	}
	return p
}

func execC03(t *testing.T, prop string, raw json.RawMessage, trace bool) core.Outcome {
	var p C03Plan
	var out core.Outcome
	if err := json.Unmarshal(raw, &p); err != nil {
		out.Violate(prop, "harness", "bad-plan", fmt.Sprint("unusable plan: ", err))
		return out
	}
	p.Peer.Byzantine = true
	p.Link.Cut = nil
	var ms0, ms1 runtime.MemStats
	runtime.ReadMemStats(&ms0)
	received, localOut := 0, 0
	var events uint64
	leak, pv, stack := core.Bubble(t, trace, func(sim *core.Sim) {
		pr, wrote := runByzantine(sim, p)
		received = wrote
		for _, m := range pr.lib.order {
			localOut += len(pr.lib.queued[m])
		}
		if pr.res.panicVal != nil {
			sim.Violate(prop, "panic", core.PanicClass(pr.res.panicVal)+"@"+core.RepoFrame(pr.res.stack), "Exchange panicked on remote input: %v\n%s", pr.res.panicVal, firstLines(pr.res.stack, 30))
		} else if !pr.res.finished {
			sim.Violate(prop, "hang", "exchange-did-not-return-after-input-ended", "the remote closed the connection; Exchange had not returned 5 simulated minutes later")
		} else if !pr.res.closed {
			sim.Violate(prop, "conn-close", "not-closed", "Exchange returned (%v) without closing the connection", pr.res.err)
		}
		out.NonTrivial = len(p.Peer.Mut) > 0 || len(p.Hostile) > 0 || len(p.Garbage) > 0 || len(p.Link.BA.Edits) > 0
		sim.Probe("layer-" + orStr(p.Layer, "none"))
		if pr.res.finished && pr.res.err == nil {
			sim.Probe("exchange-returned-nil")
		} else if pr.res.finished {
			sim.Probe("exchange-returned-error")
		}
		n := 0
		for _, e := range pr.hist {
			if e.Kind == "inbound-ok" {
				n++
			}
		}
		sim.ProbeN("inbound-delivered-despite-damage", n)
		events = sim.Events()
		out.Sample = map[string]any{"layer": p.Layer, "lib_master": p.LibMaster, "lib_msgs": len(p.Lib.Msgs), "mutations": p.Peer.Mut, "hostile": len(p.Hostile), "garbage_len": len(p.Garbage), "result": describeErr(pr.res.err)}
		sim.FillOutcome(&out)
	})
	runtime.ReadMemStats(&ms1)
	if pv != nil {
		out.Violate(prop, "harness", "bubble-panic", fmt.Sprintf("%v\n%s", pv, stack))
	}
	if leak {
		out.Violate(prop, "hang", "goroutines-left-blocked", "goroutines started by the session were still blocked after Exchange returned and the link was closed")
	}
	grown := ms1.TotalAlloc - ms0.TotalAlloc
	// The station's own queued messages are re-read and re-compressed on every
	// turn; that cost is proportional to local data, not to remote input.
	// ... and the simulator itself allocates per environment event (a timer, a
	// goroutine, a log line): with single-byte segmentation that is per byte.
	bound := uint64(32<<20) + 512*uint64(received) + 4096*uint64(localOut) + 4096*events
	if grown > bound {
		out.Violate(prop, "alloc", "out-of-proportion", fmt.Sprintf("the run allocated %d bytes for %d bytes received from the remote and %d bytes of local outbound messages (bound %d)", grown, received, localOut, bound))
	}
	return out
}

func firstLines(s string, n int) string {
	l := strings.SplitN(s, "\n", n+1)
	if len(l) > n {
		l = l[:n]
	}
	return strings.Join(l, "\n")
}

// runByzantine runs the Session against the Byzantine peer (or the garbage
// source), lets the remote end its input, and gives Exchange 5 simulated
// minutes to return.
func runByzantine(sim *core.Sim, p C03Plan) (*peerRun, int) {
	pp := p.PeerPlan
	pp.Peer.ReadTimeout = 2 * time.Minute
	if len(p.Garbage) == 0 {
		pr := runPeerSessionOpts(sim, pp, p.Hostile, 5*time.Minute)
		return pr, pr.peer.Wrote
	}
	// garbage source instead of the peer
	pp.Peer.Byzantine = true
	pr := runPeerSessionCustom(sim, pp, 5*time.Minute, func(c *pipe.End) {
		c.Write(p.Garbage)
		// keep reading until the Session stops talking for 2 simulated minutes, then close
		buf := make([]byte, 4096)
		for {
			c.SetReadDeadline(time.Now().Add(2 * time.Minute))
			if _, err := c.Read(buf); err != nil {
				break
			}
		}
		c.Close()
	})
	return pr, len(p.Garbage)
}

func digitsOf(r *core.Rand, n int) string {
	b := make([]byte, n)
	for i := range b {
		b[i] = byte('0' + r.Intn(10))
	}
	if b[0] == '0' {
		b[0] = '9'
	}
	return string(b)
}
