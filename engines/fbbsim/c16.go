package fbbsim

import (
	"bytes"
	"encoding/json"
	"fmt"
	"strings"
	"testing"
	"time"

	"verif/ref/b2f"
	"verif/sim/core"
)

// C16Plan: the reference peer acts as a CMS that issues a ;PQ challenge.
type C16Plan struct {
	PeerPlan
	// PasswordsB: address -> password bytes (any bytes without CR/LF).
	PasswordsB map[string][]byte `json:"passwords_b,omitempty"`
	// Others: further stations of the same process that log in to their own
	// remotes at the same time, each over its own link (one level only).
	Others []C16Plan `json:"others,omitempty"`
	// StartUs: when each further session starts, relative to the first.
	StartUs []int `json:"start_us,omitempty"`
	// Yield: pauses (microseconds, cyclic) at the statement boundaries of the
	// instrumented library code, see core.Sim.EnableYields.
	Yield []int `json:"yield,omitempty"`
}

func genPassword(r *core.Rand) []byte {
	n := r.Range(6, 16)
	switch r.Pick(10, 3, 2, 1) {
	case 1: // pass phrases; MD5's block size is 64 bytes, the salt follows the password
		n = r.Range(17, 140)
	case 2:
		n = core.Choice(r, []int{47, 48, 55, 56, 57, 63, 64, 65, 119, 120, 121, 127, 128, 129, 191, 192, 255, 256, 257})
	case 3:
		n = r.Range(141, 1200)
	}
	b := make([]byte, n)
	for i := range b {
		switch r.Pick(8, 2, 1) {
		case 0:
			b[i] = "abcdefghijklmnopqrstuvwxyzABCDEFGHIJKLMNOPQRSTUVWXYZ0123456789"[r.Intn(62)]
		case 1:
			b[i] = "!#$%&()*+,-./:;<=>?@[]^_{}~ "[r.Intn(28)]
		default:
			b[i] = byte(r.Range(0x80, 0xff))
		}
		if b[i] == '\r' || b[i] == '\n' {
			b[i] = 'x'
		}
	}
	// a marker that cannot occur in legitimate handshake text
	copy(b, "pW")
	return b
}

func genChallenge(r *core.Rand) string {
	switch r.Pick(6, 2, 2, 1, 1) {
	case 0:
		return fmt.Sprintf("%08d", r.Intn(100000000))
	case 1:
		n := r.Range(1, 24)
		b := make([]byte, n)
		for i := range b {
			b[i] = byte('0' + r.Intn(10))
		}
		return string(b)
	case 2:
		n := r.Range(1, 12)
		b := make([]byte, n)
		for i := range b {
			b[i] = alnum[r.Intn(len(alnum))]
		}
		return string(b)
	case 3:
		n := core.Choice(r, []int{48, 56, 57, 63, 64, 65, 120, 128, 129, 200, 300})
		b := make([]byte, n)
		for i := range b {
			b[i] = byte('0' + r.Intn(10))
		}
		return string(b)
	default:
		return core.Choice(r, []string{"0", "00000000", "99999999", "12 34", "a|b", "x;y", "[1]", "2375352>", "a>b>", ">", "12345678]", ";PQ: 1", "F> 00"})
	}
}

func genC16one(tier string, r *core.Rand) C16Plan {
	pp := genC05(tier, r)
	pp.Peer.Late = 0 // held mail is C05's arm
	pp.LibMaster = false
	pp.Peer.Prompt = core.Choice(r, []string{"CMS>", ">", "Halifax CMS >"})
	pp.Peer.Motd = nil
	pp.Peer.EarlyFQ = false
	pp.Peer.DupFirst = false
	if len(pp.Lib.Msgs) > 3 {
		pp.Lib.Msgs = pp.Lib.Msgs[:3]
	}
	if len(pp.PeerMsgs) > 2 {
		pp.PeerMsgs = pp.PeerMsgs[:2]
	}
	for k, v := range pp.Peer.Answers {
		if strings.EqualFold(v, "H") {
			pp.Peer.Answers[k] = "+"
		}
	}
	pp.Peer.Challenge = genChallenge(r)
	pp.Aux = nil
	auxPool := []string{"LA1B", "N0AUX-3", "SK0MK", "W7AUX", "DL0XYZ-11", "shelter7@example.org", "Ops.Desk@Example.NET", "club@winlink.example"}
	core.Shuffle(r, auxPool)
	for i, n := 0, r.Pick(3, 3, 2, 1); i < n; i++ {
		pp.Aux = append(pp.Aux, auxPool[i])
	}
	p := C16Plan{PeerPlan: pp, PasswordsB: map[string][]byte{}}
	primary := strings.ToUpper(pp.Lib.Call)
	p.PasswordsB[primary] = genPassword(r)
	for _, a := range pp.Aux {
		switch r.Pick(5, 3, 2) {
		case 0:
			p.PasswordsB[a] = genPassword(r)
		case 1: // no password known
		case 2:
			p.ErrFor = append(p.ErrFor, a)
		}
	}
	switch r.Pick(12, 1, 1) {
	case 1:
		p.NoCallback = true
	case 2:
		p.ErrFor = append(p.ErrFor, primary)
	}
	return p
}

// GenYieldTape draws a pause tape for core.Sim.EnableYields: a prime length so
// that it does not fall into step with loops, a few percent of the points pause.
func GenYieldTape(r *core.Rand) []int {
	n := core.Choice(r, []int{53, 97, 193, 389})
	dens := core.Choice(r, []float64{0.01, 0.03, 0.08, 0.2})
	scale := core.Choice(r, []int{5, 200, 5000, 60000})
	t := make([]int, n)
	for i := range t {
		if r.Chance(dens) {
			t[i] = 1 + r.Intn(scale)
		}
	}
	t[r.Intn(n)] = 1 + r.Intn(scale) // never empty
	return t
}

// genC16 adds, for a quarter of the plans, one or two more stations of the
// same process that log in at the same time, and pauses inside the library.
func genC16(tier string, r *core.Rand) C16Plan {
	p := genC16one(tier, r)
	if r.Chance(0.25) {
		for i, n := 0, r.Range(1, 2); i < n; i++ {
			o := genC16one(tier, r)
			o.Lib.Msgs, o.PeerMsgs = nil, nil // the logins are what matters
			p.Others = append(p.Others, o)
			p.StartUs = append(p.StartUs, core.Choice(r, []int{0, 0, 1, 50, 2000, 100000})*r.Range(0, 3))
		}
		if r.Chance(0.5) {
			// same link timing for everybody: the logins are computed at about the same time
			for i := range p.Others {
				p.Others[i].Link = p.Link
			}
		}
		p.Yield = GenYieldTape(r)
	}
	return p
}

// prepC16 puts a plan into the domain the check is about.
func prepC16(p *C16Plan) {
	p.LibMaster = false
	p.Peer.Byzantine, p.Peer.Mut = false, nil
	if p.Peer.Challenge == "" {
		p.Peer.Challenge = "00000000"
	}
	p.Peer.Challenge = strings.TrimSpace(strings.NewReplacer("\r", "", "\n", "", "\x00", "").Replace(p.Peer.Challenge))
	if p.Peer.Challenge == "" {
		p.Peer.Challenge = "1"
	}
	if strings.TrimSpace(p.Lib.Call) == "" || strings.ContainsAny(p.Lib.Call, " \t\r\n|") {
		p.Lib.Call = "N0CALL"
	}
	// an auxiliary address is a non-empty token (a reduced plan may say otherwise)
	var aux []string
	for _, a := range p.Aux {
		if a != "" && !strings.ContainsAny(a, " \t\r\n|") {
			aux = append(aux, a)
		}
	}
	p.Aux = aux
	p.Passwords = map[string]string{}
	for _, a := range core.SortedKeys(p.PasswordsB) {
		p.Passwords[a] = strings.NewReplacer("\r", "", "\n", "").Replace(string(p.PasswordsB[a]))
	}
}

func execC16(t *testing.T, prop string, raw json.RawMessage, trace bool) core.Outcome {
	var p C16Plan
	var out core.Outcome
	if err := json.Unmarshal(raw, &p); err != nil {
		out.Violate(prop, "harness", "bad-plan", fmt.Sprint("unusable plan: ", err))
		return out
	}
	sessions := []*C16Plan{&p}
	for i := range p.Others {
		if i < 3 {
			p.Others[i].Others = nil
			sessions = append(sessions, &p.Others[i])
		}
	}
	for _, sp := range sessions {
		prepC16(sp)
	}
	leak, pv, stack := core.Bubble(t, trace, func(sim *core.Sim) {
		prs := make([]*peerRun, len(sessions))
		if len(sessions) == 1 && len(p.Yield) == 0 {
			prs[0] = runPeerSession(sim, p.PeerPlan)
		} else {
			sim.Probe("concurrent-logins-in-one-process")
			sim.EnableYields(p.Yield)
			gos := make([]*core.GoResult, len(sessions))
			for i, sp := range sessions {
				i, sp := i, sp
				d := time.Duration(0)
				if i > 0 {
					d = time.Duration(clampInt(core.TapeAt(p.StartUs, i-1, 0), 0, 60_000_000)) * time.Microsecond
				}
				gos[i] = core.Go(func() {
					if d > 0 {
						time.Sleep(sim.Reserve(sim.Now()+d) - sim.Now())
					} else {
						sim.Pause()
					}
					prs[i] = runPeerSession(sim, sp.PeerPlan)
				})
			}
			done := core.WaitAll(2*sessionBudget, gos...)
			if n := sim.DisableYields(); n > 0 {
				sim.ProbeN("pauses-inside-library-code", n)
			}
			for i, g := range gos {
				if g.Panic != nil {
					sim.Violate("HARNESS", "session-runner-panic", "c16", "session %d: %v\n%s", i, g.Panic, g.Stack)
				}
			}
			if !done {
				sim.Violate(prop, "handshake", "stalled", "a concurrent login did not end")
			}
		}
		for i, sp := range sessions {
			if prs[i] != nil {
				judgeC16(sim, prop, sp, prs[i], &out)
			}
		}
		out.Sample = map[string]any{"challenge": p.Peer.Challenge, "aux": p.Aux, "passwords_known_for": core.SortedKeys(p.Passwords), "err_for": p.ErrFor, "no_callback": p.NoCallback, "pr": prs[0].peer.PR, "fw": prs[0].peer.FWLine, "sessions": len(sessions)}
		sim.FillOutcome(&out)
	})
	if pv != nil {
		out.Violate(prop, "harness", "bubble-panic", fmt.Sprintf("%v\n%s", pv, stack))
	}
	if leak {
		out.Violate(prop, "harness", "goroutines-left-blocked", "goroutines were still blocked when the run ended")
	}
	return out
}

func clampInt(v, lo, hi int) int {
	if v < lo {
		return lo
	}
	if v > hi {
		return hi
	}
	return v
}

// judgeC16 applies the oracle to one finished login.
func judgeC16(sim *core.Sim, prop string, p *C16Plan, pr *peerRun, out *core.Outcome) {
	primary := strings.ToUpper(p.Lib.Call)
	errFor := map[string]bool{}
	for _, a := range p.ErrFor {
		errFor[a] = true
	}
	ch := p.Peer.Challenge
	// the password must never be on the wire, whatever else happens
	for _, a := range core.SortedKeys(p.Passwords) {
		if pw := p.Passwords[a]; len(pw) >= 4 && bytes.Contains(pr.wire, []byte(pw)) {
			sim.Violate(prop, "wire", "password-on-wire", "the password of %s appears in what the Session wrote", a)
		}
	}
	if pr.res.panicVal != nil {
		sim.Violate(prop, "panic", core.PanicClass(pr.res.panicVal)+"@"+core.RepoFrame(pr.res.stack), "Exchange panicked: %v\n%s", pr.res.panicVal, pr.res.stack)
	}
	switch {
	case p.NoCallback:
		sim.Probe("no-callback")
		if pr.res.finished && pr.res.err == nil {
			sim.Violate(prop, "handshake", "no-callback-but-success", "challenge received, no password callback registered, yet Exchange returned nil")
		}
		if pr.peer.PR != "" {
			sim.Violate(prop, "handshake", "no-callback-but-pr", "no password callback registered, yet ;PR %q was sent", pr.peer.PR)
		}
	case errFor[primary]:
		sim.Probe("callback-error-primary")
		// nothing prescribed beyond: no response derived from a password nobody supplied
		if pr.peer.PR != "" && pr.peer.PR != b2f.SecureResponse(ch, "") {
			// a response was sent although the callback failed; it can only be checked against the empty password
			sim.Violate(prop, "response", "pr-after-callback-error", "callback failed for the primary address but ;PR %q was sent", pr.peer.PR)
		}
	default:
		want := b2f.SecureResponse(ch, p.Passwords[primary])
		if !pr.finished {
			sim.Violate(prop, "handshake", "stalled", "session stalled (peer waiting for %q)", pr.peer.Waiting)
		} else if pr.peer.PR != want {
			sim.Violate(prop, "response", "wrong-pr", "challenge %q: ;PR %q, the algorithm gives %q", ch, pr.peer.PR, want)
		} else {
			out.NonTrivial = true
		}
		// ;FW entries
		var wantFW []string
		wantFW = append(wantFW, primary)
		for _, a := range p.Aux {
			addr := wireAddr(a)
			if pw := p.Passwords[a]; pw != "" && !errFor[a] {
				wantFW = append(wantFW, addr+"|"+b2f.SecureResponse(ch, pw))
				sim.Probe("aux-with-password")
			} else {
				wantFW = append(wantFW, addr)
				sim.Probe("aux-without-password")
			}
		}
		if got := strings.Fields(strings.TrimPrefix(pr.peer.FWLine, ";FW:")); pr.finished && strings.Join(got, " ") != strings.Join(wantFW, " ") {
			sim.Violate(prop, "response", "fw-entries", ";FW line %q, want entries %v", pr.peer.FWLine, wantFW)
		}
		if pr.finished && pr.res.err != nil {
			sim.Violate(prop, "handshake", "exchange-error", "Exchange returned %v after a correct login", pr.res.err)
		}
		if strings.HasPrefix(want, "0") {
			sim.Probe("response-with-leading-zero")
		}
	}
}

// wireAddr is how an auxiliary address appears in ;FW: a call sign is upper
// case; anything with a mail domain other than winlink.org goes out as given.
func wireAddr(a string) string {
	if i := strings.IndexByte(a, '@'); i >= 0 {
		if strings.EqualFold(a[i+1:], "winlink.org") {
			return strings.ToUpper(a[:i])
		}
		return a
	}
	return strings.ToUpper(a)
}
