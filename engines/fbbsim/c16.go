package fbbsim

import (
	"bytes"
	"encoding/json"
	"fmt"
	"strings"
	"testing"

	"verif/ref/b2f"
	"verif/sim/core"
)

// C16Plan: the reference peer acts as a CMS that issues a ;PQ challenge.
type C16Plan struct {
	PeerPlan
	// PasswordsB: address -> password bytes (any bytes without CR/LF).
	PasswordsB map[string][]byte `json:"passwords_b,omitempty"`
}

func genPassword(r *core.Rand) []byte {
	n := r.Range(6, 16)
	switch r.Pick(10, 3, 2, 1) {
	case 1: // pass phrases; MD5's block size is 64 bytes, the salt follows the password
		n = r.Range(17, 140)
	case 2:
		n = core.Choice(r, []int{47, 48, 55, 56, 57, 63, 64, 65, 119, 120, 121, 127, 128, 129, 191, 192, 255, 256, 257})
	case 3:
		n = r.Range(141, 1200)
	}
	b := make([]byte, n)
	for i := range b {
		switch r.Pick(8, 2, 1) {
		case 0:
			b[i] = "abcdefghijklmnopqrstuvwxyzABCDEFGHIJKLMNOPQRSTUVWXYZ0123456789"[r.Intn(62)]
		case 1:
			b[i] = "!#$%&()*+,-./:;<=>?@[]^_{}~ "[r.Intn(28)]
		default:
			b[i] = byte(r.Range(0x80, 0xff))
		}
		if b[i] == '\r' || b[i] == '\n' {
			b[i] = 'x'
		}
	}
	// a marker that cannot occur in legitimate handshake text
	copy(b, "pW")
	return b
}

func genChallenge(r *core.Rand) string {
	switch r.Pick(6, 2, 2, 1, 1) {
	case 0:
		return fmt.Sprintf("%08d", r.Intn(100000000))
	case 1:
		n := r.Range(1, 24)
		b := make([]byte, n)
		for i := range b {
			b[i] = byte('0' + r.Intn(10))
		}
		return string(b)
	case 2:
		n := r.Range(1, 12)
		b := make([]byte, n)
		for i := range b {
			b[i] = alnum[r.Intn(len(alnum))]
		}
		return string(b)
	case 3:
		n := core.Choice(r, []int{48, 56, 57, 63, 64, 65, 120, 128, 129, 200, 300})
		b := make([]byte, n)
		for i := range b {
			b[i] = byte('0' + r.Intn(10))
		}
		return string(b)
	default:
		return core.Choice(r, []string{"0", "00000000", "99999999", "12 34", "a|b", "x;y", "[1]", "2375352>", "a>b>", ">", "12345678]", ";PQ: 1", "F> 00"})
	}
}

func genC16(tier string, r *core.Rand) C16Plan {
	pp := genC05(tier, r)
	pp.LibMaster = false
	pp.Peer.Prompt = core.Choice(r, []string{"CMS>", ">", "Halifax CMS >"})
	pp.Peer.Motd = nil
	pp.Peer.EarlyFQ = false
	pp.Peer.DupFirst = false
	if len(pp.Lib.Msgs) > 3 {
		pp.Lib.Msgs = pp.Lib.Msgs[:3]
	}
	if len(pp.PeerMsgs) > 2 {
		pp.PeerMsgs = pp.PeerMsgs[:2]
	}
	for k, v := range pp.Peer.Answers {
		if strings.EqualFold(v, "H") {
			pp.Peer.Answers[k] = "+"
		}
	}
	pp.Peer.Challenge = genChallenge(r)
	pp.Aux = nil
	auxPool := []string{"LA1B", "N0AUX-3", "SK0MK", "W7AUX", "DL0XYZ-11", "shelter7@example.org", "Ops.Desk@Example.NET", "club@winlink.example"}
	core.Shuffle(r, auxPool)
	for i, n := 0, r.Pick(3, 3, 2, 1); i < n; i++ {
		pp.Aux = append(pp.Aux, auxPool[i])
	}
	p := C16Plan{PeerPlan: pp, PasswordsB: map[string][]byte{}}
	primary := strings.ToUpper(pp.Lib.Call)
	p.PasswordsB[primary] = genPassword(r)
	for _, a := range pp.Aux {
		switch r.Pick(5, 3, 2) {
		case 0:
			p.PasswordsB[a] = genPassword(r)
		case 1: // no password known
		case 2:
			p.ErrFor = append(p.ErrFor, a)
		}
	}
	switch r.Pick(12, 1, 1) {
	case 1:
		p.NoCallback = true
	case 2:
		p.ErrFor = append(p.ErrFor, primary)
	}
	return p
}

func execC16(t *testing.T, prop string, raw json.RawMessage, trace bool) core.Outcome {
	var p C16Plan
	var out core.Outcome
	if err := json.Unmarshal(raw, &p); err != nil {
		out.Violate(prop, "harness", "bad-plan", fmt.Sprint("unusable plan: ", err))
		return out
	}
	p.LibMaster = false
	p.Peer.Byzantine, p.Peer.Mut = false, nil
	if p.Peer.Challenge == "" {
		p.Peer.Challenge = "00000000"
	}
	p.Peer.Challenge = strings.TrimSpace(strings.NewReplacer("\r", "", "\n", "", "\x00", "").Replace(p.Peer.Challenge))
	if p.Peer.Challenge == "" {
		p.Peer.Challenge = "1"
	}
	p.Passwords = map[string]string{}
	for _, a := range core.SortedKeys(p.PasswordsB) {
		p.Passwords[a] = strings.NewReplacer("\r", "", "\n", "").Replace(string(p.PasswordsB[a]))
	}
	primary := strings.ToUpper(p.Lib.Call)
	errFor := map[string]bool{}
	for _, a := range p.ErrFor {
		errFor[a] = true
	}
	leak, pv, stack := core.Bubble(t, trace, func(sim *core.Sim) {
		pr := runPeerSession(sim, p.PeerPlan)
		ch := p.Peer.Challenge
		// the password must never be on the wire, whatever else happens
		for _, a := range core.SortedKeys(p.Passwords) {
			if pw := p.Passwords[a]; len(pw) >= 4 && bytes.Contains(pr.wire, []byte(pw)) {
				sim.Violate(prop, "wire", "password-on-wire", "the password of %s appears in what the Session wrote", a)
			}
		}
		if pr.res.panicVal != nil {
			sim.Violate(prop, "panic", core.PanicClass(pr.res.panicVal)+"@"+core.RepoFrame(pr.res.stack), "Exchange panicked: %v\n%s", pr.res.panicVal, pr.res.stack)
		}
		switch {
		case p.NoCallback:
			sim.Probe("no-callback")
			if pr.res.finished && pr.res.err == nil {
				sim.Violate(prop, "handshake", "no-callback-but-success", "challenge received, no password callback registered, yet Exchange returned nil")
			}
			if pr.peer.PR != "" {
				sim.Violate(prop, "handshake", "no-callback-but-pr", "no password callback registered, yet ;PR %q was sent", pr.peer.PR)
			}
		case errFor[primary]:
			sim.Probe("callback-error-primary")
			// nothing prescribed beyond: no response derived from a password nobody supplied
			if pr.peer.PR != "" && pr.peer.PR != b2f.SecureResponse(ch, "") {
				// a response was sent although the callback failed; it can only be checked against the empty password
				sim.Violate(prop, "response", "pr-after-callback-error", "callback failed for the primary address but ;PR %q was sent", pr.peer.PR)
			}
		default:
			want := b2f.SecureResponse(ch, p.Passwords[primary])
			if !pr.finished {
				sim.Violate(prop, "handshake", "stalled", "session stalled (peer waiting for %q)", pr.peer.Waiting)
			} else if pr.peer.PR != want {
				sim.Violate(prop, "response", "wrong-pr", "challenge %q: ;PR %q, the algorithm gives %q", ch, pr.peer.PR, want)
			} else {
				out.NonTrivial = true
			}
			// ;FW entries
			var wantFW []string
			wantFW = append(wantFW, primary)
			for _, a := range p.Aux {
				addr := wireAddr(a)
				if pw := p.Passwords[a]; pw != "" && !errFor[a] {
					wantFW = append(wantFW, addr+"|"+b2f.SecureResponse(ch, pw))
					sim.Probe("aux-with-password")
				} else {
					wantFW = append(wantFW, addr)
					sim.Probe("aux-without-password")
				}
			}
			if got := strings.Fields(strings.TrimPrefix(pr.peer.FWLine, ";FW:")); pr.finished && strings.Join(got, " ") != strings.Join(wantFW, " ") {
				sim.Violate(prop, "response", "fw-entries", ";FW line %q, want entries %v", pr.peer.FWLine, wantFW)
			}
			if pr.finished && pr.res.err != nil {
				sim.Violate(prop, "handshake", "exchange-error", "Exchange returned %v after a correct login", pr.res.err)
			}
			if strings.HasPrefix(want, "0") {
				sim.Probe("response-with-leading-zero")
			}
		}
		out.Sample = map[string]any{"challenge": ch, "aux": p.Aux, "passwords_known_for": core.SortedKeys(p.Passwords), "err_for": p.ErrFor, "no_callback": p.NoCallback, "pr": pr.peer.PR, "fw": pr.peer.FWLine}
		sim.FillOutcome(&out)
	})
	if pv != nil {
		out.Violate(prop, "harness", "bubble-panic", fmt.Sprintf("%v\n%s", pv, stack))
	}
	if leak {
		out.Violate(prop, "harness", "goroutines-left-blocked", "goroutines were still blocked when the run ended")
	}
	return out
}

// wireAddr is how an auxiliary address appears in ;FW: a call sign is upper
// case; anything with a mail domain other than winlink.org goes out as given.
func wireAddr(a string) string {
	if i := strings.IndexByte(a, '@'); i >= 0 {
		if strings.EqualFold(a[i+1:], "winlink.org") {
			return strings.ToUpper(a[:i])
		}
		return a
	}
	return strings.ToUpper(a)
}
