package fbbsim

import (
	"bytes"
	"errors"
	"io"

	"github.com/la5nta/wl2k-go/lzhuf"
)

// libCodec compresses with the library's own writer. It is only used for what
// the reference peer SENDS (any valid stream will do there). What the Session
// emits is judged by the independent decoder (refCodec) once available.
type libCodec struct{}

func (libCodec) Compress(raw []byte) []byte {
	var buf bytes.Buffer
	w := lzhuf.NewB2Writer(&buf)
	w.Write(raw)
	w.Close()
	return buf.Bytes()
}

func (libCodec) Decompress(stream []byte) (out []byte, err error) {
	defer func() {
		if r := recover(); r != nil {
			err = errors.New("decoder panic")
		}
	}()
	r, err := lzhuf.NewB2Reader(bytes.NewReader(stream))
	if err != nil {
		return nil, err
	}
	var buf bytes.Buffer
	// guard against the known (0,nil) spin: bounded number of reads
	p := make([]byte, 4096)
	zero := 0
	for {
		n, err := r.Read(p)
		buf.Write(p[:n])
		if err == io.EOF {
			break
		}
		if err != nil {
			return nil, err
		}
		if n == 0 {
			zero++
			if zero > 8 {
				return nil, errors.New("decoder makes no progress")
			}
		} else {
			zero = 0
		}
	}
	if err := r.Close(); err != nil {
		return nil, err
	}
	return buf.Bytes(), nil
}
