// Package fbbsim is the engine behind the B2F session properties
// (C01-C05, C12 end-to-end, C16, C17): real fbb.Sessions on simulated links.
package fbbsim

import (
	"encoding/json"
	"testing"

	"verif/sim/core"
)

type Engine struct{}

func (Engine) Name() string { return "fbbsim" }

var realCode = []string{"fbb (Session, handshake, proposals, framing, message)", "lzhuf", "transport (interfaces)"}

func (Engine) Info(prop string) core.Info {
	switch prop {
	case "C01":
		return core.Info{
			Level:        "exploration",
			Rule:         "one plan = two real fbb.Sessions with seeded message sets (0-14 each way), per-MID accept/reject/defer policies, master/slave, MOTD, batched/unbatched handlers, GZIP_EXPERIMENT per station, optional conn capabilities, and per-direction segmentation and latency tapes on the simulated link; no faults. Non-trivial: at least one message body crossed the link. Distinct: distinct event-log hash (deliveries, handler callbacks and exchange results with simulated timestamps).",
			Real:         realCode,
			Stub:         []string{"clock (testing/synctest)", "link (sim/pipe)", "mailbox handler (ref/mbox)", "GZIP_EXPERIMENT lookup (os import swapped for sim/shim/envos)"},
			Assumptions:  []string{"library runs on the Go 1.26.8 standard library, not 1.24.0", "goroutine choice between two environment events is the Go runtime's at GOMAXPROCS=1"},
			QuickRuns:    6000,
			ThoroughRuns: 60000,
			WatchdogSec:  120,
		}
	}
	return core.Info{}
}

func (Engine) Generate(prop, tier string, r *core.Rand, run int) any {
	switch prop {
	case "C01":
		return genC01(tier, r)
	}
	return nil
}

func (Engine) Execute(t *testing.T, prop string, plan json.RawMessage, trace bool) core.Outcome {
	switch prop {
	case "C01":
		return execC01(t, prop, plan, trace)
	}
	var o core.Outcome
	o.Violate(prop, "harness", "unknown-property", "engine fbbsim does not serve "+prop)
	return o
}
