// Package fbbsim is the engine behind the B2F session properties
// (C01-C05, C12 end-to-end, C16, C17): real fbb.Sessions on simulated links.
package fbbsim

import (
	"encoding/json"
	"testing"

	"verif/sim/core"
)

type Engine struct{}

func (Engine) Name() string { return "fbbsim" }

var realCode = []string{"fbb (Session, handshake, proposals, framing, message)", "lzhuf", "transport (interfaces)"}

func (Engine) Info(prop string) core.Info {
	switch prop {
	case "C01":
		return core.Info{
			Level:        "exploration",
			Rule:         "one plan = two real fbb.Sessions with seeded message sets (0-22 each way), per-MID accept/reject/defer policies, master/slave, MOTD, batched/unbatched handlers, GZIP_EXPERIMENT per station, optional conn capabilities, and per-direction segmentation and latency tapes on the simulated link; no faults. Non-trivial: at least one message body crossed the link. Distinct: distinct event-log hash (deliveries, handler callbacks and exchange results with simulated timestamps). Delivered content is compared byte for byte with the queued form AND, through an independent header/body/attachment splitter, with the message as it was composed before the library parsed anything (a parser that damages messages consistently would otherwise pass).",
			Real:         realCode,
			Stub:         []string{"clock (testing/synctest)", "link (sim/pipe)", "mailbox handler (ref/mbox)", "GZIP_EXPERIMENT lookup (os import swapped for sim/shim/envos)"},
			Assumptions:  []string{"library runs on the Go 1.26.8 standard library, not 1.24.0", "goroutine choice between two environment events is the Go runtime's at GOMAXPROCS=1"},
			QuickRuns:    6000,
			ThoroughRuns: 60000,
			WatchdogSec:  120,
		}
	case "C05":
		return core.Info{
			Level:        "exploration",
			Rule:         "one plan = a real fbb.Session against the independently written reference B2F peer (ref/b2f) in strict validator mode, either role; library side: seeded message sets, answer policies, MOTD, user agent, auxiliary addresses; peer side: seeded SID, prompt, MOTD text, ;FW lists with |hash, comment and ;PM placement, duplicate MID in a block, proposals per block 1-5, STX block sizes 1..256, every answer form (+ - = Y N L H R !0 A0, either case), CMS-style early FQ; per-direction segmentation/latency tapes. Non-trivial: at least one message crossed in either direction. Distinct: distinct event-log hash. The peer also asks for transfers from a non-zero offset (resume: offset field, length and the bytes from that offset on are checked) and, CMS style, may send FQ out of turn right behind its last block and hang up.",
			Real:         realCode,
			Stub:         []string{"clock (testing/synctest)", "link (sim/pipe)", "remote station (ref/b2f reference peer + independent LZHUF decoder)", "mailbox handler (ref/mbox)"},
			Assumptions:  []string{"the reference peer encodes B2F as described in docs/F6FBB-B2F and the public Winlink B2F description; behaviour of real RMS software beyond those documents is not simulated", "library runs on the Go 1.26.8 standard library"},
			QuickRuns:    8000,
			ThoroughRuns: 300000,
			WatchdogSec:  120,
		}
	case "C02":
		return core.Info{
			Level:           "fault_enumeration",
			Rule:            "one plan = two mailboxes (1-4 messages each way, thorough up to 7; some already present at the peer), 0-2 seeded faulty sessions, then the target session, then fault-free sessions until one completes. A pilot records the target session's transcript length per direction and its ProcessInbound calls; then every fault is executed as its own chain in its own simulated run: the link cut after every delivered byte offset k in [0,N] of either direction (both ends see EOF; later writes fail or, for a third of the offsets, succeed silently), and a storage error on the i-th inbound message for every i at either station (quick tier: at most 2500 offsets per direction - both ends of the transcript plus a seeded sample). Oracle: both Exchange calls return within 5 simulated minutes of each other once one has ended; SetSent only for messages the peer's handler completely received (or already had); everything handed to a handler is byte-identical to the queued message; never stored twice, never reported sent twice; after the first completed fault-free session everything is delivered, reported sent and nothing is pending. evaluations = executed chains; distinct = distinct event-log hashes (first 4096 per plan). Content handed to a handler is also compared with the composed message (see C01).",
			Real:            realCode,
			Stub:            []string{"clock (testing/synctest)", "link with cut faults (sim/pipe)", "mailbox handlers (ref/mbox with storage-error knob)"},
			Assumptions:     []string{"answer policies other than 'accept' and 'already received' are left to C01", "library runs on the Go 1.26.8 standard library"},
			QuickRuns:       40,
			ThoroughRuns:    160,
			WatchdogSec:     900,
			HangIsViolation: true,
		}
	case "C03":
		return core.Info{
			Level:           "exploration",
			Rule:            "one plan = a real fbb.Session (either role, with or without outbound messages) against the reference peer in Byzantine mode: it speaks the real protocol so that deep states are reached, and damages its own output at one seeded layer: raw in-flight byte edits, handshake lines, proposal lines and fields (negative/huge/non-numeric sizes, hostile MIDs, F> without checksum), FS answers (offsets beyond the data, too many/few), frame header/block/EOT bytes, the LZHUF payload inside a valid frame (negative/zero/short/long declared size, final match overrunning the size, truncation, bit flips, sum-preserving pairs; CRC fixed or not), the message inside a valid LZHUF stream (negative/huge Body and File sizes, missing Mid, bad date, thousands of File headers), or pure garbage transcripts; then the remote stops talking and closes. Oracle: no panic, no process death, Exchange returns within 5 simulated minutes after the remote closed, the connection is closed, allocation <= 32 MiB + 512 x bytes received; CPU spins are caught by the wall-clock watchdog and confirmed in a fresh process. Non-trivial: at least one damaged emission/edit/hostile message in the plan. Distinct: distinct event-log hash. A further layer lets the remote go away (EOF) after a chosen number of bytes of a chosen unit (transfer header, block, EOT, proposal, FS, SID ...), counted from its start, its end or right behind a delimiter byte.",
			Real:            realCode,
			Stub:            []string{"clock (testing/synctest)", "link (sim/pipe)", "remote station (ref/b2f in Byzantine mode / garbage source)", "mailbox handler (ref/mbox)"},
			Assumptions:     []string{"a CPU spin is decided by a wall-clock watchdog (30 s for runs that take milliseconds) because a spinning goroutine never lets the fake clock advance", "allocation is measured with runtime.MemStats.TotalAlloc around the whole run, harness included; the bound is deliberately loose", "library runs on the Go 1.26.8 standard library"},
			QuickRuns:       30000,
			ThoroughRuns:    600000,
			WatchdogSec:     30,
			HangIsViolation: true,
		}
	case "C04":
		return core.Info{
			Level:        "fault_enumeration",
			Rule:         "one plan = one scenario (arm peer: reference peer sends 1-2 messages to a real Session; arm two: two real Sessions, A sends 1-2 messages to B). A fault-free pilot records the sender's byte stream; an independent scanner locates each SOH..EOT range; then every damage pattern is executed as its own simulated run: at every offset of the range a +1 substitution, a ^0x80 substitution, a seeded substitution, a '*' substitution, a deletion and an insertion; every framing byte (SOH, each STX, EOT) replaced by each of NUL SOH STX EOT 'F' ';' CR; 150 seeded sum-preserving pairs (+d at i, -d at j over the data bytes, every fifth inside the 6-byte CRC/size header) and up to 400 adjacent swaps (quick tier: thinned to 3000 per transfer). The altered stream is judged by the reference receiver (independent frame parser, announced compressed length, offset, independent LZHUF decoder with CRC-16 and size check); the Session must deliver iff allowed and then exactly the reference decoding. evaluations = executions; distinct = distinct event-log hashes of the faulty executions. Further damage kinds: an empty block (STX 0) and a whole zero-sum block inserted at every block boundary.",
			Real:         realCode,
			Stub:         []string{"clock (testing/synctest)", "link with in-flight edits (sim/pipe)", "sender in arm peer (ref/b2f)", "reference receiver (ref/b2f frame parser + independent LZHUF decoder)", "mailbox handlers (ref/mbox)"},
			Assumptions:  []string{"alterations are enumerated for the first two transfers of a scenario", "library runs on the Go 1.26.8 standard library"},
			QuickRuns:    128,
			ThoroughRuns: 320,
			WatchdogSec:  600,
		}
	case "C17":
		return core.Info{
			Level:        "exploration",
			Rule:         "one plan = a C01 scenario (messages 1 B - 40 KB, thorough up to 300 KB) with a recording StatusUpdater on both stations, in a -race build; every conn.Write blocks for a seeded simulated time (none, < 100 ms, 100-400 ms, 250-2100 ms) so the 250 ms send-side ticker and the receive-side notifier run at seed-chosen points of the transfer; conns with and without TxBufferLen/Flush. Schedules are timer-assigned, so the race detector's happens-before analysis is not polluted by simulator synchronisation; the recorder shares no lock with the session goroutine. Oracle: zero race reports (a report kills the worker and becomes C17/data-race/<functions>) and, after quiescence, per transferred message and direction: 0 <= BytesTransferred <= BytesTotal = compressed size, exactly one report with Done, none after it. Non-trivial: at least one message transferred and one report delivered. Distinct: distinct event-log hash. A fifth of the plans run the library station against the reference peer instead, which takes about half of what it accepts from a non-zero offset.",
			Real:         realCode,
			Stub:         []string{"clock (testing/synctest)", "link with write pacing (sim/pipe)", "mailbox handler (ref/mbox)", "StatusUpdater (recorder)"},
			Assumptions:  []string{"data-race freedom is judged by the Go race detector on the executions sampled", "library runs on the Go 1.26.8 standard library"},
			QuickRuns:    2500,
			ThoroughRuns: 40000,
			WatchdogSec:  300,
			Race:         true,
		}
	case "C16":
		return core.Info{
			Level:        "exploration",
			Rule:         "one plan = a real fbb.Session (slave) against the reference peer acting as CMS that issues ;PQ <challenge>; seeded challenges (8 digits, 1-24 digits, alphanumerics, odd strings), passwords of 6-16 arbitrary bytes without CR/LF, 0-3 auxiliary addresses each with password / without / with failing callback, runs without a callback and with a failing callback for the primary address; seeded segmentation/latency. The expected ;PR and ;FW entries come from an independent implementation of the algorithm (ref/b2f/secure.go, pinned by the published vectors); a wire tap searches everything the Session wrote for the passwords. Non-trivial: a ;PR line was received and matched. Distinct: distinct event-log hash. (Differential check hosted in the simulator: no schedule or fault changes the answer.) Passwords up to 1200 bytes and challenges up to 300 digits (MD5 block boundaries); a quarter of the plans run 2-3 stations of one process that log in to their own remotes at the same time, with plan-driven pauses at the statement boundaries of the instrumented fbb/lzhuf code (yield injection, DESIGN 8.9).",
			Real:         realCode,
			Stub:         []string{"clock (testing/synctest)", "link (sim/pipe)", "CMS (ref/b2f reference peer)", "mailbox handler (ref/mbox)"},
			Assumptions:  []string{"the 64-byte salt copy in ref/b2f is correct (pinned by the two published test vectors)", "library runs on the Go 1.26.8 standard library"},
			QuickRuns:    8000,
			ThoroughRuns: 600000,
			WatchdogSec:  120,
		}
	}
	return core.Info{}
}

func (Engine) Generate(prop, tier string, r *core.Rand, run int) any {
	switch prop {
	case "C01":
		return genC01(tier, r)
	case "C05":
		return genC05(tier, r)
	case "C16":
		return genC16(tier, r)
	case "C02":
		return genC02(tier, r)
	case "C03":
		return genC03(tier, r)
	case "C04":
		return genC04(tier, r)
	case "C17":
		return genC17(tier, r)
	}
	return nil
}

func (Engine) Execute(t *testing.T, prop string, plan json.RawMessage, trace bool) core.Outcome {
	switch prop {
	case "C01":
		return execC01(t, prop, plan, trace)
	case "C05":
		return execC05(t, prop, plan, trace)
	case "C16":
		return execC16(t, prop, plan, trace)
	case "C02":
		return execC02(t, prop, plan, trace)
	case "C03":
		return execC03(t, prop, plan, trace)
	case "C04":
		return execC04(t, prop, plan, trace)
	case "C17":
		return execC17(t, prop, plan, trace)
	}
	var o core.Outcome
	o.Violate(prop, "harness", "unknown-property", "engine fbbsim does not serve "+prop)
	return o
}
