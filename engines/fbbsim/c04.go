package fbbsim

import (
	"bytes"
	"compress/gzip"
	"encoding/json"
	"fmt"
	"io"
	"strconv"
	"testing"
	"time"

	"github.com/la5nta/wl2k-go/fbb"
	"verif/ref/b2f"
	"verif/ref/mbox"
	"verif/sim/core"
	"verif/sim/pipe"
)

// C04Plan: one scenario whose transfers are damaged in flight.
//
// Arm "peer": the sender is the reference peer, the receiver a real Session.
// Arm "two":  two real Sessions; the A->B direction is damaged.
// Without Fault the executor enumerates the damage patterns itself; with Fault
// it executes only that one (replay).
type C04Plan struct {
	Arm   string    `json:"arm"`
	Peer  PeerPlan  `json:"peer,omitempty"`
	Two   Scenario  `json:"two,omitempty"`
	Fault *C04Fault `json:"fault,omitempty"`
	Pairs []C04Pair `json:"pairs,omitempty"` // seeded sum-preserving pairs (relative positions in [0,1))
	Subs  []int     `json:"subs,omitempty"`  // seeded substitution values
	Max   int       `json:"max,omitempty"`   // cap on enumerated faults per transfer (0: no cap)
}

type C04Pair struct {
	I, J float64
	D    int
}

// C04Fault is one in-flight alteration: edits at absolute offsets of the
// damaged direction's byte stream, aimed at the transfer of MID.
type C04Fault struct {
	Edits []pipe.Edit `json:"edits"`
	MID   string      `json:"mid"`
	Start int         `json:"start"` // offset of SOH in the unaltered stream
	CSize int         `json:"csize"` // compressed size announced in the proposal
	Gzip  bool        `json:"gzip,omitempty"`
	Kind  string      `json:"kind"`
}

func applyEditsTo(stream []byte, edits []pipe.Edit) []byte {
	out := make([]byte, 0, len(stream)+len(edits))
	for off, b := range stream {
		keep := true
		for _, e := range edits {
			if e.Off != off {
				continue
			}
			switch e.Kind {
			case "sub":
				b = byte(e.Val)
			case "xor":
				b ^= byte(e.Val)
			case "add":
				b += byte(e.Val)
			case "del":
				keep = false
			case "ins":
				out = append(out, byte(e.Val))
			}
		}
		if keep {
			out = append(out, b)
		}
	}
	return out
}

// locateTransfers scans a station's output stream: CR-terminated lines, and
// SOH..EOT transfers that always begin at a line boundary. It returns the
// ranges and, from the proposal lines, the announced sizes per MID in order.
type xfer struct {
	Start, End int
	MID        string
	CSize      int
	Gzip       bool // announced with FD: a gzip member instead of an LZHUF image
}

func locateTransfers(stream []byte, answers func(block int) []byte) []xfer {
	var out []xfer
	type prop struct {
		mid   string
		csize int
		gzip  bool
	}
	var block []prop
	var queue []prop // accepted proposals whose transfer is still to come
	blockNo := 0
	for p := 0; p < len(stream); {
		if stream[p] == b2f.SOH {
			t, err := b2f.ParseTransfer(stream[p:])
			if err != nil || t == nil {
				return out
			}
			x := xfer{Start: p, End: p + t.Len}
			if len(queue) > 0 {
				x.MID, x.CSize, x.Gzip = queue[0].mid, queue[0].csize, queue[0].gzip
				queue = queue[1:]
			}
			out = append(out, x)
			p += t.Len
			continue
		}
		e := bytes.IndexByte(stream[p:], '\r')
		if e < 0 {
			break
		}
		line := string(stream[p : p+e])
		p += e + 1
		f := bytes.Fields([]byte(line))
		switch {
		case len(f) == 6 && (string(f[0]) == "FC" || string(f[0]) == "FD"):
			cs, _ := strconv.Atoi(string(f[4]))
			block = append(block, prop{string(f[2]), cs, string(f[0]) == "FD"})
		case len(line) >= 2 && line[:2] == "F>":
			ans := answers(blockNo)
			blockNo++
			for i, pr := range block {
				if i < len(ans) && ans[i] == '+' {
					queue = append(queue, pr)
				}
			}
			block = nil
		}
	}
	return out
}

// refVerdict is the independent judgement of an altered stream: does a
// reference receiver accept the transfer that starts at start as fully valid,
// and what does it decode to?
func refVerdict(altered []byte, start, csize int, gz bool) (data []byte, ok bool, why string) {
	if start >= len(altered) {
		return nil, false, "stream ends before the transfer"
	}
	t, err := b2f.ParseTransfer(altered[start:])
	if err != nil {
		return nil, false, "frame: " + err.Error()
	}
	if off, err := strconv.Atoi(t.Offset); err != nil || off != 0 {
		return nil, false, "offset field " + strconv.Quote(t.Offset)
	}
	if len(t.Data) != csize {
		return nil, false, fmt.Sprintf("%d data bytes, %d announced", len(t.Data), csize)
	}
	if gz {
		// the standard library's gzip reader is the reference here: header,
		// deflate stream, CRC-32 and length, one member, nothing behind it
		zr, err := gzip.NewReader(bytes.NewReader(t.Data))
		if err != nil {
			return nil, false, "payload: " + err.Error()
		}
		zr.Multistream(false)
		d, err := io.ReadAll(zr)
		if err != nil {
			return nil, false, "payload: " + err.Error()
		}
		return d, true, ""
	}
	d, err := decodeCodec.Decompress(t.Data)
	if err != nil {
		return nil, false, "payload: " + err.Error()
	}
	return d, true, ""
}

// canonical re-serialises a decompressed message the way a handler sees it.
func canonical(raw []byte) ([]byte, bool) {
	m := new(fbb.Message)
	if err := m.ReadFrom(bytes.NewReader(raw)); err != nil {
		return nil, false
	}
	b, err := m.Bytes()
	return b, err == nil
}

type c04Obs struct {
	delivered   [][]byte // what the receiver's handler got for the MID
	recvErr     error
	recvDone    bool
	senderSent  int      // SetSent(mid,false) at the sending Session (arm two)
	stream      []byte   // the damaged direction as sent
	seen        []byte   // the damaged direction as delivered to the receiver
	answers     [][]byte // receiver's answers per block, normalised to + - =
	panicMsg    string
	panicFrame  string
	clean       bool
	transferred int
}

// runC04 executes the scenario once with the given edits on the damaged direction.
func runC04(sim *core.Sim, p C04Plan, edits []pipe.Edit, mid string) *c04Obs {
	o := &c04Obs{}
	tap := func(b []byte) { o.stream = append(o.stream, b...) }
	seen := func(b []byte) { o.seen = append(o.seen, b...) }
	if p.Arm == "two" {
		sc := p.Two
		if len(sc.Sessions) == 0 {
			sc.Sessions = []SessionPlan{{}}
		}
		sp := sc.Sessions[0]
		sp.Link.Cut = nil
		sp.Link.AB.Edits = edits
		hist := mbox.NewHistory(sim)
		a, b := newStation("A", sc.A, hist), newStation("B", sc.B, hist)
		// the tap must see the stream as SENT (before edits): record at the sender side
		ra, rb, _, ok := runSessionTapSent(sim, a, b, sp, tap, seen, 10*time.Minute)
		_ = ok
		o.recvErr, o.recvDone = rb.err, rb.finished
		if rb.panicVal != nil {
			o.panicMsg, o.panicFrame = fmt.Sprint(rb.panicVal), core.PanicClass(rb.panicVal)+"@"+core.RepoFrame(rb.stack)
		} else if ra.panicVal != nil {
			o.panicMsg, o.panicFrame = fmt.Sprint(ra.panicVal), core.PanicClass(ra.panicVal)+"@"+core.RepoFrame(ra.stack)
		}
		var blk []byte
		for _, e := range hist.Snapshot() {
			switch {
			case e.Station == "B" && e.Kind == "inbound-ok" && (mid == "" || e.MID == mid):
				o.delivered = append(o.delivered, e.Data)
				o.transferred++
			case e.Station == "A" && e.Kind == "setsent" && !e.Rejected && e.MID == mid:
				o.senderSent++
			case e.Station == "B" && e.Kind == "answer":
				blk = append(blk, e.Answer)
			case e.Station == "B" && e.Kind == "inbound-begin", e.Station == "B" && e.Kind == "getoutbound":
				if len(blk) > 0 {
					o.answers = append(o.answers, blk)
					blk = nil
				}
			}
		}
		if len(blk) > 0 {
			o.answers = append(o.answers, blk)
		}
		o.clean = ok && ra.err == nil && rb.err == nil && ra.panicVal == nil && rb.panicVal == nil
		return o
	}
	pp := p.Peer
	pp.Link.Cut = nil
	pp.Link.BA.Edits = edits
	pp.Peer.Byzantine = true // no validation of the Session here; never wait for ever
	pp.Peer.Mut = nil
	pp.Peer.ReadTimeout = 2 * time.Minute
	pr := runPeerSessionWith(sim, pp, peerOpts{afterRemote: 5 * time.Minute, tapSent: tap, tapSeen: seen})
	o.recvErr, o.recvDone = pr.res.err, pr.res.finished
	if pr.res.panicVal != nil {
		o.panicMsg, o.panicFrame = fmt.Sprint(pr.res.panicVal), core.PanicClass(pr.res.panicVal)+"@"+core.RepoFrame(pr.res.stack)
	}
	var blk []byte
	for _, e := range pr.hist {
		switch {
		case e.Kind == "inbound-ok" && (mid == "" || e.MID == mid):
			o.delivered = append(o.delivered, e.Data)
			o.transferred++
		case e.Kind == "answer":
			blk = append(blk, e.Answer)
		case e.Kind == "inbound-begin" || e.Kind == "getoutbound":
			if len(blk) > 0 {
				o.answers = append(o.answers, blk)
				blk = nil
			}
		}
	}
	if len(blk) > 0 {
		o.answers = append(o.answers, blk)
	}
	o.clean = pr.finished && pr.res.err == nil && pr.res.panicVal == nil && pr.peer.Completed
	return o
}

func genC04(tier string, r *core.Rand) C04Plan {
	p := C04Plan{}
	size := r.Range(20, 700)
	if tier == "thorough" {
		size = r.Range(20, 6000)
	}
	if r.Bool() {
		p.Arm = "peer"
		pp := genC05(tier, r)
		pp.Peer.Late = 0 // held mail is C05's arm
		pp.Lib.Msgs = nil
		if r.Chance(0.3) {
			used := map[string]bool{}
			pp.Lib.Msgs = []Msg{GenMsg(r, used, pp.Lib.Call, "", 100)}
			pp.Peer.Answers = nil
		}
		used := map[string]bool{}
		pp.PeerMsgs = nil
		for i, n := 0, r.Pick(0, 4, 1); i < n; i++ {
			pp.PeerMsgs = append(pp.PeerMsgs, GenMsg(r, used, "P4EER", "", size))
		}
		pp.Lib.Policy = nil
		pp.Peer.DupFirst, pp.Peer.EarlyFQ = false, false
		pp.Link.BA.Seg, pp.Link.AB.Seg = nil, nil // segmentation is irrelevant here; keep runs cheap
		p.Peer = pp
	} else {
		p.Arm = "two"
		a, b := GenStations(r, 2, size)
		if len(a.Msgs) == 0 {
			used := map[string]bool{}
			a.Msgs = []Msg{GenMsg(r, used, a.Call, "", size)}
		}
		if len(a.Msgs) > 2 {
			a.Msgs = a.Msgs[:2]
		}
		a.Gzip, b.Gzip = false, false
		if r.Chance(0.3) {
			// the gzip experiment on both sides (FD proposals); an attachment of
			// random bytes ends up in stored deflate blocks, where a changed byte
			// changes the content and nothing else
			a.Gzip, b.Gzip = true, true
			if len(a.Msgs) > 0 {
				a.Msgs[0].Files = append(a.Msgs[0].Files, FileD{Name: "noise.bin", Data: r.Bytes(r.Range(200, 3000))})
			}
		}
		b.Policy = nil
		b.Msgs = nil
		l := GenLink(r)
		l.AB.Seg, l.BA.Seg = nil, nil
		p.Two = Scenario{A: a, B: b, Sessions: []SessionPlan{{AMaster: r.Bool(), Link: l}}}
	}
	for i := 0; i < 150; i++ {
		p.Pairs = append(p.Pairs, C04Pair{I: r.Float(), J: r.Float(), D: r.Range(1, 255)})
	}
	p.Subs = core.Tape(r, 16, func() int { return r.Intn(256) })
	if tier != "thorough" {
		p.Max = 3000
	}
	return p
}

// enumerateFaults lists the damage patterns for one transfer.
func enumerateFaults(p C04Plan, x xfer, stream []byte) []C04Fault {
	var fs []C04Fault
	add := func(kind string, edits ...pipe.Edit) {
		fs = append(fs, C04Fault{Edits: edits, MID: x.MID, Start: x.Start, CSize: x.CSize, Gzip: x.Gzip, Kind: kind})
	}
	n := x.End - x.Start
	for i := 0; i < n; i++ {
		off := x.Start + i
		add("sub+1", pipe.Edit{Off: off, Kind: "add", Val: 1})
		add("sub^80", pipe.Edit{Off: off, Kind: "xor", Val: 0x80})
		v := core.TapeAt(p.Subs, i, 0x55)
		if byte(v) == stream[off] {
			v ^= 0x21
		}
		add("sub-rand", pipe.Edit{Off: off, Kind: "sub", Val: v})
		if stream[off] != '*' {
			// '*' is special on this protocol: a line starting with it is an error report
			add("sub-star", pipe.Edit{Off: off, Kind: "sub", Val: '*'})
		}
		add("del", pipe.Edit{Off: off, Kind: "del"})
		add("ins", pipe.Edit{Off: off, Kind: "ins", Val: core.TapeAt(p.Subs, i+7, 0)})
	}
	// sum-preserving pairs inside the data bytes (block checksum unchanged)
	t, _ := b2f.ParseTransfer(stream[x.Start:x.End])
	if t != nil {
		// absolute offsets of the data bytes
		var dataOffs []int
		pos := x.Start + 2 + int(stream[x.Start+1])
		for _, bl := range t.Blocks {
			pos += 2
			for k := 0; k < bl; k++ {
				dataOffs = append(dataOffs, pos+k)
			}
			pos += bl
		}
		// the framing bytes themselves (SOH, each STX, EOT) replaced by other protocol bytes
		markers := []int{x.Start}
		mp := x.Start + 2 + int(stream[x.Start+1])
		for _, bl := range t.Blocks {
			markers = append(markers, mp)
			mp += 2 + bl
		}
		markers = append(markers, mp) // EOT
		for _, off := range markers {
			for _, v := range []int{0x00, 0x01, 0x02, 0x04, 'F', ';', '\r'} {
				if off < x.End && int(stream[off]) != v {
					add("sub-marker", pipe.Edit{Off: off, Kind: "sub", Val: v})
				}
			}
		}
		// an empty block (STX, length byte 0) slipped in at a block boundary:
		// byte sum and byte count of the data are unchanged, but a length byte
		// of 0 announces 256 bytes
		for _, off := range markers[1:] {
			if off < x.End {
				add("ins-empty-block", pipe.Edit{Off: off, Kind: "ins", Val: 0x02}, pipe.Edit{Off: off, Kind: "ins", Val: 0x00})
			}
		}
		// exactly 256 (512) bytes more in the header, in the title or as zeros in
		// front of the offset: a length byte compared modulo 256 would not notice
		hdrLen := int(stream[x.Start+1])
		if tEnd := bytes.IndexByte(stream[x.Start+2:x.Start+2+hdrLen], 0); tEnd >= 0 {
			for _, c := range []struct {
				off, n, val int
			}{{x.Start + 2, 256, 'A'}, {x.Start + 2 + tEnd, 512, 'z'}, {x.Start + 2 + tEnd + 1, 256, '0'}} {
				es := make([]pipe.Edit, c.n)
				for k := range es {
					es[k] = pipe.Edit{Off: c.off, Kind: "ins", Val: c.val}
				}
				add("ins-256-in-header", es...)
			}
		}
		// a whole extra block whose data sums to zero, slipped in at a block
		// boundary: every block checksum still holds, the transfer is longer
		// than announced
		for bi, off := range markers[1:] {
			if off >= x.End {
				continue
			}
			extra := [][]int{{0x02, 0x01, 0x00}, {0x02, 0x02, 0x55, 0xab}, {0x02, 0x04, 0x10, 0x20, 0x30, 0xa0}, {0x02, 0x03, 0xff, 0xff, 0x02}}[bi%4]
			if off == markers[len(markers)-1] {
				extra = [][]int{{0x02, 0x01, 0x00}, {0x02, 0x02, 0x55, 0xab}, {0x02, 0x04, 0x10, 0x20, 0x30, 0xa0}}[int(core.TapeAt(p.Subs, bi, 0))%3]
			}
			var es []pipe.Edit
			for _, v := range extra {
				es = append(es, pipe.Edit{Off: off, Kind: "ins", Val: v})
			}
			add("ins-zero-sum-block", es...)
		}
		if len(dataOffs) >= 2 {
			for k, pr := range p.Pairs {
				i := dataOffs[int(pr.I*float64(len(dataOffs)))%len(dataOffs)]
				j := dataOffs[int(pr.J*float64(len(dataOffs)))%len(dataOffs)]
				if k%5 == 0 { // some pairs inside the 6-byte payload header
					i = dataOffs[k/5%min(6, len(dataOffs))]
				}
				if i == j {
					continue
				}
				add("pair", pipe.Edit{Off: i, Kind: "add", Val: pr.D}, pipe.Edit{Off: j, Kind: "add", Val: 256 - pr.D})
			}
			// adjacent swaps (sum preserving)
			for k := 0; k+1 < len(dataOffs) && k < 400; k++ {
				a, b := stream[dataOffs[k]], stream[dataOffs[k+1]]
				if a != b {
					add("swap", pipe.Edit{Off: dataOffs[k], Kind: "sub", Val: int(b)}, pipe.Edit{Off: dataOffs[k+1], Kind: "sub", Val: int(a)})
				}
			}
		}
	}
	if p.Max > 0 && len(fs) > p.Max {
		// deterministic thinning
		step := float64(len(fs)) / float64(p.Max)
		var out []C04Fault
		for i := 0; i < p.Max; i++ {
			out = append(out, fs[int(float64(i)*step)])
		}
		fs = out
	}
	return fs
}

func execC04(t *testing.T, prop string, raw json.RawMessage, trace bool) core.Outcome {
	var p C04Plan
	var out core.Outcome
	if err := json.Unmarshal(raw, &p); err != nil {
		out.Violate(prop, "harness", "bad-plan", fmt.Sprint("unusable plan: ", err))
		return out
	}
	if p.Arm != "two" {
		p.Arm = "peer"
	}
	// pilot
	var pilot *c04Obs
	core.Bubble(t, false, func(sim *core.Sim) {
		pilot = runC04(sim, p, nil, "")
		sim.FillOutcome(&out)
	})
	out.Evals = 1
	if pilot == nil || !pilot.clean {
		out.AddCounters(nil, map[string]int{"pilot-not-clean": 1})
		if p.Fault == nil {
			return out
		}
	}
	xs := locateTransfers(pilot.stream, func(block int) []byte {
		if block < len(pilot.answers) {
			return pilot.answers[block]
		}
		return nil
	})
	var faults []C04Fault
	if p.Fault != nil {
		// a replayed fault is only meaningful if the scenario still has that
		// transfer at that place and the fault really edits inside it
		for _, x := range xs {
			if x.Start == p.Fault.Start && x.MID == p.Fault.MID && x.CSize == p.Fault.CSize && len(p.Fault.Edits) > 0 {
				inside := true
				for _, e := range p.Fault.Edits {
					if e.Off < x.Start || e.Off >= x.End {
						inside = false
					}
				}
				if inside && !bytes.Equal(applyEditsTo(pilot.stream, p.Fault.Edits), pilot.stream) {
					faults = []C04Fault{*p.Fault}
				}
			}
		}
	} else {
		for i, x := range xs {
			if i >= 2 || x.MID == "" {
				break
			}
			faults = append(faults, enumerateFaults(p, x, pilot.stream)...)
		}
	}
	out.Sample = map[string]any{"arm": p.Arm, "transfers": xs, "faults_enumerated": len(faults), "stream_bytes": len(pilot.stream)}
	probes := map[string]int{}
	fired := map[string]int{}
	for _, f := range faults {
		f := f
		var obs *c04Obs
		var hash string
		leak, pv, stack := core.Bubble(t, trace && p.Fault != nil, func(sim *core.Sim) {
			obs = runC04(sim, p, f.Edits, f.MID)
			hash = sim.LogHash()
			out.SimNanos += int64(sim.Now())
			if trace && p.Fault != nil {
				sim.FillOutcome(&out)
			}
		})
		out.Evals++
		fired[f.Kind]++
		if pv != nil {
			out.Violate(prop, "harness", "bubble-panic", fmt.Sprintf("%v\n%s", pv, stack))
			continue
		}
		_ = leak
		out.Hashes = append(out.Hashes, hash)
		narrowed := func() json.RawMessage {
			q := p
			q.Fault = &f
			q.Pairs, q.Subs = nil, nil
			b, _ := json.Marshal(q)
			return b
		}
		viol := func(oracle, detail, msg string) {
			out.Violations = append(out.Violations, core.Violation{Property: prop, Signature: prop + "/" + oracle + "/" + detail, Message: msg, Replay: narrowed()})
		}
		// The reference receiver judges the bytes the Session really received:
		// the altered stream as far as the sender got before the session ended.
		want, accept, why := refVerdict(obs.seen, f.Start, f.CSize, f.Gzip)
		if obs.panicFrame != "" {
			viol("panic", obs.panicFrame, fmt.Sprintf("damage %s at %v: Exchange panicked: %s", f.Kind, f.Edits, obs.panicMsg))
			continue
		}
		if !accept {
			probes["reference-rejects"]++
			if len(obs.delivered) > 0 {
				viol("delivered", "reference-rejects-"+kindClass(f.Kind), fmt.Sprintf("damage %s at %v (transfer of %s starts at %d): the reference receiver rejects it (%s) but the Session handed the message to the inbound handler", f.Kind, f.Edits, f.MID, f.Start, why))
			}
			if obs.recvDone && obs.recvErr == nil {
				viol("exchange", "returned-nil-after-damage", fmt.Sprintf("damage %s at %v: the reference receiver rejects it (%s) but the receiving Exchange returned nil", f.Kind, f.Edits, why))
			}
			if obs.senderSent > 0 {
				viol("sender", "recorded-sent-for-undelivered", fmt.Sprintf("damage %s at %v: the reference receiver rejects it (%s) but the sending Session recorded %s as sent", f.Kind, f.Edits, why, f.MID))
			}
		} else {
			probes["reference-accepts"]++
			if f.Kind == "pair" || f.Kind == "swap" {
				probes["crc16-collision-accepted-by-reference"]++
			}
			if len(obs.delivered) > 0 {
				cw, ok := canonical(want)
				if !ok || !bytes.Equal(cw, obs.delivered[0]) {
					viol("delivered", "differs-from-reference-decoding", fmt.Sprintf("damage %s at %v: reference accepts; delivered %d bytes differ from the reference decoding", f.Kind, f.Edits, len(obs.delivered[0])))
				}
			}
		}
	}
	out.NonTrivial = len(faults) > 0
	out.AddCounters(fired, probes)
	if len(out.Hashes) > 20000 {
		out.Hashes = out.Hashes[:20000]
	}
	return out
}

func kindClass(k string) string {
	switch k {
	case "pair", "swap":
		return "sum-preserving"
	case "del", "ins":
		return "length-changing"
	case "sub-marker", "sub-star":
		return "framing-byte"
	case "ins-empty-block":
		return "empty-block"
	case "ins-zero-sum-block":
		return "extra-block"
	case "ins-256-in-header":
		return "header-grown-by-256"
	}
	return "substitution"
}
