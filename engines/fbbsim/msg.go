package fbbsim

import (
	"bytes"
	"fmt"
	"sort"
	"strconv"
	"strings"
	"time"

	"github.com/la5nta/wl2k-go/fbb"
	"verif/sim/core"
)

// Msg describes one message of a plan. The executor builds it through the
// public fbb API; what counts as "queued" is the serialisation of the result.
type Msg struct {
	MID     string   `json:"mid"`
	From    string   `json:"from"`
	To      []string `json:"to"`
	Cc      []string `json:"cc,omitempty"`
	Subject string   `json:"subject"`
	// RawSubject: store Subject in the header as it is (the way a CMS delivers
	// UTF-8 or Latin-1 subjects) instead of word-encoding it with SetSubject.
	RawSubject bool    `json:"raw_subject,omitempty"`
	Body       string  `json:"body"`
	Files      []FileD `json:"files,omitempty"`
	DateMin    int     `json:"date_min"` // minutes after 2015-01-01 00:00 UTC
	Type       string  `json:"type,omitempty"`
	P2POnly    bool    `json:"p2p_only,omitempty"`
}

type FileD struct {
	Name string `json:"name"`
	Data []byte `json:"data"`
}

var epoch = time.Date(2015, 1, 1, 0, 0, 0, 0, time.UTC)

// Build constructs the fbb.Message; ok=false if it is not valid for sending
// (the executor then leaves it out of the scenario: C01 quantifies over valid
// messages only).
func (d Msg) Build() (m *fbb.Message, raw []byte, ok bool) {
	m, raw, _, ok = d.BuildFull()
	return
}

// BuildFull also returns composed: the serialisation of the message as it was
// put together field by field, before the library parsed anything. "queued"
// (raw) went through the library's own parser once; comparing deliveries with
// it alone would accept any damage that parser does consistently, so the
// oracles also compare contents (semOf) with composed.
func (d Msg) BuildFull() (m *fbb.Message, raw, composed []byte, ok bool) {
	defer func() {
		if r := recover(); r != nil {
			m, raw, composed, ok = nil, nil, nil, false
		}
	}()
	m = fbb.NewMessage(fbb.MsgType(d.Type), d.From)
	m.Header.Set(fbb.HEADER_MID, d.MID)
	m.SetDate(epoch.Add(time.Duration(d.DateMin) * time.Minute))
	m.AddTo(d.To...)
	m.AddCc(d.Cc...)
	if d.RawSubject {
		m.Header.Set(fbb.HEADER_SUBJECT, d.Subject)
	} else {
		m.SetSubject(d.Subject)
	}
	if err := m.SetBody(d.Body); err != nil {
		return nil, nil, nil, false
	}
	for _, f := range d.Files {
		if f.Name == "" {
			return nil, nil, nil, false
		}
		m.AddFile(fbb.NewFile(f.Name, f.Data))
	}
	if d.P2POnly {
		m.Header.Set("X-P2POnly", "true")
	}
	if err := m.Validate(); err != nil {
		return nil, nil, nil, false
	}
	composed, err := m.Bytes()
	if err != nil {
		return nil, nil, nil, false
	}
	// What a mailbox hands to the session is a message parsed from storage.
	// Use the re-serialisation of the parsed form as "what was queued" so that
	// C01 does not inherit serialisation-canonicity questions (that is C09).
	m2 := new(fbb.Message)
	if err := m2.ReadFrom(bytes.NewReader(composed)); err != nil {
		return nil, nil, nil, false
	}
	raw2, err := m2.Bytes()
	if err != nil {
		return nil, nil, nil, false
	}
	if err := m2.Validate(); err != nil {
		return nil, nil, nil, false
	}
	return m2, raw2, composed, true
}

// msgSem is the content of a serialised message, taken apart without the
// library: header fields (lower-cased name, trimmed value, sorted), body and
// attachment bytes as delimited by the Body and File headers.
type msgSem struct {
	Hdr   []string
	Body  []byte
	Files [][]byte
}

func semOf(raw []byte) (sem msgSem, ok bool) {
	end := bytes.Index(raw, []byte("\r\n\r\n"))
	if end < 0 {
		return sem, false
	}
	bodyN := -1
	var fileN []int
	var cur string
	flush := func() bool {
		if cur == "" {
			return true
		}
		k := strings.IndexByte(cur, ':')
		if k <= 0 {
			return false
		}
		name, val := strings.ToLower(cur[:k]), strings.Trim(cur[k+1:], " \t")
		sem.Hdr = append(sem.Hdr, name+":"+val)
		switch name {
		case "body":
			n, err := strconv.Atoi(val)
			if err != nil || n < 0 {
				return false
			}
			bodyN = n
		case "file":
			f := strings.SplitN(val, " ", 2)
			n, err := strconv.Atoi(f[0])
			if err != nil || n < 0 {
				return false
			}
			fileN = append(fileN, n)
		}
		cur = ""
		return true
	}
	for _, line := range strings.Split(string(raw[:end]), "\r\n") {
		if line != "" && (line[0] == ' ' || line[0] == '\t') && cur != "" {
			cur += " " + strings.Trim(line, " \t")
			continue
		}
		if !flush() {
			return sem, false
		}
		cur = line
	}
	if !flush() || bodyN < 0 {
		return sem, false
	}
	sort.Strings(sem.Hdr)
	rest := raw[end+4:]
	take := func(n int) ([]byte, bool) {
		if len(rest) < n {
			return nil, false
		}
		b := rest[:n]
		rest = rest[n:]
		if bytes.HasPrefix(rest, []byte("\r\n")) {
			rest = rest[2:]
		}
		return b, true
	}
	if sem.Body, ok = take(bodyN); !ok {
		return sem, false
	}
	for _, n := range fileN {
		b, ok := take(n)
		if !ok {
			return sem, false
		}
		sem.Files = append(sem.Files, b)
	}
	return sem, true
}

// sameContent: do two serialised messages carry the same header fields, body
// and attachments? why names the first difference.
func sameContent(got, want []byte) (same bool, why string) {
	g, gok := semOf(got)
	w, wok := semOf(want)
	switch {
	case !wok:
		return true, "" // nothing to compare with
	case !gok:
		return false, "does not take apart into header, body and attachments"
	case !bytes.Equal(g.Body, w.Body):
		return false, fmt.Sprintf("body differs (%d vs %d bytes, first difference at %d)", len(g.Body), len(w.Body), commonPrefixLen(g.Body, w.Body))
	case len(g.Files) != len(w.Files):
		return false, fmt.Sprintf("%d attachments instead of %d", len(g.Files), len(w.Files))
	}
	for i := range g.Files {
		if !bytes.Equal(g.Files[i], w.Files[i]) {
			return false, fmt.Sprintf("attachment %d differs (%d vs %d bytes, first difference at %d)", i, len(g.Files[i]), len(w.Files[i]), commonPrefixLen(g.Files[i], w.Files[i]))
		}
	}
	if strings.Join(g.Hdr, "\n") != strings.Join(w.Hdr, "\n") {
		for i := range w.Hdr {
			if i >= len(g.Hdr) || g.Hdr[i] != w.Hdr[i] {
				return false, fmt.Sprintf("header fields differ: want %q", w.Hdr[i])
			}
		}
		return false, "additional header fields"
	}
	return true, ""
}

func commonPrefixLen(a, b []byte) int {
	n := 0
	for n < len(a) && n < len(b) && a[n] == b[n] {
		n++
	}
	return n
}

const alnum = "ABCDEFGHIJKLMNOPQRSTUVWXYZ0123456789"

// GenMID returns 1..12 alphanumerics, unique within used.
func GenMID(r *core.Rand, used map[string]bool) string {
	for {
		n := 12
		switch r.Pick(6, 2, 2) {
		case 1:
			n = r.Range(1, 11)
		case 2:
			n = r.Range(1, 3)
		}
		b := make([]byte, n)
		for i := range b {
			b[i] = alnum[r.Intn(len(alnum))]
		}
		s := string(b)
		if !used[s] {
			used[s] = true
			return s
		}
	}
}

var calls = []string{"LA5NTA", "N0CALL", "LA1B-10", "W1AW", "SM0XYZ-5", "K7ABC", "DL1ABC", "G4XYZ-1"}

func genAddr(r *core.Rand) string {
	switch r.Pick(6, 2, 2) {
	case 0:
		return core.Choice(r, calls)
	case 1:
		return strings.ToLower(core.Choice(r, calls)) + "@winlink.org"
	default:
		return core.Choice(r, []string{"foo@bar.baz", "Some.One@example.org", "x@y.no"})
	}
}

func latin1Text(r *core.Rand, n int, lineMax int) string {
	var sb strings.Builder
	col := 0
	for i := 0; i < n; i++ {
		switch r.Pick(60, 8, 6, 3, 2) {
		case 0:
			sb.WriteByte(byte(r.Range(0x20, 0x7e)))
		case 1:
			sb.WriteRune(rune(r.Range(0xa0, 0xff)))
		case 2:
			sb.WriteByte(' ')
		case 3:
			if r.Bool() {
				sb.WriteString("\r\n")
			} else {
				sb.WriteByte('\n')
			}
			col = 0
			continue
		case 4:
			sb.WriteByte('\t')
		}
		col++
		if lineMax > 0 && col >= lineMax {
			sb.WriteString("\r\n")
			col = 0
		}
	}
	return sb.String()
}

func genSubject(r *core.Rand) string {
	var s string
	switch r.Pick(5, 2, 2, 1, 1, 1) {
	case 5:
		// many non-ASCII characters: the word-encoded form approaches the
		// 128-byte header limit and the re-encoded proposal title gets long
		var sb strings.Builder
		for i, n := 0, r.Range(8, 40); i < n; i++ {
			sb.WriteRune(rune(r.Range(0xc0, 0xff)))
			if r.Chance(0.15) {
				sb.WriteByte(' ')
			}
		}
		s = sb.String()
	case 0:
		s = fmt.Sprintf("Test message %d", r.Intn(100000))
	case 1:
		s = "Hälsning från " + core.Choice(r, []string{"Örebro", "Tromsø", "Ærø", "München"}) + fmt.Sprint(r.Intn(100))
	case 2:
		s = core.Choice(r, []string{"//WL2K Z/ ", "//WL2K O/ ", "//WL2K P/ ", "//WL2K R/ "}) + fmt.Sprintf("traffic %d", r.Intn(1000))
	case 3:
		// long: close to the 128-byte header limit
		s = strings.Repeat("S", r.Range(100, 128))
	case 4:
		s = strings.TrimSpace(latin1Text(r, r.Range(1, 40), 0))
		s = strings.NewReplacer("\r", "", "\n", "", "\t", " ").Replace(s)
	}
	s = strings.TrimSpace(s)
	if s == "" {
		s = "x"
	}
	return s
}

func genBytes(r *core.Rand, n int) []byte {
	switch r.Pick(3, 2, 2, 1) {
	case 0:
		return r.Bytes(n)
	case 1: // repetitive
		unit := r.Bytes(r.Range(1, 9))
		return bytes.Repeat(unit, n/len(unit)+1)[:n]
	case 2: // text with CRLF/NUL
		b := []byte(latin1Text(r, n, 70))
		if len(b) > n {
			b = b[:n]
		}
		for i := 0; i < len(b)/50; i++ {
			b[r.Intn(len(b))] = 0
		}
		return b
	default:
		b := make([]byte, n)
		for i := range b {
			b[i] = byte(r.Pick(8, 1, 1))
		}
		return b
	}
}

// GenMsg draws one valid-looking message. size scales bodies/attachments.
func GenMsg(r *core.Rand, used map[string]bool, from string, to string, size int) Msg {
	m := Msg{
		MID:     GenMID(r, used),
		From:    from,
		DateMin: r.Intn(6 * 365 * 24 * 60),
		Subject: genSubject(r),
	}
	if r.Chance(0.06) {
		// a raw UTF-8 subject: k two-byte characters followed by ASCII, at most
		// 128 header bytes; its re-encoded proposal title is cut near the
		// one-byte header-length limit, inside the ASCII run
		var sb strings.Builder
		k := r.Range(18, 44)
		for i := 0; i < k; i++ {
			sb.WriteRune(rune(r.Range(0xc0, 0xff)))
		}
		for sb.Len() < r.Range(2*k, 127) {
			sb.WriteByte("abcdefghij klmnop"[r.Intn(17)])
		}
		m.Subject, m.RawSubject = strings.TrimSpace(sb.String()), true
	}
	if to != "" && r.Chance(0.7) {
		m.To = []string{to}
	} else {
		for i, n := 0, r.Range(1, 3); i < n; i++ {
			m.To = append(m.To, genAddr(r))
		}
		for i, n := 0, r.Pick(3, 1, 1); i < n; i++ {
			m.Cc = append(m.Cc, genAddr(r))
		}
	}
	bodyN := 1 + r.Intn(size+1)
	if r.Chance(0.15) {
		bodyN = r.Range(1, 8)
	}
	m.Body = latin1Text(r, bodyN, 200)
	if strings.Trim(m.Body, "\r\n") == "" {
		m.Body = "b" + m.Body
	}
	for i, n := 0, r.Pick(5, 2, 1, 1); i < n; i++ {
		fn := core.Choice(r, []string{"a.txt", "IMG 0001.jpg", "data.bin", "blåbær.txt", "x", "rapport (final).pdf"})
		if r.Chance(0.2) {
			fn = fmt.Sprintf("f%d.dat", r.Intn(1000))
		}
		sz := r.Intn(size*2 + 1)
		if r.Chance(0.15) {
			sz = 0
		}
		m.Files = append(m.Files, FileD{Name: fn, Data: genBytes(r, sz)})
	}
	return m
}
