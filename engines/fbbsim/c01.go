package fbbsim

import (
	"bytes"
	"encoding/json"
	"fmt"
	"sort"
	"testing"

	"verif/ref/mbox"
	"verif/sim/core"
)

// checkCleanSession is C01's history oracle for one fault-free session.
func checkCleanSession(sim *core.Sim, prop string, a, b *stationRT, ra, rb *sessResult, ev []mbox.Event, finished bool) (transferred int) {
	if !finished {
		sim.Violate(prop, "liveness", "exchange-did-not-return", "an Exchange call did not return within %v simulated", sessionBudget)
		return
	}
	for _, x := range []struct {
		st  *stationRT
		res *sessResult
	}{{a, ra}, {b, rb}} {
		if x.res.panicVal != nil {
			sim.Violate(prop, "panic", core.PanicClass(x.res.panicVal)+"@"+core.RepoFrame(x.res.stack), "Exchange at %s panicked: %v\n%s", x.st.name, x.res.panicVal, x.res.stack)
			continue
		}
		if x.res.err != nil {
			sim.Violate(prop, "exchange-error", "fault-free-session", "Exchange at %s returned %v on a fault-free link", x.st.name, x.res.err)
		}
		if !x.res.closed {
			sim.Violate(prop, "conn-close", "not-closed", "Exchange at %s returned without closing the connection", x.st.name)
		}
	}
	transferred += checkDirection(sim, prop, a, b, ra, rb, ev)
	transferred += checkDirection(sim, prop, b, a, rb, ra, ev)
	for _, st := range []*stationRT{a, b} {
		if st.h.MaxBatch > 5 {
			sim.Violate(prop, "block-size", "more-than-5", "station %s was asked to answer %d proposals in one block", st.name, st.h.MaxBatch)
		}
	}
	return
}

// checkDirection checks everything about the messages x queued for y.
func checkDirection(sim *core.Sim, prop string, x, y *stationRT, rx, ry *sessResult, ev []mbox.Event) (transferred int) {
	type agg struct {
		inbOK, inbBegin, sentOK, sentRej, deferred int
		inbSeq, sentSeq                            uint64
		data                                       []byte
	}
	byMID := map[string]*agg{}
	get := func(mid string) *agg {
		if byMID[mid] == nil {
			byMID[mid] = &agg{}
		}
		return byMID[mid]
	}
	for _, e := range ev {
		switch {
		case e.Station == y.name && e.Kind == "inbound-begin":
			get(e.MID).inbBegin++
		case e.Station == y.name && e.Kind == "inbound-ok":
			g := get(e.MID)
			g.inbOK++
			g.inbSeq = e.Seq
			g.data = e.Data
		case e.Station == x.name && e.Kind == "setsent" && !e.Rejected:
			g := get(e.MID)
			g.sentOK++
			g.sentSeq = e.Seq
		case e.Station == x.name && e.Kind == "setsent" && e.Rejected:
			get(e.MID).sentRej++
		case e.Station == x.name && e.Kind == "setdeferred":
			get(e.MID).deferred++
		}
	}
	pending := map[string]bool{}
	for _, m := range x.h.Pending() {
		pending[m] = true
	}
	var wantSent []string
	for _, mid := range x.order {
		g := get(mid)
		pol := y.plan.Policy[mid]
		if pol == "" {
			pol = "+"
		}
		switch pol {
		case "+":
			wantSent = append(wantSent, mid)
			transferred++
			if g.inbOK != 1 || g.inbBegin != 1 {
				sim.Violate(prop, "exactly-once", "accepted-delivered-n-times", "%s->%s %s accepted: delivered %d times (begin %d)", x.name, y.name, mid, g.inbOK, g.inbBegin)
			} else if !bytes.Equal(g.data, x.queued[mid]) {
				sim.Violate(prop, "byte-identity", "delivered-differs", "%s->%s %s delivered content differs from queued (%d vs %d bytes)", x.name, y.name, mid, len(g.data), len(x.queued[mid]))
			} else if same, why := sameContent(g.data, x.composed[mid]); !same {
				sim.Violate(prop, "byte-identity", "delivered-content-differs-from-composed", "%s->%s %s: what was delivered is not the message as it was composed: %s", x.name, y.name, mid, why)
			}
			if g.sentOK != 1 || g.sentRej != 0 {
				sim.Violate(prop, "sent-report", "accepted-not-reported-once", "%s %s accepted by peer: SetSent(false) %d times, SetSent(true) %d times", x.name, mid, g.sentOK, g.sentRej)
			} else if g.inbOK == 1 && g.sentSeq < g.inbSeq {
				sim.Violate(prop, "sent-report", "sent-before-delivered", "%s %s reported sent (seq %d) before the peer stored it (seq %d)", x.name, mid, g.sentSeq, g.inbSeq)
			}
			if g.deferred != 0 {
				sim.Violate(prop, "sent-report", "accepted-reported-deferred", "%s %s accepted by peer but SetDeferred called", x.name, mid)
			}
			if pending[mid] {
				sim.Violate(prop, "sent-report", "accepted-still-pending", "%s %s still pending", x.name, mid)
			}
		case "-":
			if g.inbBegin != 0 {
				sim.Violate(prop, "exactly-once", "rejected-but-delivered", "%s->%s %s rejected but handed to ProcessInbound", x.name, y.name, mid)
			}
			if g.sentRej != 1 || g.sentOK != 0 {
				sim.Violate(prop, "sent-report", "rejected-not-reported-once", "%s %s rejected by peer: SetSent(true) %d times, SetSent(false) %d times", x.name, mid, g.sentRej, g.sentOK)
			}
			if g.deferred != 0 {
				sim.Violate(prop, "sent-report", "rejected-reported-deferred", "%s %s rejected by peer but SetDeferred called", x.name, mid)
			}
		case "=":
			if g.inbBegin != 0 {
				sim.Violate(prop, "exactly-once", "deferred-but-delivered", "%s->%s %s deferred but handed to ProcessInbound", x.name, y.name, mid)
			}
			if g.deferred != 1 {
				sim.Violate(prop, "sent-report", "deferred-not-reported-once", "%s %s deferred by peer: SetDeferred %d times", x.name, mid, g.deferred)
			}
			if g.sentOK != 0 || g.sentRej != 0 {
				sim.Violate(prop, "sent-report", "deferred-reported-sent", "%s %s deferred by peer but SetSent called", x.name, mid)
			}
			if !pending[mid] {
				sim.Violate(prop, "sent-report", "deferred-not-pending", "%s %s deferred by peer but no longer pending", x.name, mid)
			}
		}
	}
	// callbacks for MIDs nobody queued
	for _, mid := range core.SortedKeys(byMID) {
		if _, ok := x.queued[mid]; !ok {
			sim.Violate(prop, "exactly-once", "callback-for-unknown-mid", "callbacks for MID %q which %s never queued", mid, x.name)
		}
	}
	if rx.finished && ry.finished {
		if !sameSet(rx.stats.Sent, wantSent) {
			sim.Violate(prop, "traffic-stats", "sent-list", "%s TrafficStats.Sent=%v want %v", x.name, rx.stats.Sent, wantSent)
		}
		if !sameSet(ry.stats.Received, wantSent) {
			sim.Violate(prop, "traffic-stats", "received-list", "%s TrafficStats.Received=%v want %v", y.name, ry.stats.Received, wantSent)
		}
	}
	return
}

func sameSet(a, b []string) bool {
	if len(a) != len(b) {
		return false
	}
	x, y := append([]string(nil), a...), append([]string(nil), b...)
	sort.Strings(x)
	sort.Strings(y)
	for i := range x {
		if x[i] != y[i] {
			return false
		}
	}
	return true
}

type scenarioSample struct {
	MsgsA, MsgsB   int
	BytesA, BytesB int
	PolicyA        map[string]string
	PolicyB        map[string]string
	AMaster        bool
	SegAB, SegBA   []int
	LatAB, LatBA   []int
	Flags          string
}

func sampleOf(sc Scenario, a, b *stationRT) scenarioSample {
	s := scenarioSample{MsgsA: len(a.order), MsgsB: len(b.order), PolicyA: sc.A.Policy, PolicyB: sc.B.Policy}
	for _, m := range a.order {
		s.BytesA += len(a.queued[m])
	}
	for _, m := range b.order {
		s.BytesB += len(b.queued[m])
	}
	if len(sc.Sessions) > 0 {
		sp := sc.Sessions[0]
		s.AMaster = sp.AMaster
		s.SegAB, s.SegBA, s.LatAB, s.LatBA = sp.Link.AB.Seg, sp.Link.BA.Seg, sp.Link.AB.LatUs, sp.Link.BA.LatUs
	}
	s.Flags = fmt.Sprintf("batchedA=%v batchedB=%v gzipA=%v gzipB=%v motdA=%d motdB=%d", sc.A.Batched, sc.B.Batched, sc.A.Gzip, sc.B.Gzip, len(sc.A.Motd), len(sc.B.Motd))
	return s
}

func execC01(t *testing.T, prop string, raw json.RawMessage, trace bool) core.Outcome {
	var sc Scenario
	var out core.Outcome
	if err := json.Unmarshal(raw, &sc); err != nil || len(sc.Sessions) == 0 {
		out.Violate(prop, "harness", "bad-plan", fmt.Sprint("unusable plan: ", err))
		return out
	}
	leak, pv, stack := core.Bubble(t, trace, func(sim *core.Sim) {
		hist := mbox.NewHistory(sim)
		a, b := newStation("A", sc.A, hist), newStation("B", sc.B, hist)
		ra, rb, _, ok := runSession(sim, a, b, sc.Sessions[0], nil, nil)
		n := checkCleanSession(sim, prop, a, b, ra, rb, hist.Snapshot(), ok)
		out.NonTrivial = n > 0
		sim.ProbeN("messages-transferred", n)
		if len(a.order) > 5 || len(b.order) > 5 {
			sim.Probe("multi-block")
		}
		if len(a.order) > 0 && len(b.order) > 0 {
			sim.Probe("both-directions")
		}
		if sc.A.Gzip && sc.B.Gzip {
			sim.Probe("gzip-both")
		}
		out.Sample = sampleOf(sc, a, b)
		sim.FillOutcome(&out)
	})
	if pv != nil {
		out.Violate(prop, "harness", "bubble-panic", fmt.Sprintf("%v\n%s", pv, stack))
	}
	if leak {
		out.Violate(prop, "liveness", "goroutines-left-blocked", "goroutines were still blocked when the run ended")
	}
	return out
}
