package fbbsim

import (
	"errors"
	"fmt"
	"hash/fnv"

	reflzhuf "verif/ref/lzhuf"
)

// refCodec judges and produces B2 payloads with the independent codec
// (ref/lzhuf): what the Session emits is decoded by it, and half of the plans
// let the reference peer compress with its seed-driven encoder, which produces
// valid streams the library's own writer never would.
type refCodec struct{}

func (refCodec) Compress(raw []byte) []byte {
	h := fnv.New64a()
	h.Write(raw)
	return reflzhuf.EncodeRandom(raw, true, h.Sum64(), reflzhuf.RandomOptions{LiteralPct: 15})
}

func (refCodec) Decompress(stream []byte) ([]byte, error) {
	out, v := reflzhuf.Decode(stream, true)
	switch {
	case !v.HeaderOK:
		return nil, errors.New("payload header incomplete")
	case !v.SizeOK:
		return nil, fmt.Errorf("declared size %d, decoded %d (input exhausted: %v)", v.Declared, v.Decoded, v.Exhausted)
	case !v.CRCOK:
		return nil, errors.New("CRC-16 mismatch")
	case !v.OK:
		return nil, errors.New("rejected")
	}
	return out, nil
}

func init() {
	decodeCodec = refCodec{}
	encodeCodecs = append(encodeCodecs, refCodec{})
}
