package fbbsim

import (
	"bytes"
	"encoding/json"
	"fmt"
	"testing"
	"time"

	"verif/ref/mbox"
	"verif/sim/core"
	"verif/sim/pipe"
	"verif/sim/simfs"
)

// C02Plan: a chain of sessions between the same two mailboxes.
//
//	Pre     0-2 sessions with seeded faults (cut offsets / storage errors)
//	Target  the session whose fault is enumerated: every cut offset of either
//	        direction and every "n-th ProcessInbound fails" of either station
//	Clean   template for the fault-free sessions that follow until one completes
//
// With Fault set the executor runs only that one fault (replay).
type C02Plan struct {
	A      StationPlan   `json:"a"`
	B      StationPlan   `json:"b"`
	Pre    []SessionPlan `json:"pre,omitempty"`
	Target SessionPlan   `json:"target"`
	Clean  SessionPlan   `json:"clean"`
	Fault  *C02Fault     `json:"fault,omitempty"`
	// Sample: offsets to use when the transcript is too long to cut everywhere
	// (fractions in [0,1)); MaxCuts bounds the enumeration per direction.
	Sample  []float64 `json:"sample,omitempty"`
	MaxCuts int       `json:"max_cuts,omitempty"`
	Handler string    `json:"handler,omitempty"` // "ref" | "dir"
	// DeferA/DeferB: MIDs the station answers "later" (=) in the faulty sessions;
	// in the fault-free sessions that follow it accepts them.
	DeferA []string `json:"defer_a,omitempty"`
	DeferB []string `json:"defer_b,omitempty"`
	// Reuse: the DirHandler objects live across sessions (long-running program)
	// instead of being re-created for each session (restart).
	Reuse bool `json:"reuse,omitempty"`
}

type C02Fault struct {
	Kind   string `json:"kind"` // cut | storage | answer (inbox unreadable while the n-th proposal is answered)
	Dir    string `json:"dir,omitempty"`
	Off    int    `json:"off,omitempty"`
	Silent bool   `json:"silent,omitempty"`
	At     string `json:"at,omitempty"` // storage: station "A" or "B"
	Nth    int    `json:"nth,omitempty"`
}

func (f C02Fault) String() string {
	if f.Kind == "storage" {
		return fmt.Sprintf("storage error at %s on inbound message #%d", f.At, f.Nth)
	}
	if f.Kind == "answer" {
		return fmt.Sprintf("inbox of %s unreadable while proposal #%d is answered", f.At, f.Nth)
	}
	return fmt.Sprintf("cut %s after %d bytes (silent=%v)", f.Dir, f.Off, f.Silent)
}

func genC02(tier string, r *core.Rand) C02Plan {
	size := r.Range(10, 400)
	maxMsgs := 4
	if tier == "thorough" {
		size = r.Range(10, 3000)
		maxMsgs = 7
	}
	a, b := GenStations(r, maxMsgs, size)
	if len(a.Msgs)+len(b.Msgs) == 0 {
		used := map[string]bool{}
		a.Msgs = []Msg{GenMsg(r, used, a.Call, b.Call, size)}
	}
	// answers: accept, or "already have it" (the executor seeds the inbox for '-')
	fix := func(p map[string]string) map[string]string {
		out := map[string]string{}
		for _, k := range core.SortedKeys(p) {
			if p[k] == "-" && r.Chance(0.5) {
				out[k] = "-"
			}
		}
		return out
	}
	a.Policy, b.Policy = fix(a.Policy), fix(b.Policy)
	a.Gzip, b.Gzip = r.Chance(0.1), r.Chance(0.1)
	a.Status, b.Status = false, false
	link := func() pipe.Plan {
		l := GenLink(r)
		// single-byte segmentation makes every byte its own event; keep it for some runs only
		if r.Chance(0.7) {
			l.AB.Seg, l.BA.Seg = nil, nil
		}
		return l
	}
	handler := "ref"
	if r.Chance(0.4) {
		handler = "dir"
		a.Batched, b.Batched = false, false
	}
	var deferA, deferB []string
	if r.Chance(0.3) {
		for _, m := range b.Msgs {
			if r.Chance(0.4) {
				deferA = append(deferA, m.MID) // A defers some of what B offers
			}
		}
		for _, m := range a.Msgs {
			if r.Chance(0.4) {
				deferB = append(deferB, m.MID)
			}
		}
	}
	p := C02Plan{Handler: handler, DeferA: deferA, DeferB: deferB, Reuse: r.Bool(), A: a, B: b, Target: SessionPlan{AMaster: r.Bool(), Link: link()}, Clean: SessionPlan{AMaster: r.Bool(), Link: link()}}
	for i, n := 0, r.Pick(5, 3, 2); i < n; i++ {
		sp := SessionPlan{AMaster: r.Bool(), Link: link()}
		if r.Chance(0.75) {
			off := 0
			switch r.Pick(3, 5, 2) {
			case 0:
				off = r.Intn(70) // inside the handshake
			case 1:
				off = r.Range(70, 450) // proposals / first transfer
			case 2:
				off = r.Intn(1500)
			}
			sp.Link.Cut = &pipe.Cut{Dir: core.Choice(r, []string{"ab", "ba"}), Off: off, Silent: r.Bool()}
		} else if r.Bool() {
			sp.FailInboundA = r.Range(1, 3)
		} else {
			sp.FailInboundB = r.Range(1, 3)
		}
		p.Pre = append(p.Pre, sp)
	}
	for i := 0; i < 200; i++ {
		p.Sample = append(p.Sample, r.Float())
	}
	p.MaxCuts = 2500
	if tier == "thorough" {
		p.MaxCuts = 8000
	}
	return p
}

// c02Run is one complete chain executed in one bubble.
type c02Run struct {
	delivered    int // messages stored in the target session
	diskFaults   int
	nAB, nBA     int // bytes delivered in the target session (pilot)
	inbA, inbB   int // ProcessInbound calls in the target session (pilot)
	ansA, ansB   int // proposals answered in the target session (pilot, dir handler)
	boundaries   map[string][]int
	cleanNeeded  int
	targetFailed bool
}

// seedRejects puts the messages the peer "already has" into its inbox.
func seedRejects(x, y *stationRT) {
	for _, mid := range x.order {
		if y.plan.Policy[mid] == "-" {
			y.seed(mid, x.queued[mid])
		}
	}
}

// execChain runs Pre, the target session with the given fault, and clean
// sessions until one completes, applying C02's oracle as it goes.
func execChain(sim *core.Sim, prop string, p C02Plan, fault *C02Fault, run *c02Run) {
	hist := mbox.NewHistory(sim)
	detail := "ref-handler"
	pa, pb := p.A, p.B
	var disk *simfs.FS
	if p.Handler == "dir" {
		detail = "dir-handler"
		// the directory mailbox only offers a P2P peer the messages addressed to it alone
		for i := range pa.Msgs {
			pa.Msgs[i].To, pa.Msgs[i].Cc = []string{pb.Call}, nil
		}
		for i := range pb.Msgs {
			pb.Msgs[i].To, pb.Msgs[i].Cc = []string{pa.Call}, nil
		}
		disk = simfs.New()
		simfs.Use(disk)
		defer simfs.Use(nil)
	}
	a, b := newStation("A", pa, hist), newStation("B", pb, hist)
	if disk != nil {
		for _, st := range []*stationRT{a, b} {
			st.dir = newDirBox(st.name, hist, disk)
			st.dir.reuse = p.Reuse
			st.dir.short = len(st.order)*37 + 11
			for _, mid := range st.order {
				st.dir.Queue(mid, st.queued[mid])
			}
		}
	}
	// policies other than "already have it" are not part of C02: everything else is accepted
	a.h.Policy, b.h.Policy = map[string]byte{}, map[string]byte{}
	seedRejects(a, b)
	seedRejects(b, a)

	type sess struct {
		plan   SessionPlan
		faulty bool
		label  string
	}
	var chain []sess
	for _, sp := range p.Pre {
		chain = append(chain, sess{sp, true, "pre"})
	}
	t := p.Target
	t.Link.Cut, t.FailInboundA, t.FailInboundB = nil, 0, 0
	if fault != nil {
		switch fault.Kind {
		case "cut":
			t.Link.Cut = &pipe.Cut{Dir: fault.Dir, Off: fault.Off, Silent: fault.Silent}
		case "storage":
			if fault.At == "A" {
				t.FailInboundA = fault.Nth
			} else {
				t.FailInboundB = fault.Nth
			}
		}
	}
	answerFault := fault != nil && fault.Kind == "answer"
	chain = append(chain, sess{t, fault != nil, "target"})

	judge := func(s sess, ra, rb *sessResult, link *pipe.Link, ok bool, started time.Duration) (completed bool) {
		for _, x := range []struct {
			n string
			r *sessResult
		}{{"A", ra}, {"B", rb}} {
			if x.r.panicVal != nil {
				sim.Violate(prop, "panic", core.PanicClass(x.r.panicVal)+"@"+core.RepoFrame(x.r.stack), "Exchange at %s panicked in a %s session: %v\n%s", x.n, s.label, x.r.panicVal, firstLines(x.r.stack, 25))
			}
		}
		if !ok {
			sim.Violate(prop, "bounded-time", "exchange-did-not-return/"+detail, "%s session: an Exchange call had not returned 5 simulated minutes after the fault", s.label)
			return false
		}
		return ra.err == nil && rb.err == nil && ra.panicVal == nil && rb.panicVal == nil
	}

	runOne := func(s sess) (bool, *pipe.Link) {
		started := sim.Now()
		arm := func() {
			if s.label == "target" && answerFault {
				st := b
				if fault.At == "A" {
					st = a
				}
				if st.dir != nil {
					st.dir.failAnswerAt = fault.Nth
				}
			}
		}
		// a faulty session may block until the fault fires; afterwards 5 minutes must do.
		ra, rb, link, ok := runSessionFaulty(sim, a, b, s.plan, arm)
		completed := judge(s, ra, rb, link, ok, started)
		if s.label == "target" && run != nil {
			run.nAB, run.nBA = link.Delivered()
			run.targetFailed = !completed
		}
		return completed, link
	}

	completedClean := false
	a.setDefers(p.DeferA)
	b.setDefers(p.DeferB)
	for _, s := range chain {
		runOne(s)
	}
	a.setDefers(nil)
	b.setDefers(nil)
	if run != nil {
		if disk != nil {
			run.diskFaults = a.dir.fired + b.dir.fired
		}
		// count inbound calls of the target session for the storage-fault enumeration
		for _, e := range hist.Snapshot() {
			if e.Kind == "inbound-ok" && e.Session == len(chain) {
				run.delivered++
			}
			if e.Kind == "answer" && e.Session == len(chain) {
				if e.Station == "A" {
					run.ansA++
				} else {
					run.ansB++
				}
			}
			if e.Kind == "inbound-begin" && e.Session == len(chain) {
				if e.Station == "A" {
					run.inbA++
				} else {
					run.inbB++
				}
			}
		}
	}
	for i := 0; i < 4 && !completedClean; i++ {
		c := p.Clean
		c.Link.Cut, c.FailInboundA, c.FailInboundB = nil, 0, 0
		ok, _ := runOne(sess{c, false, "clean"})
		if ok {
			completedClean = true
			if run != nil {
				run.cleanNeeded = i + 1
			}
		} else {
			sim.Violate(prop, "recovery", "clean-session-failed/"+detail, "a fault-free session after the faulty ones did not complete")
			break
		}
	}
	checkC02History(sim, prop, detail, a, b, hist.Snapshot(), completedClean, answerFault)
}

// runSessionFaulty runs one session. "Bounded time": once the link has been cut
// or the storage error has been returned, both calls must return within 5
// simulated minutes; before that there is no bound (slow links are legal).
func runSessionFaulty(sim *core.Sim, a, b *stationRT, sp SessionPlan, arm func()) (ra, rb *sessResult, link *pipe.Link, ok bool) {
	a.nextSession(sp.FailInboundA)
	b.nextSession(sp.FailInboundB)
	if arm != nil {
		arm()
	}
	link = pipe.New(sim, sp.Link)
	ra, rb = &sessResult{}, &sessResult{}
	sa := a.session(b, sp.AMaster)
	sb := b.session(a, !sp.AMaster)
	ga := a.exchange(sim, sa, pipe.WithCaps(link.A, sp.Link.CapsA), link.A, ra)
	sim.Pause()
	gb := b.exchange(sim, sb, pipe.WithCaps(link.B, sp.Link.CapsB), link.B, rb)
	// wait for the first of: both done / one done (then the other gets 5 minutes)
	select {
	case <-ga.Done:
		ok = core.WaitAll(5*time.Minute, gb)
	case <-gb.Done:
		ok = core.WaitAll(5*time.Minute, ga)
	case <-time.After(sessionBudget):
		ok = false
	}
	if !ok {
		link.Kill()
		link.A.Close()
		link.B.Close()
		core.WaitAll(time.Hour, ga, gb)
	}
	return
}

// checkC02History applies clauses (b), (c), (d) over the whole chain.
//
// restoreAllowed: the injected fault made the inbox unreadable while a proposal
// was answered. A mailbox that cannot tell whether it already has a message and
// therefore takes it again (same bytes, same file) errs on the safe side; that
// is outside what C02 states (its faults are link failures and failed stores),
// so "stored again" is not judged in those chains. Everything else is.
func checkC02History(sim *core.Sim, prop, detail string, a, b *stationRT, ev []mbox.Event, completedClean, restoreAllowed bool) {
	type st struct {
		stored   int
		storedAt uint64
		seeded   bool
	}
	for _, dir := range []struct{ x, y *stationRT }{{a, b}, {b, a}} {
		x, y := dir.x, dir.y
		state := map[string]*st{}
		for _, mid := range x.order {
			state[mid] = &st{seeded: y.plan.Policy[mid] == "-"}
		}
		sent := map[string]int{}
		for _, e := range ev {
			switch {
			case e.Station == y.name && (e.Kind == "inbound-begin"):
				want, known := x.queued[e.MID]
				if !known {
					sim.Violate(prop, "byte-identity", "unknown-mid-delivered/"+detail, "%s received MID %q which %s never queued", y.name, e.MID, x.name)
				} else if !bytes.Equal(want, e.Data) {
					sim.Violate(prop, "byte-identity", "delivered-differs/"+detail, "%s->%s %s: content handed to the handler differs from the queued message (%d vs %d bytes)", x.name, y.name, e.MID, len(e.Data), len(want))
				} else if same, why := sameContent(e.Data, x.composed[e.MID]); !same {
					sim.Violate(prop, "byte-identity", "delivered-content-differs-from-composed/"+detail, "%s->%s %s: what was handed to the handler is not the message as it was composed: %s", x.name, y.name, e.MID, why)
				}
			case e.Station == y.name && e.Kind == "inbound-ok":
				if s := state[e.MID]; s != nil {
					s.stored++
					s.storedAt = e.Seq
				}
			case e.Station == x.name && e.Kind == "setsent":
				s := state[e.MID]
				if s == nil {
					sim.Violate(prop, "sent-report", "unknown-mid-reported-sent/"+detail, "%s reported unknown MID %q sent", x.name, e.MID)
					continue
				}
				sent[e.MID]++
				if s.stored == 0 && !s.seeded {
					sim.Violate(prop, "sent-report", "sent-but-never-received/"+detail, "%s reported %s sent (rejected=%v, seq %d) but %s's handler had not completely received it", x.name, e.MID, e.Rejected, e.Seq, y.name)
				}
			}
		}
		for _, mid := range x.order {
			s := state[mid]
			if (s.stored > 1 || (s.stored > 0 && s.seeded)) && !restoreAllowed {
				sim.Violate(prop, "exactly-once", "delivered-twice/"+detail, "%s->%s %s was stored %d times", x.name, y.name, mid, s.stored)
			}
			if sent[mid] > 1 {
				sim.Violate(prop, "sent-report", "reported-sent-twice/"+detail, "%s reported %s sent %d times", x.name, mid, sent[mid])
			}
			if completedClean {
				if s.stored == 0 && !s.seeded {
					sim.Violate(prop, "recovery", "not-delivered-after-clean-session/"+detail, "%s->%s %s still undelivered after a completed fault-free session", x.name, y.name, mid)
				}
				if sent[mid] == 0 {
					sim.Violate(prop, "recovery", "not-reported-sent-after-clean-session/"+detail, "%s %s still not reported sent after a completed fault-free session", x.name, mid)
				}
			}
		}
		if completedClean && len(x.pending()) > 0 {
			sim.Violate(prop, "recovery", "still-pending-after-clean-session/"+detail, "%s still has %v pending", x.name, x.pending())
		}
		// directory mailbox: what is on the disk must be one intact copy per delivered message
		if y.dir != nil {
			for _, mid := range x.order {
				s := state[mid]
				if s.stored == 0 && !s.seeded {
					if _, err := y.dir.stored(mid); err == nil {
						// a complete file although ProcessInbound never succeeded is acceptable only if it is the message
						got, _ := y.dir.stored(mid)
						if !bytes.Equal(got, x.queued[mid]) {
							sim.Violate(prop, "byte-identity", "stored-file-differs/"+detail, "%s in/%s.b2f exists after a failed store and differs from the message", y.name, mid)
						}
					}
					continue
				}
				got, err := y.dir.stored(mid)
				if err != nil {
					sim.Violate(prop, "exactly-once", "stored-file-unreadable/"+detail, "%s in/%s.b2f: %v", y.name, mid, err)
				} else if !bytes.Equal(got, x.queued[mid]) {
					sim.Violate(prop, "byte-identity", "stored-file-differs/"+detail, "%s in/%s.b2f differs from the queued message (%d vs %d bytes)", y.name, mid, len(got), len(x.queued[mid]))
				}
			}
		}
	}
}

func execC02(t *testing.T, prop string, raw json.RawMessage, trace bool) core.Outcome {
	var p C02Plan
	var out core.Outcome
	if err := json.Unmarshal(raw, &p); err != nil {
		out.Violate(prop, "harness", "bad-plan", fmt.Sprint("unusable plan: ", err))
		return out
	}
	one := func(f *C02Fault, keep bool) (*c02Run, []core.Violation, string) {
		run := &c02Run{}
		var viols []core.Violation
		var hash string
		leak, pv, stack := core.Bubble(t, keep, func(sim *core.Sim) {
			execChain(sim, prop, p, f, run)
			viols = sim.Violations()
			hash = sim.LogHash()
			out.SimNanos += int64(sim.Now())
			fa, pr := sim.Counters()
			out.AddCounters(fa, pr)
			if keep {
				out.Trace = sim.Lines()
			}
		})
		if pv != nil {
			viols = append(viols, core.Violation{Property: prop, Signature: prop + "/harness/bubble-panic", Message: fmt.Sprintf("%v\n%s", pv, stack)})
		}
		if leak {
			viols = append(viols, core.Violation{Property: prop, Signature: prop + "/bounded-time/goroutines-left-blocked", Message: "goroutines still blocked at the end of the chain"})
		}
		out.Evals++
		return run, viols, hash
	}
	narrowed := func(f C02Fault) json.RawMessage {
		q := p
		q.Fault = &f
		q.Sample = nil
		b, _ := json.Marshal(q)
		return b
	}
	if p.Fault != nil {
		_, viols, hash := one(p.Fault, trace)
		out.Violations = append(out.Violations, viols...)
		out.LogHash = hash
		out.NonTrivial = true
		return out
	}
	// pilot: no fault in the target session
	pilot, viols, hash := one(nil, false)
	out.LogHash = hash
	for _, v := range viols {
		out.Violations = append(out.Violations, v) // a failing fault-free chain is reported as is (whole plan replays it)
	}
	var faults []C02Fault
	for _, d := range []struct {
		dir string
		n   int
	}{{"ab", pilot.nAB}, {"ba", pilot.nBA}} {
		offs := map[int]bool{}
		if d.n+1 <= p.MaxCuts || p.MaxCuts <= 0 {
			for k := 0; k <= d.n; k++ {
				offs[k] = true
			}
		} else {
			// the ends, and a seeded sample of the rest
			for k := 0; k <= 400 && k <= d.n; k++ {
				offs[k], offs[d.n-k] = true, true
			}
			for i := 0; len(offs) < p.MaxCuts && i < 10*p.MaxCuts; i++ {
				f := core.TapeAtF(p.Sample, i)
				offs[int(f*float64(d.n+1))%(d.n+1)] = true
				offs[(i*7919)%(d.n+1)] = true
			}
		}
		for k := 0; k <= d.n; k++ {
			if offs[k] {
				faults = append(faults, C02Fault{Kind: "cut", Dir: d.dir, Off: k, Silent: (k+len(d.dir))%3 == 0})
			}
		}
	}
	for i := 1; i <= pilot.inbA; i++ {
		faults = append(faults, C02Fault{Kind: "storage", At: "A", Nth: i})
	}
	for i := 1; i <= pilot.inbB; i++ {
		faults = append(faults, C02Fault{Kind: "storage", At: "B", Nth: i})
	}
	if p.Handler == "dir" {
		for i := 1; i <= pilot.ansA; i++ {
			faults = append(faults, C02Fault{Kind: "answer", At: "A", Nth: i})
		}
		for i := 1; i <= pilot.ansB; i++ {
			faults = append(faults, C02Fault{Kind: "answer", At: "B", Nth: i})
		}
	}
	probes := map[string]int{}
	for _, f := range faults {
		run, viols, hash := one(&f, false)
		for _, v := range viols {
			v.Message = f.String() + ": " + v.Message
			v.Replay = narrowed(f)
			out.Violations = append(out.Violations, v)
		}
		if len(out.Hashes) < 4096 {
			out.Hashes = append(out.Hashes, hash)
		}
		if run.targetFailed {
			probes["target-session-failed"]++
		} else {
			probes["target-session-completed-despite-fault"]++
		}
		if run.cleanNeeded > 1 {
			probes["more-than-one-clean-session-needed"]++
		}
		if run.diskFaults > 0 {
			probes["disk-full-fired-in-dir-handler"]++
		}
		if run.delivered > 0 && run.targetFailed {
			probes["faulty-session-delivered-a-prefix"]++
		}
	}
	out.NonTrivial = len(faults) > 0 && pilot.delivered > 0
	probes["chains-with-"+orStr(p.Handler, "ref")+"-handler"] += len(faults)
	out.AddCounters(nil, probes)
	out.Sample = map[string]any{"msgs_a": len(p.A.Msgs), "msgs_b": len(p.B.Msgs), "pre_sessions": len(p.Pre), "bytes_ab": pilot.nAB, "bytes_ba": pilot.nBA, "cut_points": len(faults) - pilot.inbA - pilot.inbB, "storage_faults": pilot.inbA + pilot.inbB, "target_master_a": p.Target.AMaster, "handler": orStr(p.Handler, "ref"), "messages_in_target_session": pilot.delivered}
	return out
}
