package fbbsim

import (
	"encoding/json"
	"fmt"
	"testing"
	"time"

	"verif/ref/mbox"
	"verif/sim/core"
)

// C17Plan: a two-station scenario, or (Peer set) the library station against
// the reference peer, which can ask for transfers from a non-zero offset.
type C17Plan struct {
	Scenario
	Peer *PeerPlan `json:"peer,omitempty"`
}

func genC17(tier string, r *core.Rand) C17Plan {
	sc := genC17two(tier, r)
	if !r.Chance(0.2) {
		return C17Plan{Scenario: sc}
	}
	// the remote is the reference peer; about half of what it accepts it takes from an offset
	pp := genC05(tier, r)
	pp.Peer.Late = 0 // held mail is C05's arm
	pp.Peer.Byzantine, pp.Peer.Mut, pp.Peer.EarlyFQ, pp.Peer.HastyFQ = false, nil, false, false
	pp.Lib = sc.A
	pp.Lib.Status, pp.Lib.Gzip = true, false
	pp.Link = sc.Sessions[0].Link
	pp.Peer.Answers = map[string]string{}
	for _, m := range pp.Lib.Msgs {
		if r.Bool() {
			pp.Peer.Answers[m.MID] = core.Choice(r, []string{"!", "A"}) + "p" + fmt.Sprint(r.Range(1, 99))
		}
	}
	if len(pp.PeerMsgs) > 2 {
		pp.PeerMsgs = pp.PeerMsgs[:2]
	}
	return C17Plan{Scenario: sc, Peer: &pp}
}

func genC17two(tier string, r *core.Rand) Scenario {
	size := 0
	switch r.Pick(4, 3, 2) {
	case 0:
		size = r.Range(1, 600)
	case 1:
		size = r.Range(600, 8000)
	case 2:
		size = r.Range(8000, 40000)
	}
	if tier == "thorough" && r.Chance(0.2) {
		size = r.Range(40000, 300000)
	}
	a, b := GenStations(r, 4, size)
	if len(a.Msgs)+len(b.Msgs) == 0 {
		used := map[string]bool{}
		a.Msgs = []Msg{GenMsg(r, used, a.Call, b.Call, size)}
	}
	a.Status, b.Status = true, true
	a.Gzip, b.Gzip = false, false
	// a slow status consumer (GUI redraw): some reports take longer than the
	// rest of the transfer, so a report can still be in progress when the
	// transfer ends or the next message of the block starts
	for _, st := range []*StationPlan{&a, &b} {
		if r.Chance(0.3) {
			hi := []int{1000, 100000, 1500000}[r.Intn(3)]
			st.StatusDelayUs = core.Tape(r, r.Range(1, 5), func() int { return r.Pick(1, 2) * r.Intn(hi) })
		}
	}
	l := GenLink(r)
	pace := func() []int {
		switch r.Pick(2, 3, 3, 2) {
		case 0:
			return nil // no pacing
		case 1:
			hi := r.Range(1000, 100000)
			return core.Tape(r, r.Range(1, 6), func() int { return r.Intn(hi) })
		case 2:
			return core.Tape(r, r.Range(1, 6), func() int { return r.Range(100000, 400000) })
		default:
			return core.Tape(r, r.Range(1, 6), func() int { return r.Pick(3, 1) * r.Range(250000, 700000) })
		}
	}
	l.AB.WriteDelayUs, l.BA.WriteDelayUs = pace(), pace()
	// large messages with single-byte segments cost millions of events; keep segments coarse
	if size > 4000 {
		l.AB.Seg, l.BA.Seg = nil, nil
	}
	return Scenario{A: a, B: b, Sessions: []SessionPlan{{AMaster: r.Bool(), Link: l}}}
}

// checkStatus is the well-formedness oracle over the Status history of one station.
func checkStatus(sim *core.Sim, prop string, st *stationRT, sentOK, recvOK []string) (reports int) {
	evs := st.status.Events()
	sentAll := append(append([]string{}, sentOK...), st.order...)
	type key struct {
		mid string
		dir string
	}
	done := map[key]int{}
	afterDone := map[key]int{}
	seen := map[key]int{}
	for _, e := range evs {
		k := key{e.Sending, "send"}
		if e.Receiving != "" {
			k = key{e.Receiving, "recv"}
		}
		if e.Sending == "" && e.Receiving == "" {
			sim.Violate(prop, "status", "names-no-message", "%s: a status report names neither a sent nor a received message", st.name)
			continue
		}
		if e.Sending != "" && e.Receiving != "" {
			sim.Violate(prop, "status", "names-two-messages", "%s: a status report names both %s and %s", st.name, e.Sending, e.Receiving)
		}
		// "names that message": as one being sent only if this station sent it,
		// as one being received only if it received it
		if e.Sending != "" && !inList(sentAll, e.Sending) && inList(recvOK, e.Sending) {
			sim.Violate(prop, "status", "received-message-reported-as-sending", "%s: a report names %s as the message being sent; this station is receiving it", st.name, e.Sending)
		}
		if e.Receiving != "" && !inList(recvOK, e.Receiving) && inList(sentAll, e.Receiving) {
			sim.Violate(prop, "status", "sent-message-reported-as-receiving", "%s: a report names %s as the message being received; this station is sending it", st.name, e.Receiving)
		}
		seen[k]++
		if done[k] > 0 {
			afterDone[k]++
		}
		if e.Done {
			done[k]++
		}
		if e.Transferred < 0 || e.Transferred > e.Total {
			sim.Violate(prop, "status", "transferred-out-of-range-"+k.dir, "%s %s %s: BytesTransferred=%d BytesTotal=%d", st.name, k.dir, k.mid, e.Transferred, e.Total)
		}
		if e.Total != e.CSize {
			sim.Violate(prop, "status", "total-not-compressed-size-"+k.dir, "%s %s %s: BytesTotal=%d, compressed size %d", st.name, k.dir, k.mid, e.Total, e.CSize)
		}
	}
	check := func(mids []string, dir string) {
		for _, m := range mids {
			k := key{m, dir}
			if done[k] != 1 {
				sim.Violate(prop, "status", "done-reports-not-one-"+dir, "%s %s %s: %d reports with Done (of %d reports)", st.name, dir, m, done[k], seen[k])
			}
			if afterDone[k] > 0 {
				sim.Violate(prop, "status", "report-after-done-"+dir, "%s %s %s: %d reports after the final one", st.name, dir, m, afterDone[k])
			}
		}
	}
	check(sentOK, "send")
	check(recvOK, "recv")
	return len(evs)
}

func execC17(t *testing.T, prop string, raw json.RawMessage, trace bool) core.Outcome {
	var pl C17Plan
	var out core.Outcome
	if err := json.Unmarshal(raw, &pl); err != nil || (len(pl.Sessions) == 0 && pl.Peer == nil) {
		out.Violate(prop, "harness", "bad-plan", fmt.Sprint("unusable plan: ", err))
		return out
	}
	if pl.Peer != nil {
		return execC17peer(t, prop, *pl.Peer, trace)
	}
	sc := pl.Scenario
	sc.A.Status, sc.B.Status = true, true
	leak, pv, stack := core.Bubble(t, trace, func(sim *core.Sim) {
		hist := mbox.NewHistory(sim)
		a, b := newStation("A", sc.A, hist), newStation("B", sc.B, hist)
		sp := sc.Sessions[0]
		sp.Link.Cut = nil
		ra, rb, _, ok := runSession(sim, a, b, sp, nil, nil)
		// let the reporter goroutines deliver their final reports
		time.Sleep(2 * time.Second)
		for i := 0; i < 3600 && (a.status.Busy() || b.status.Busy()); i++ {
			time.Sleep(time.Second)
		}
		time.Sleep(2 * time.Second)
		if !ok || ra.err != nil || rb.err != nil || ra.panicVal != nil || rb.panicVal != nil {
			// a failed fault-free session is C01's business; C17 judges completed transfers only
			sim.Probe("session-not-clean")
		}
		n := checkStatus(sim, prop, a, ra.stats.Sent, ra.stats.Received)
		n += checkStatus(sim, prop, b, rb.stats.Sent, rb.stats.Received)
		out.NonTrivial = len(ra.stats.Sent)+len(rb.stats.Sent) > 0 && n > 0
		sim.ProbeN("status-reports", n)
		sim.ProbeN("messages-transferred", len(ra.stats.Sent)+len(rb.stats.Sent))
		for _, st := range []*stationRT{a, b} {
			mid := 0
			for _, e := range st.status.Events() {
				if !e.Done && e.Sending != "" {
					mid++
				}
			}
			if mid > 0 {
				sim.Probe("send-ticker-fired-during-transfer")
			}
		}
		for _, c := range append(append([]string{}, sp.Link.CapsA...), sp.Link.CapsB...) {
			if c == "txbuffer" {
				sim.Probe("conn-with-txbuffer")
			}
		}
		out.Sample = sampleOf(sc, a, b)
		sim.FillOutcome(&out)
	})
	if pv != nil {
		out.Violate(prop, "harness", "bubble-panic", fmt.Sprintf("%v\n%s", pv, stack))
	}
	if leak {
		out.Violate(prop, "status", "reporter-goroutine-left-blocked", "a goroutine started by the session was still blocked 2 simulated seconds after Exchange returned")
	}
	return out
}

// execC17peer: the library station, with the recording StatusUpdater, against
// the reference peer.
func execC17peer(t *testing.T, prop string, pp PeerPlan, trace bool) core.Outcome {
	var out core.Outcome
	pp.Lib.Status, pp.Lib.Gzip = true, false
	pp.Peer.Byzantine, pp.Peer.Mut = false, nil
	pp.Link.Cut = nil
	leak, pv, stack := core.Bubble(t, trace, func(sim *core.Sim) {
		pr := runPeerSession(sim, pp)
		time.Sleep(2 * time.Second)
		for i := 0; i < 3600 && pr.lib.status != nil && pr.lib.status.Busy(); i++ {
			time.Sleep(time.Second)
		}
		time.Sleep(2 * time.Second)
		if !pr.finished || pr.res.err != nil || pr.res.panicVal != nil {
			sim.Probe("session-not-clean")
		}
		sim.Probe("library-against-reference-peer")
		if len(pr.peer.Tails) > 0 {
			sim.Probe("transfer-resumed-at-a-nonzero-offset")
		}
		n := 0
		if pr.lib.status != nil {
			n = checkStatus(sim, prop, pr.lib, pr.res.stats.Sent, pr.res.stats.Received)
		}
		out.NonTrivial = len(pr.res.stats.Sent) > 0 && n > 0
		sim.ProbeN("status-reports", n)
		sim.ProbeN("messages-transferred", len(pr.res.stats.Sent))
		sim.FillOutcome(&out)
	})
	if pv != nil {
		out.Violate(prop, "harness", "bubble-panic", fmt.Sprintf("%v\n%s", pv, stack))
	}
	if leak {
		out.Violate(prop, "status", "reporter-goroutine-left-blocked", "a goroutine started by the session was still blocked 2 simulated seconds after Exchange returned")
	}
	return out
}

func inList(l []string, s string) bool {
	for _, x := range l {
		if x == s {
			return true
		}
	}
	return false
}
