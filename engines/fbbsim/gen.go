package fbbsim

import (
	"fmt"

	"verif/sim/core"
	"verif/sim/pipe"
)

// GenDir draws the schedule of one link direction.
func GenDir(r *core.Rand) pipe.DirPlan {
	var d pipe.DirPlan
	switch r.Pick(3, 3, 2, 2) {
	case 0: // whole writes
	case 1: // tiny segments
		hi := r.Range(1, 7)
		d.Seg = core.Tape(r, r.Range(1, 9), func() int { return r.Range(1, hi) })
	case 2: // mixed
		d.Seg = core.Tape(r, r.Range(2, 12), func() int {
			switch r.Pick(2, 2, 1) {
			case 0:
				return r.Range(1, 3)
			case 1:
				return r.Range(4, 200)
			}
			return 0
		})
	case 3: // single bytes
		d.Seg = []int{1}
	}
	scale := []int{0, 10, 200, 3000, 50000}[r.Intn(5)]
	d.LatUs = core.Tape(r, r.Range(1, 6), func() int { return r.Intn(scale + 1) })
	// TCP style coalescing of back-to-back writes: the receiver finds the end of
	// one write and the start of the next in one read
	if r.Chance(0.25) {
		dens := core.Choice(r, []float64{0.3, 0.7, 1})
		d.Coalesce = core.Tape(r, r.Range(1, 7), func() int {
			if r.Chance(dens) {
				return 1
			}
			return 0
		})
		if scale == 0 {
			d.LatUs = []int{r.Range(50, 5000)} // something must still be in flight to be merged with
		}
	}
	// back-pressure: a writer that runs ahead of the reader blocks (net.Pipe, a full TNC buffer)
	switch r.Pick(14, 3, 3) {
	case 1:
		d.Window = r.Range(1, 64)
	case 2:
		d.Window = r.Range(65, 2000)
	}
	return d
}

func genCaps(r *core.Rand) []string {
	var c []string
	for _, k := range []string{"flusher", "txbuffer", "robust"} {
		if r.Chance(0.3) {
			c = append(c, k)
		}
	}
	return c
}

func GenLink(r *core.Rand) pipe.Plan {
	l := pipe.Plan{AB: GenDir(r), BA: GenDir(r), CapsA: genCaps(r), CapsB: genCaps(r)}
	// a "tight" link: both directions hold only a few bytes (net.Pipe, a serial
	// line without buffers); then even a short error echo can block its writer
	if r.Chance(0.12) {
		l.AB.Window, l.BA.Window = r.Range(1, 40), r.Range(1, 40)
	}
	return l
}

var motds = []string{"Welcome to the simulated RMS", "Hello there", "*** MTD Stats Total connects = 2580 Total messages = 3900", "Line with trailing spaces  ", "73 de sim",
	// text that looks like part of a SID without being one (a SID line starts with [ and ends with ])
	"Sysop is [LA1B-10], 73!", "[News-1] bulletins for [ALL] on 2026-09-26", "See [FBB-7.00-AB1B2FHMX$] for details"}

// GenStations draws two stations with message sets and mutual answer policies.
// maxMsgs bounds the number of messages each way, size scales body/attachment sizes.
func GenStations(r *core.Rand, maxMsgs, size int) (a, b StationPlan) {
	used := map[string]bool{}
	callA, callB := "LA1SIM", "N0SIM-7"
	if r.Bool() {
		callA, callB = "SM5ABC-12", "W1XYZ"
	}
	mk := func(call, peer string) StationPlan {
		s := StationPlan{Call: call, Locator: core.Choice(r, []string{"JO59jw", "FN31", "", "JP20QH"})}
		n := 0
		switch r.Pick(1, 4, 3, 2) {
		case 1:
			n = r.Range(1, 3)
		case 2:
			n = r.Range(4, 7)
		case 3:
			n = r.Range(8, maxMsgs)
		}
		if n > maxMsgs {
			n = maxMsgs
		}
		for i := 0; i < n; i++ {
			sz := size
			if r.Chance(0.7) {
				sz = size / 8
			}
			s.Msgs = append(s.Msgs, GenMsg(r, used, call, peer, sz+1))
		}
		// MIDs are case-sensitive: now and then two messages differ in letter case only
		if len(s.Msgs) >= 2 && r.Chance(0.08) {
			src := s.Msgs[r.Intn(len(s.Msgs))].MID
			v := caseVariant(r, src)
			if v != src && !used[v] {
				used[v] = true
				s.Msgs[r.Intn(len(s.Msgs))].MID = v
			}
		}
		s.Batched = r.Bool()
		s.Gzip = r.Chance(0.25)
		if r.Chance(0.3) {
			for i, k := 0, r.Range(1, 3); i < k; i++ {
				s.Motd = append(s.Motd, core.Choice(r, motds))
			}
		}
		if r.Chance(0.3) {
			s.Robust = core.Choice(r, []string{"forced", "disabled"})
		}
		if r.Chance(0.3) {
			s.UA = []string{core.Choice(r, []string{"wl2kgo", "pat", "RMS Sim"}), fmt.Sprintf("%d.%d.%d", r.Intn(9), r.Intn(20), r.Intn(9))}
		}
		return s
	}
	a, b = mk(callA, callB), mk(callB, callA)
	pol := func(msgs []Msg) map[string]string {
		p := map[string]string{}
		mode := r.Pick(4, 3, 1, 1) // mostly accept, mixed, all reject, all defer
		for _, m := range msgs {
			switch mode {
			case 0:
				if r.Chance(0.1) {
					p[m.MID] = core.Choice(r, []string{"-", "="})
				}
			case 1:
				p[m.MID] = core.Choice(r, []string{"+", "+", "-", "="})
			case 2:
				p[m.MID] = "-"
			case 3:
				p[m.MID] = "="
			}
		}
		return p
	}
	a.Policy, b.Policy = pol(b.Msgs), pol(a.Msgs)
	return
}

func sizeFor(tier string, r *core.Rand) int {
	if tier == "thorough" {
		switch r.Pick(6, 3, 1) {
		case 0:
			return r.Range(50, 4000)
		case 1:
			return r.Range(4000, 40000)
		default:
			return r.Range(40000, 200000)
		}
	}
	switch r.Pick(8, 2) {
	case 0:
		return r.Range(20, 2000)
	default:
		return r.Range(2000, 20000)
	}
}

func genC01(tier string, r *core.Rand) Scenario {
	a, b := GenStations(r, 22, sizeFor(tier, r))
	return Scenario{A: a, B: b, Sessions: []SessionPlan{{AMaster: r.Bool(), Link: GenLink(r)}}}
}

func caseVariant(r *core.Rand, mid string) string {
	b := []byte(mid)
	changed := false
	for i, c := range b {
		if c >= 'A' && c <= 'Z' && (r.Bool() || !changed) {
			b[i] = c + 32
			changed = true
		}
	}
	return string(b)
}
