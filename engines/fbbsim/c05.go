package fbbsim

import (
	"bytes"
	"encoding/json"
	"fmt"
	"net"
	"strconv"
	"strings"
	"testing"
	"time"

	"github.com/la5nta/wl2k-go/fbb"
	"verif/ref/b2f"
	"verif/ref/mbox"
	"verif/sim/core"
	"verif/sim/pipe"
)

// PeerPlan is the plan of the library-vs-reference-peer engines (C05, C16, C03).
type PeerPlan struct {
	Lib       StationPlan `json:"lib"`
	LibMaster bool        `json:"lib_master"`
	Aux       []string    `json:"aux,omitempty"` // auxiliary addresses of the library station
	// Passwords known to the library's secure-login callback (address -> password);
	// NoCallback: no callback registered; ErrFor: callback returns an error for these addresses.
	Passwords  map[string]string `json:"passwords,omitempty"`
	NoCallback bool              `json:"no_callback,omitempty"`
	ErrFor     []string          `json:"err_for,omitempty"`
	Peer       b2f.Config        `json:"peer"`
	PeerMsgs   []Msg             `json:"peer_msgs,omitempty"`
	Link       pipe.Plan         `json:"link"`
	RefCodec   bool              `json:"ref_codec,omitempty"` // peer compresses with the reference encoder
}

func precedenceOf(subject string) int {
	switch {
	case strings.Contains(subject, "//WL2K Z/"):
		return 0
	case strings.Contains(subject, "//WL2K O/"):
		return 1
	case strings.Contains(subject, "//WL2K P/"):
		return 2
	}
	return 3
}

func asciiTitle(s string) string {
	var sb strings.Builder
	for _, r := range s {
		if r >= 0x20 && r <= 0x7e {
			sb.WriteRune(r)
		} else {
			sb.WriteByte('?')
		}
	}
	t := strings.TrimSpace(sb.String())
	if t == "" {
		t = "No title"
	}
	if len(t) > 80 {
		t = t[:80]
	}
	return t
}

// peerRun is the outcome of one library-vs-peer session.
type peerRun struct {
	lib      *stationRT
	res      *sessResult
	peer     *b2f.Result
	peerRaw  map[string][]byte // MID -> serialised message the peer offered
	peerMIDs []string
	finished bool
	hist     []mbox.Event
	wire     []byte // everything the Session wrote
}

// decodeCodec is what judges the Session's payloads. It is replaced by the
// independent decoder in codec_ref.go when ref/lzhuf is present.
var decodeCodec b2f.Codec = libCodec{}
var encodeCodecs = []b2f.Codec{libCodec{}}

type splitCodec struct{ enc, dec b2f.Codec }

func (c splitCodec) Compress(raw []byte) []byte          { return c.enc.Compress(raw) }
func (c splitCodec) Decompress(s []byte) ([]byte, error) { return c.dec.Decompress(s) }

type peerOpts struct {
	hostile []HostileMsg
	// remote, when set, replaces the reference peer on the B end.
	remote func(c *pipe.End)
	// afterRemote > 0: wait for the remote to finish first, then give Exchange
	// this much simulated time to return (C03's "once the input ends").
	afterRemote time.Duration
	// tapSent sees the remote's bytes as written (before in-flight edits).
	tapSent func([]byte)
	// tapSeen sees the remote's bytes as delivered to the Session (after edits).
	tapSeen func([]byte)
}

func runPeerSession(sim *core.Sim, pp PeerPlan) *peerRun {
	return runPeerSessionWith(sim, pp, peerOpts{})
}

func runPeerSessionOpts(sim *core.Sim, pp PeerPlan, hostile []HostileMsg, after time.Duration) *peerRun {
	return runPeerSessionWith(sim, pp, peerOpts{hostile: hostile, afterRemote: after})
}

func runPeerSessionCustom(sim *core.Sim, pp PeerPlan, after time.Duration, remote func(c *pipe.End)) *peerRun {
	return runPeerSessionWith(sim, pp, peerOpts{remote: remote, afterRemote: after})
}

func runPeerSessionWith(sim *core.Sim, pp PeerPlan, opts peerOpts) *peerRun {
	// a station has a call sign (a reduced plan may say otherwise)
	pp.Lib.Call = ownCall(pp.Lib.Call)
	hist := mbox.NewHistory(sim)
	lib := newStation("L", pp.Lib, hist)
	lib.h.NextSession()
	pr := &peerRun{lib: lib, res: &sessResult{}, peerRaw: map[string][]byte{}}

	cfg := pp.Peer
	// An FQ out of turn crosses the Session's own FF on the wire. That is only
	// harmless where the link buffers a line in each direction (TCP, a TNC);
	// on a link that holds a byte or two both writers would wait for each
	// other for ever, and the peer, not the Session, would be to blame.
	for _, w := range []int{pp.Link.AB.Window, pp.Link.BA.Window} {
		if w > 0 && w < 16 {
			cfg.HastyFQ = false
		}
	}
	cfg.Master = !pp.LibMaster
	cfg.MyCall = orStr(cfg.MyCall, "P4EER")
	cfg.TheirCall = strings.ToUpper(pp.Lib.Call)
	enc := encodeCodecs[0]
	if pp.RefCodec && len(encodeCodecs) > 1 {
		enc = encodeCodecs[1]
	}
	cfg.Codec = splitCodec{enc, decodeCodec}
	cfg.Expect = map[string]b2f.Expect{}
	for _, d := range pp.Lib.Msgs {
		if raw, ok := lib.queued[d.MID]; ok {
			cfg.Expect[d.MID] = b2f.Expect{Raw: raw, Prec: precedenceOf(d.Subject)}
		}
	}
	seen := map[string]bool{}
	cfg.Out = nil
	for _, d := range pp.PeerMsgs {
		_, raw, ok := d.Build()
		if !ok || seen[d.MID] {
			continue
		}
		seen[d.MID] = true
		pr.peerRaw[d.MID] = raw
		pr.peerMIDs = append(pr.peerMIDs, d.MID)
		cfg.Out = append(cfg.Out, b2f.OutMsg{MID: d.MID, Title: asciiTitle(d.Subject), Raw: raw, From: d.From})
	}
	for _, h := range opts.hostile {
		om := b2f.OutMsg{MID: h.MID, Title: orStr(h.Title, "t"), Raw: h.Raw, Stream: h.Stream}
		if om.Stream == nil && om.Raw == nil {
			om.Raw = []byte{}
		}
		// hostile messages go first so that they are reached before anything else fails
		cfg.Out = append([]b2f.OutMsg{om}, cfg.Out...)
	}
	cfg.Log = func(s string) { sim.Logf("peer %s", s) }

	link := pipe.New(sim, pp.Link)
	link.Tap(func(p []byte) { pr.wire = append(pr.wire, p...) }, opts.tapSeen) // A = library end

	s := lib.session(&stationRT{plan: StationPlan{Call: cfg.MyCall}}, pp.LibMaster)
	for _, a := range pp.Aux {
		s.AddAuxiliaryAddress(fbb.AddressFromString(a))
	}
	if !pp.NoCallback {
		errFor := map[string]bool{}
		for _, a := range pp.ErrFor {
			errFor[a] = true
		}
		pw := pp.Passwords
		s.SetSecureLoginHandleFunc(func(addr fbb.Address) (string, error) {
			if errFor[addr.Addr] {
				return "", fmt.Errorf("no password for %s", addr.Addr)
			}
			return pw[addr.Addr], nil
		})
	}
	gl := lib.exchange(sim, s, pipe.WithCaps(link.A, pp.Link.CapsA), link.A, pr.res)
	sim.Pause()
	gp := core.Go(func() {
		if opts.remote != nil {
			opts.remote(link.B)
			return
		}
		var c net.Conn = link.B
		if opts.tapSent != nil {
			c = tapConn{link.B, opts.tapSent}
		}
		pr.peer = b2f.Run(c, cfg)
	})
	if opts.afterRemote > 0 {
		pr.finished = core.WaitAll(sessionBudget, gp) && core.WaitAll(opts.afterRemote, gl)
	} else {
		pr.finished = core.WaitAll(sessionBudget, gl, gp)
	}
	if !pr.finished {
		link.Kill()
		link.A.Close()
		link.B.Close()
		core.WaitAll(time.Hour, gl, gp)
	}
	if gp.Panic != nil {
		sim.Violate("HARNESS", "peer-panic", "ref-b2f", "reference peer panicked: %v\n%s", gp.Panic, gp.Stack)
	}
	if pr.peer == nil {
		pr.peer = &b2f.Result{}
	}
	pr.hist = hist.Snapshot()
	return pr
}

func orStr(s, d string) string {
	if s == "" {
		return d
	}
	return s
}

func answerClass(tok string) byte {
	ts, err := b2f.ParseAnswers(tok)
	if tok == "" || err != nil || len(ts) != 1 {
		return '+'
	}
	return ts[0].Kind
}

// checkC05 applies the conformance oracle to a finished run.
func checkC05(sim *core.Sim, prop string, pp PeerPlan, pr *peerRun) {
	// Root cause first: an 'H' answer ("accepted but will be held",
	// protocole.html) obliges the sender to transfer the message. If the Session
	// reported it deferred instead, the two sides are out of step from there on
	// and every later symptom (stall, size mismatch) is a consequence.
	for _, e := range pr.hist {
		if e.Kind == "setdeferred" && strings.EqualFold(pp.Peer.Answers[e.MID], "H") {
			sim.Violate(prop, "accept", "held-answer-treated-as-defer", "peer answered H (accepted, held) for %s; the Session reported it deferred and did not transfer it", e.MID)
			return
		}
	}
	if pr.res.panicVal != nil {
		sim.Violate(prop, "panic", core.PanicClass(pr.res.panicVal)+"@"+core.RepoFrame(pr.res.stack), "Exchange panicked: %v\n%s", pr.res.panicVal, pr.res.stack)
		return
	}
	for _, f := range pr.peer.Findings {
		sim.Violate(prop, "emit", f.Clause+"-"+f.Detail, "%s", f.Msg)
	}
	if !pr.finished {
		sim.Violate(prop, "stall", "peer-waiting-"+strings.ReplaceAll(pr.peer.Waiting, ":", "-"), "session stalled: the conforming peer was waiting for %q and the Session never produced it", pr.peer.Waiting)
		return
	}
	if len(pr.peer.Findings) > 0 {
		return // outcome checks are meaningless after the validator bailed out
	}
	if pr.peer.RemoteErr != "" {
		sim.Violate(prop, "accept", "session-rejected-conforming-peer", "the Session answered a conforming peer with %q", pr.peer.RemoteErr)
		return
	}
	if pr.res.err != nil {
		sim.Violate(prop, "accept", "exchange-error", "Exchange returned %v against a conforming peer", pr.res.err)
		return
	}
	if pr.peer.Hasty {
		sim.Probe("peer-quit-out-of-turn-behind-its-last-block")
	}
	if !pr.peer.Completed {
		sim.Violate(prop, "outcome", "peer-not-completed", "the peer did not reach FQ: %s", pr.peer.Stopped)
		return
	}
	if !pr.res.closed {
		sim.Violate(prop, "outcome", "conn-not-closed", "Exchange returned without closing the connection")
	}
	// the forwarder list announces the station's own call and every auxiliary
	// address, in the order they were configured (hashes are C16's business)
	if fw := strings.TrimSpace(strings.TrimPrefix(pr.peer.FWLine, ";FW:")); pr.peer.FWLine != "" {
		var got []string
		for _, f := range strings.Fields(fw) {
			got = append(got, strings.SplitN(f, "|", 2)[0])
		}
		want := []string{strings.ToUpper(ownCall(pp.Lib.Call))}
		for _, a := range pp.Aux {
			want = append(want, wireAddr(a))
		}
		if strings.Join(got, " ") != strings.Join(want, " ") {
			sim.Violate(prop, "emit", "forwarder-list-incomplete", ";FW line %q announces %v, configured: %v", pr.peer.FWLine, got, want)
		} else if len(pp.Aux) >= 2 {
			sim.Probe("forwarder-list-with-two-or-more-auxiliary-addresses")
		}
	}
	// library outbound: callbacks per the peer's answers
	proposed := map[string]bool{}
	for _, blk := range pr.peer.Proposed {
		for _, m := range blk {
			proposed[m] = true
		}
	}
	cb := map[string][3]int{} // sent(false), sent(true), deferred
	for _, e := range pr.hist {
		c := cb[e.MID]
		switch {
		case e.Kind == "setsent" && !e.Rejected:
			c[0]++
		case e.Kind == "setsent" && e.Rejected:
			c[1]++
		case e.Kind == "setdeferred":
			c[2]++
		}
		cb[e.MID] = c
	}
	allProposed := true
	for _, mid := range pr.lib.order {
		c := cb[mid]
		if !proposed[mid] {
			allProposed = false
			if c != [3]int{} {
				sim.Violate(prop, "outcome", "callback-for-unproposed", "%s never proposed but callbacks %v", mid, c)
			}
			continue
		}
		switch answerClass(pp.Peer.Answers[mid]) {
		case '+':
			if _, ok := pr.peer.Received[mid]; !ok {
				sim.Violate(prop, "outcome", "accepted-not-transferred", "peer accepted %s (%q) but never received it", mid, pp.Peer.Answers[mid])
			}
			if tl, ok := pr.peer.Tails[mid]; ok {
				sim.Probe("transfer-resumed-at-a-nonzero-offset")
				// the announced image is the library's own compression of the queued message
				if img := (libCodec{}).Compress(pr.lib.queued[mid]); tl.Off <= len(img) && !bytes.Equal(img[tl.Off:], tl.Data) {
					sim.Violate(prop, "emit", "resumed-transfer-wrong-bytes", "peer asked for %s from offset %d: the %d bytes sent are not the compressed message from that offset on (%d bytes)", mid, tl.Off, len(tl.Data), len(img)-tl.Off)
				}
			}
			if c != [3]int{1, 0, 0} {
				sim.Violate(prop, "outcome", "accepted-callbacks", "peer accepted %s (%q): callbacks sent/rejected/deferred = %v", mid, pp.Peer.Answers[mid], c)
			}
		case '-':
			if c != [3]int{0, 1, 0} {
				sim.Violate(prop, "outcome", "rejected-callbacks", "peer rejected %s (%q): callbacks sent/rejected/deferred = %v", mid, pp.Peer.Answers[mid], c)
			}
		case '=':
			if c != [3]int{0, 0, 1} {
				sim.Violate(prop, "outcome", "deferred-callbacks", "peer deferred %s (%q): callbacks sent/rejected/deferred = %v", mid, pp.Peer.Answers[mid], c)
			}
		}
	}
	if !allProposed && !pp.Peer.EarlyFQ {
		sim.Violate(prop, "outcome", "messages-never-proposed", "session ended with queued messages that were never proposed")
	}
	// library inbound: what the peer offered
	inb := map[string][]byte{}
	inbN := map[string]int{}
	for _, e := range pr.hist {
		if e.Kind == "inbound-ok" {
			inb[e.MID] = e.Data
			inbN[e.MID]++
		}
	}
	unoffered := map[string]bool{}
	for _, mid := range pr.peer.Unoffered {
		unoffered[mid] = true // mail that reached the peer's outbox after the session had ended (Config.Late)
	}
	for _, mid := range pr.peerMIDs {
		want := pp.Lib.Policy[mid]
		if want == "" {
			want = "+"
		}
		if unoffered[mid] {
			if inbN[mid] != 0 {
				sim.Violate(prop, "outcome", "inbound-never-offered", "peer message %s was never proposed but handed to the handler", mid)
			}
			continue
		}
		got, answered := pr.peer.GotAnswers[mid]
		if !answered {
			sim.Violate(prop, "outcome", "peer-message-unanswered", "peer message %s was never answered", mid)
			continue
		}
		if string(got) != want {
			sim.Violate(prop, "outcome", "answer-differs-from-handler", "peer message %s: handler policy %s, wire answer %c", mid, want, got)
		}
		if want == "+" {
			if inbN[mid] != 1 {
				sim.Violate(prop, "outcome", "inbound-not-once", "peer message %s accepted: handed to the handler %d times", mid, inbN[mid])
			} else if !bytes.Equal(inb[mid], pr.peerRaw[mid]) {
				sim.Violate(prop, "outcome", "inbound-content", "peer message %s arrived altered (%d vs %d bytes)", mid, len(inb[mid]), len(pr.peerRaw[mid]))
			}
		} else if inbN[mid] != 0 {
			sim.Violate(prop, "outcome", "inbound-unwanted", "peer message %s answered %s but handed to the handler", mid, want)
		}
	}
	for mid := range inbN {
		if _, ok := pr.peerRaw[mid]; !ok {
			sim.Violate(prop, "outcome", "inbound-unknown", "handler received unknown MID %q", mid)
		}
	}
}

var sids = []string{"[WL2K-5.0-B2FWIHJM$]", "[RMS Express-1.5.7.0-B2FHM$]", "[paclink-unix-0.10-B2FIHM$]", "[FBB-7.00-AB1B2FHMX$]", "[RefPeer-B2FHM$]", "[WL2K-2.8.4.8-B2FWIHJM$]"}
var answerForms = map[byte][]string{
	'+': {"+", "Y", "y", "H", "h", "!0", "A0", "a0"},
	'-': {"-", "N", "n", "R", "r"},
	'=': {"=", "L", "l"},
}

func genC05(tier string, r *core.Rand) PeerPlan {
	size := sizeFor(tier, r)
	a, b := GenStations(r, 22, size)
	a.Gzip = false
	pp := PeerPlan{Lib: a, LibMaster: r.Bool(), PeerMsgs: b.Msgs, Link: GenLink(r)}
	pp.Lib.Status = false
	if r.Chance(0.3) {
		for i, n := 0, r.Range(1, 3); i < n; i++ {
			pp.Aux = append(pp.Aux, core.Choice(r, []string{"LA1B", "N0AUX-3", "SK0MK", "club@example.org"}))
		}
	}
	p := &pp.Peer
	p.MyCall = b.Call
	p.SID = core.Choice(r, sids)
	if !pp.LibMaster { // peer is master
		if r.Chance(0.4) {
			for i, n := 0, r.Range(1, 3); i < n; i++ {
				p.Motd = append(p.Motd, core.Choice(r, []string{"Welcome to the reference RMS", "*** MTD Stats Total connects = 2580 Total messages = 3900", "Brevity is the soul of wit", "Hello LA5NTA [not a sid", "Sysop is [LA1B-10], 73!", "[News-1] bulletins for [ALL] on 2026-09-26"}))
			}
		}
		p.Prompt = core.Choice(r, []string{"CMS>", ">", "Brentwood CMS >", b.Call + ">"})
	}
	if r.Chance(0.5) {
		p.FW = []string{b.Call}
		if r.Chance(0.5) {
			p.FW = append(p.FW, "AUX1|12345678", "AUX2")
		}
	}
	for _, at := range []string{"handshake", "before-proposal", "between-proposals", "before-fs", "before-ff"} {
		if r.Chance(0.2) {
			p.CommentAt = append(p.CommentAt, at)
		}
	}
	p.PM = r.Chance(0.3)
	p.DupFirst = r.Chance(0.15)
	p.DupSrc, p.DupPos = r.Intn(4), r.Intn(4)
	p.BlockSize = r.Pick(0, 1, 1, 1, 1, 6)
	switch r.Pick(3, 2, 2, 2) {
	case 0:
		p.DataBlocks = []int{250}
	case 1:
		p.DataBlocks = []int{256}
	case 2:
		p.DataBlocks = core.Tape(r, r.Range(1, 6), func() int { return r.Range(1, 256) })
	case 3:
		p.DataBlocks = core.Tape(r, r.Range(1, 4), func() int { return r.Range(1, 8) })
	}
	p.Answers = map[string]string{}
	style := r.Intn(3)       // symbols, letters, mixed
	allowH := r.Chance(0.08) // the H form is a known finding: keep it to a small share of the plans
	for _, m := range pp.Lib.Msgs {
		cls := byte('+')
		switch r.Pick(6, 2, 2) {
		case 1:
			cls = '-'
		case 2:
			cls = '='
		}
		forms := answerForms[cls]
		if cls == '+' && !allowH {
			forms = []string{"+", "Y", "y", "!0", "A0", "a0"}
		}
		if cls == '+' && !pp.Lib.Gzip && (r.Chance(0.1) || m.RawSubject && r.Chance(0.5)) {
			// resume request: accept from a non-zero offset
			p.Answers[m.MID] = core.Choice(r, []string{"!", "A", "a"}) + "p" + strconv.Itoa(r.Range(0, 99))
			continue
		}
		switch style {
		case 0:
			p.Answers[m.MID] = forms[0]
		case 1:
			p.Answers[m.MID] = forms[1+r.Intn(len(forms)-1)]
		default:
			p.Answers[m.MID] = core.Choice(r, forms)
		}
	}
	p.EarlyFQ = r.Chance(0.15)
	p.HastyFQ = r.Chance(0.15)
	if !p.EarlyFQ && r.Chance(0.15) {
		p.Late = r.Range(1, 3) // the peer's mail arrives during the session
	}
	if !pp.LibMaster && r.Chance(0.2) {
		// a challenge: the ;FW line then carries address|hash entries
		p.Challenge = fmt.Sprintf("%08d", r.Intn(100000000))
		pp.Passwords = map[string]string{strings.ToUpper(pp.Lib.Call): "pWprimary1"}
		for i, a := range pp.Aux {
			if r.Chance(0.7) {
				pp.Passwords[a] = fmt.Sprintf("pWaux%d", i)
			}
		}
	}
	pp.RefCodec = r.Bool()
	return pp
}

func execC05(t *testing.T, prop string, raw json.RawMessage, trace bool) core.Outcome {
	var pp PeerPlan
	var out core.Outcome
	if err := json.Unmarshal(raw, &pp); err != nil {
		out.Violate(prop, "harness", "bad-plan", fmt.Sprint("unusable plan: ", err))
		return out
	}
	pp.Peer.Byzantine = false
	pp.Peer.Mut = nil
	if len(pp.Passwords) == 0 || pp.LibMaster || pp.NoCallback {
		pp.Peer.Challenge = "" // secure login is C16's business; here it only shapes the ;FW line
	}
	leak, pv, stack := core.Bubble(t, trace, func(sim *core.Sim) {
		pr := runPeerSession(sim, pp)
		if pp.Peer.Challenge != "" {
			sim.Probe("session-with-secure-login")
		}
		checkC05(sim, prop, pp, pr)
		n := len(pr.peer.Received) + len(pr.peer.Sent)
		out.NonTrivial = n > 0
		sim.ProbeN("messages-transferred", n)
		for _, tok := range pp.Peer.Answers {
			sim.Probe("answer-form-" + strings.ToUpper(tok[:1]))
		}
		if pp.Peer.DupFirst && len(pr.peerMIDs) > 0 {
			sim.Probe("duplicate-mid-in-block")
		}
		if pp.Peer.EarlyFQ {
			sim.Probe("early-fq")
		}
		if pr.peer.HeldTurns > 0 {
			sim.Probe("peer-said-ff-before-its-mail-arrived")
			if len(pr.peer.Unoffered) < len(pr.peerMIDs) {
				sim.Probe("peer-proposed-after-having-said-ff")
			}
		}
		if len(pp.Peer.CommentAt) > 0 {
			sim.Probe("comments")
		}
		out.Sample = map[string]any{"lib_master": pp.LibMaster, "lib_msgs": len(pr.lib.order), "peer_msgs": len(pr.peerMIDs), "sid": pp.Peer.SID, "answers": pp.Peer.Answers, "data_blocks": pp.Peer.DataBlocks, "proposed_blocks": pr.peer.Proposed, "seg_ab": pp.Link.AB.Seg, "seg_ba": pp.Link.BA.Seg}
		sim.FillOutcome(&out)
	})
	if pv != nil {
		out.Violate(prop, "harness", "bubble-panic", fmt.Sprintf("%v\n%s", pv, stack))
	}
	if leak {
		out.Violate(prop, "harness", "goroutines-left-blocked", "goroutines were still blocked when the run ended")
	}
	return out
}

// tapConn reports every successful Write to a tap (the stream as sent).
type tapConn struct {
	*pipe.End
	tap func([]byte)
}

func (c tapConn) Write(p []byte) (int, error) {
	n, err := c.End.Write(p)
	if n > 0 {
		c.tap(p[:n])
	}
	return n, err
}

// ownCall: the station's call sign as the executor uses it.
func ownCall(c string) string {
	if strings.TrimSpace(c) == "" || strings.ContainsAny(c, " \t\r\n|") {
		return "N0CALL"
	}
	return c
}
