package fbbsim

import "runtime/debug"

func stackOf() string { return string(debug.Stack()) }
