package codecsim

import (
	"encoding/base64"
	"encoding/json"

	ref "verif/ref/lzhuf"
	"verif/sim/core"
)

// B64 is a byte string in a plan. Decoding is lenient (the reducer truncates
// strings): whatever prefix decodes is used.
type B64 []byte

func (b B64) MarshalJSON() ([]byte, error) {
	return json.Marshal(base64.StdEncoding.EncodeToString(b))
}

func (b *B64) UnmarshalJSON(raw []byte) error {
	var s string
	if json.Unmarshal(raw, &s) != nil {
		*b = nil
		return nil
	}
	for len(s) > 0 {
		if d, err := base64.StdEncoding.DecodeString(s); err == nil {
			*b = d
			return nil
		}
		if d, err := base64.RawStdEncoding.DecodeString(s); err == nil {
			*b = d
			return nil
		}
		s = s[:len(s)-1]
	}
	*b = nil
	return nil
}

// Seg is one piece of a generated input. The input of a plan is the
// concatenation of its expanded segments; expansion is a pure function.
//
//	lit  : the bytes D
//	rand : N pseudo-random bytes from seed S over an alphabet of A values starting at byte B (A<=0: all 256)
//	run  : N times byte B
//	rep  : D repeated until N bytes
//	copy : N bytes copied from Dist bytes back in what has been produced so far
//	       (byte by byte, so Dist < N repeats; before the start of the input: spaces,
//	       which is what the codec's window is pre-filled with)
type Seg struct {
	K    string `json:"k"`
	D    B64    `json:"d,omitempty"`
	N    int    `json:"n,omitempty"`
	S    int64  `json:"s,omitempty"`
	A    int    `json:"a,omitempty"`
	B    int    `json:"b,omitempty"`
	Dist int    `json:"dist,omitempty"`
}

const maxInput = 1 << 20

func expand(segs []Seg) []byte {
	var out []byte
	room := func(n int) int {
		if n < 0 {
			n = 0
		}
		if len(out)+n > maxInput {
			n = maxInput - len(out)
		}
		return n
	}
	for _, s := range segs {
		switch s.K {
		case "rand":
			a := s.A
			if a <= 0 || a > 256 {
				a = 256
			}
			rng := ref.NewRNG(uint64(s.S))
			for i, n := 0, room(s.N); i < n; i++ {
				out = append(out, byte(s.B+rng.Intn(a)))
			}
		case "run":
			for i, n := 0, room(s.N); i < n; i++ {
				out = append(out, byte(s.B))
			}
		case "rep":
			if len(s.D) == 0 {
				continue
			}
			for i, n := 0, room(s.N); i < n; i++ {
				out = append(out, s.D[i%len(s.D)])
			}
		case "copy":
			d := s.Dist
			if d < 1 {
				d = 1
			}
			for i, n := 0, room(s.N); i < n; i++ {
				c := byte(' ')
				if j := len(out) - d; j >= 0 {
					c = out[j]
				}
				out = append(out, c)
			}
		default: // "lit" and anything unknown
			out = append(out, s.D[:room(len(s.D))]...)
		}
	}
	return out
}

func seed(r *core.Rand) int64 { return int64(r.Uint64() >> 12) }

var words = []string{"the ", "quick ", "brown ", "fox ", "jumps ", "over ", "lazy ", "dog ", "Winlink ", "B2F ", "\r\n", "Date: 2016/01/01 12:00\r\n", "To: LA5NTA\r\n", "73 de ", ". ", "and ", "of ", "a "}

// genInput draws an input of roughly size bytes from one of the families the
// property names. The family label goes into the sample.
func genInput(r *core.Rand, size int) (segs []Seg, family string) {
	if size < 0 {
		size = 0
	}
	switch r.Pick(3, 3, 3, 3, 3, 3, 2, 3) {
	case 0:
		family = "random"
		segs = []Seg{{K: "rand", N: size, S: seed(r)}}
	case 1:
		family = "small-alphabet"
		segs = []Seg{{K: "rand", N: size, S: seed(r), A: r.Range(1, 6), B: core.Choice(r, []int{0, ' ', 'a', 250})}}
	case 2:
		family = "run-length"
		for n := 0; n < size; {
			l := r.Range(1, 400)
			if r.Chance(0.2) {
				l = r.Range(55, 65)
			}
			segs = append(segs, Seg{K: "run", N: l, B: core.Choice(r, []int{0, ' ', 'a', 'b', 255, r.Intn(256)})})
			n += l
		}
	case 3:
		family = "repetitive"
		unit := r.Bytes(r.Range(1, 70))
		if r.Bool() {
			unit = []byte(core.Choice(r, words) + core.Choice(r, words))
		}
		segs = []Seg{{K: "rep", D: unit, N: size}}
	case 4:
		family = "long-matches"
		// fresh material followed by copies of length around the 60-byte limit
		segs = []Seg{{K: "rand", N: r.Range(1, 300), S: seed(r), A: r.Range(2, 256)}}
		for n := 0; n < size; {
			if r.Chance(0.3) {
				l := r.Range(1, 40)
				segs = append(segs, Seg{K: "rand", N: l, S: seed(r), A: r.Range(2, 256)})
				n += l
				continue
			}
			l := core.Choice(r, []int{3, 4, 58, 59, 60, 61, 62, 119, 120, 121, r.Range(3, 200)})
			segs = append(segs, Seg{K: "copy", N: l, Dist: r.Range(1, 300)})
			n += l
		}
	case 5:
		family = "window-wrap"
		// matches whose source lies at the far edge of the 2048-byte window,
		// just inside and just outside of it
		segs = []Seg{{K: "rand", N: r.Range(60, 2100), S: seed(r), A: r.Range(2, 256)}}
		for n := 0; n < size; {
			if r.Chance(0.4) {
				l := r.Range(1, 70)
				segs = append(segs, Seg{K: "rand", N: l, S: seed(r), A: r.Range(2, 256)})
				n += l
				continue
			}
			l := r.Range(3, 130)
			d := core.Choice(r, []int{1985, 1986, 1987, 1988, 1989, 2040, 2046, 2047, 2048, 2049, 2050, 2107, 2108, r.Range(1900, 2200)})
			segs = append(segs, Seg{K: "copy", N: l, Dist: d})
			n += l
		}
	case 6:
		family = "spaces-and-initial-window"
		for n := 0; n < size; {
			l := r.Range(1, 100)
			if r.Bool() {
				segs = append(segs, Seg{K: "run", N: l, B: ' '})
			} else {
				segs = append(segs, Seg{K: "copy", N: l, Dist: r.Range(1, 2200)})
			}
			n += l
			if r.Chance(0.3) {
				segs = append(segs, Seg{K: "rand", N: r.Range(1, 5), S: seed(r), A: 3, B: ' '})
			}
		}
	default:
		family = "text"
		var b []byte
		for len(b) < size && len(b) < 4096 {
			b = append(b, core.Choice(r, words)...)
		}
		if len(b) > size {
			b = b[:size]
		}
		segs = []Seg{{K: "lit", D: b}}
		if size > len(b) {
			// long texts: mix words by copying earlier material around
			for n := len(b); n < size; {
				l := r.Range(2, 40)
				if r.Chance(0.25) {
					segs = append(segs, Seg{K: "rand", N: r.Range(1, 6), S: seed(r), A: 26, B: 'a'})
				}
				segs = append(segs, Seg{K: "copy", N: l, Dist: r.Range(1, 4000)})
				n += l
			}
		}
	}
	return segs, family
}

// genMixed concatenates several families.
func genMixed(r *core.Rand, size int) ([]Seg, string) {
	if r.Chance(0.75) {
		return genInput(r, size)
	}
	var segs []Seg
	k := r.Range(2, 4)
	for i := 0; i < k; i++ {
		s, _ := genInput(r, size/k)
		segs = append(segs, s...)
	}
	return segs, "mixed"
}
