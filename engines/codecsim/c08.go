package codecsim

import (
	"bytes"
	"crypto/sha256"
	"encoding/json"
	"fmt"
	"io"
	"sort"
	"testing"

	ref "verif/ref/lzhuf"
	"verif/sim/core"
)

// StreamSpec says how one valid base stream (or one raw byte string) is made.
//
//	lib     : the library's own Writer, fed with the partition Part
//	greedy  : reference encoder, canonical greedy parse
//	random  : reference encoder, seed-chosen parse (Seed, LitPct, Alias)
//	literal : reference encoder, literals only
//	raw     : Raw as it is (random bytes, crafted headers)
type StreamSpec struct {
	Enc    string `json:"enc"`
	Input  []Seg  `json:"input,omitempty"`
	Part   Part   `json:"part,omitempty"`
	Seed   int64  `json:"seed,omitempty"`
	LitPct int    `json:"lit_pct,omitempty"`
	Alias  bool   `json:"alias,omitempty"`
	Raw    B64    `json:"raw,omitempty"`
}

// Exec is one narrowed execution: exactly these bytes, read this way.
// ErrAt = k+1 makes the underlying reader fail with a non-EOF error at offset
// k (0: no error). Undamaged marks a stream that came straight from an encoder.
type Exec struct {
	Kind      string `json:"kind,omitempty"` // label only
	Data      B64    `json:"data"`
	CRC       bool   `json:"crc"`
	ErrAt     int    `json:"err_at,omitempty"`
	Bufs      []int  `json:"bufs,omitempty"`
	Src       []int  `json:"src,omitempty"`
	Undamaged bool   `json:"undamaged,omitempty"`
}

type C08Plan struct {
	CRC        bool         `json:"crc"`
	Streams    []StreamSpec `json:"streams,omitempty"`
	Bufs       []int        `json:"bufs,omitempty"`
	Src        []int        `json:"src,omitempty"`
	SampleSeed int64        `json:"sample_seed,omitempty"`
	AllBelow   int          `json:"all_below,omitempty"` // enumerate every prefix / error offset for streams up to this length
	Samples    int          `json:"samples,omitempty"`   // sample size used above the exhaustive limits
	Only       *Exec        `json:"only,omitempty"`      // narrowed replay: execute exactly this
}

const maxSamples = 4096

func buildStream(rep reportFn, sp StreamSpec, crc bool) (stream, input []byte, ok bool) {
	switch sp.Enc {
	case "raw":
		return sp.Raw, nil, true
	case "greedy":
		input = expand(sp.Input)
		return ref.EncodeGreedy(input, crc), input, true
	case "random":
		input = expand(sp.Input)
		pct := sp.LitPct
		if pct < 0 {
			pct = 0
		}
		if pct > 100 {
			pct = 100
		}
		return ref.EncodeRandom(input, crc, uint64(sp.Seed), ref.RandomOptions{LiteralPct: pct, Alias: sp.Alias, Exhaustive: len(input) <= 96}), input, true
	case "literal":
		input = expand(sp.Input)
		return ref.EncodeLiteral(input, crc), input, true
	default: // lib
		input = expand(sp.Input)
		snk := &sink{}
		werr, cerr, ok := compress(rep, input, crc, sp.Part, snk, newExecLog())
		if !ok || werr != nil || cerr != nil {
			return nil, input, false
		}
		return snk.buf, input, true
	}
}

func regimeOf(v ref.Verdict, ioerr bool) string {
	r := ""
	switch {
	case !v.HeaderOK:
		r = "no-header"
	case v.Declared < 0:
		r = "negative-size"
	case v.CutMatch:
		r = "match-overruns-size"
	case v.Exhausted:
		r = "input-ends-early"
	case v.Trailing > 0:
		r = "trailing-bytes"
	case !v.CRCOK:
		r = "crc-mismatch"
	default:
		r = "valid-stream"
	}
	_ = ioerr // an injected reader error only shortens what the decoder can see; the regime is that of the visible bytes
	return r
}

type c08Run struct {
	prop     string
	sim      *core.Sim
	out      *core.Outcome
	bySig    map[string]*core.Violation
	bySigLen map[string]int
	sigCount map[string]int
	hashes   map[string]struct{}
	n        int
}

// judge executes one (possibly damaged) stream against the library and the
// reference decoder and applies C08's oracles.
func (c *c08Run) judge(ex Exec) {
	c.n++
	c.out.Evals++
	data := []byte(ex.Data)
	errAt := -1
	if ex.ErrAt > 0 && ex.ErrAt-1 <= len(data) {
		errAt = ex.ErrAt - 1
	}
	visible := data
	if errAt >= 0 {
		visible = data[:errAt]
	}
	canon, v := ref.Decode(visible, ex.CRC)
	regime := regimeOf(v, errAt >= 0)
	declared := 0
	if v.HeaderOK && v.Declared > 0 {
		declared = int(v.Declared)
	}

	var viols []core.Violation
	rep := func(oracle, detail, format string, args ...any) {
		viols = append(viols, core.Violation{Property: c.prop, Signature: c.prop + "/" + oracle + "/" + detail,
			Message: fmt.Sprintf("[%s, %d-byte stream %s, crc=%v, err_at=%d, bufs=%v] ", ex.Kind, len(data), abbreviate(data), ex.CRC, errAt, ex.Bufs) + fmt.Sprintf(format, args...)})
	}
	lg := newExecLog()
	lg.add("stream %x crc=%v errAt=%d", sha256.Sum256(data), ex.CRC, errAt)
	res := readAll(rep, data, ex.CRC, ReadSched{Bufs: ex.Bufs, Src: ex.Src}, errAt, 4, len(canon)+len(data)+64, lg)
	got := res.out

	if res.srcFired {
		c.sim.Fault("reader-error")
	}
	if res.stuck {
		if res.zeroRuns > 4 {
			rep("termination", "zero-progress/"+regime, "Read returned (0,nil) %d times in a row for a non-empty buffer after delivering %d bytes (declared size %d, canonical decoding %d bytes); reading was stopped by the harness", res.zeroRuns, len(got), v.Declared, len(canon))
		} else {
			rep("termination", "read-budget/"+regime, "no end of stream or error after %d Read calls (budget = output+input+64); %d bytes delivered", res.calls, len(got))
		}
	}
	if len(got) > declared {
		rep("bounded-output", "more-than-declared/"+regime, "%d bytes delivered although the header declares %d", len(got), v.Declared)
	}
	n := len(got)
	if n > len(canon) {
		n = len(canon)
		c.sim.Probe("tentative-bytes-past-canonical-end")
	}
	if d := firstDiff(got[:n], canon[:n]); d >= 0 {
		rep("delivered-bytes", "differ-from-canonical", "byte %d delivered by Read is %#x, the canonical decoding has %#x", d, got[d], canon[d])
	}
	closedOK := !res.panicked && res.newErr == nil && res.closeErr == nil
	if closedOK {
		vOK := v.OK
		if !vOK && v.HeaderOK && v.SizeOK && ex.CRC && v.Trailing > 0 {
			// Trailing bytes after the last needed bit: how far a streaming
			// decoder reads ahead is its own business, so the CRC may cover
			// any extent between "all that was needed" and "everything".
			stored := uint16(visible[0]) | uint16(visible[1])<<8
			for e := v.Needed; e <= len(visible) && !vOK; e++ {
				vOK = ref.CRC16(visible[2:e]) == stored
			}
			if vOK {
				c.sim.Probe("crc-accepted-over-partial-extent")
			}
		}
		switch {
		case !vOK:
			rep("close-verdict", "nil-on-bad-stream/"+regime, "Reader.Close()==nil although the reference verdict is %+v", v)
		case !bytes.Equal(got, canon):
			rep("close-verdict", "nil-with-wrong-output/"+regime, "Reader.Close()==nil but the %d bytes read are not the canonical decoding (%d bytes, first difference at %d)", len(got), len(canon), firstDiff(got, canon))
		}
	}
	if ex.Undamaged && v.OK && v.Trailing == 0 && errAt < 0 && !res.panicked {
		if res.newErr != nil || res.readErr != io.EOF || res.closeErr != nil {
			rep("undamaged-stream", "rejected", "a valid, undamaged stream was not accepted: NewReader err=%v, Read ended with %v, Close()=%v", res.newErr, res.readErr, res.closeErr)
		}
	}

	nontrivial := v.HeaderOK && res.newErr == nil && res.calls > 0
	h := lg.sum()
	if nontrivial {
		c.out.NonTrivial = true
		c.hashes[h] = struct{}{}
		c.sim.Probe("regime/" + regime)
	}
	c.sim.Logf("x %s len=%d errAt=%d out=%d canon=%d new=%s read=%s close=%s v=%d h=%s", ex.Kind, len(data), errAt, len(got), len(canon), errStr(res.newErr), errStr(res.readErr), errStr(res.closeErr), len(viols), h)

	for i := range viols {
		vi := viols[i]
		c.sigCount[vi.Signature]++
		if old, ok := c.bySigLen[vi.Signature]; ok && old <= len(data) {
			continue // keep the smallest stream per signature
		}
		vi.Replay, _ = json.Marshal(C08Plan{CRC: ex.CRC, Only: &ex})
		c.bySig[vi.Signature] = &vi
		c.bySigLen[vi.Signature] = len(data)
	}
}

func rotate(t []int, k int) []int {
	if len(t) == 0 {
		return nil
	}
	k %= len(t)
	return append(append([]int{}, t[k:]...), t[:k]...)
}

func putSize(s []byte, crc bool, size int32) {
	off := 0
	if crc {
		off = 2
	}
	if len(s) < off+4 {
		return
	}
	u := uint32(size)
	s[off], s[off+1], s[off+2], s[off+3] = byte(u), byte(u>>8), byte(u>>16), byte(u>>24)
}

func fixCRC(s []byte) {
	if len(s) < 2 {
		return
	}
	c := ref.CRC16(s[2:])
	s[0], s[1] = byte(c), byte(c>>8)
}

func clone(b []byte) []byte { return append([]byte(nil), b...) }

// offsets returns every offset in [0,n) when n <= all, otherwise the ones
// near both ends and the header plus a seeded sample.
func offsets(n, all, samples int, rng *ref.RNG) []int {
	if n <= all {
		o := make([]int, n)
		for i := range o {
			o[i] = i
		}
		return o
	}
	set := map[int]struct{}{}
	for i := 0; i < 40 && i < n; i++ {
		set[i] = struct{}{}
		set[n-1-i] = struct{}{}
	}
	for i := 0; i < samples; i++ {
		set[rng.Intn(n)] = struct{}{}
	}
	o := make([]int, 0, len(set))
	for k := range set {
		o = append(o, k)
	}
	sort.Ints(o)
	return o
}

// enumerate runs every fault of the plan against base stream si.
func (c *c08Run) enumerate(pl *C08Plan, si int, stream []byte, undamagedOK bool, others [][]byte, rng *ref.RNG) {
	crc := pl.CRC
	hdr := 4
	if crc {
		hdr = 6
	}
	all := pl.AllBelow
	if all <= 0 {
		all = 2048
	}
	if all > 1<<16 {
		all = 1 << 16
	}
	samples := pl.Samples
	if samples <= 0 {
		samples = 256
	}
	if samples > maxSamples {
		samples = maxSamples
	}
	// keep the work per base stream bounded: about 48 MB of decoding
	if per := len(stream) * 3; per > 0 && samples > 48<<20/per {
		samples = 48 << 20 / per
		if samples < 12 {
			samples = 12
		}
	}
	run := func(kind string, data []byte, errAt int, undamaged bool) {
		c.judge(Exec{Kind: kind, Data: data, CRC: crc, ErrAt: errAt, Bufs: rotate(pl.Bufs, c.n), Src: rotate(pl.Src, c.n), Undamaged: undamaged})
	}
	tag := fmt.Sprintf("s%d/", si)

	run(tag+"undamaged", stream, 0, undamagedOK)

	// EOF after every prefix length
	for _, k := range offsets(len(stream), all, samples, rng) {
		run(tag+"eof", stream[:k], 0, false)
		c.sim.Fault("truncate")
	}
	// reader error at offset k (k = len: error instead of EOF)
	ioAll := all / 4
	for _, k := range offsets(len(stream)+1, ioAll, samples/4+1, rng) {
		run(tag+"ioerr", stream, k+1, false)
	}
	// single-bit flips
	var bits []int
	if len(stream) <= 512 {
		bits = offsets(len(stream)*8, len(stream)*8, 0, rng)
	} else {
		set := map[int]struct{}{}
		for b := 0; b < (hdr+16)*8 && b < len(stream)*8; b++ {
			set[b] = struct{}{}
		}
		for b := len(stream)*8 - 64; b < len(stream)*8; b++ {
			set[b] = struct{}{}
		}
		for i := 0; i < samples*2; i++ {
			set[rng.Intn(len(stream)*8)] = struct{}{}
		}
		for b := range set {
			bits = append(bits, b)
		}
		sort.Ints(bits)
	}
	for _, b := range bits {
		d := clone(stream)
		d[b>>3] ^= 0x80 >> uint(b&7)
		run(tag+"bitflip", d, 0, false)
		c.sim.Fault("bitflip")
	}
	if len(stream) >= hdr {
		// header edits: declared size
		off := hdr - 4
		trueSize := int32(uint32(stream[off]) | uint32(stream[off+1])<<8 | uint32(stream[off+2])<<16 | uint32(stream[off+3])<<24)
		sizes := []int32{-1, 0, trueSize - 1, trueSize + 1, 1<<31 - 1, -1 << 31, -trueSize, -2, trueSize - 2, trueSize - 3, trueSize - 59, trueSize - 60, trueSize + 60, trueSize / 2, 1, trueSize + 4096}
		seen := map[int32]bool{trueSize: true}
		for _, sz := range sizes {
			if seen[sz] {
				continue
			}
			seen[sz] = true
			d := clone(stream)
			putSize(d, crc, sz)
			run(tag+"size-edit", d, 0, false)
			c.sim.Fault("size-edit")
			if crc {
				d2 := clone(d)
				fixCRC(d2)
				run(tag+"size-edit-crc-fixed", d2, 0, false)
				c.sim.Fault("size-edit")
			}
		}
		if crc {
			for _, f := range []func(d []byte){
				func(d []byte) { d[0] ^= 1 },
				func(d []byte) { d[1] ^= 0x80 },
				func(d []byte) { d[0], d[1] = 0, 0 },
				func(d []byte) { d[0], d[1] = d[1], d[0] },
				func(d []byte) { d[0], d[1] = 0xff, 0xff },
			} {
				d := clone(stream)
				f(d)
				if !bytes.Equal(d, stream) {
					run(tag+"crc-edit", d, 0, false)
					c.sim.Fault("crc-edit")
				}
			}
		}
		// trailing garbage and a dropped / doubled byte
		for i := 0; i < 3; i++ {
			d := clone(stream)
			for k, n := 0, 1+rng.Intn(8); k < n; k++ {
				d = append(d, byte(rng.Intn(256)))
			}
			if crc && i > 0 {
				fixCRC(d)
			}
			run(tag+"trailing-bytes", d, 0, false)
			c.sim.Fault("trailing-bytes")
		}
		for i := 0; i < 8 && len(stream) > hdr; i++ {
			k := hdr + rng.Intn(len(stream)-hdr)
			d := append(clone(stream[:k]), stream[k+1:]...)
			if i%2 == 1 {
				d = append(append(clone(stream[:k]), stream[k]), stream[k:]...)
			}
			if crc && i >= 4 {
				fixCRC(d)
			}
			run(tag+"byte-drop-dup", d, 0, false)
			c.sim.Fault("byte-drop-dup")
		}
	}
	// splices with the other streams of the plan
	for oi, other := range others {
		if len(other) == 0 || len(stream) == 0 {
			continue
		}
		pairs := [][2]int{{hdr, hdr}, {len(stream), 0}, {hdr, 0}, {len(stream) / 2, len(other) / 2}}
		for i := 0; i < 24; i++ {
			pairs = append(pairs, [2]int{rng.Intn(len(stream) + 1), rng.Intn(len(other) + 1)})
		}
		for pi, p := range pairs {
			i, j := p[0], p[1]
			if i > len(stream) {
				i = len(stream)
			}
			if j > len(other) {
				j = len(other)
			}
			d := append(clone(stream[:i]), other[j:]...)
			if bytes.Equal(d, stream) {
				continue
			}
			if crc && pi%3 == 2 {
				fixCRC(d)
			}
			run(fmt.Sprintf("%ssplice-s%d", tag, oi), d, 0, false)
			c.sim.Fault("splice")
		}
	}
}

type c08Sample struct {
	CRC       bool
	Streams   []string
	Execs     int
	Violating map[string]int `json:",omitempty"`
}

func execC08(t *testing.T, prop string, raw json.RawMessage, trace bool) core.Outcome {
	var pl C08Plan
	var out core.Outcome
	if err := json.Unmarshal(raw, &pl); err != nil {
		out.Violate(prop, "harness", "bad-plan", fmt.Sprint("unusable plan: ", err))
		return out
	}
	c := &c08Run{prop: prop, out: &out, bySig: map[string]*core.Violation{}, bySigLen: map[string]int{}, sigCount: map[string]int{}, hashes: map[string]struct{}{}}
	smp := c08Sample{CRC: pl.CRC}
	_, pv, stack := core.Bubble(t, trace, func(sim *core.Sim) {
		c.sim = sim
		if pl.Only != nil {
			ex := *pl.Only
			smp.Streams = []string{fmt.Sprintf("only:%s len=%d", ex.Kind, len(ex.Data))}
			c.judge(ex)
		} else {
			rep := simReporter(sim, prop)
			rng := ref.NewRNG(uint64(pl.SampleSeed))
			var streams [][]byte
			var valid []bool
			for i, sp := range pl.Streams {
				if i >= 4 {
					break
				}
				s, in, ok := buildStream(rep, sp, pl.CRC)
				if !ok {
					sim.Probe("library-writer-failed")
					continue
				}
				good := false
				if sp.Enc != "raw" {
					d, v := ref.Decode(s, pl.CRC)
					good = v.OK && v.Trailing == 0 && bytes.Equal(d, in)
					if !good {
						// C06's business when it is the library's writer; a harness defect otherwise
						if sp.Enc == "lib" || sp.Enc == "" {
							sim.Probe("library-stream-invalid-per-reference")
						} else {
							sim.Violate(prop, "harness", "reference-encoder-invalid", "reference encoder %s produced a stream its own decoder rejects: %+v", sp.Enc, v)
						}
					}
					if v.Rebuilds > 0 {
						sim.Probe("tree-rebuild-reached")
					}
				}
				streams = append(streams, s)
				valid = append(valid, good)
				smp.Streams = append(smp.Streams, fmt.Sprintf("%s in=%d stream=%d", sp.Enc, len(in), len(s)))
				sim.Probe("stream-from/" + sp.Enc)
			}
			for i, s := range streams {
				var others [][]byte
				for j, o := range streams {
					if j != i {
						others = append(others, o)
					}
				}
				c.enumerate(&pl, i, s, valid[i], others, rng)
			}
		}
		smp.Execs = c.n
		if len(c.sigCount) > 0 {
			smp.Violating = c.sigCount
		}
		out.Sample = smp
		sim.FillOutcome(&out)
	})
	if pv != nil {
		out.Violate(prop, "harness", "bubble-panic", fmt.Sprintf("%v\n%s", pv, stack))
	}
	for _, sig := range core.SortedKeys(c.bySig) {
		out.Violations = append(out.Violations, *c.bySig[sig])
	}
	if out.Evals > 1 {
		for _, h := range core.SortedKeys(c.hashes) {
			out.Hashes = append(out.Hashes, h)
			if len(out.Hashes) >= 256 {
				break
			}
		}
	}
	if out.Probes == nil {
		out.Probes = map[string]int{}
	}
	out.Probes["distinct-nontrivial-executions-summed-per-plan"] += len(c.hashes)
	for _, sig := range core.SortedKeys(c.sigCount) {
		out.Probes["violating-executions"] += c.sigCount[sig]
	}
	return out
}
