package codecsim

import (
	"encoding/json"
	"testing"

	"verif/sim/core"
)

func infoC08() core.Info { return core.Info{} }

func genC08(tier string, r *core.Rand, run int) any { return nil }

func execC08(t *testing.T, prop string, raw json.RawMessage, trace bool) core.Outcome {
	return core.Outcome{}
}
