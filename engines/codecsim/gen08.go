package codecsim

import "verif/sim/core"

func infoC08() core.Info {
	return core.Info{
		Level: "fault_enumeration",
		Rule:  "one plan = one or two valid base streams of one CRC mode (library Writer under a seeded Write partition; reference encoder in greedy, literal-only or seed-chosen-parse mode incl. position fields that alias modulo the window) plus sometimes a random/crafted raw byte string. Per base stream the executor enumerates: the undamaged stream; EOF after EVERY prefix length (streams up to all_below bytes, boundaries + seeded sample above); EVERY single-bit flip (streams <= 512 bytes, header/edges + seeded sample above); declared-size edits (-1, 0, true-1, true+1, true-2/-3/-59/-60/+60, 2^31-1, -2^31, -true, ...) each with stale and with recomputed CRC; CRC byte edits; trailing bytes; dropped/doubled bytes; splices with the other stream; underlying-reader error at offset k. Every damaged stream is read to the end with a rotation of the plan's Read buffer tape and judged against the independent decoder. Evaluations = executions (one damaged stream read once). Non-trivial execution: header readable, NewReader succeeded and at least one non-empty Read was made. Distinct: distinct transcript hash (stream digest + every Read result + Close result); at most 256 hashes are reported per plan, the probe distinct-nontrivial-executions-summed-per-plan has the full per-plan sum. Reader.Close is called three times per execution; the verdict must not change between the calls.",
		Real:  realCode,
		Stub:  []string{"underlying io.Reader (chunk tape, (0,nil) reads, error injection)", "independent LZHUF decoder/encoder and bitwise CRC-16 (ref/lzhuf) as judge and as second source of valid streams"},
		Assumptions: []string{"library runs on the Go 1.26.8 standard library, not 1.24.0",
			"termination is judged by a step budget (Read calls <= output+input+64, at most 4 consecutive (0,nil) for a non-empty buffer); a spin inside a single Read call is left to the wall-clock watchdog",
			"a symbol that needs bits beyond the end of the input is not part of the canonical decoding; bytes the library delivers for it are tolerated as tentative unless Close()==nil",
			"a final match cut at the declared size counts as 'size reached' for the reference verdict (the oracle does not prescribe whether a repaired reader accepts or rejects such a stream)"},
		QuickRuns:       800,
		ThoroughRuns:    14000,
		WatchdogSec:     300,
		HangIsViolation: true,
	}
}

func genStreamSpec(r *core.Rand, size int, encs []string) StreamSpec {
	sp := StreamSpec{Enc: core.Choice(r, encs)}
	if size >= 33000 && size <= 45000 {
		// tree-rebuild regime: enough literals for more than 0x8000 coded symbols
		sp.Input = []Seg{{K: "rand", N: size, S: seed(r), A: core.Choice(r, []int{256, 200, 64})}}
	} else {
		sp.Input, _ = genMixed(r, size)
	}
	switch sp.Enc {
	case "lib":
		sp.Part = genPart(r, size)
	case "random":
		sp.Seed = seed(r)
		sp.LitPct = core.Choice(r, []int{0, 0, 10, 30, 60, 90})
		sp.Alias = r.Chance(0.3)
	}
	return sp
}

func c08Size(tier string, r *core.Rand) int {
	w := []int{1, 5, 8, 5, 1, 1, 0}
	if tier == "thorough" {
		w = []int{1, 5, 8, 6, 3, 1, 1}
	}
	switch r.Pick(w...) {
	case 0:
		return 0
	case 1:
		return r.Range(1, 20)
	case 2:
		return r.Range(20, 300)
	case 3:
		return r.Range(300, 2000)
	case 4:
		return r.Range(2000, 12000)
	case 5:
		return r.Range(33000, 45000)
	default:
		return r.Range(45000, 400000)
	}
}

func genRaw(r *core.Rand, crc bool) StreamSpec {
	n := r.Range(0, 120)
	if r.Chance(0.2) {
		n = r.Range(0, 8)
	}
	b := r.Bytes(n)
	if r.Chance(0.6) && n >= 6 {
		// plausible header in front of random bits so that decoding gets going
		off := 0
		if crc {
			off = 2
		}
		size := core.Choice(r, []int{r.Range(0, 40), r.Range(0, 600), r.Range(0, 70000), -r.Range(1, 5)})
		b[off], b[off+1], b[off+2], b[off+3] = byte(size), byte(size>>8), byte(size>>16), byte(size>>24)
		if crc && r.Bool() {
			fixCRC(b)
		}
	}
	return StreamSpec{Enc: "raw", Raw: b}
}

func genC08(tier string, r *core.Rand, run int) any {
	pl := C08Plan{CRC: r.Bool(), SampleSeed: seed(r)}
	pl.AllBelow = 2048
	pl.Samples = 192
	if tier == "thorough" {
		pl.AllBelow = core.Choice(r, []int{2048, 4096, 8192})
		pl.Samples = 512
	}
	size := c08Size(tier, r)
	// the two base streams: library + reference, two reference parses, or two library partitions
	switch r.Pick(5, 2, 2, 1) {
	case 0:
		pl.Streams = []StreamSpec{genStreamSpec(r, size, []string{"lib"}), genStreamSpec(r, c08Size("quick", r), []string{"greedy", "random", "random", "literal"})}
		if r.Bool() { // same input through both encoders
			pl.Streams[1].Input = pl.Streams[0].Input
		}
	case 1:
		pl.Streams = []StreamSpec{genStreamSpec(r, size, []string{"random"}), genStreamSpec(r, c08Size("quick", r), []string{"random", "literal", "greedy"})}
	case 2:
		pl.Streams = []StreamSpec{genStreamSpec(r, size, []string{"lib"})}
	default:
		pl.Streams = []StreamSpec{genStreamSpec(r, size, []string{"random", "greedy"})}
	}
	if size > 12000 {
		pl.Streams = pl.Streams[:1]
	}
	if r.Chance(0.5) {
		pl.Streams = append(pl.Streams, genRaw(r, pl.CRC))
	}
	pl.Bufs = genBufs(r, size)
	if r.Chance(0.5) {
		// several buffer sizes so that the rotation gives every fault another sequence
		pl.Bufs = core.Tape(r, r.Range(2, 7), func() int {
			return core.Choice(r, []int{1, 1, 2, 3, 7, 59, 60, 61, 64, 100, 512, 4096, 0, size + 1, r.Range(1, 300)})
		})
	}
	pl.Src = genSrc(r)
	return pl
}
