package codecsim

import "verif/sim/core"

type exhBlock struct {
	alpha       string
	length      int
	from, count int
}

const exhBlockSize = 128

// exhBlocks lists the exhaustive short-string blocks of a tier; run index i <
// len(blocks) executes block i, so a full tier covers every string.
func exhBlocks(tier string) []exhBlock {
	type fam struct {
		alpha string
		max   int
	}
	fams := []fam{{"ab", 11}, {" a\x00", 6}}
	if tier == "thorough" {
		fams = []fam{{"ab", 16}, {" a\x00", 10}, {"a b\xff", 8}}
	}
	var out []exhBlock
	for _, f := range fams {
		total := 1
		for l := 0; l <= f.max; l++ {
			for from := 0; from < total; from += exhBlockSize {
				out = append(out, exhBlock{f.alpha, l, from, exhBlockSize})
			}
			total *= len(f.alpha)
		}
	}
	return out
}

func genPart(r *core.Rand, n int) Part {
	switch r.Pick(2, 2, 3, 2, 3, 2) {
	case 0: // one Write
		return Part{}
	case 1: // single bytes
		return Part{Sizes: []int{1}, Cycle: true}
	case 2: // a cut at a look-ahead / window boundary, then the rest variously
		first := core.Choice(r, []int{59, 60, 61, 58, 62, 2047, 2048, 2049, 1988, 2107, 2108, 119, 120, 121})
		p := Part{Sizes: []int{first}}
		switch r.Intn(4) {
		case 0:
		case 1:
			p.Sizes = append(p.Sizes, 1, 1, 1)
		case 2:
			p.Sizes = []int{first - 1, 1, 1}
			if r.Bool() {
				p.Sizes = []int{first - 1, 0, 1, 0, 1}
			}
		case 3:
			p.Cycle = true
		}
		return p
	case 3: // small random tape with empty writes
		hi := r.Range(1, 9)
		return Part{Cycle: true, Sizes: core.Tape(r, r.Range(1, 8), func() int {
			if r.Chance(0.2) {
				return 0
			}
			return r.Range(1, hi)
		})}
	case 4: // mixed sizes
		return Part{Cycle: true, Sizes: core.Tape(r, r.Range(2, 10), func() int {
			switch r.Pick(2, 3, 2, 1, 1) {
			case 0:
				return r.Range(1, 3)
			case 1:
				return r.Range(4, 200)
			case 2:
				return core.Choice(r, []int{59, 60, 61, 2047, 2048, 2049})
			case 3:
				return r.Range(200, 5000)
			}
			return 0
		})}
	default: // explicit cut list from random cut points, rest in one call
		k := r.Range(1, 6)
		p := Part{}
		for i := 0; i < k; i++ {
			p.Sizes = append(p.Sizes, r.Intn(n/k+2))
		}
		if r.Bool() {
			p.Sizes = append([]int{0}, p.Sizes...)
		}
		if r.Bool() {
			p.Sizes = append(p.Sizes, 0)
		}
		return p
	}
}

func genBufs(r *core.Rand, n int) []int {
	switch r.Pick(3, 2, 3, 3, 2, 1) {
	case 0:
		return []int{1}
	case 1: // larger than the output
		return []int{n + r.Range(1, 5000)}
	case 2:
		hi := r.Range(2, 70)
		return core.Tape(r, r.Range(1, 8), func() int {
			if r.Chance(0.15) {
				return 0
			}
			return r.Range(1, hi)
		})
	case 3:
		return core.Tape(r, r.Range(1, 6), func() int {
			return core.Choice(r, []int{1, 2, 3, 57, 58, 59, 60, 61, 62, 63, 64, 512, 2047, 2048, 2049, 4096, 0})
		})
	case 4:
		return []int{r.Range(2, 9000)}
	default: // exactly the output size / one less
		return []int{core.Choice(r, []int{n, n - 1, n + 1})}
	}
}

func genSrc(r *core.Rand) []int {
	switch r.Pick(4, 2, 3, 2) {
	case 0:
		return nil
	case 1:
		return []int{1}
	case 2:
		hi := r.Range(1, 300)
		return core.Tape(r, r.Range(1, 8), func() int {
			if r.Chance(0.2) {
				return 0
			}
			return r.Range(1, hi)
		})
	default:
		return core.Tape(r, r.Range(1, 4), func() int { return core.Choice(r, []int{1, 2, 3, 4, 5, 6, 7, 4095, 4096, 4097, 0}) })
	}
}

func genReadSched(r *core.Rand, n int) ReadSched {
	return ReadSched{Bufs: genBufs(r, n), Src: genSrc(r)}
}

func c06Size(tier string, r *core.Rand) (size int, rebuild bool) {
	w := []int{1, 6, 4, 10, 3, 6, 2, 0}
	if tier == "thorough" {
		w = []int{1, 4, 3, 8, 3, 8, 6, 8}
	}
	switch r.Pick(w...) {
	case 0:
		return 0, false
	case 1:
		return r.Range(1, 58), false
	case 2:
		return r.Range(58, 64), false
	case 3:
		return r.Range(64, 2500), false
	case 4:
		return r.Range(1980, 2120), false
	case 5:
		return r.Range(2500, 20000), false
	case 6:
		return r.Range(33000, 50000), true
	default:
		return r.Range(50000, 400000), r.Bool()
	}
}

func genC06(tier string, r *core.Rand, run int) C06Plan {
	if blocks := exhBlocks(tier); run < len(blocks) {
		b := blocks[run]
		return C06Plan{
			Family: "exhaustive",
			Exh:    &Exh{Alpha: B64(b.alpha), Len: b.length, From: b.from, Count: b.count},
			CRC:    run%2 == 0,
			Parts:  []Part{{}, {Sizes: []int{1}, Cycle: true}, {Sizes: []int{0, b.length / 2}}},
			Reads:  []ReadSched{{Bufs: []int{1}}, {Bufs: []int{64}, Src: []int{1}}, {Bufs: []int{0, 2, 3}, Src: []int{0, 3}}},
		}
	}
	size, rebuild := c06Size(tier, r)
	var pl C06Plan
	if rebuild {
		// enough coded symbols (> 0x8000 - 314) for the tree rebuild: mostly literals
		pl.Family = "rebuild"
		a := core.Choice(r, []int{256, 256, 200, 64})
		pl.Input = []Seg{{K: "rand", N: size, S: seed(r), A: a}}
		if r.Chance(0.3) {
			pl.Input = append(pl.Input, Seg{K: "copy", N: r.Range(3, 3000), Dist: r.Range(1, 2100)})
		}
	} else {
		pl.Input, pl.Family = genMixed(r, size)
	}
	pl.CRC = r.Bool()
	if !rebuild && size < 20000 && r.Chance(0.08) {
		// other goroutines compress their own inputs at the same time
		pl.Family = "concurrent"
		pl.Parts = []Part{genPart(r, size)}
		for i, n := 0, r.Range(1, 3); i < n; i++ {
			sz := r.Range(0, size+1)
			in, _ := genMixed(r, sz)
			pl.Conc = append(pl.Conc, C06Conc{Input: in, CRC: r.Chance(0.7), Part: genPart(r, sz)})
		}
		n := core.Choice(r, []int{53, 97, 193, 389})
		dens := core.Choice(r, []float64{0.002, 0.01, 0.03, 0.1})
		pl.Yield = make([]int, n)
		for i := range pl.Yield {
			if r.Chance(dens) {
				pl.Yield[i] = 1 + r.Intn(50)
			}
		}
		pl.Yield[r.Intn(n)] = 1 + r.Intn(50)
		return pl
	}
	if r.Chance(0.15) {
		pl.Fault = &C06Fault{Kind: core.Choice(r, []string{"wfail", "wshort", "rerr", "rerr"})}
		switch r.Intn(3) {
		case 0:
			pl.Fault.At = r.Intn(8)
		case 1:
			pl.Fault.At = r.Intn(8)
			pl.Fault.FromEnd = true
		default:
			pl.Fault.At = r.Intn(1 << 20)
		}
		pl.Parts = []Part{genPart(r, size)}
		pl.Reads = []ReadSched{genReadSched(r, size)}
		return pl
	}
	np := 2
	if size < 5000 && r.Chance(0.4) {
		np = 3
	}
	for i := 0; i < np; i++ {
		pl.Parts = append(pl.Parts, genPart(r, size))
		pl.Reads = append(pl.Reads, genReadSched(r, size))
	}
	return pl
}
