// Package codecsim is the engine behind the LZHUF stream properties C06
// (lossless for every input and chunking) and C08 (decoder safe on arbitrary
// input, verdict sound): the real lzhuf.Writer/Reader driven through scripted
// Write partitions, Read buffer sizes and underlying readers/writers, judged
// by the independent codec in verif/ref/lzhuf.
package codecsim

import (
	"encoding/json"
	"testing"

	"verif/sim/core"
)

type Engine struct{}

func (Engine) Name() string { return "codecsim" }

var realCode = []string{"lzhuf (Writer, Reader, bit reader, CRC, adaptive Huffman model, match trees)"}

func (Engine) Info(prop string) core.Info {
	switch prop {
	case "C06":
		return core.Info{
			Level: "exploration",
			Rule:  "one plan = one generated input (families: random, small alphabet, run-length, repetitive, long matches around the 60-byte limit, matches at the edge of the 2048-byte window, spaces/initial window, text, mixed; >0x8000 coded symbols for the tree rebuild; empty) with or without CRC header, compressed under 2-3 different partitions into Write calls (one call, single bytes, cuts at 59/60/61 and 2047/2048/2049, empty writes, random tapes) and read back with per-partition Read buffer tapes (1 byte ... larger than the output, zero-length reads) over an underlying reader that returns short and (0,nil) reads. The first run indices enumerate ALL strings up to a small length over 2-4 letter alphabets (exhaustive part; input generation only, no schedule in it beyond three fixed chunkings). About 15% of the generated plans are the separate fault arm (underlying writer fails/short-writes at byte k, underlying reader returns a non-EOF error at byte k); the strict oracle never runs on those. Non-trivial: a stream was produced and read back to io.EOF (strict arm) or the injected fault fired (fault arm). Distinct: distinct hash of the per-execution transcript (stream digest, every Write/Read result, Close results); at most 256 hashes are reported per plan. 8 % of the mixed plans run 2-4 goroutines that each compress and read back their own input with their own Writer/Reader at the same time, with plan-driven pauses inside Write, Close and Read (yield injection, DESIGN 8.9); Reader.Close is called three times and its verdict must not change.",
			Real:  realCode,
			Stub:  []string{"underlying io.Writer (recording sink with failure/short-write injection)", "underlying io.Reader (chunk tape, (0,nil) reads, error injection)", "independent decoder ref/lzhuf as second judge of 'reproduces the input'"},
			Assumptions: []string{"library runs on the Go 1.26.8 standard library, not 1.24.0", "input byte strings are generated (plain input generation); the simulated part is the chunking of Write/Read calls and the behaviour of the underlying reader/writer",
				"the underlying reader returns at most two (0,nil) results in a row (bufio gives up with io.ErrNoProgress after 100)"},
			QuickRuns:    90000,
			ThoroughRuns: 400000,
			WatchdogSec:  300,
			// a Write, Close or Read that never returns leaves the round trip
			// unfinished: a hang (confirmed in a fresh process with three times
			// the budget) is a violation here
			HangIsViolation: true,
		}
	case "C08":
		return infoC08()
	}
	return core.Info{}
}

func (Engine) Generate(prop, tier string, r *core.Rand, run int) any {
	switch prop {
	case "C06":
		return genC06(tier, r, run)
	case "C08":
		return genC08(tier, r, run)
	}
	return nil
}

func (Engine) Execute(t *testing.T, prop string, plan json.RawMessage, trace bool) core.Outcome {
	switch prop {
	case "C06":
		return execC06(t, prop, plan, trace)
	case "C08":
		return execC08(t, prop, plan, trace)
	}
	var o core.Outcome
	o.Violate(prop, "harness", "unknown-property", "engine codecsim does not serve "+prop)
	return o
}
