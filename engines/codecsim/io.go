package codecsim

import (
	"errors"
	"fmt"
	"io"
	"runtime/debug"

	"verif/sim/core"
)

var errInjected = errors.New("codecsim: injected I/O error")

// source is the underlying reader handed to lzhuf.NewReader. It delivers data
// in chunks taken cyclically from tape (n>0: at most n bytes; n<=0: a (0,nil)
// read, never more than two in a row so that bufio's no-progress limit of 100
// stays far away). With errAt >= 0 it returns errInjected instead of anything
// at or beyond that offset.
type source struct {
	data   []byte
	off    int
	tape   []int
	i      int
	zeros  int
	errAt  int // -1: none
	fired  bool
	nCalls int
}

func newSource(data []byte, tape []int, errAt int) *source {
	return &source{data: data, tape: tape, errAt: errAt}
}

func (s *source) Read(p []byte) (int, error) {
	s.nCalls++
	if len(p) == 0 {
		return 0, nil
	}
	limit := len(s.data)
	if s.errAt >= 0 && s.errAt < limit {
		limit = s.errAt
	}
	if s.off >= limit {
		if s.errAt >= 0 && s.errAt <= len(s.data) && s.off >= s.errAt {
			s.fired = true
			return 0, errInjected
		}
		return 0, io.EOF
	}
	n := len(p)
	if len(s.tape) > 0 {
		c := s.tape[s.i%len(s.tape)]
		s.i++
		if c <= 0 {
			if s.zeros < 2 {
				s.zeros++
				return 0, nil
			}
			c = 1
		}
		s.zeros = 0
		if c < n {
			n = c
		}
	}
	if n > limit-s.off {
		n = limit - s.off
	}
	copy(p, s.data[s.off:s.off+n])
	s.off += n
	return n, nil
}

// sink is the underlying writer handed to lzhuf.NewWriter. With a mode set,
// the Write call that would take the total beyond failAt fails: mode "fail"
// accepts nothing of it, mode "short" accepts the bytes up to failAt; both
// return a non-nil error, as the io.Writer contract demands for n < len(p)
// (a short count with a nil error makes bufio.Writer itself spin, so that is
// not a legitimate environment). Every later Write fails too.
type sink struct {
	buf    []byte
	mode   string
	failAt int
	fired  bool
}

func (s *sink) Write(p []byte) (int, error) {
	if s.mode == "" {
		s.buf = append(s.buf, p...)
		return len(p), nil
	}
	room := s.failAt - len(s.buf)
	if room < 0 || s.fired {
		room = 0
	}
	if len(p) <= room && !s.fired {
		s.buf = append(s.buf, p...)
		return len(p), nil
	}
	s.fired = true
	if s.mode != "short" {
		room = 0
	}
	s.buf = append(s.buf, p[:room]...)
	return room, errInjected
}

// reportFn records an oracle failure (oracle clause, stable detail, message).
type reportFn func(oracle, detail, format string, args ...any)

// guard runs f and turns a panic into a violation of prop. It returns false
// if f panicked.
func guard(rep reportFn, where string, f func()) (ok bool) {
	defer func() {
		if v := recover(); v != nil {
			stack := string(debug.Stack())
			rep("panic", core.PanicClass(v)+"@"+core.RepoFrame(stack), "%s panicked: %v\n%s", where, v, stack)
			ok = false
		}
	}()
	f()
	return true
}

func errStr(err error) string {
	if err == nil {
		return "nil"
	}
	return err.Error()
}

func abbreviate(b []byte) string {
	if len(b) <= 24 {
		return fmt.Sprintf("%x", b)
	}
	return fmt.Sprintf("%x..%x(%d bytes)", b[:12], b[len(b)-8:], len(b))
}

func firstDiff(a, b []byte) int {
	n := len(a)
	if len(b) < n {
		n = len(b)
	}
	for i := 0; i < n; i++ {
		if a[i] != b[i] {
			return i
		}
	}
	if len(a) != len(b) {
		return n
	}
	return -1
}
