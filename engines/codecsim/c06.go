package codecsim

import (
	"bytes"
	"crypto/sha256"
	"encoding/hex"
	"encoding/json"
	"fmt"
	"hash"
	"io"
	"strconv"
	"testing"
	"time"

	"github.com/la5nta/wl2k-go/lzhuf"
	ref "verif/ref/lzhuf"
	"verif/sim/core"
)

// Part is one partition of the input into Write calls: Sizes are used in
// order (0 = an empty Write); when they are used up they repeat if Cycle is
// set (and contain a positive value), otherwise the rest goes in one call.
type Part struct {
	Sizes []int `json:"sizes,omitempty"`
	Cycle bool  `json:"cycle,omitempty"`
}

// ReadSched is how one compressed stream is read back: Bufs is the cyclic
// tape of Read buffer sizes (0 = zero-length read), Src the chunking of the
// underlying reader (0 = a (0,nil) read).
type ReadSched struct {
	Bufs []int `json:"bufs,omitempty"`
	Src  []int `json:"src,omitempty"`
}

// Exh enumerates all strings of length Len over Alpha with index From..From+Count-1.
type Exh struct {
	Alpha B64 `json:"alpha"`
	Len   int `json:"len"`
	From  int `json:"from"`
	Count int `json:"count"`
}

// C06Fault is the fault arm: Kind wfail | wshort (underlying writer fails /
// short-writes once At bytes were accepted) | rerr (underlying reader returns
// a non-EOF error at offset At). At is taken modulo the stream length + 1.
type C06Fault struct {
	Kind    string `json:"kind"`
	At      int    `json:"at"`
	FromEnd bool   `json:"from_end,omitempty"`
}

type C06Plan struct {
	Family string      `json:"family,omitempty"` // label only
	Input  []Seg       `json:"input,omitempty"`
	Exh    *Exh        `json:"exh,omitempty"`
	CRC    bool        `json:"crc"`
	Parts  []Part      `json:"parts,omitempty"`
	Reads  []ReadSched `json:"reads,omitempty"`
	Fault  *C06Fault   `json:"fault,omitempty"`
	// Conc: further inputs that other goroutines of the same process compress
	// (each with its own Writer, CRC mode and partition) while the first one
	// is compressed; Yield: pauses at the statement boundaries of the
	// instrumented Writer/Reader code (core.Sim.EnableYields).
	Conc  []C06Conc `json:"conc,omitempty"`
	Yield []int     `json:"yield,omitempty"`
}

type C06Conc struct {
	Input []Seg `json:"input"`
	CRC   bool  `json:"crc"`
	Part  Part  `json:"part"`
}

// chunks cuts in according to the partition.
func (p Part) chunks(in []byte) [][]byte {
	var out [][]byte
	off := 0
	positive := false
	emit := func(s int) {
		if s < 0 {
			s = 0
		}
		if s > len(in)-off {
			s = len(in) - off
		}
		out = append(out, in[off:off+s:off+s])
		off += s
	}
	for i, s := range p.Sizes {
		if i >= len(in)+4096 {
			break
		}
		if s > 0 {
			positive = true
		}
		emit(s)
	}
	if p.Cycle && positive {
		for i := 0; off < len(in); i++ {
			emit(p.Sizes[i%len(p.Sizes)])
		}
	}
	if off < len(in) {
		emit(len(in) - off)
	}
	return out
}

// execLog is the transcript of one execution; only its hash is kept. Runs of
// identical lines are stored as line + count.
type execLog struct {
	h         hash.Hash
	last      string
	rep       int
	lsize, ln int
}

func newExecLog() *execLog { return &execLog{h: sha256.New()} }

func (e *execLog) flush() {
	if e.rep > 0 {
		fmt.Fprintf(e.h, "%s x%d\n", e.last, e.rep)
	}
	e.rep = 0
}

func (e *execLog) add(format string, args ...any) {
	e.flush()
	fmt.Fprintf(e.h, format+"\n", args...)
}

// read records one Read result.
func (e *execLog) read(size, n int, err error) {
	if err == nil && e.rep > 0 && size == e.lsize && n == e.ln {
		e.rep++
		return
	}
	e.flush()
	if err == nil {
		e.lsize, e.ln = size, n
		e.last = "r " + strconv.Itoa(size) + " " + strconv.Itoa(n)
		e.rep = 1
		return
	}
	fmt.Fprintf(e.h, "r %d %d %s\n", size, n, err)
}

func (e *execLog) sum() string {
	e.flush()
	return hex.EncodeToString(e.h.Sum(nil))[:20]
}

// compress runs one partition through the library's writer.
func compress(rep reportFn, in []byte, crc bool, part Part, snk *sink, lg *execLog) (writeErr, closeErr error, ok bool) {
	ok = guard(rep, "Writer", func() {
		w := lzhuf.NewWriter(snk, crc)
		for _, c := range part.chunks(in) {
			n, err := w.Write(c)
			if err != nil {
				writeErr = err
				lg.add("write %d -> %d %s", len(c), n, errStr(err))
				break
			}
			if n != len(c) {
				writeErr = io.ErrShortWrite
				if snk.mode == "" {
					rep("write", "short-count-without-error", "Write of %d bytes returned n=%d, err=nil", len(c), n)
				}
				break
			}
		}
		closeErr = w.Close()
		lg.add("wclose %s", errStr(closeErr))
	})
	return
}

type readResult struct {
	out       []byte
	newErr    error
	readErr   error // first error from Read (io.EOF on a clean end)
	closeErr  error
	calls     int
	stuck     bool // gave up: too many (0,nil) in a row or call budget exceeded
	zeroRuns  int
	panicked  bool
	srcFired  bool
	srcCalls  int
	maxZeroes int
}

// readAll reads stream through the library's reader with the given schedule.
// maxZero is how many consecutive (0,nil) results for a non-empty buffer are
// tolerated, budget the number of non-empty Read calls.
func readAll(rep reportFn, stream []byte, crc bool, rs ReadSched, errAt, maxZero, budget int, lg *execLog) (res readResult) {
	src := newSource(stream, rs.Src, errAt)
	positive := false
	for _, b := range rs.Bufs {
		if b > 0 {
			positive = true
		}
	}
	ok := guard(rep, "Reader", func() {
		r, err := lzhuf.NewReader(src, crc)
		if err != nil {
			res.newErr = err
			lg.add("new %s", errStr(err))
			return
		}
		var scratch []byte
		lastZeroLen := false
		eofOnEmpty := false
		for i := 0; ; i++ {
			size := 4096
			if positive {
				size = rs.Bufs[i%len(rs.Bufs)]
				if size < 0 {
					size = 0
				}
				if size > 1<<20 {
					size = 1 << 20
				}
				if size == 0 && lastZeroLen {
					continue // never two zero-length reads in a row
				}
			}
			if cap(scratch) < size {
				scratch = make([]byte, size)
			}
			p := scratch[:size]
			n, err := r.Read(p)
			lg.read(size, n, err)
			if n < 0 || n > size {
				rep("read", "count-out-of-range", "Read(len %d) returned n=%d", size, n)
				res.stuck = true
				break
			}
			res.out = append(res.out, p[:n]...)
			if size == 0 {
				lastZeroLen = true
				if err != nil && err != io.EOF {
					res.readErr = err
					break
				}
				if err == io.EOF {
					// tolerated on a zero-length read, but it must be the truth:
					// the next real read decides
					eofOnEmpty = true
				}
				continue
			}
			lastZeroLen = false
			if eofOnEmpty && n > 0 {
				rep("read", "eof-on-empty-buffer-before-the-end", "Read with an empty buffer returned io.EOF after %d bytes; the next Read delivered %d more", len(res.out)-n, n)
				eofOnEmpty = false
			}
			res.calls++
			if err != nil {
				res.readErr = err
				break
			}
			if n == 0 {
				res.zeroRuns++
				if res.zeroRuns > res.maxZeroes {
					res.maxZeroes = res.zeroRuns
				}
				if res.zeroRuns > maxZero {
					res.stuck = true
					break
				}
			} else {
				res.zeroRuns = 0
			}
			if res.calls > budget {
				res.stuck = true
				break
			}
		}
		res.closeErr = r.Close()
		lg.add("rclose %s", errStr(res.closeErr))
		// the verdict is a fact about the stream: asking again (an explicit
		// Close plus a deferred one) must not change it
		for k := 2; k <= 3; k++ {
			if again := r.Close(); (again == nil) != (res.closeErr == nil) {
				rep("close-verdict", "changes-between-calls", "Reader.Close() returned %v the first time and %v on call %d for the same stream", res.closeErr, again, k)
				break
			}
		}
	})
	res.panicked = !ok
	res.srcFired = src.fired
	res.srcCalls = src.nCalls
	return
}

func simReporter(sim *core.Sim, prop string) reportFn {
	return func(oracle, detail, format string, args ...any) { sim.Violate(prop, oracle, detail, format, args...) }
}

type c06Sample struct {
	Family     string
	InputLen   int
	CRC        bool
	Compressed int
	Rebuilds   int
	Parts      int
	Fault      string `json:",omitempty"`
	Strings    int    `json:",omitempty"`
}

// strictRoundTrips checks one input under all partitions of the plan.
func strictRoundTrips(sim *core.Sim, prop string, pl *C06Plan, in []byte, out *core.Outcome, hashes map[string]struct{}, smp *c06Sample) {
	rep := simReporter(sim, prop)
	parts := pl.Parts
	if len(parts) == 0 {
		parts = []Part{{}}
	}
	reads := pl.Reads
	if len(reads) == 0 {
		reads = []ReadSched{{}}
	}
	var first []byte
	for pi, part := range parts {
		lg := newExecLog()
		out.Evals++
		snk := &sink{}
		werr, cerr, ok := compress(rep, in, pl.CRC, part, snk, lg)
		if !ok {
			continue
		}
		if werr != nil {
			sim.Violate(prop, "write", "error-without-fault", "Write returned %v on a healthy underlying writer (partition %d)", werr, pi)
			continue
		}
		if cerr != nil {
			sim.Violate(prop, "writer-close", "error-without-fault", "Writer.Close returned %v on a healthy underlying writer (partition %d)", cerr, pi)
			continue
		}
		stream := snk.buf
		lg.add("stream %x", sha256.Sum256(stream))
		if pi == 0 {
			first = stream
			smp.Compressed = len(stream)
			// the same clause ("reproduces the input"), judged by the independent decoder
			rout, v := ref.Decode(stream, pl.CRC)
			smp.Rebuilds = v.Rebuilds
			if v.Rebuilds > 0 {
				sim.Probe("tree-rebuild-reached")
			}
			switch {
			case !v.OK:
				sim.Violate(prop, "reference-decode", "stream-rejected", "the independent decoder rejects the library's stream for a %d-byte input: %+v", len(in), v)
			case !bytes.Equal(rout, in):
				sim.Violate(prop, "reference-decode", "output-differs", "the independent decoder decodes the library's stream to something else (first difference at %d of %d)", firstDiff(rout, in), len(in))
			case v.Trailing > 0:
				sim.Probe("stream-has-trailing-bytes")
			}
			if len(in) <= 1<<16 {
				// informational only (byte identity with the canonical encoder is C07, not claimed)
				if bytes.Equal(ref.EncodeGreedy(in, pl.CRC), stream) {
					sim.Probe("info/stream-identical-to-reference-greedy")
				} else {
					sim.Probe("info/stream-differs-from-reference-greedy")
				}
			}
		} else if !bytes.Equal(stream, first) {
			sim.Violate(prop, "partition-independence", "compressed-differs", "compressed bytes differ between write partitions 0 and %d of the same %d-byte input (first difference at %d; lengths %d/%d)", pi, len(in), firstDiff(stream, first), len(first), len(stream))
		}
		rs := reads[pi%len(reads)]
		probeSchedule(sim, part, rs, in)
		res := readAll(rep, stream, pl.CRC, rs, -1, 100, len(in)+64, lg)
		switch {
		case res.panicked:
		case res.newErr != nil:
			sim.Violate(prop, "read", "newreader-error", "NewReader returned %v for the library's own stream", res.newErr)
		case res.stuck:
			sim.Violate(prop, "read", "no-progress", "reading the library's own stream did not finish: %d bytes of %d after %d Read calls, %d consecutive (0,nil)", len(res.out), len(in), res.calls, res.zeroRuns)
		case res.readErr != io.EOF:
			sim.Violate(prop, "read", "error-without-fault", "Read returned %v after %d of %d bytes", res.readErr, len(res.out), len(in))
		default:
			if !bytes.Equal(res.out, in) {
				detail := "output-differs"
				if len(res.out) < len(in) && bytes.Equal(res.out, in[:len(res.out)]) {
					detail = "output-incomplete"
				}
				sim.Violate(prop, "round-trip", detail, "decompressed output differs from the input: %d vs %d bytes, first difference at %d (partition %d)", len(res.out), len(in), firstDiff(res.out, in), pi)
			}
			if res.closeErr != nil {
				sim.Violate(prop, "reader-close", "error-without-fault", "Reader.Close returned %v after a complete read of the library's own stream", res.closeErr)
			}
			out.NonTrivial = true
		}
		if res.maxZeroes > 0 {
			sim.Probe("read-returned-0-nil")
		}
		h := lg.sum()
		hashes[h] = struct{}{}
		sim.Logf("exec part=%d in=%d stream=%d out=%d calls=%d h=%s", pi, len(in), len(stream), len(res.out), res.calls, h)
	}
}

// probeSchedule counts which of the schedule shapes the property names were exercised.
func probeSchedule(sim *core.Sim, part Part, rs ReadSched, in []byte) {
	off := 0
	empty := false
	chunks := part.chunks(in)
	for _, c := range chunks {
		if len(c) == 0 {
			empty = true
		}
		off += len(c)
		if off < len(in) {
			switch off {
			case 59, 60, 61:
				sim.Probe("sched/write-cut-at-59-60-61")
			case 2047, 2048, 2049:
				sim.Probe("sched/write-cut-at-2047-2048-2049")
			}
		}
	}
	if empty {
		sim.Probe("sched/empty-write")
	}
	if len(chunks) >= len(in) && len(in) > 1 {
		sim.Probe("sched/single-byte-writes")
	}
	one, zero, big := false, false, false
	for _, b := range rs.Bufs {
		switch {
		case b == 1:
			one = true
		case b == 0:
			zero = true
		case b > len(in):
			big = true
		}
	}
	if one {
		sim.Probe("sched/1-byte-reads")
	}
	if zero {
		sim.Probe("sched/zero-length-reads")
	}
	if big {
		sim.Probe("sched/read-buffer-larger-than-output")
	}
	for _, c := range rs.Src {
		if c == 0 {
			sim.Probe("sched/underlying-reader-0-nil")
			break
		}
	}
	if len(rs.Src) > 0 {
		sim.Probe("sched/underlying-reader-short-reads")
	}
}

func faultArm(sim *core.Sim, prop string, pl *C06Plan, in []byte, out *core.Outcome, hashes map[string]struct{}, smp *c06Sample) {
	rep := simReporter(sim, prop)
	part := Part{}
	if len(pl.Parts) > 0 {
		part = pl.Parts[0]
	}
	rs := ReadSched{}
	if len(pl.Reads) > 0 {
		rs = pl.Reads[0]
	}
	// pilot without the fault: the stream and its length
	pilot := &sink{}
	lg := newExecLog()
	werr, cerr, ok := compress(rep, in, pl.CRC, part, pilot, lg)
	if !ok || werr != nil || cerr != nil {
		return // the strict arm reports this
	}
	stream := pilot.buf
	smp.Compressed = len(stream)
	at := pl.Fault.At
	if at < 0 {
		at = -at
	}
	at %= len(stream) + 1
	if pl.Fault.FromEnd {
		at = len(stream) - at
	}
	out.Evals++
	kind := pl.Fault.Kind
	smp.Fault = fmt.Sprintf("%s@%d/%d", kind, at, len(stream))
	switch kind {
	case "wfail", "wshort":
		mode := "fail"
		if kind == "wshort" {
			mode = "short"
		}
		snk := &sink{mode: mode, failAt: at}
		werr, cerr, ok := compress(rep, in, pl.CRC, part, snk, lg)
		if !ok {
			break
		}
		if snk.fired {
			sim.Fault("writer-" + mode)
			out.NonTrivial = true
			if werr == nil && cerr == nil {
				sim.Violate(prop, "fault-arm", "write-error-swallowed/"+kind, "the underlying writer %s after %d of %d bytes, yet every Write and Close returned nil", map[string]string{"fail": "failed", "short": "short-wrote (with an error)"}[mode], at, len(stream))
			}
		} else if werr != nil || cerr != nil || !bytes.Equal(snk.buf, stream) {
			sim.Violate(prop, "fault-arm", "unfired-fault-changed-result", "fault at %d never fired but the result changed (write err %v, close err %v)", at, werr, cerr)
		}
	default: // rerr
		kind = "rerr"
		res := readAll(rep, stream, pl.CRC, rs, at, 100, len(in)+64, lg)
		if res.srcFired {
			sim.Fault("reader-error")
			out.NonTrivial = true
		}
		if res.panicked {
			break
		}
		success := res.newErr == nil && !res.stuck && res.readErr == io.EOF && res.closeErr == nil
		if success && !bytes.Equal(res.out, in) {
			sim.Violate(prop, "fault-arm", "success-with-wrong-data/reader-error", "underlying reader failed at offset %d of %d; Read ended with io.EOF and Close()==nil although only %d of %d bytes were delivered (first difference at %d)", at, len(stream), len(res.out), len(in), firstDiff(res.out, in))
		}
		if res.stuck {
			sim.Violate(prop, "fault-arm", "no-progress/reader-error", "underlying reader failed at offset %d of %d; Read neither delivered data nor an error (%d calls, %d consecutive (0,nil))", at, len(stream), res.calls, res.zeroRuns)
		}
		if success {
			sim.Probe("reader-error-after-last-needed-byte")
		}
	}
	h := lg.sum()
	hashes[h] = struct{}{}
	sim.Logf("fault-exec %s at=%d stream=%d h=%s", kind, at, len(stream), h)
}

func execC06(t *testing.T, prop string, raw json.RawMessage, trace bool) core.Outcome {
	var pl C06Plan
	var out core.Outcome
	if err := json.Unmarshal(raw, &pl); err != nil {
		out.Violate(prop, "harness", "bad-plan", fmt.Sprint("unusable plan: ", err))
		return out
	}
	hashes := map[string]struct{}{}
	smp := c06Sample{Family: pl.Family, CRC: pl.CRC, Parts: len(pl.Parts)}
	_, pv, stack := core.Bubble(t, trace, func(sim *core.Sim) {
		if pl.CRC {
			sim.Probe("with-crc")
		} else {
			sim.Probe("without-crc")
		}
		switch {
		case pl.Exh != nil:
			alpha := []byte(pl.Exh.Alpha)
			if len(alpha) == 0 {
				alpha = []byte("ab")
			}
			l := pl.Exh.Len
			if l < 0 {
				l = 0
			}
			if l > 24 {
				l = 24
			}
			total := 1
			for i := 0; i < l && total < 1<<30; i++ {
				total *= len(alpha)
			}
			from, count := pl.Exh.From, pl.Exh.Count
			if from < 0 {
				from = 0
			}
			if count > 4096 {
				count = 4096
			}
			in := make([]byte, l)
			for idx := from; idx < from+count && idx < total; idx++ {
				x := idx
				for i := l - 1; i >= 0; i-- {
					in[i] = alpha[x%len(alpha)]
					x /= len(alpha)
				}
				strictRoundTrips(sim, prop, &pl, in, &out, hashes, &smp)
				smp.Strings++
			}
			smp.InputLen = l
			sim.ProbeN("exhaustive-short-strings", smp.Strings)
		case len(pl.Conc) > 0:
			concurrentWriters(sim, prop, &pl, &out)
		case pl.Fault != nil:
			in := expand(pl.Input)
			smp.InputLen = len(in)
			faultArm(sim, prop, &pl, in, &out, hashes, &smp)
		default:
			in := expand(pl.Input)
			smp.InputLen = len(in)
			if len(in) == 0 {
				sim.Probe("empty-input")
			}
			strictRoundTrips(sim, prop, &pl, in, &out, hashes, &smp)
		}
		out.Sample = smp
		sim.FillOutcome(&out)
	})
	if pv != nil {
		out.Violate(prop, "harness", "bubble-panic", fmt.Sprintf("%v\n%s", pv, stack))
	}
	if out.Evals > 1 {
		for _, h := range core.SortedKeys(hashes) {
			out.Hashes = append(out.Hashes, h)
			if len(out.Hashes) >= 256 {
				break
			}
		}
	}
	return out
}

// concurrentWriters: independent Writers (and Readers) used by different
// goroutines at the same time. Each goroutine compresses its own input with
// its own Writer and reads it back with its own Reader; the plan's pauses let
// them overlap in the middle of Write, Close and Read. Every round trip is
// judged like a lone one.
func concurrentWriters(sim *core.Sim, prop string, pl *C06Plan, out *core.Outcome) {
	type job struct {
		in   []byte
		crc  bool
		part Part
	}
	jobs := []job{{expand(pl.Input), pl.CRC, Part{}}}
	if len(pl.Parts) > 0 {
		jobs[0].part = pl.Parts[0]
	}
	for i, c := range pl.Conc {
		if i < 3 {
			jobs = append(jobs, job{expand(c.Input), c.CRC, c.Part})
		}
	}
	sim.Probe("concurrent-writers-in-one-process")
	sim.EnableYields(pl.Yield)
	type res struct {
		stream []byte
		werr   error
		cerr   error
		ok     bool
		back   readResult
	}
	results := make([]res, len(jobs))
	gos := make([]*core.GoResult, len(jobs))
	for i := range jobs {
		i := i
		gos[i] = core.Go(func() {
			sim.Pause()
			rep := func(oracle, detail, format string, args ...any) {
				sim.Violate(prop, oracle, detail+"/concurrent-writers", format, args...)
			}
			lg := newExecLog()
			snk := &sink{}
			r := &results[i]
			r.werr, r.cerr, r.ok = compress(rep, jobs[i].in, jobs[i].crc, jobs[i].part, snk, lg)
			r.stream = snk.buf
			if r.ok && r.werr == nil && r.cerr == nil {
				r.back = readAll(rep, r.stream, jobs[i].crc, ReadSched{}, -1, 100, len(jobs[i].in)+64, lg)
			}
		})
	}
	done := core.WaitAll(24*time.Hour, gos...)
	if n := sim.DisableYields(); n > 0 {
		sim.ProbeN("pauses-inside-library-code", n)
	}
	if !done {
		sim.Violate(prop, "liveness", "concurrent-writers-did-not-finish", "a goroutine compressing its own input with its own Writer did not finish")
		return
	}
	for i, g := range gos {
		out.Evals++
		r := results[i]
		if g.Panic != nil {
			sim.Violate(prop, "panic", core.PanicClass(g.Panic)+"@"+core.RepoFrame(g.Stack)+"/concurrent-writers", "goroutine %d: %v\n%s", i, g.Panic, g.Stack)
			continue
		}
		if !r.ok {
			continue
		}
		if r.werr != nil || r.cerr != nil {
			sim.Violate(prop, "write", "error-without-fault/concurrent-writers", "writer %d of %d working at the same time: Write/Close returned %v / %v on a healthy underlying writer", i, len(jobs), r.werr, r.cerr)
			continue
		}
		rout, v := ref.Decode(r.stream, jobs[i].crc)
		switch {
		case !v.OK:
			sim.Violate(prop, "reference-decode", "stream-rejected/concurrent-writers", "writer %d of %d working at the same time: the independent decoder rejects its stream for a %d-byte input: %+v", i, len(jobs), len(jobs[i].in), v)
		case !bytes.Equal(rout, jobs[i].in):
			sim.Violate(prop, "reference-decode", "output-differs/concurrent-writers", "writer %d of %d working at the same time: the independent decoder decodes its stream to something else (first difference at %d of %d)", i, len(jobs), firstDiff(rout, jobs[i].in), len(jobs[i].in))
		default:
			out.NonTrivial = true
		}
		if r.back.panicked || r.back.newErr != nil || r.back.stuck || r.back.readErr != io.EOF || r.back.closeErr != nil || !bytes.Equal(r.back.out, jobs[i].in) {
			sim.Violate(prop, "round-trip", "output-differs/concurrent-writers", "writer %d of %d working at the same time: the library's own Reader gives %d bytes (read error %v, close error %v) for a %d-byte input", i, len(jobs), len(r.back.out), r.back.readErr, r.back.closeErr, len(jobs[i].in))
		}
	}
}
