package codecsim

import (
	"encoding/json"
	"strconv"
	"strings"
	"testing"

	ref "verif/ref/lzhuf"
	"verif/sim/core"
)

// mangle applies reducer-like edits (drop keys and elements, shrink numbers,
// truncate strings, flip booleans) chosen by rng.
func mangle(v any, rng *ref.RNG) any {
	switch x := v.(type) {
	case map[string]any:
		out := map[string]any{}
		for _, k := range core.SortedKeys(x) {
			if rng.Intn(6) == 0 {
				continue
			}
			out[k] = mangle(x[k], rng)
		}
		return out
	case []any:
		var out []any
		for _, e := range x {
			if rng.Intn(5) == 0 {
				continue
			}
			out = append(out, mangle(e, rng))
		}
		return out
	case float64:
		switch rng.Intn(8) {
		case 0:
			return 0
		case 1:
			return float64(int64(x) / 2)
		case 2:
			return x - 1
		case 3:
			return -x
		}
		return x
	case string:
		if rng.Intn(4) == 0 {
			return x[:rng.Intn(len(x)+1)]
		}
		return x
	case bool:
		if rng.Intn(4) == 0 {
			return !x
		}
		return x
	}
	return v
}

// TestExecutorTotal: any shrunken plan must execute without a harness failure
// (the reducer relies on it).
func TestExecutorTotal(t *testing.T) {
	if testing.Short() {
		t.Skip()
	}
	e := Engine{}
	for _, prop := range []string{"C06", "C08"} {
		n := 60
		if prop == "C08" {
			n = 10
		}
		for run := 0; run < n; run++ {
			r := core.NewRand(7, "total", prop, strconv.Itoa(run))
			idx := run
			if prop == "C06" && run%3 != 0 {
				idx = run + 100 // beyond the exhaustive blocks
			}
			raw, err := json.Marshal(e.Generate(prop, "quick", r, idx))
			if err != nil {
				t.Fatal(err)
			}
			var doc any
			if err := json.Unmarshal(raw, &doc); err != nil {
				t.Fatal(err)
			}
			rng := ref.NewRNG(uint64(run) + 99)
			for k := 0; k < 3; k++ {
				m, _ := json.Marshal(mangle(doc, rng))
				if len(m) > 200000 {
					continue
				}
				out := e.Execute(t, prop, m, false)
				for _, v := range out.Violations {
					if strings.Contains(v.Signature, "/harness/") {
						t.Fatalf("%s run %d: %s: %s\nplan: %s", prop, run, v.Signature, v.Message, m)
					}
				}
			}
		}
	}
}
