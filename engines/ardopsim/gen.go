package ardopsim

import (
	"encoding/hex"
	"fmt"
	"strings"

	"verif/ref/ardoptnc"
	"verif/sim/core"
	"verif/sim/pipe"
)

type Ev = ardoptnc.Ev

var (
	myCalls  = []string{"LA1SIM", "N0SIM-7", "SM5ABC-12", "W1XYZ", "LB9Q-A"}
	grids    = []string{"JP20QH", "JO59", "FN31pr", "JP20QH12"}
	targets  = []string{"LA5NTA", "W1AW-5", "SM0XYZ", "K4CJX-10", "LA1B", "HB9AK-Z"}
	bwValues = []string{"200MAX", "500MAX", "1000MAX", "2000MAX", "200FORCED", "500FORCED", "1000FORCED", "2000FORCED"}
	noise    = []string{"BUSY TRUE", "BUSY FALSE", "PTT TRUE", "PTT FALSE", "PTT True", "PTT false", "NEWSTATE ISS", "NEWSTATE IRS", "NEWSTATE IRStoISS", "NEWSTATE IDLE",
		"STATUS QUEUE 3 FRAMES", "PENDING", "CANCELPENDING", "FREQUENCY 14096400", "TUNE -120", "RDY", "BUSY True"}
	idleNoise = []string{"BUSY TRUE", "BUSY FALSE", "PENDING", "CANCELPENDING", "FREQUENCY 7103500", "STATUS HELLO", "RDY"}
	oddLines  = []string{"", " ", "BUFFER abc", "BUFFER -5", "BUFFER 99999999999999999999", "PTT maybe", "NEWSTATE BOGUS", "now now", "CONNECTED  ", "BUSY", "c:PTT TRUE", "PTT TRUE extra words", "buffer 0", "\x00\x01\x02", "ÆØÅ æøå", "INPUTPEAKS 123 456", "FAULT", "STATE", "TARGET"}
)

// every command word the host interface knows in the TNC->host direction
// (spec sections 5 and 6 plus what ARDOPc adds)
var ctlWords = []string{"CONNECTED", "CONNECTED", "TARGET", "TARGET", "DISCONNECTED", "NEWSTATE", "PTT", "BUFFER", "BUSY", "PENDING", "CANCELPENDING", "STATE", "FAULT",
	"MYCALL", "MYAUX", "GRIDSQUARE", "ARQBW", "ARQTIMEOUT", "VERSION", "STATUS", "CODEC", "LISTEN", "CWID", "AUTOBREAK", "FSKONLY", "PROTOCOLMODE", "ARQCALL", "INITIALIZE",
	"FREQUENCY", "DRIVELEVEL", "CAPTURE", "PLAYBACK", "CATPUREDEVICES", "PLAYBACKDEVICES", "TWOTONETEST", "REJECTEDBW", "REJECTEDBUSY", "INPUTPEAKS", "CRCFAULT", "RDY", "ABORT", "DISCONNECT", "SENDID", "CLOSE", "TUNE"}

// malformedLine is a control line with the given command word that the
// interface specification does not allow: no parameter, an empty one, too
// many, or one of the wrong kind.
func (g *genCtx) malformedLine(word string) string {
	r := g.r
	if word == "" {
		word = "CONNECTED"
	}
	for try := 0; try < 6; try++ {
		var line string
		switch r.Pick(5, 3, 3, 2, 2, 1, 1) {
		case 0:
			line = word // no parameter
		case 1:
			line = word + core.Choice(r, []string{" ", "  ", " \t"}) // empty parameter
		case 2:
			line = word + " " + core.Choice(r, []string{"A B C D E", "TRUE FALSE", "1 2", "DISC ISS", "LA5NTA 500 EXTRA 7", "now now now"}) // too many
		case 3:
			line = word + " " + core.Choice(r, []string{"@@@", "-", "0x1F", "12abc", "TRUE?", ",,,", "[]"}) // wrong kind
		case 4:
			line = word + core.Choice(r, []string{" now", " now ", " NOW  "}) // echo-back form without a value
		case 5:
			line = strings.ToLower(word)
		default:
			line = word + " " + core.Choice(r, []string{",", " , ,", "LA5NTA,,LE3OF,"}) // list with empty elements
		}
		if !ardoptnc.LegalLine(line) {
			return line
		}
	}
	return strings.ToLower(word) + "\t" // a tab is never legal; the host sees the bare word
}

type genCtx struct {
	r        *core.Rand
	thorough bool
	serial   bool
	stress   string
	maxFrame int // largest ARQ payload generated so far
	big      bool
	huge     int // number of huge items so far
}

func (g *genCtx) delay() int {
	r := g.r
	scale := []int{0, 100, 5_000, 200_000, 2_000_000}[r.Pick(2, 3, 3, 3, 1)]
	return r.Intn(scale + 1)
}

// size draws a payload size 1..max, mostly small.
func (g *genCtx) size(max int) int {
	r := g.r
	hw := 3
	if g.thorough {
		hw = 8
	}
	if g.huge >= 2 {
		hw = 0
	}
	var n int
	switch r.Pick(40, 33, 16, hw, 2) {
	case 0:
		n = r.Range(1, 64)
	case 1:
		n = r.Range(65, 1500)
	case 2:
		n = r.Range(1501, 20000)
	case 3:
		n = r.Range(20001, max)
		g.huge++
	default:
		n = []int{1, 2, 3, 255, 256, 257, 4095, 4096, 4097}[r.Intn(9)] // bufio / length-byte boundaries
	}
	if n > max {
		n = max
	}
	if n > 4000 {
		g.big = true
	}
	return n
}

func (g *genCtx) arq(maxPayload int) Ev {
	n := g.size(maxPayload)
	if g.r.Chance(0.01) {
		n = 0 // count = 3: a frame with the type and nothing else
	}
	if g.serial && (n+9)%4096 == 1 {
		n++ // that size belongs to the "split" regime (see regimeOf)
	}
	if n > g.maxFrame {
		g.maxFrame = n
	}
	return Ev{Kind: "arq", Size: n, Seed: g.r.Intn(1 << 20), DelayUs: g.delay()}
}

func ctl(text string, d int) Ev { return Ev{Kind: "ctl", Arg: text, DelayUs: d} }

func (g *genCtx) pttPairs(evs []Ev) []Ev {
	for i, k := 0, g.r.Pick(3, 3, 2, 1); i < k; i++ {
		evs = append(evs, ctl("PTT TRUE", g.delay()), ctl("PTT FALSE", g.delay()))
	}
	return evs
}

// connectOK is a legal order of what a TNC says while an outbound (inbound)
// connection comes up.
func (g *genCtx) connectOK(inbound bool) []Ev {
	r := g.r
	var evs []Ev
	st := "NEWSTATE ISS"
	if inbound {
		st = "NEWSTATE IRS"
		if r.Chance(0.25) {
			evs = append(evs, ctl("PENDING", g.delay()), ctl("CANCELPENDING", g.delay()))
		}
		evs = append(evs, ctl("PENDING", g.delay()))
		if r.Bool() {
			evs = append(evs, ctl("BUSY TRUE", g.delay()))
		}
		evs = append(evs, ctl("TARGET $M", g.delay()))
	}
	stateFirst := r.Chance(0.7)
	if stateFirst {
		evs = append(evs, ctl(st, g.delay()))
	}
	evs = g.pttPairs(evs)
	if r.Chance(0.2) {
		evs = append(evs, ctl("STATUS CONNECTING TO $R", g.delay()))
	}
	evs = append(evs, ctl("CONNECTED $R "+core.Choice(r, []string{"200", "500", "1000", "2000"}), g.delay()))
	if g.stress == "eager" {
		for i, k := 0, r.Range(1, 3); i < k; i++ {
			e := g.arq(2000)
			e.Batch, e.DelayUs = true, 0
			evs = append(evs, e)
		}
	}
	if !stateFirst {
		e := ctl(st, g.delay())
		e.Batch = g.stress == "coalesced" && r.Chance(0.5)
		evs = append(evs, e)
	}
	if len(evs) > 0 && inbound {
		evs[0].DelayUs += r.Intn(3_000_000)
	}
	return evs
}

func (g *genCtx) connectFail() []Ev {
	r := g.r
	switch r.Pick(3, 1, 1) {
	case 0:
		evs := []Ev{ctl("NEWSTATE ISS", g.delay())}
		evs = g.pttPairs(evs)
		evs = append(evs, ctl("STATUS CONNECT TO $R FAILED!", g.delay()))
		if r.Bool() {
			evs = append(evs, ctl("DISCONNECTED", g.delay()), ctl("NEWSTATE DISC", g.delay()))
		} else {
			evs = append(evs, ctl("NEWSTATE DISC", g.delay()))
		}
		return evs
	case 1:
		return []Ev{ctl("NEWSTATE ISS", g.delay()), ctl(core.Choice(r, []string{"REJECTEDBUSY $R", "REJECTEDBW $R"}), g.delay()), ctl("NEWSTATE DISC", g.delay())}
	}
	return []Ev{ctl("FAULT Not from state FECSend: ARQCALL $R", g.delay())}
}

func (g *genCtx) discScript() []Ev {
	r := g.r
	var evs []Ev
	if r.Chance(0.4) {
		evs = append(evs, ctl("PTT TRUE", g.delay()), ctl("PTT FALSE", g.delay()))
	}
	a, b := ctl("DISCONNECTED", g.delay()), ctl("NEWSTATE DISC", g.delay())
	if r.Bool() {
		a, b = b, a
	}
	b.Batch = g.stress == "coalesced" && r.Chance(0.5)
	if r.Chance(0.04) {
		a.DelayUs = r.Range(31_000_000, 40_000_000) // slower than Close's own 30 s: ABORT path
	}
	evs = append(evs, a, b)
	if r.Chance(0.2) {
		evs = append(evs, ctl("STATUS DISCONNECTED FROM $R", g.delay()))
	}
	return evs
}

func (g *genCtx) session(remoteDisc, faultLines bool) []Ev {
	r := g.r
	hi := 12
	if g.thorough {
		hi = 30
	}
	n := r.Pick(1, 3, 3, 2)
	switch n {
	case 0:
		n = 0
	case 1:
		n = r.Range(1, 3)
	case 2:
		n = r.Range(4, 8)
	default:
		n = r.Range(9, hi)
	}
	var evs []Ev
	for i := 0; i < n; i++ {
		var e Ev
		switch r.Pick(55, 30, 10, 5) {
		case 0:
			e = g.arq(65530) // count field <= 65533
		case 1:
			e = ctl(core.Choice(r, noise), g.delay())
		case 2:
			k := core.Choice(r, []string{"fec", "idf", "err"})
			e = Ev{Kind: k, Size: r.Range(0, 300), Seed: r.Intn(1 << 20), DelayUs: g.delay()}
			if k == "idf" && r.Bool() {
				e.Arg = core.Choice(r, []string{" LA5NTA:[JP20QE] ", "ID:HB9AK [JN36pv]:", " ID W1AW:[FN31] ", "garbled id"})
			}
		default:
			if faultLines {
				e = ctl("FAULT "+core.Choice(r, []string{"5/Error in the application.", "Not from state ISS", "Syntax Err: FOO"}), g.delay())
			} else {
				e = ctl("STATUS "+core.Choice(r, []string{"[RMS Trimode] OK", "LINK QUALITY 71"}), g.delay())
			}
		}
		if i > 0 && g.stress == "coalesced" && r.Chance(0.4) {
			e.Batch, e.DelayUs = true, 0
		}
		evs = append(evs, e)
	}
	if remoteDisc {
		a, b := ctl("DISCONNECTED", g.delay()), ctl("NEWSTATE DISC", g.delay())
		if r.Bool() {
			a, b = b, a
		}
		evs = append(evs, a, b)
	}
	return evs
}

func (g *genCtx) dir(coarse bool) pipe.DirPlan {
	r := g.r
	var d pipe.DirPlan
	if coarse {
		switch r.Pick(3, 2) {
		case 1:
			d.Seg = core.Tape(r, r.Range(1, 4), func() int { return r.Range(1000, 20000) })
		}
	} else {
		switch r.Pick(3, 3, 2, 2) {
		case 1:
			hi := r.Range(1, 7)
			d.Seg = core.Tape(r, r.Range(1, 9), func() int { return r.Range(1, hi) })
		case 2:
			d.Seg = core.Tape(r, r.Range(2, 12), func() int {
				switch r.Pick(2, 2, 1) {
				case 0:
					return r.Range(1, 3)
				case 1:
					return r.Range(4, 200)
				}
				return 0
			})
		case 3:
			d.Seg = []int{1}
		}
	}
	scale := []int{0, 10, 200, 3000, 50000}[r.Intn(5)]
	d.LatUs = core.Tape(r, r.Range(1, 6), func() int { return r.Intn(scale + 1) })
	return d
}

func genC14(tier string, r *core.Rand) Plan {
	g := &genCtx{r: r, thorough: tier == "thorough"}
	var p Plan
	sideSlow := false
	p.Mode = "serial"
	if r.Chance(0.45) {
		p.Mode = "tcp"
	}
	g.serial = p.Mode == "serial"
	p.MyCall, p.Grid = core.Choice(r, myCalls), core.Choice(r, grids)

	// One stress feature at most: each is a regime in which a different clause
	// is under attack; everything else varies freely.
	g.stress = []string{"none", "split", "eager", "tight", "maxframe", "crcfault-cmd", "malformed", "coalesced"}[r.Pick(46, 6, 5, 7, 4, 3, 15, 8)]
	if !g.serial {
		switch g.stress {
		case "split", "eager", "crcfault-cmd":
			g.stress = "none"
		}
	}
	plain := g.stress == "none" || g.stress == "tight"
	crcData := g.serial && r.Chance(0.25) && plain
	badCRC := g.serial && r.Chance(0.25) && plain
	bigWrite := r.Chance(0.12)
	faultLines := r.Chance(0.06)
	dialFail := r.Chance(0.07)
	remoteDisc := r.Chance(0.15) && (plain || g.stress == "malformed" || g.stress == "coalesced")
	accept := r.Chance(0.3)
	second := r.Chance(0.12)

	// ---- model configuration
	t := &p.TNC
	rs := []int{0, 50, 1000, 20000, 300000}[r.Intn(5)]
	t.ReplyLatUs = core.Tape(r, r.Range(1, 5), func() int { return r.Intn(rs + 1) })
	t.Echo = core.Tape(r, r.Range(1, 4), func() int { return r.Intn(2) })
	t.Rdy, t.Greeting, t.EchoDisc, t.DrainPTT = r.Bool(), r.Bool(), r.Bool(), r.Chance(0.4)
	if r.Chance(0.15) {
		t.InitState = "OFFLINE"
	}
	cs := [][2]int{{1, 16}, {16, 256}, {256, 4096}, {4096, 70000}}[r.Intn(4)]
	t.DrainChunk = core.Tape(r, r.Range(1, 4), func() int { return r.Range(cs[0], cs[1]) })
	ds := [][2]int{{100, 1000}, {1000, 50000}, {50000, 2000000}}[r.Intn(3)]
	t.DrainUs = core.Tape(r, r.Range(1, 4), func() int { return r.Range(ds[0], ds[1]) })
	if r.Chance(0.3) {
		for i, k := 0, r.Range(1, 4); i < k; i++ {
			if r.Chance(0.25) {
				t.Idle = append(t.Idle, Ev{Kind: core.Choice(r, []string{"idf", "fec"}), Arg: " LA1B:[JP20QE] ", DelayUs: g.delay()})
			} else {
				t.Idle = append(t.Idle, ctl(core.Choice(r, idleNoise), g.delay()))
			}
		}
	}
	nConn := 1
	if second {
		nConn = 2
	}
	// mixed: a listener and a dialer on one TNC: the station is called, the
	// remote ends that link, then the application calls out itself
	mixed := accept && r.Chance(0.35)
	if mixed {
		t.Inbound = g.connectOK(true)
		t.InboundRemote = core.Choice(r, targets)
		t.Dial = append(t.Dial, g.connectOK(false))
		nConn = 2
		remoteDisc = true
	} else if accept {
		t.Inbound = g.connectOK(true)
		t.InboundRemote = core.Choice(r, targets)
		nConn = 1
	} else {
		if dialFail {
			t.Dial = append(t.Dial, g.connectFail())
		}
		for i := 0; i < nConn; i++ {
			t.Dial = append(t.Dial, g.connectOK(false))
		}
	}
	for i := 0; i < nConn; i++ {
		t.Session = append(t.Session, g.session(remoteDisc && i == 0, faultLines))
	}
	if mixed && r.Chance(0.4) {
		// the end of the first link is announced by the state change alone
		var evs []Ev
		for _, e := range t.Session[0] {
			if e.Kind == "ctl" && e.Arg == "DISCONNECTED" {
				continue
			}
			evs = append(evs, e)
		}
		t.Session[0] = evs
	}
	t.Disc = g.discScript()

	// ---- client script
	step := func(op string) Step { return Step{Op: op, DelayUs: g.delay()} }
	p.Steps = append(p.Steps, step("open"))
	if r.Chance(0.8) {
		p.Steps = append(p.Steps, step("setptt"))
	}
	if r.Chance(0.15) {
		p.Steps = append(p.Steps, step("version"))
	}
	nWrites := 0
	nConnect := 0
	connect := func() {
		nConnect++
		if accept && !(mixed && nConnect > 1) {
			p.Steps = append(p.Steps, step("accept"))
			return
		}
		s := step("dial")
		s.Target = core.Choice(r, targets)
		switch r.Pick(5, 3, 3) {
		case 1:
			s.BW = core.Choice(r, bwValues)
			s.ConnReq = r.Range(2, 15)
		case 2:
			s.URL = true
			if r.Bool() {
				s.BW = core.Choice(r, []string{"200", "500", "1000", "2000", "500MAX", "2000FORCED"})
			}
			if r.Bool() {
				s.ConnReq = r.Range(2, 15)
			}
		}
		p.Steps = append(p.Steps, s)
	}
	for c := 0; c < nConn; c++ {
		connect()
		if dialFail && c == 0 && !accept {
			connect() // the first attempt fails
		}
		k := r.Pick(1, 3, 3, 2)
		switch k {
		case 1:
			k = r.Range(1, 3)
		case 2:
			k = r.Range(4, 7)
		case 3:
			k = r.Range(8, 14)
		}
		for i := 0; i < k; i++ {
			switch r.Pick(60, 20, 14, 6) {
			case 0:
				s := step("write")
				s.Size, s.Seed = g.size(65535), r.Intn(1<<20)
				if bigWrite && r.Chance(0.5) {
					s.Size = r.Range(65536, 70000)
					g.big = true
				}
				nWrites++
				p.Steps = append(p.Steps, s)
			case 1:
				p.Steps = append(p.Steps, step("sleep"))
			case 2:
				s := step("flush")
				s.GiveUpUs = r.Range(60_000_000, 600_000_000)
				p.Steps = append(p.Steps, s)
			default:
				p.Steps = append(p.Steps, step("txbuf"))
			}
		}
		if r.Bool() {
			s := step("flush")
			s.GiveUpUs = r.Range(60_000_000, 600_000_000)
			p.Steps = append(p.Steps, s)
		}
		if r.Chance(0.85) || c+1 < nConn {
			p.Steps = append(p.Steps, step("close"))
		}
	}
	if r.Chance(0.9) {
		p.Steps = append(p.Steps, step("tncclose"))
	}

	// ---- stress features and faults
	sessEv := func(pred func(Ev) bool) []*Ev {
		var out []*Ev
		for i := range t.Session {
			for j := range t.Session[i] {
				if pred(t.Session[i][j]) {
					out = append(out, &t.Session[i][j])
				}
			}
		}
		return out
	}
	ensureArq := func(n int) {
		for len(sessEv(func(e Ev) bool { return e.Kind == "arq" })) < n {
			e := g.arq(3000)
			pos := 0
			if len(t.Session[0]) > 0 && !remoteDisc {
				pos = r.Intn(len(t.Session[0]) + 1)
			}
			t.Session[0] = append(t.Session[0][:pos], append([]Ev{e}, t.Session[0][pos:]...)...)
		}
	}
	switch g.stress {
	case "split":
		ensureArq(2)
		cands := sessEv(func(e Ev) bool { return e.Kind == "arq" || (e.Kind == "ctl" && !strings.Contains(e.Arg, "$")) })
		core.Shuffle(r, cands)
		for i, e := range cands {
			if i >= 1+r.Intn(4) {
				break
			}
			flen := len(e.Arg) + 5
			if e.Kind == "arq" {
				flen = e.Size + 9
			}
			if e.Kind == "arq" && r.Chance(0.25) {
				// no cut at all: a frame of k*4096+1 bytes
				e.Size = r.Range(1, 15)*4096 - 8
				if e.Size > g.maxFrame {
					g.maxFrame = e.Size
				}
				g.big = true
				continue
			}
			switch r.Pick(4, 2, 2, 2) {
			case 0:
				e.Cuts = []int{-1} // between the two CRC bytes
			case 1:
				e.Cuts = []int{-2} // before the CRC
			case 2:
				e.Cuts = []int{r.Range(1, 4)} // inside prefix / count
			default:
				a := r.Range(1, flen-1)
				e.Cuts = []int{a}
				if b := r.Range(a, flen-1); b > a {
					e.Cuts = append(e.Cuts, b)
				}
			}
			e.CutDelayUs = r.Intn(5000)
		}
	case "maxframe":
		ensureArq(1)
		a := sessEv(func(e Ev) bool { return e.Kind == "arq" })
		e := a[r.Intn(len(a))]
		e.Size = r.Range(65531, 65532) // count field 65534 / 65535
		if e.Size > g.maxFrame {
			g.maxFrame = e.Size
		}
		g.big = true
	case "crcfault-cmd":
		t.CrcFaultCmd = []int{r.Intn(16)}
	case "malformed":
		// which script gets it: the connection set-up sequences and the session
		// count most (a malformed line means something different at every step
		// of them), the idle phase and the disconnect sequence less
		var script *[]Ev
		switch r.Pick(5, 4, 1, 1) {
		case 0:
			if accept {
				script = &t.Inbound
			} else {
				script = &t.Dial[r.Intn(len(t.Dial))]
			}
		case 1:
			script = &t.Session[r.Intn(len(t.Session))]
		case 2:
			script = &t.Idle
		default:
			script = &t.Disc
		}
		insert := func(pos int, e Ev) {
			*script = append((*script)[:pos], append([]Ev{e}, (*script)[pos:]...)...)
		}
		switch r.Pick(12, 3, 2, 2, 1) {
		case 0:
			// a malformed control line: instead of, before or after a well-formed
			// line of the script (then of the same command word as often as not),
			// or anywhere with any command word the interface knows
			if accept && r.Chance(0.25) {
				// the inbound sequence after TARGET: a CONNECTED line that lacks its
				// parameters, instead of or next to the well-formed one
				script = &t.Inbound
				ti, ci := -1, -1
				for i, e := range t.Inbound {
					if e.Kind == "ctl" && strings.HasPrefix(e.Arg, "TARGET") {
						ti = i
					}
					if e.Kind == "ctl" && strings.HasPrefix(e.Arg, "CONNECTED") {
						ci = i
					}
				}
				if ti >= 0 && ci > ti {
					e := ctl(core.Choice(r, []string{"CONNECTED", "CONNECTED ", "connected", "CONNECTED \t", "Connected  "}), g.delay())
					switch r.Pick(2, 2, 1, 1) {
					case 0:
						e.DelayUs = t.Inbound[ci].DelayUs
						t.Inbound[ci] = e
					case 1:
						insert(r.Range(ti+1, ci), e)
					case 2:
						insert(ci+1, e)
					default:
						e.Batch = true // in the segment of the line before it
						insert(r.Range(ti+1, ci), e)
					}
					break
				}
			}
			var ctls []int
			for i, e := range *script {
				if e.Kind == "ctl" {
					ctls = append(ctls, i)
				}
			}
			if len(ctls) > 0 && r.Chance(0.65) {
				i := ctls[r.Intn(len(ctls))]
				word, _, _ := strings.Cut(strings.TrimSpace((*script)[i].Arg), " ")
				if r.Chance(0.3) {
					word = core.Choice(r, ctlWords)
				}
				e := ctl(g.malformedLine(word), g.delay())
				switch r.Pick(3, 1, 1) {
				case 0:
					e.DelayUs = (*script)[i].DelayUs
					(*script)[i] = e // instead of it
				case 1:
					insert(i, e) // in addition, before
				default:
					insert(i+1, e) // in addition, after
				}
			} else {
				line := g.malformedLine(core.Choice(r, ctlWords))
				if r.Chance(0.25) {
					line = core.Choice(r, oddLines)
				}
				insert(r.Intn(len(*script)+1), ctl(line, g.delay()))
			}
		case 1:
			insert(r.Intn(len(*script)+1), Ev{Kind: "dframe", Hex: core.Choice(r, []string{"", "41", "4152", "46", "4944"}), DelayUs: g.delay()})
		case 2:
			b := r.Bytes(r.Range(1, 200))
			if r.Bool() {
				b = append(b, '\r')
			}
			insert(r.Intn(len(*script)+1), Ev{Kind: "raw", Arg: "ctrl", Hex: hex.EncodeToString(b), DelayUs: g.delay()})
		case 3:
			insert(r.Intn(len(*script)+1), Ev{Kind: "raw", Arg: "data", Hex: hex.EncodeToString(r.Bytes(r.Range(1, 200))), DelayUs: g.delay()})
		default:
			insert(r.Intn(len(*script)+1), Ev{Kind: "dframe", Hex: hex.EncodeToString(append([]byte(core.Choice(r, []string{"XYZ", "arq", "AR"})), r.Bytes(r.Intn(20))...)), DelayUs: g.delay()})
		}
	}
	if crcData && nWrites > 0 {
		first := r.Intn(nWrites + 1)
		t.CrcFaultData = []int{first}
		switch r.Pick(5, 3, 2) {
		case 1:
			t.CrcFaultData = append(t.CrcFaultData, first+1)
		case 2:
			t.CrcFaultData = append(t.CrcFaultData, first+1, first+2) // the host may give up
		}
		if r.Chance(0.3) {
			t.CrcFaultData = append(t.CrcFaultData, first+3+r.Intn(nWrites+1))
		}
	}
	if badCRC {
		cands := sessEv(func(e Ev) bool { return (e.Kind == "arq" || e.Kind == "ctl") && !e.Batch && len(e.Cuts) == 0 })
		core.Shuffle(r, cands)
		for i, e := range cands {
			if i >= 1+r.Intn(3) {
				break
			}
			e.Bad, e.BadDelayUs = r.Range(1, 2), r.Range(1, 50000)
		}
	}

	// ---- reader
	rd := &p.Reader
	rd.StartDelayUs = g.delay()
	ts := []int{0, 0, 1000, 100_000, 2_000_000}[r.Intn(5)]
	rd.ThinkUs = core.Tape(r, r.Range(1, 4), func() int { return r.Intn(ts + 1) })
	if g.stress == "tight" {
		ensureArq(1)
		hi := g.maxFrame
		if hi < 2 {
			hi = 2
		}
		// a few thousand Read calls per run at most
		total := 0
		for _, e := range sessEv(func(e Ev) bool { return e.Kind == "arq" }) {
			total += e.Size
		}
		lo := total/2000 + 1
		if lo > hi {
			lo = hi
		}
		rd.Bufs = core.Tape(r, r.Range(1, 4), func() int { return r.Range(lo, hi) })
		if total/lo > 100 {
			for i := range rd.ThinkUs {
				rd.ThinkUs[i] %= 2000
			}
		}
	} else {
		lo := g.maxFrame
		if lo < 1 {
			lo = 1
		}
		rd.Bufs = core.Tape(r, r.Range(1, 4), func() int {
			switch r.Pick(3, 2, 1) {
			case 0:
				return lo
			case 1:
				return r.Range(lo, 65536)
			}
			return 65536
		})
	}

	if g.big {
		// keep the number of drain steps of a 64 KB buffer in the hundreds
		for i := range t.DrainChunk {
			if t.DrainChunk[i] < 400 {
				t.DrainChunk[i] += r.Range(400, 3000)
			}
		}
	}

	// ---- a second application goroutine asking for the version now and then
	if r.Chance(0.12) {
		for i, n := 0, r.Range(1, 8); i < n; i++ {
			p.Side = append(p.Side, Step{Op: "version", DelayUs: g.delay()})
		}
		if r.Chance(0.6) && len(p.Link.AB.WriteDelayUs) == 0 {
			// a slow port: every write of the host takes its time
			sideSlow = true
		}
	}

	// ---- a quiet link: more than a minute without any ARQ frame, then data
	// (the ARQ timeout is 90 s; timers that run per frame have expired by then)
	if nConn > 0 && len(t.Session) > 0 && r.Chance(0.02) {
		quiet := r.Range(61_000_000, 200_000_000)
		var evs []Ev
		for i, n := 0, r.Range(1, 4); i < n; i++ {
			e := g.arq(2000)
			e.DelayUs = quiet
			evs = append(evs, e)
		}
		t.Session[0] = append(evs, t.Session[0]...)
		for i, st := range p.Steps {
			if st.Op == "dial" || st.Op == "accept" {
				for i+1 < len(p.Steps) && (p.Steps[i+1].Op == "dial" || p.Steps[i+1].Op == "accept") {
					i++
				}
				rest := append([]Step{{Op: "sleep", DelayUs: 4*quiet + 5_000_000}}, p.Steps[i+1:]...)
				p.Steps = append(p.Steps[:i+1:i+1], rest...)
				break
			}
		}
	}

	// ---- backlog: more ARQ frames than the library queues (4096) arrive while
	// the application is busy elsewhere; it comes back well within a minute
	if nConn > 0 && len(t.Session) > 0 && r.Chance(0.004) {
		e := Ev{Kind: "arq", Size: r.Range(1, 3), Seed: r.Intn(1 << 20), DelayUs: r.Intn(50_000),
			Rep: core.Choice(r, []int{4090, 4096, 4097, 4100, 4500, 6000})}
		t.Session[0] = append([]Ev{e}, t.Session[0]...)
		rd.StartDelayUs = r.Range(1_000_000, 20_000_000)
		rd.ThinkUs = []int{0}
		for i, st := range p.Steps {
			if st.Op == "dial" || st.Op == "accept" {
				for i+1 < len(p.Steps) && (p.Steps[i+1].Op == "dial" || p.Steps[i+1].Op == "accept") {
					i++ // the first attempt fails
				}
				rest := append([]Step{{Op: "sleep", DelayUs: 40_000_000}}, p.Steps[i+1:]...)
				p.Steps = append(p.Steps[:i+1:i+1], rest...)
				break
			}
		}
		g.big = true
	}

	// ---- links
	p.Link = pipe.Plan{AB: g.dir(g.big), BA: g.dir(g.big)}
	p.DataLink = pipe.Plan{AB: g.dir(g.big), BA: g.dir(g.big)}
	if r.Chance(0.15) || sideSlow {
		p.Link.AB.WriteDelayUs = core.Tape(r, r.Range(1, 3), func() int { return r.Intn(3000) })
	}
	if g.serial {
		p.Link.BA.Seg = nil
		p.DataLink = pipe.Plan{}
	} else if r.Chance(0.06) {
		p.TNC.EarlyData = true
	}
	return p
}

var _ = fmt.Sprint
