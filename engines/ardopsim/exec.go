package ardopsim

import (
	"encoding/json"
	"fmt"
	"io"
	"log"
	"net"
	"net/url"
	"os"
	"runtime"
	"runtime/debug"
	"strconv"
	"strings"
	"sync"
	"sync/atomic"
	"testing"
	"time"

	"github.com/la5nta/wl2k-go/transport"
	"github.com/la5nta/wl2k-go/transport/ardop"
	"verif/ref/ardoptnc"
	"verif/sim/core"
	"verif/sim/pipe"
	"verif/sim/simnet"
)

func init() {
	// the library reports unparsable TNC lines on the default logger
	log.SetOutput(io.Discard)
}

const (
	ctrlAddr = "tnc:8515"
	dataAddr = "tnc:8516"

	clientBudget = 12 * time.Hour   // simulated; a client that is still blocked then is blocked for good
	settle       = 3 * time.Minute  // lets the library's own 30 s / 1 min timers and everything in flight finish
	afterClose   = 10 * time.Minute // simulated time given to blocked calls once the TNC went away
)

// callRec is one library call made by the scripted client.
type callRec struct {
	Op    string
	Step  int
	Conn  int // 1-based index of the client connection the call belongs to, 0: none
	Start time.Duration
	End   time.Duration // -1: has not returned
	N     int
	Size  int
	Seed  int
	Err   string // "" = nil error
	OK    bool   // returned without error
	Panic any
	Stack string
	Late  bool // returned only after the teardown began
}

func (c *callRec) returned() bool { return c.End >= 0 }

// connRec is one connection the client obtained from Dial or Accept.
type connRec struct {
	Idx      int
	Via      string // dial | accept
	conn     net.Conn
	OpenedAt time.Duration // the call that returned it started / ended
	CallAt   time.Duration
	Got      []byte
	Reads    int
	MinBuf   int
	ReadErr  string
	ReadEnd  time.Duration // -1: reader still blocked
	Panic    any
	Stack    string
	CloseAt  time.Duration // first conn.Close / TNC.Close call after it opened, -1: none
	inRead   bool          // the reader is inside a Read call (false at the end of the run: it was still pausing between reads)
	broken   bool          // a Write or Flush on it failed: the application stops using it (it still closes it)
	reader   *core.GoResult
}

type pttCall struct {
	At time.Duration
	On bool
}

type pttStub struct {
	sim   *core.Sim
	mu    sync.Mutex
	calls []pttCall
}

func (s *pttStub) SetPTT(on bool) error {
	s.mu.Lock()
	s.calls = append(s.calls, pttCall{At: s.sim.Now(), On: on})
	s.mu.Unlock()
	s.sim.Logf("ptt stub <- %v", on)
	return nil
}

// runState is everything one run collects.
type runState struct {
	sim   *core.Sim
	plan  *Plan
	reg   regime
	model *ardoptnc.TNC
	ptt   *pttStub

	mu           sync.Mutex
	calls        []*callRec
	conns        []*connRec
	tncs         []*ardop.TNC
	extra        []*core.GoResult // outstanding calls the script gave up waiting for
	acceptLoop   bool
	extraAccepts []time.Duration // instants at which the listener handed out further connections
	sideG        *core.GoResult  // the application's second goroutine
	sideStop     atomic.Bool
	setPTTAt     time.Duration
	tncClose     time.Duration
	teardown     bool
	teardownT    time.Duration
	down         atomic.Bool // = teardown, for hostEnd
	listeners    []net.Listener
}

func (rs *runState) tearingDown() bool {
	rs.mu.Lock()
	defer rs.mu.Unlock()
	return rs.teardown
}

func errStr(err error) string {
	if err == nil {
		return ""
	}
	s := err.Error()
	if s == "" {
		s = "error"
	}
	return s
}

// call runs one library call on the calling goroutine and records it.
func (rs *runState) call(op string, step, conn int, fn func(c *callRec) error) *callRec {
	c := &callRec{Op: op, Step: step, Conn: conn, Start: rs.sim.Now(), End: -1}
	rs.mu.Lock()
	rs.calls = append(rs.calls, c)
	rs.mu.Unlock()
	rs.sim.Logf("client %s #%d begin", op, step)
	func() {
		defer func() {
			if p := recover(); p != nil {
				c.Panic = p
				c.Stack = string(debug.Stack())
			}
		}()
		err := fn(c)
		c.Err = errStr(err)
		c.OK = err == nil
	}()
	c.End = rs.sim.Now()
	c.Late = rs.tearingDown()
	if c.Panic != nil {
		rs.sim.Logf("client %s #%d PANIC %v", op, step, c.Panic)
	} else {
		rs.sim.Logf("client %s #%d end n=%d err=%q", op, step, c.N, c.Err)
	}
	return c
}

// sleep pauses the calling goroutine for at least d and wakes it at an instant
// no environment event uses (core.Sim hands out unique instants): two timers
// firing at the same simulated nanosecond would be ordered by the runtime, not
// by the plan.
func (rs *runState) sleep(d time.Duration) {
	now := rs.sim.Now()
	at := rs.sim.Reserve(now + d)
	time.Sleep(at - now)
}

func usDur(us int) time.Duration {
	if us < 0 {
		us = 0
	}
	if us > 3_600_000_000 {
		us = 3_600_000_000
	}
	return time.Duration(us) * time.Microsecond
}

// side is the application's second goroutine (Plan.Side).
func (rs *runState) side(tnc *ardop.TNC) {
	rs.sim.Probe("second-application-goroutine-issues-commands")
	for i, st := range rs.plan.Side {
		if i >= 64 {
			return
		}
		rs.sleep(usDur(st.DelayUs))
		if rs.tearingDown() || rs.sideStop.Load() {
			return
		}
		if st.Op == "version" {
			rs.call("version", 1000+i, 0, func(c *callRec) error { _, err := tnc.Version(); return err })
		}
	}
}

// client is the scripted application.
func (rs *runState) client(open func() (*ardop.TNC, error)) {
	var tnc *ardop.TNC
	var cur *connRec
	var ln net.Listener
	for i, st := range rs.plan.Steps {
		rs.sleep(usDur(st.DelayUs))
		if rs.tearingDown() {
			return
		}
		var c *callRec
		switch st.Op {
		case "open":
			if tnc != nil {
				continue
			}
			c = rs.call("open", i, 0, func(c *callRec) error {
				t, err := open()
				if t != nil {
					rs.mu.Lock()
					rs.tncs = append(rs.tncs, t)
					rs.mu.Unlock()
				}
				if err == nil {
					tnc = t
				}
				return err
			})
			if tnc != nil && len(rs.plan.Side) > 0 {
				t := tnc
				g := core.Go(func() { rs.side(t) })
				rs.mu.Lock()
				rs.extra = append(rs.extra, g)
				rs.sideG = g
				rs.mu.Unlock()
			}
		case "setptt":
			if tnc == nil {
				continue
			}
			rs.mu.Lock()
			if rs.setPTTAt < 0 {
				rs.setPTTAt = rs.sim.Now()
			}
			rs.mu.Unlock()
			tnc.SetPTT(rs.ptt)
			rs.sim.Logf("client setptt")
		case "version":
			if tnc == nil {
				continue
			}
			c = rs.call("version", i, 0, func(c *callRec) error { _, err := tnc.Version(); return err })
		case "dial", "accept":
			if tnc == nil || cur != nil {
				continue
			}
			var conn net.Conn
			start := rs.sim.Now()
			if st.Op == "dial" {
				c = rs.call("dial", i, 0, func(c *callRec) error {
					var err error
					conn, err = dial(tnc, st)
					return err
				})
			} else {
				if ln == nil {
					c = rs.call("listen", i, 0, func(c *callRec) error {
						var err error
						ln, err = tnc.Listen()
						return err
					})
					if !c.OK || c.Panic != nil || ln == nil {
						ln = nil
						break
					}
					rs.mu.Lock()
					rs.listeners = append(rs.listeners, ln)
					rs.mu.Unlock()
				}
				c = rs.call("accept", i, 0, func(c *callRec) error {
					var err error
					conn, err = ln.Accept()
					return err
				})
			}
			if st.Op == "accept" && c.OK && c.Panic == nil && conn != nil && !rs.acceptLoop {
				// the application keeps accepting: whatever else the listener hands
				// out is counted (and closed) - a TNC has one link at a time, so
				// nothing may come before this connection has ended
				rs.acceptLoop = true
				l := ln
				g := core.Go(func() {
					for k := 0; k < 8; k++ {
						extra, err := l.Accept()
						if err != nil || extra == nil {
							return
						}
						rs.mu.Lock()
						rs.extraAccepts = append(rs.extraAccepts, rs.sim.Now())
						rs.mu.Unlock()
						rs.sim.Logf("listener handed out another connection (%v <- %v)", extra.LocalAddr(), extra.RemoteAddr())
					}
				})
				rs.mu.Lock()
				rs.extra = append(rs.extra, g)
				rs.mu.Unlock()
			}
			if c.OK && c.Panic == nil && conn != nil {
				cur = &connRec{Via: st.Op, conn: conn, CallAt: start, OpenedAt: rs.sim.Now(), ReadEnd: -1, CloseAt: -1, MinBuf: 1 << 30}
				rs.mu.Lock()
				cur.Idx = len(rs.conns) + 1
				rs.conns = append(rs.conns, cur)
				rs.mu.Unlock()
				c.Conn = cur.Idx
				cr := cur
				cur.reader = core.Go(func() { rs.reader(cr) })
			}
		case "write":
			if cur == nil || cur.broken {
				continue
			}
			size := st.Size
			if size < 0 {
				size = 0
			}
			if size > 70000 {
				size = 70000
			}
			p := ardoptnc.Pattern(st.Seed, size)
			conn := cur.conn
			c = rs.call("write", i, cur.Idx, func(c *callRec) error {
				c.Size, c.Seed = size, st.Seed
				n, err := conn.Write(p)
				c.N = n
				return err
			})
			if !c.OK {
				cur.broken = true
			}
		case "txbuf":
			if cur == nil {
				continue
			}
			if tb, ok := cur.conn.(transport.TxBuffer); ok {
				rs.sim.Logf("client txbuflen=%d", tb.TxBufferLen())
			}
		case "flush":
			if cur == nil || cur.broken {
				continue
			}
			fl, ok := cur.conn.(transport.Flusher)
			if !ok {
				continue
			}
			idx, cr := cur.Idx, cur
			run := func() {
				if c := rs.call("flush", i, idx, func(c *callRec) error { return fl.Flush() }); !c.OK {
					cr.broken = true
				}
			}
			if st.GiveUpUs <= 0 {
				run()
				break
			}
			g := core.Go(run)
			if !core.WaitAll(usDur(st.GiveUpUs), g) {
				rs.sim.Logf("client flush #%d: script goes on without it", i)
				rs.mu.Lock()
				rs.extra = append(rs.extra, g)
				rs.mu.Unlock()
			}
		case "close":
			if cur == nil {
				continue
			}
			conn := cur.conn
			if cur.CloseAt < 0 {
				cur.CloseAt = rs.sim.Now()
			}
			c = rs.call("close", i, cur.Idx, func(c *callRec) error { return conn.Close() })
			cur = nil
		case "tncclose":
			if tnc == nil {
				continue
			}
			// an application joins its helpers before it closes the TNC under them
			if rs.sideG != nil {
				rs.sideStop.Store(true)
				core.WaitAll(time.Hour, rs.sideG)
			}
			rs.mu.Lock()
			if rs.tncClose < 0 {
				rs.tncClose = rs.sim.Now()
			}
			rs.mu.Unlock()
			if cur != nil && cur.CloseAt < 0 {
				cur.CloseAt = rs.sim.Now()
			}
			idx := 0
			if cur != nil {
				idx = cur.Idx
			}
			t := tnc
			c = rs.call("tncclose", i, idx, func(c *callRec) error { return t.Close() })
			if c.OK {
				tnc, cur, ln = nil, nil, nil
			}
		}
		if c != nil && c.Panic != nil {
			return // the application crashed inside a library call
		}
	}
}

func dial(tnc *ardop.TNC, st Step) (net.Conn, error) {
	target := st.Target
	if target == "" {
		target = "N0SIM"
	}
	if st.URL {
		q := url.Values{}
		if st.BW != "" {
			q.Set("bw", st.BW)
		}
		if st.ConnReq != 0 {
			q.Set("connect_requests", strconv.Itoa(st.ConnReq))
		}
		raw := "ardop:///" + target
		if len(q) > 0 {
			raw += "?" + q.Encode()
		}
		u, err := transport.ParseURL(raw)
		if err != nil {
			return nil, err
		}
		return tnc.DialURL(u)
	}
	if st.BW == "" && st.ConnReq == 0 {
		return tnc.Dial(target)
	}
	var bw ardop.Bandwidth
	if st.BW != "" {
		var err error
		if bw, err = ardop.BandwidthFromString(strings.ToUpper(st.BW)); err != nil {
			return nil, err
		}
	}
	return tnc.DialBandwidth(target, bw, st.ConnReq)
}

// reader reads one connection until Read fails.
func (rs *runState) reader(cr *connRec) {
	defer func() {
		if p := recover(); p != nil {
			cr.Panic = p
			cr.Stack = string(debug.Stack())
			rs.sim.Logf("reader conn %d PANIC %v", cr.Idx, p)
		}
		cr.ReadEnd = rs.sim.Now()
	}()
	rp := rs.plan.Reader
	rs.sleep(usDur(rp.StartDelayUs))
	for i := 0; ; i++ {
		sz := core.TapeAt(rp.Bufs, i, 65536)
		if sz < 1 {
			sz = 1
		}
		if sz > 1<<17 {
			sz = 1 << 17
		}
		if sz < cr.MinBuf {
			cr.MinBuf = sz
		}
		buf := make([]byte, sz)
		cr.inRead = true
		n, err := cr.conn.Read(buf)
		cr.inRead = false
		cr.Reads++
		if n > 0 && n <= len(buf) {
			cr.Got = append(cr.Got, buf[:n]...)
		}
		if n < 0 || n > len(buf) {
			cr.ReadErr = fmt.Sprintf("Read returned n=%d for a %d byte buffer", n, len(buf))
			rs.sim.Logf("reader conn %d: %s", cr.Idx, cr.ReadErr)
			return
		}
		if err != nil {
			cr.ReadErr = errStr(err)
			rs.sim.Logf("reader conn %d ends after %d bytes: %v", cr.Idx, len(cr.Got), err)
			return
		}
		rs.sim.Logf("reader conn %d read %d/%d total %d", cr.Idx, n, sz, len(cr.Got))
		if d := usDur(core.TapeAt(rp.ThinkUs, i, 0)); d > 0 {
			rs.sleep(d)
		}
		if i > 1<<20 {
			return
		}
	}
}

// hostEnd is what ardop.Open gets in serial mode: the host's end of the link.
// After the run's teardown began writes are swallowed so that nothing the
// teardown itself causes can look like a library failure.
//
// Goroutines of the library that stay blocked after the run keep this value
// alive for the life of the worker process: it must not lead to the run's data.
type hostEnd struct {
	end  atomic.Pointer[pipe.End] // cleared when the run is over: the link leads to the Sim and its tables
	down *atomic.Bool
}

func (h *hostEnd) Read(p []byte) (int, error) {
	if e := h.end.Load(); e != nil {
		return e.Read(p)
	}
	return 0, io.EOF // the only error that ends the library's decoder loop for good
}

func (h *hostEnd) Write(p []byte) (int, error) {
	e := h.end.Load()
	if e == nil {
		return len(p), nil
	}
	n, err := e.Write(p)
	if err != nil && h.down.Load() {
		return len(p), nil
	}
	return n, err
}

func (h *hostEnd) Close() error {
	if e := h.end.Load(); e != nil {
		return e.Close()
	}
	return nil
}

// drainLinks returns when no byte is in flight on any link (or the link died).
func drainLinks(links []*pipe.Link) {
	var gs []*core.GoResult
	for _, l := range links {
		for _, e := range []*pipe.End{l.A, l.B} {
			f, ok := pipe.WithCaps(e, []string{"flusher"}).(transport.Flusher)
			if !ok {
				continue
			}
			gs = append(gs, core.Go(func() { f.Flush() }))
		}
	}
	core.WaitAll(clientBudget, gs...)
}

func execC14(t *testing.T, prop string, raw json.RawMessage, trace bool) core.Outcome {
	var out core.Outcome
	var p Plan
	if err := json.Unmarshal(raw, &p); err != nil {
		out.Violate(prop, "harness", "bad-plan", fmt.Sprint("unusable plan: ", err))
		return out
	}
	p.normalize()
	reg := regimeOf(&p)
	// If a goroutine of the library panics the process dies before anything can
	// be recorded; the orchestrator classifies the death from stderr. This line
	// tells it whether the TNC model was conforming in this run.
	fmt.Fprintf(os.Stderr, "VERIF-DEATH-TAG: %s\n", reg.deathTag())

	leak, pv, stack := core.Bubble(t, trace, func(sim *core.Sim) {
		rs := &runState{sim: sim, plan: &p, reg: reg, setPTTAt: -1, tncClose: -1}
		rs.ptt = &pttStub{sim: sim}
		rs.model = ardoptnc.New(sim, p.Mode, p.TNC)
		sim.Probe(p.Mode + "-mode")
		var open func() (*ardop.TNC, error)
		var serial *pipe.Link
		var host *hostEnd
		var network *simnet.Net
		if p.Mode == "serial" {
			serial = pipe.New(sim, p.Link)
			rs.model.AttachSerial(serial)
			host = &hostEnd{down: &rs.down}
			host.end.Store(serial.A)
			open = func() (*ardop.TNC, error) { return ardop.Open(host, p.MyCall, p.Grid) }
		} else {
			network = simnet.New(sim)
			network.LinkPlan = func(addr string, n int) pipe.Plan {
				if addr == dataAddr {
					return p.DataLink
				}
				return p.Link
			}
			simnet.Use(network)
			rs.model.ServeTCP(network, ctrlAddr, dataAddr)
			open = func() (*ardop.TNC, error) { return ardop.OpenTCP(ctrlAddr, p.MyCall, p.Grid) }
		}

		client := core.Go(func() { rs.client(open) })
		finished := core.WaitAll(clientBudget, client)
		// readers end when their connection ends; outstanding calls likewise
		rs.mu.Lock()
		var others []*core.GoResult
		for _, c := range rs.conns {
			others = append(others, c.reader)
		}
		others = append(others, rs.extra...)
		rs.mu.Unlock()
		// A reader blocked in Read for good costs nothing to wait for (the fake
		// clock jumps); one that is still working through its think times is
		// given the time to finish.
		core.WaitAll(clientBudget, others...)
		// Nothing is judged while bytes are still travelling: a slow link (one
		// byte every 40 ms is a legal schedule) may need minutes for what Write
		// has long handed over. Drain, let both sides react, drain again.
		var links []*pipe.Link
		if serial != nil {
			links = append(links, serial)
		} else {
			links = append(links, network.Links...)
		}
		for pass := 0; pass < 3; pass++ {
			drainLinks(links)
			time.Sleep(settle)
		}

		// ---- judge the quiescent state
		rs.judge(prop, finished, &out)

		// ---- teardown
		rs.mu.Lock()
		rs.teardown, rs.teardownT = true, sim.Now()
		rs.down.Store(true)
		tncs := append([]*ardop.TNC(nil), rs.tncs...)
		rs.mu.Unlock()
		rs.model.Stop()
		for _, tn := range tncs {
			// Open installed (*TNC).Close as finalizer; it must never run after
			// the bubble is gone.
			runtime.SetFinalizer(tn, nil)
		}
		if p.Mode == "serial" {
			rs.model.CloseStream("serial")
		} else {
			rs.model.CloseStream("ctrl")
			time.Sleep(time.Minute)
			rs.model.CloseStream("data")
		}
		all := append([]*core.GoResult{client}, others...)
		core.WaitAll(afterClose, all...)
		if p.Mode == "serial" {
			serial.A.Close()
		} else {
			for _, l := range network.Links {
				l.A.Close()
			}
			simnet.Use(nil)
		}
		core.WaitAll(time.Minute, all...)
		time.Sleep(time.Minute) // the library's goroutines see the closed streams and wind down
		// The listener goroutine of a closed TNC waits for somebody to take its
		// last error; take it so that it can end.
		var drains []*core.GoResult
		for _, ln := range rs.listeners {
			ln := ln
			drains = append(drains, core.Go(func() { ln.Accept(); ln.Accept() }))
		}
		core.WaitAll(time.Minute, drains...)
		sim.FillOutcome(&out)
		// Whatever stays blocked in this bubble is never collected: cut what it
		// can still reach (link taps -> model -> every payload of the run).
		if serial != nil {
			serial.Tap(nil, nil)
			host.end.Store(nil)
		}
		if network != nil {
			for _, l := range network.Links {
				l.Tap(nil, nil)
			}
		}
		rs.model.Release()
		rs.mu.Lock()
		rs.calls, rs.conns, rs.tncs, rs.extra, rs.listeners, rs.plan, rs.model = nil, nil, nil, nil, nil, nil, nil
		rs.mu.Unlock()
	})
	if pv != nil {
		out.Violate(prop, "harness", "bubble-panic", fmt.Sprintf("%v\n%s", pv, stack))
	}
	if leak {
		// Goroutines of the library stay blocked after the TNC went away
		// (decodeTNCStream on its error channel, callers waiting on tnc.out).
		// C14 does not promise a clean shutdown: counted, not judged.
		if out.Probes == nil {
			out.Probes = map[string]int{}
		}
		out.Probes["goroutines-left-blocked-at-end"]++
	}
	return out
}
