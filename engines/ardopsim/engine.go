// Package ardopsim is the engine behind C14: the real transport/ardop package
// against the model TNC of ref/ardoptnc, over the serial (CRC) host interface
// through ardop.Open's io.ReadWriteCloser seam and over the two-socket TCP
// interface through the simulated network.
package ardopsim

import (
	"encoding/json"
	"testing"

	"verif/sim/core"
)

type Engine struct{}

func (Engine) Name() string { return "ardopsim" }

func (Engine) Info(prop string) core.Info {
	if prop != "C14" {
		return core.Info{}
	}
	return core.Info{
		Level: "exploration",
		Rule: "one plan = one scripted application (Open/OpenTCP, SetPTT, Dial/DialURL/DialBandwidth or Listen+Accept, Writes of 1-70000 B, Flush, Close, TNC.Close, a reader with seeded buffer sizes 1 B-64 KB and think times) against the model TNC (reply latencies, echo styles, RDY, TX buffer drain with BUFFER reports, scripted NEWSTATE/PTT/BUSY/PENDING/TARGET/CONNECTED/DISCONNECTED orders, ARQ/FEC/IDF/ERR frames with count fields up to 65535, CRCFAULT injection, frames with a bad CRC, frames handed over in pieces, FAULT lines, malformed lines/frames and raw garbage) on seeded links (latency, segmentation), serial or TCP. " +
			"Non-trivial: at least one ARQ payload byte was read by the client or one data frame was taken by the TNC model, or a malformed frame reached the host. Distinct: distinct event-log hash (model rx/tx, client call results, reader progress, PTT calls, with simulated timestamps). " +
			"TCP plans may let ARQ frames overtake the CONNECTED line across the two sockets (early_data, known finding), and 0.4 % of the plans script a run of 4090-6000 small ARQ frames while the application reads nothing for 1-20 s (receive-queue backlog). ",
		Real: []string{"transport/ardop (TNC, control loop, broadcaster, tncConn, frame and command parsing, CRC, dial, listen) with all goroutines it starts", "transport (URL, interfaces)"},
		Stub: []string{"clock (testing/synctest)", "serial line (sim/pipe behind ardop.Open's io.ReadWriteCloser)", "TCP sockets (net import swapped for sim/shim/net -> sim/simnet)", "ARDOP TNC (ref/ardoptnc, written from the host interface spec)", "PTT controller (recording stub)", "application (scripted client)"},
		Assumptions: []string{
			"library runs on the Go 1.26.8 standard library, not 1.24.0",
			"goroutine choice between two environment events is the Go runtime's at GOMAXPROCS=1 (no injected yields in this engine yet)",
			"TCP mode follows the two-socket ARDOPc convention the library implements (control port, data port = control+1, no C:/D: prefixes), which the 2016 spec text in docs/ does not describe; the serial framing follows the spec",
			"the model does not wait for the host's RDY/CRCFAULT acknowledgements the spec asks for (the property does not mention them); they are counted by a probe",
			"in TCP mode the model keeps the CONNECTED -> data -> DISCONNECTED causality across the two sockets (it waits for the other socket to drain); the cross-socket race itself is not explored",
			"after any malformed TNC output (non-spec line, frame too short for a type, raw garbage) only 'the process does not crash', host->TNC framing and Write's n <= len(p) are judged",
			"every signature ends in the regime of the run (serial|tcp plus -split, -eager, -coalesced, -maxframe from the plan and -disc-during-dial, -bufrace from what the model observed); the generator gives a run at most one of the plan-level stress features, so the plain regimes serial and tcp keep every clause strict",
			"a Flush or Write issued after the TNC reported the end of the link is not judged (the library's select between 'flushed' and 'EOF' is random there)",
		},
		QuickRuns:    100000,
		ThoroughRuns: 1000000,
		WatchdogSec:  120,
	}
}

func (Engine) Generate(prop, tier string, r *core.Rand, run int) any {
	return genC14(tier, r)
}

func (Engine) Execute(t *testing.T, prop string, plan json.RawMessage, trace bool) core.Outcome {
	if prop == "C14" {
		return execC14(t, prop, plan, trace)
	}
	var o core.Outcome
	o.Violate(prop, "harness", "unknown-property", "engine ardopsim does not serve "+prop)
	return o
}
