package ardopsim

import (
	"strings"

	"verif/ref/ardoptnc"
	"verif/sim/pipe"
)

// Step is one action of the scripted client. Steps run one after the other on
// one goroutine; DelayUs is the simulated pause before the step.
type Step struct {
	DelayUs int `json:"d,omitempty"`
	// Op: open | setptt | dial | accept | write | flush | close | tncclose |
	// sleep | version | txbuf
	Op string `json:"op"`
	// dial
	Target  string `json:"target,omitempty"`
	BW      string `json:"bw,omitempty"`  // "" (plain Dial) | 200MAX ... 2000FORCED | 500 (URL form)
	URL     bool   `json:"url,omitempty"` // DialURL("ardop:///TARGET?bw=..&connect_requests=..")
	ConnReq int    `json:"connreq,omitempty"`
	// write: payload = Pattern(Seed, Size)
	Size int `json:"n,omitempty"`
	Seed int `json:"s,omitempty"`
	// GiveUpUs (flush): the script goes on after this long even if the call has
	// not returned (the call stays outstanding and is still judged if it
	// returns). 0: wait for it.
	GiveUpUs int `json:"giveup_us,omitempty"`
}

// ReaderPlan drives the goroutine that reads every connection to its end.
type ReaderPlan struct {
	Bufs         []int `json:"bufs,omitempty"`     // buffer size of each Read, cyclic (default 65536)
	ThinkUs      []int `json:"think_us,omitempty"` // pause after each Read, cyclic
	StartDelayUs int   `json:"start_us,omitempty"`
}

// Plan is one run: workload + model configuration + schedule.
type Plan struct {
	Mode   string `json:"mode"` // serial | tcp
	MyCall string `json:"mycall,omitempty"`
	Grid   string `json:"grid,omitempty"`
	// Side: a second goroutine of the application that, once the TNC is
	// open, asks for the TNC's version at its own pace (ops: version, sleep)
	// whatever the main script is doing (a status display, a keep-alive).
	Side     []Step        `json:"side,omitempty"`
	Link     pipe.Plan     `json:"link"`      // serial line, or the TCP control socket; A = host, B = TNC
	DataLink pipe.Plan     `json:"data_link"` // TCP data socket
	TNC      ardoptnc.Plan `json:"tnc"`
	Steps    []Step        `json:"steps"`
	Reader   ReaderPlan    `json:"reader"`
}

func (p *Plan) normalize() {
	if p.Mode != "tcp" {
		p.Mode = "serial"
	}
	if p.MyCall == "" {
		p.MyCall = "LA1SIM"
	}
	if p.Grid == "" {
		p.Grid = "JP20QH"
	}
	// The harness never cuts or edits the TNC->host direction (the model
	// damages its own frames where a plan asks for it) and never cuts links.
	p.Link.Cut, p.DataLink.Cut = nil, nil
	p.Link.BA.Edits, p.DataLink.BA.Edits = nil, nil
	p.Link.AB.Edits, p.DataLink.AB.Edits = nil, nil
	p.Link.BA.WriteDelayUs, p.DataLink.BA.WriteDelayUs = nil, nil
	if p.Mode == "serial" {
		// pieces of the TNC->host serial stream are chosen per frame (Ev.Cuts)
		p.Link.BA.Seg = nil
	}
}

// regime describes the objective features of a plan that decide which oracle
// clauses apply strictly and which suffix a signature gets.
type regime struct {
	mode      string
	malformed bool // the model sends something a conforming TNC would not
	split     bool // serial: a TNC->host frame is handed over in pieces
	eager     bool // ARQ data in the same segment as the CONNECTED line
	coalesced bool // serial: several frames handed over in one segment (and not eager)
	badcrc    bool // serial: damaged frames towards the host (probe only: no tag, the clause holds there)
	maxframe  bool // an ARQ frame whose count field is 65534 or 65535
}

func regimeOf(p *Plan) regime {
	r := regime{mode: p.Mode, malformed: p.TNC.Malformed()}
	if p.Mode == "serial" {
		// A frame reaches the host in pieces when the TNC writes it in pieces,
		// or when it cannot be taken over in whole buffers: a serial frame of
		// k*4096+1 bytes leaves its last byte behind when it is read through
		// 4096-byte buffers (Go's bufio default), however it was written.
		r.split = p.TNC.Has(func(e ardoptnc.Ev) bool { return len(e.Cuts) > 0 || serialFrameLen(e)%4096 == 1 })
		r.badcrc = p.TNC.Has(func(e ardoptnc.Ev) bool { return e.Bad > 0 && e.Kind != "raw" && e.Kind != "dframe" })
	}
	r.maxframe = p.TNC.Has(func(e ardoptnc.Ev) bool { return e.Kind == "arq" && e.Arg == "" && e.Size >= 65531 })
	for _, ss := range append(append([][]ardoptnc.Ev{}, p.TNC.Dial...), p.TNC.Inbound) {
		seen := false
		for _, e := range ss {
			if e.Kind == "ctl" && strings.HasPrefix(strings.ToUpper(strings.TrimSpace(e.Arg)), "CONNECTED") {
				seen = true
				continue
			}
			if seen && e.Kind == "arq" && e.Batch {
				r.eager = true
			}
			if !e.Batch {
				seen = false
			}
		}
	}
	if p.Mode == "serial" && !r.eager {
		r.coalesced = p.TNC.Has(func(e ardoptnc.Ev) bool { return e.Batch })
	}
	return r
}

// tag is the regime part of every oracle signature: the host interface plus
// the features of the plan under which a clause has its own known weaknesses,
// so that a finding made under one of them can never stand for (or hide) a
// failure of the same clause in the plain regime.
func (r regime) tag() string {
	s := r.mode
	if r.split {
		s += "-split"
	}
	if r.eager {
		s += "-eager"
	}
	if r.coalesced {
		s += "-coalesced"
	}
	if r.maxframe {
		s += "-maxframe"
	}
	return s
}

func (r regime) deathTag() string {
	if r.malformed {
		return "malformed-input"
	}
	return "legal-input-" + r.tag()
}

// serialFrameLen is the length of the serial frame of a data event ("d:" +
// count + type + payload + CRC), 0 for other events.
func serialFrameLen(e ardoptnc.Ev) int {
	switch e.Kind {
	case "arq", "fec", "idf", "err":
		n := e.Size
		if e.Arg != "" {
			n = len(e.Arg)
		}
		if n < 0 {
			n = 0
		}
		if n > 65532 {
			n = 65532
		}
		return n + 9
	case "dframe":
		return len(e.Hex)/2 + 6
	}
	return 0
}
