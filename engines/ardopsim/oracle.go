package ardopsim

import (
	"bytes"
	"fmt"
	"regexp"
	"sort"
	"strings"
	"time"

	"verif/ref/ardoptnc"
	"verif/sim/core"
)

type sample struct {
	Mode     string `json:"mode"`
	Regime   string `json:"regime"`
	Steps    string `json:"steps"`
	Conns    int    `json:"conns"`
	ReadB    int    `json:"bytes_read"`
	WrittenB int    `json:"bytes_written"`
	ArqSent  int    `json:"arq_frames"`
	HostFr   int    `json:"host_frames"`
	Finished bool   `json:"client_finished"`
}

var pttLine = regexp.MustCompile(`(?i)^PTT\s+(TRUE|FALSE)$`)

func commonPrefix(a, b []byte) int {
	n := len(a)
	if len(b) < n {
		n = len(b)
	}
	for i := 0; i < n; i++ {
		if a[i] != b[i] {
			return i
		}
	}
	return n
}

// judge evaluates every oracle clause of C14 on the quiescent end state.
func (rs *runState) judge(prop string, clientFinished bool, out *core.Outcome) {
	sim, reg, p := rs.sim, rs.reg, rs.plan
	snap := rs.model.Snapshot()
	rs.mu.Lock()
	calls := append([]*callRec(nil), rs.calls...)
	conns := append([]*connRec(nil), rs.conns...)
	rs.mu.Unlock()
	now := sim.Now()
	strict := !reg.malformed // after malformed TNC output only "does not crash" is demanded

	// Regime tag of every signature of this run: the plan's features plus one
	// observed on the environment's side: the TNC reported the end of a link
	// before the Dial call that was setting it up had returned.
	tag := reg.tag()
	if p.TNC.Has(func(e ardoptnc.Ev) bool { return e.Kind == "arq" && e.DelayUs > 60_000_000 }) {
		sim.Probe("arq-frame-after-more-than-a-minute-of-silence")
	}
	if p.TNC.Has(func(e ardoptnc.Ev) bool { return e.Kind == "arq" && e.Rep > 4096 }) {
		sim.Probe("arq-run-longer-than-the-receive-queue")
	}
	for _, cr := range conns {
		if mc := matchConn(cr, snap.Conns); mc != nil && cr.Via == "dial" && !mc.Up && mc.EndedAt < cr.OpenedAt {
			tag += "-disc-during-dial"
			sim.Probe("link-ended-before-dial-returned")
			break
		}
	}

	// ------------------------------------------------ panics on client goroutines
	for _, c := range calls {
		if c.Panic != nil && !c.Late {
			sim.Violate(prop, "panic", core.PanicClass(c.Panic)+"@"+core.RepoFrame(c.Stack),
				"%s call (step %d, %s mode, %s) panicked: %v\n%s", c.Op, c.Step, reg.mode, reg.deathTag(), c.Panic, c.Stack)
		}
	}
	for _, cr := range conns {
		if cr.Panic != nil {
			sim.Violate(prop, "panic", core.PanicClass(cr.Panic)+"@"+core.RepoFrame(cr.Stack),
				"Read on connection %d (%s mode, smallest buffer %d bytes) panicked: %v\n%s", cr.Idx, reg.mode, cr.MinBuf, cr.Panic, cr.Stack)
		}
	}

	// ------------------------------------------------ Write result
	// What each Write call says the TNC must have: p[:n] of a call that
	// returned nil is mandatory; p[:n] of a call that returned an error, and the
	// frame of a call that never returned, may or may not have been taken.
	type wseg struct {
		data     []byte
		optional bool
	}
	var segs []wseg
	wroteTotal := 0
	var lastWriteStart = time.Duration(-1)
	for _, c := range calls {
		if c.Op != "write" {
			continue
		}
		pl := ardoptnc.Pattern(c.Seed, c.Size)
		if c.Size > 65535 {
			sim.Probe("write-gt-65535")
		}
		frame := pl
		if len(frame) > 65535 {
			frame = frame[:65535]
		}
		if !c.returned() || c.Panic != nil {
			segs = append(segs, wseg{frame, true}) // what it did before it stopped is unknown
			continue
		}
		if c.N < 0 || c.N > len(pl) {
			sim.Violate(prop, "write-result", "n-out-of-range", "Write of %d bytes returned n=%d err=%q", len(pl), c.N, c.Err)
			continue
		}
		if c.N < len(pl) && c.OK {
			sim.Probe("short-write-with-nil-error")
		}
		if c.N > 0 {
			segs = append(segs, wseg{pl[:c.N], !c.OK})
			wroteTotal += c.N
		}
	}

	// ------------------------------------------------ host framing as seen by the model
	seenErr := map[string]bool{}
	for _, e := range snap.Errors {
		if seenErr[e.What] {
			continue
		}
		seenErr[e.What] = true
		sim.Violate(prop, "host-framing", e.What+"/"+tag, "the TNC model could not parse what the host sent on %s at %v: %s", e.Stream, e.At, e.Detail)
	}
	if stream, partial, hostClosed := rs.model.PartialFrame(); partial && hostClosed {
		// TNC.Close shut the port between the two writes of a command frame;
		// C14 says nothing about what a closing host leaves behind: counted only
		sim.Probe("host-closed-port-inside-a-frame")
		_ = stream
	} else if partial && strict {
		sim.Violate(prop, "host-framing", "incomplete-frame/"+tag, "stream %s is quiet but ends inside a frame (the model is still waiting for the rest of it)", stream)
	}

	// ------------------------------------------------ CRCFAULT => identical retransmission
	callAt := func(at time.Duration) *callRec {
		var best *callRec
		for _, c := range calls {
			if c.Start <= at && (!c.returned() || at <= c.End) {
				best = c // innermost/latest
			}
		}
		return best
	}
	// the Write call a data frame came from: the latest one, begun before the
	// frame arrived, whose payload the frame carries
	ownerOf := func(f ardoptnc.HostFrame) *callRec {
		if f.Kind != 'D' {
			return callAt(f.At)
		}
		var best *callRec
		for _, c := range calls {
			if c.Op != "write" || c.Start > f.At {
				continue
			}
			pl := ardoptnc.Pattern(c.Seed, c.Size)
			if len(pl) > 65535 {
				pl = pl[:65535]
			}
			if bytes.Equal(pl, f.Data) {
				best = c
			}
		}
		if best == nil {
			return callAt(f.At)
		}
		return best
	}
	// A BUFFER report (sent for any change of the TX buffer) that reaches the
	// host between the start of a Write and the CRCFAULT for that Write's frame
	// is a regime of its own: signatures carry "-bufrace" there.
	bufRace := func(r *ardoptnc.CrcFaultRec) bool {
		if r.Frame.Kind != 'D' {
			return false
		}
		o := ownerOf(r.Frame)
		if o == nil {
			return false
		}
		for _, e := range snap.Emissions {
			if e.Kind != "ctl" || e.Bad || e.DeliveredAt < o.Start || !strings.HasPrefix(strings.ToUpper(e.Text), "BUFFER ") {
				continue
			}
			if r.Reply == nil || r.Reply.DeliveredAt < 0 || e.DeliveredAt <= r.Reply.DeliveredAt {
				return true
			}
		}
		return false
	}
	anyBufRace := false
	for i, r := range snap.CrcFaults {
		kind := "command"
		if r.Frame.Kind == 'D' {
			kind = "data"
		}
		raced := bufRace(r)
		if raced {
			anyBufRace = true
			sim.Probe("buffer-report-between-write-and-its-crcfault")
		}
		if r.Next != nil && bytes.Equal(r.Next.Raw, r.Frame.Raw) {
			sim.Probe("crcfault-retransmission-seen")
			continue
		}
		// a repeated fault on a retransmission: the host may give up with an error
		if i > 0 {
			prev := snap.CrcFaults[i-1]
			if prev.Next != nil && prev.Next.Idx == r.Frame.Idx && bytes.Equal(prev.Frame.Raw, r.Frame.Raw) {
				if c := ownerOf(r.Frame); c != nil && c.returned() && !c.OK {
					sim.Probe("crcfault-host-gave-up-with-error")
					continue
				}
			}
		}
		if o := ownerOf(r.Frame); o != nil && o.returned() && !o.OK && r.Reply != nil && (r.Reply.DeliveredAt < 0 || o.End < r.Reply.DeliveredAt) {
			sim.Probe("crcfault-after-call-failed")
			continue // the call had already failed for another reason when the CRCFAULT came
		}
		if !strict {
			continue
		}
		what := "not-retransmitted"
		desc := "nothing more arrived"
		if r.Next != nil {
			desc = fmt.Sprintf("the next frame was %s", describeFrame(*r.Next))
			if r.Next.Kind == r.Frame.Kind && r.Next.Text == r.Frame.Text && bytes.Equal(r.Next.Data, r.Frame.Data) {
				what = "retransmitted-altered"
			}
		}
		owner := "no client call"
		if c := ownerOf(r.Frame); c != nil {
			owner = fmt.Sprintf("it came from client call %s (step %d, %v..%v) returned=%v err=%q", c.Op, c.Step, c.Start, c.End, c.returned(), c.Err)
		}
		ftag := tag
		if raced {
			ftag += "-bufrace"
			owner += "; a BUFFER report reached the host between the start of that Write and the CRCFAULT"
		}
		sim.Violate(prop, "crcfault-retransmit", kind+"-"+what+"/"+ftag, "the TNC answered %s (received %v) with CRCFAULT; %s; %s", describeFrame(r.Frame), r.Frame.At, desc, owner)
	}
	wtag := tag
	if anyBufRace {
		wtag += "-crcfault-bufrace"
	}
	// A CRCFAULT that answers a command of the application's second goroutine
	// and reaches the host while a Write of the first one is waiting for its
	// own acknowledgement: the host cannot tell whose frame it is about.
	wkind := ""
	for _, r := range snap.CrcFaults {
		if r.Frame.Kind != 'C' || r.Reply == nil || r.Reply.DeliveredAt < 0 {
			continue
		}
		side := false
		for _, c := range calls {
			if c.Step >= 1000 && c.Start <= r.Frame.At && (c.End < 0 || r.Frame.At <= c.End) && strings.HasPrefix(strings.ToUpper(strings.TrimSpace(r.Frame.Text)), "VERSION") {
				side = true
			}
		}
		if !side {
			continue
		}
		for _, c := range calls {
			if c.Op == "write" && c.Start <= r.Reply.DeliveredAt && (c.End < 0 || r.Reply.DeliveredAt <= c.End) {
				wkind = "-after-crcfault-for-concurrent-command"
				sim.Probe("crcfault-for-a-concurrent-command-during-a-write")
			}
		}
	}

	// ------------------------------------------------ data accepted by the TNC == bytes Write accepted
	var taken []byte
	for _, a := range snap.Accepted {
		taken = append(taken, a...)
	}
	if strict {
		var data [][]byte
		var opt []bool
		for _, sg := range segs {
			data = append(data, sg.data)
			opt = append(opt, sg.optional)
		}
		if !matchSegs(taken, data, opt) {
			all := make([]bool, len(opt))
			for i := range all {
				all[i] = true
			}
			switch {
			case matchSegs(taken, data, all):
				sim.Violate(prop, "write-stream", "tnc-got-less"+wkind+"/"+wtag, "Write calls reported %d bytes accepted; the data frames the TNC took (%d bytes) are those bytes with the payload of at least one successful Write missing", wroteTotal, len(taken))
			default:
				var want []byte
				for _, sg := range segs {
					want = append(want, sg.data...)
				}
				sim.Violate(prop, "write-stream", "tnc-got-different"+wkind+"/"+wtag, "the data frames taken by the TNC (%d bytes) are not the bytes the Write calls accepted (%d bytes): first difference at offset %d", len(taken), wroteTotal, commonPrefix(taken, want))
			}
		}
	}

	// ------------------------------------------------ Read == concatenated ARQ payloads
	bySent := append([]*ardoptnc.Emission(nil), snap.Emissions...)
	sort.SliceStable(bySent, func(i, j int) bool {
		a, b := bySent[i].SentAt, bySent[j].SentAt
		if a < 0 || b < 0 {
			return a >= 0 && b < 0 // never sent: last
		}
		return a < b
	})
	type arqSet struct{ max, min []byte }
	readTotal := 0
	for _, cr := range conns {
		readTotal += len(cr.Got)
		mc := matchConn(cr, snap.Conns)
		if mc == nil {
			if strict {
				sim.Violate(prop, "read-stream", "connection-without-connected/"+tag, "client connection %d (%s) was returned although the TNC never reported CONNECTED during the call", cr.Idx, cr.Via)
			}
			continue
		}
		var s arqSet
		var frames [][]byte
		var frameMin []bool
		maxFrame := 0
		// TCP: ARQ frames that reached the host on the data socket before the
		// CONNECTED line of their connection reached it on the control socket
		// (always a leading run: the data socket is FIFO).
		early := 0
		for _, e := range bySent {
			if e.Kind != "arq" || e.Bad || e.Conn != mc.ID || e.SentAt < 0 {
				continue
			}
			if p.Mode == "tcp" && early == len(frames) && e.DeliveredAt >= 0 && mc.Connected != nil &&
				(mc.Connected.DeliveredAt < 0 || e.DeliveredAt < mc.Connected.DeliveredAt) {
				early++
			}
			s.max = append(s.max, e.Payload...)
			frames = append(frames, e.Payload)
			frameMin = append(frameMin, e.DeliveredAt >= 0 && (cr.CloseAt < 0 || e.DeliveredAt < cr.CloseAt))
			if len(e.Payload) > maxFrame {
				maxFrame = len(e.Payload)
			}
			if e.DeliveredAt >= 0 && (cr.CloseAt < 0 || e.DeliveredAt < cr.CloseAt) {
				s.min = append(s.min, e.Payload...)
			}
		}
		if maxFrame > cr.MinBuf {
			sim.Probe("arq-frame-larger-than-reader-buffer")
		}
		if !strict {
			continue
		}
		if early > 0 {
			sim.Probe("arq-frame-reached-host-before-its-connected-line")
			readerWaiting := cr.Panic == nil && !(cr.ReadEnd < 0 && !cr.inRead)
			complete := commonPrefix(cr.Got, s.max) == len(cr.Got) && (!readerWaiting || len(cr.Got) >= len(s.min))
			lostEarly := false
			for j := 1; j <= early && !complete && !lostEarly; j++ {
				var amax, amin []byte
				for i := j; i < len(frames); i++ {
					amax = append(amax, frames[i]...)
					if frameMin[i] {
						amin = append(amin, frames[i]...)
					}
				}
				lostEarly = commonPrefix(cr.Got, amax) == len(cr.Got) && (!readerWaiting || len(cr.Got) >= len(amin))
			}
			if lostEarly {
				// exactly the stream without a leading run of such frames
				sim.Violate(prop, "read-stream", "frames-before-connected-line-lost/"+tag, "connection %d (%s): Read returned %d bytes: the ARQ payloads the TNC delivered (%d frames, %d bytes) without the first frame(s), which reached the host on the data socket before the CONNECTED line reached it on the control socket (%d such frames)", cr.Idx, cr.Via, len(cr.Got), len(frames), len(s.max), early)
				continue
			}
		}
		k := commonPrefix(cr.Got, s.max)
		if k < len(cr.Got) {
			if dropped := droppedFrames(cr.Got, frames); dropped > 0 {
				// what was read is the delivered stream with whole ARQ frames missing
				sim.Violate(prop, "read-stream", "frames-lost/"+tag, "connection %d (%s): Read returned %d bytes: the ARQ payloads the TNC delivered (%d frames, %d bytes) with %d whole frames missing, the first difference at offset %d", cr.Idx, cr.Via, len(cr.Got), len(frames), len(s.max), dropped, k)
				continue
			}
			sim.Violate(prop, "read-stream", "wrong-bytes/"+tag, "connection %d (%s): Read returned %d bytes; they differ from the ARQ payloads the TNC delivered at offset %d (TNC sent %d bytes in total)", cr.Idx, cr.Via, len(cr.Got), k, len(s.max))
			continue
		}
		if cr.Panic != nil {
			continue // reported above; what the dead reader did not read is not judged twice
		}
		if cr.ReadEnd < 0 && !cr.inRead {
			sim.Probe("reader-still-pausing-at-end-of-run")
			continue // it was not waiting for data: what it has not read yet is not missing
		}
		if len(cr.Got) < len(s.min) && p.Mode == "tcp" && len(frames) > 4096 && mc.EndCause == "remote" {
			// what was read is a prefix of the stream and the link was ended by
			// the remote side while the library's control loop stood behind its
			// full receive queue
			sim.Violate(prop, "read-stream", "tail-lost-at-remote-disconnect-behind-full-queue/"+tag, "connection %d (%s): Read returned %d bytes (reader end: %q) of the %d bytes of ARQ payload the TNC had delivered on the data socket before it announced the end of the link on the control socket; the connection carried more than 4096 frames (%d)", cr.Idx, cr.Via, len(cr.Got), cr.ReadErr, len(s.min), len(frames))
			continue
		}
		if len(cr.Got) < len(s.min) {
			sim.Violate(prop, "read-stream", "frames-lost/"+tag, "connection %d (%s): Read returned %d bytes (reader end: %q) but the TNC had delivered %d bytes of ARQ payload to the host before the connection was closed by the client (sent in total: %d)", cr.Idx, cr.Via, len(cr.Got), cr.ReadErr, len(s.min), len(s.max))
		}
	}

	// ------------------------------------------------ the listener hands out inbound connections only
	rs.mu.Lock()
	extraAccepts := append([]time.Duration(nil), rs.extraAccepts...)
	rs.mu.Unlock()
	if strict && len(extraAccepts) > 0 {
		inbound := 0
		for _, mc := range snap.Conns {
			if mc.Inbound {
				inbound++
			}
		}
		accepted := len(extraAccepts)
		for _, cr := range conns {
			if cr.Via == "accept" {
				accepted++
			}
		}
		if accepted > inbound {
			sim.Violate(prop, "accept", "listener-delivered-a-connection-nobody-made/"+tag, "Accept returned %d connections, the TNC announced %d inbound connection(s) (further ones were handed out at %v)", accepted, inbound, extraAccepts)
		}
	}

	// ------------------------------------------------ Flush
	outAt := func(at time.Duration) int {
		v := 0
		for _, bp := range snap.BufLog {
			if bp.At <= at {
				v = bp.Out
			}
		}
		return v
	}
	// bytes the TNC had taken into its TX buffer by then (all of them, FIFO)
	takenAt := func(at time.Duration) int {
		v := 0
		for _, bp := range snap.BufLog {
			if bp.At <= at {
				v = bp.Accepted
			}
		}
		return v
	}
	acceptedBefore := 0
	for _, c := range calls {
		switch c.Op {
		case "write":
			if c.returned() && c.Panic == nil && c.OK && c.N > 0 && c.N <= c.Size {
				acceptedBefore += c.N
			}
			lastWriteStart = c.Start
		case "flush":
			if !c.returned() {
				sim.Probe("flush-never-returned")
				continue
			}
			if !c.OK || c.Panic != nil {
				continue
			}
			sim.Probe("flush-returned-nil")
			if !strict || acceptedBefore == 0 {
				continue
			}
			// judged while the TNC holds the link: once it is gone the TNC's
			// buffer no longer says anything about this connection
			if mc := modelConnOf(c.Conn, conns, snap.Conns); mc == nil || !(mc.Up || mc.EndedAt > c.End) {
				sim.Probe("flush-returned-nil-after-link-went-down")
				continue
			}
			// Judged on the TNC's side, as the property puts it: everything the
			// TNC had in its buffer when Flush was called must have left it when
			// Flush returns. (What Write reported is not the measure: a frame the
			// TNC refused with CRCFAULT, or one still on its way, is not in the
			// TNC's buffer; those cases belong to the write-stream clause.)
			need := takenAt(c.Start)
			if outAt(c.End) >= need {
				continue
			}
			// the TNC really said BUFFER 0 after the last Write began: a stale report is still a report
			excused := false
			for _, e := range snap.Emissions {
				if e.Kind == "ctl" && !e.Bad && isBufferZero(e.Text) && e.DeliveredAt > lastWriteStart && e.DeliveredAt <= c.End {
					excused = true
				}
			}
			if excused {
				sim.Probe("flush-returned-on-stale-buffer-0")
				continue
			}
			sim.Violate(prop, "flush", "returned-before-buffer-empty/"+tag, "Flush (step %d, called %v) returned nil at %v: the TNC had taken %d bytes into its TX buffer before the call, only %d had left it, and no BUFFER 0 report reached the host after the last Write began (%v)", c.Step, c.Start, c.End, need, outAt(c.End), lastWriteStart)
		}
	}
	// probe: a BUFFER 0 sent before the TNC saw a write's data but delivered after that Write began
	for _, c := range calls {
		if c.Op != "write" {
			continue
		}
		var firstData time.Duration = -1
		for _, f := range snap.Frames {
			if f.Kind == 'D' && f.At >= c.Start && (!c.returned() || f.At <= c.End) {
				firstData = f.At
				break
			}
		}
		if firstData < 0 {
			continue
		}
		for _, e := range snap.Emissions {
			if e.Kind == "ctl" && isBufferZero(e.Text) && e.QueuedAt < firstData && e.DeliveredAt > c.Start {
				sim.Probe("stale-buffer-0")
				break
			}
		}
	}

	// ------------------------------------------------ Close disconnects
	discAfter := func(at time.Duration) bool {
		for _, f := range snap.Frames {
			if f.Kind != 'C' || f.At < at {
				continue
			}
			w := strings.ToUpper(strings.TrimSpace(f.Text))
			if w == "DISCONNECT" || w == "ABORT" {
				if w == "ABORT" {
					sim.Probe("close-sent-abort")
				}
				return true
			}
		}
		return false
	}
	// TNC.Close only knows about the link if the last protocol state the TNC
	// reported before the call was a connected one
	stateKnownBefore := func(mc *ardoptnc.ConnRec, at time.Duration) bool {
		from := connStart(mc, snap)
		last := ""
		for _, e := range snap.Emissions {
			if e.Kind != "ctl" || e.Bad || e.DeliveredAt < 0 || e.DeliveredAt >= at || e.DeliveredAt <= from {
				continue
			}
			if t := strings.ToUpper(strings.TrimSpace(e.Text)); strings.HasPrefix(t, "NEWSTATE ") || t == "DISCONNECTED" {
				last = t // DISCONNECTED also tells the host that the protocol state is DISC
			}
		}
		return last == "NEWSTATE ISS" || last == "NEWSTATE IRS"
	}
	for _, c := range calls {
		if (c.Op != "close" && c.Op != "tncclose") || c.Conn == 0 || !c.returned() || c.Panic != nil || !strict {
			continue
		}
		var cr *connRec
		for _, x := range conns {
			if x.Idx == c.Conn {
				cr = x
			}
		}
		if cr == nil {
			continue
		}
		mc := matchConn(cr, snap.Conns)
		if mc == nil {
			continue
		}
		// only demanded while the TNC still holds the link (it may have gone down by itself)
		stillUp := mc.Up || (mc.EndedAt > c.End) || (mc.EndCause == "host-disconnect" || mc.EndCause == "host-abort")
		if !stillUp {
			continue
		}
		if c.Op == "tncclose" && (!c.OK || !stateKnownBefore(mc, c.Start)) {
			continue // TNC.Close may fail (FAULT from the TNC); it acts on the protocol state the TNC reported
		}
		if discAfter(c.Start) {
			sim.Probe("close-disconnect-seen")
			continue
		}
		detail := "no-disconnect-sent/" + tag
		if c.Op == "tncclose" {
			detail = "tnc-close-no-disconnect-sent/" + tag
		}
		sim.Violate(prop, "close", detail, "%s (step %d) returned err=%q at %v but the TNC, whose ARQ link to %s was up, received neither DISCONNECT nor ABORT after the call began (%v)", c.Op, c.Step, c.Err, c.End, mc.Remote, c.Start)
	}

	// ------------------------------------------------ PTT order
	if rs.setPTTAt >= 0 {
		var issued []ardoptnc.Emission
		for _, e := range snap.Emissions {
			if e.Kind == "ctl" && !e.Bad && e.DeliveredAt >= 0 && pttLine.MatchString(strings.TrimSpace(e.Text)) {
				issued = append(issued, *e)
			}
		}
		sort.SliceStable(issued, func(i, j int) bool { return issued[i].DeliveredAt < issued[j].DeliveredAt })
		rs.ptt.mu.Lock()
		got := append([]pttCall(nil), rs.ptt.calls...)
		rs.ptt.mu.Unlock()
		if len(got) > 0 {
			sim.Probe("ptt-events-reached-stub")
		}
		if strict {
			end := now
			if rs.tncClose >= 0 {
				end = rs.tncClose
			}
			s, e := len(issued), 0
			for i, em := range issued {
				if em.DeliveredAt > rs.setPTTAt && i < s {
					s = i
				}
				if em.DeliveredAt < end {
					e = i + 1
				}
			}
			if s > e {
				s = e
			}
			val := func(em ardoptnc.Emission) bool {
				return strings.HasSuffix(strings.ToUpper(strings.TrimSpace(em.Text)), "TRUE")
			}
			match := false
			for a := 0; a <= s && !match; a++ {
				b := a + len(got)
				if b < e || b > len(issued) {
					continue
				}
				ok := true
				for i := range got {
					if val(issued[a+i]) != got[i].On {
						ok = false
						break
					}
				}
				match = ok
			}
			if !match {
				var want, have []string
				for _, em := range issued[s:e] {
					want = append(want, fmt.Sprint(val(em)))
				}
				for _, g := range got {
					have = append(have, fmt.Sprint(g.On))
				}
				sim.Violate(prop, "ptt-order", "mismatch/"+tag, "the TNC issued %d PTT requests while a PTT controller was set (%s); the controller saw %d calls (%s)", e-s, strings.Join(want, ","), len(got), strings.Join(have, ","))
			}
		}
	}

	// ------------------------------------------------ probes, non-triviality, sample
	arq := 0
	for _, e := range snap.Emissions {
		switch {
		case e.Kind == "arq" && !e.Bad && e.DeliveredAt >= 0:
			arq++
			if len(e.Payload) >= 65531 {
				sim.Probe("arq-frame-count-field-ge-65534")
			}
		case e.Bad && e.DeliveredAt >= 0:
			sim.Probe("bad-crc-frame-delivered-to-host")
		case e.Kind == "raw" && e.DeliveredAt >= 0:
			sim.Probe("garbage-on-" + streamName(e.Stream, reg.mode) + "-stream")
		case e.Malformed && e.DeliveredAt >= 0:
			sim.Probe("malformed-frame-delivered")
		}
		if e.Cut && e.DeliveredAt >= 0 {
			sim.Probe("frame-handed-over-in-pieces")
		}
		if e.Kind == "ctl" && e.DeliveredAt >= 0 && strings.HasPrefix(e.Text, "FAULT") && e.Script != "reply" {
			sim.Probe("unsolicited-fault")
		}
	}
	// probe: a CONNECTED line without parameter reaches the host while a
	// listener is active and a TARGET is pending (the listener indexes the list)
	{
		listenAt := time.Duration(-1)
		for _, c := range calls {
			if c.Op == "listen" && c.returned() && c.OK && listenAt < 0 {
				listenAt = c.End
			}
		}
		byDlv := append([]*ardoptnc.Emission(nil), snap.Emissions...)
		sort.SliceStable(byDlv, func(i, j int) bool { return byDlv[i].DeliveredAt < byDlv[j].DeliveredAt })
		target := false
		for _, e := range byDlv {
			if e.Kind != "ctl" || e.Bad || e.DeliveredAt < 0 {
				continue
			}
			f := strings.Fields(strings.ToUpper(e.Text))
			if len(f) == 0 {
				continue
			}
			switch f[0] {
			case "TARGET":
				target = len(f) > 1
			case "CANCELPENDING", "DISCONNECTED":
				target = false
			case "CONNECTED":
				if len(f) == 1 && target && listenAt >= 0 && e.DeliveredAt > listenAt && (rs.tncClose < 0 || e.DeliveredAt < rs.tncClose) {
					sim.Probe("connected-without-parameter-after-target-while-listening")
				}
				if len(f) == 1 {
					sim.Probe("connected-without-parameter")
				}
				target = false
			}
		}
		for _, e := range snap.Emissions {
			if e.Kind == "ctl" && e.Malformed && e.DeliveredAt >= 0 && e.Script != "idle" {
				sim.Probe("malformed-line-inside-" + e.Script + "-sequence")
			}
		}
	}
	for _, cr := range conns {
		if cr.Via == "accept" {
			sim.Probe("accept-path")
		} else {
			sim.Probe("dial-path")
		}
	}
	if len(conns) > 1 {
		sim.Probe("second-connection")
	}
	for _, mc := range snap.Conns {
		if mc.EndCause == "remote" {
			sim.Probe("remote-disconnect")
		}
	}
	for _, c := range calls {
		if c.Op == "dial" && c.returned() && !c.OK {
			sim.Probe("dial-returned-error")
		}
		if c.Op == "close" && c.Err != "" {
			sim.Probe("close-returned-error")
		}
	}
	if snap.HostAcks > 0 {
		sim.Probe("host-sent-rdy-or-crcfault-ack")
	}
	if reg.eager {
		sim.Probe("arq-data-in-same-segment-as-connected")
	}
	if !clientFinished {
		sim.Probe("client-blocked-for-good")
	}
	malformedDelivered := false
	for _, e := range snap.Emissions {
		if e.Malformed && e.DeliveredAt >= 0 {
			malformedDelivered = true
		}
	}
	out.NonTrivial = readTotal > 0 || len(taken) > 0 || malformedDelivered
	var ops []string
	for _, s := range p.Steps {
		ops = append(ops, s.Op)
	}
	out.Sample = sample{Mode: reg.mode, Regime: tag + "/" + reg.deathTag(), Steps: strings.Join(ops, " "), Conns: len(conns), ReadB: readTotal,
		WrittenB: wroteTotal, ArqSent: arq, HostFr: len(snap.Frames), Finished: clientFinished}
}

// matchSegs reports whether got is the concatenation of the segments with any
// of the optional ones left out.
func matchSegs(got []byte, segs [][]byte, optional []bool) bool {
	type key struct{ i, pos int }
	memo := map[key]bool{}
	var rec func(i, pos int) bool
	rec = func(i, pos int) bool {
		if i == len(segs) {
			return pos == len(got)
		}
		k := key{i, pos}
		if v, ok := memo[k]; ok {
			return v
		}
		sg := segs[i]
		ok := pos+len(sg) <= len(got) && bytes.Equal(got[pos:pos+len(sg)], sg) && rec(i+1, pos+len(sg))
		if !ok && optional[i] {
			ok = rec(i+1, pos)
		}
		memo[k] = ok
		return ok
	}
	return rec(0, 0)
}

// droppedFrames reports how many of the frames are missing if got is the
// concatenation of a subsequence of them (0: it is not, or nothing is missing).
func droppedFrames(got []byte, frames [][]byte) int {
	type key struct{ i, pos int }
	memo := map[key]int{}
	var rec func(i, pos int) int // fewest drops from here, -1: impossible
	rec = func(i, pos int) int {
		if i == len(frames) {
			if pos == len(got) {
				return 0
			}
			return -1
		}
		k := key{i, pos}
		if v, ok := memo[k]; ok {
			return v
		}
		best := -1
		f := frames[i]
		if pos+len(f) <= len(got) && bytes.Equal(got[pos:pos+len(f)], f) {
			best = rec(i+1, pos+len(f))
		}
		if pos == len(got) || best < 0 || len(f) > 0 {
			if d := rec(i+1, pos); d >= 0 && (best < 0 || d+1 < best) {
				best = d + 1
			}
		}
		memo[k] = best
		return best
	}
	if d := rec(0, 0); d > 0 {
		return d
	}
	return 0
}

func modelConnOf(idx int, conns []*connRec, mcs []*ardoptnc.ConnRec) *ardoptnc.ConnRec {
	for _, cr := range conns {
		if cr.Idx == idx {
			return matchConn(cr, mcs)
		}
	}
	return nil
}

func streamName(stream, mode string) string {
	if stream == "data" {
		return "data"
	}
	if stream == "serial" {
		return "serial"
	}
	return "control"
}

func isBufferZero(text string) bool {
	f := strings.Fields(strings.ToUpper(text))
	return len(f) == 2 && f[0] == "BUFFER" && f[1] == "0"
}

func describeFrame(f ardoptnc.HostFrame) string {
	if f.Kind == 'C' {
		return fmt.Sprintf("command frame #%d %q", f.Idx, f.Text)
	}
	return fmt.Sprintf("data frame #%d (%d bytes)", f.Idx, len(f.Data))
}

func connStart(mc *ardoptnc.ConnRec, snap ardoptnc.Snapshot) time.Duration {
	// the previous connection's end (or 0): state lines before it do not describe this link
	var t time.Duration
	for _, o := range snap.Conns {
		if o.ID < mc.ID && o.EndedAt > t {
			t = o.EndedAt
		}
	}
	return t
}

// matchConn finds the model connection a client connection stands for: the
// one whose CONNECTED line reached the host during the Dial/Accept call (for
// Accept: since Listen), the latest such.
func matchConn(cr *connRec, mcs []*ardoptnc.ConnRec) *ardoptnc.ConnRec {
	var best *ardoptnc.ConnRec
	for _, mc := range mcs {
		if mc.Connected == nil || mc.Connected.DeliveredAt < 0 {
			continue
		}
		if mc.Connected.DeliveredAt <= cr.OpenedAt && (cr.Via == "accept" || mc.Connected.DeliveredAt >= cr.CallAt) {
			best = mc
		}
	}
	return best
}
