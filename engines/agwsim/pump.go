package agwsim

import (
	"strings"
	"time"

	"verif/ref/agwtnc"
	"verif/sim/core"
)

// item is one thing the TNC script sends: a data frame of the connection under
// test, a foreign frame or the malformed transmission.
type item struct {
	data    int // index into Script.Frames, or -1
	foreign *Foreign
	fault   *Fault
}

const foreignCall = "N0OTH-3"
const foreignLocal = "W9ZZZ-4"

func buildItems(p *Plan) []item {
	frames := p.Script.Frames
	if len(frames) > 400 {
		frames = frames[:400]
	}
	var items []item
	for j := 0; j <= len(frames); j++ {
		for i := range p.Script.Foreign {
			if i >= 40 {
				break
			}
			f := &p.Script.Foreign[i]
			b := f.Before
			if b < 0 {
				b = -b
			}
			if b%(len(frames)+1) == j {
				items = append(items, item{data: -1, foreign: f})
			}
		}
		if p.Fault != nil {
			b := p.Fault.Before
			if b < 0 {
				b = -b
			}
			if b%(len(frames)+1) == j {
				items = append(items, item{data: -1, fault: p.Fault})
			}
		}
		if j < len(frames) {
			items = append(items, item{data: j})
		}
	}
	return items
}

func foreignPayload(kind string, size int) []byte {
	size = clamp(size, 24, 1024) // never shorter than the marker
	marker := "~FOREIGN:" + kind + "~"
	return []byte(strings.Repeat(marker, size/len(marker)+1))[:size]
}

// otherPort picks a radio port that no registration of this run uses.
func (r *run) otherPort() byte {
	used := map[int]bool{clamp(r.p.Port, 0, 255): true}
	if r.p.Second != nil {
		used[clamp(r.p.Second.Port, 0, 255)] = true
	}
	for c := 0; c < 256; c++ {
		if !used[c] {
			return byte(c)
		}
	}
	return 255
}

// foreignFrame builds the frame for a foreign item; ok=false when the item is
// an action rather than a frame (inbound-unaccepted).
func (r *run) foreignFrame(f *Foreign, k agwtnc.ConnKey) (agwtnc.Frame, bool) {
	pl := foreignPayload(f.Kind, f.Size)
	port := k.Port
	switch f.Kind {
	case "other-port":
		return agwtnc.Frame{Port: r.otherPort(), Kind: 'D', PID: 0xF0, From: k.Remote, To: k.Local, Data: pl}, true
	case "other-remote":
		return agwtnc.Frame{Port: port, Kind: 'D', PID: 0xF0, From: foreignCall, To: k.Local, Data: pl}, true
	case "other-local":
		// only a callsign this application registered on this port can receive traffic
		if r.p.Second != nil && clamp(r.p.Second.Port, 0, 255) == int(port) && r.p.Second.Call != "" && r.p.Second.Call != k.Local {
			return agwtnc.Frame{Port: port, Kind: 'D', PID: 0xF0, From: k.Remote, To: r.p.Second.Call, Data: pl}, true
		}
		fallthrough
	case "other-both":
		return agwtnc.Frame{Port: port, Kind: 'D', PID: 0xF0, From: foreignCall, To: foreignLocal, Data: foreignPayload("other-both", f.Size)}, true
	case "mon-U":
		return agwtnc.Frame{Port: port, Kind: 'U', PID: 0xF0, From: k.Remote, To: "BEACON", Data: pl}, true
	case "mon-I":
		return agwtnc.Frame{Port: port, Kind: 'I', PID: 0xF0, From: k.Remote, To: k.Local, Data: pl}, true
	case "mon-T":
		return agwtnc.Frame{Port: port, Kind: 'T', PID: 0xF0, From: k.Local, To: k.Remote, Data: pl}, true
	case "unsol-R":
		return agwtnc.Frame{Kind: 'R', Data: []byte{1, 0, 0, 0, 2, 0, 0, 0}}, true
	case "unsol-g":
		return agwtnc.Frame{Port: port, Kind: 'g', Data: []byte{0, 0xff, 30, 10, 63, 10, 4, 1, 0, 0, 0, 0}}, true
	case "heard-H":
		return agwtnc.Frame{Port: port, Kind: 'H', From: foreignCall, Data: pl}, true
	case "raw-K":
		return agwtnc.Frame{Port: port, Kind: 'K', From: k.Remote, To: k.Local, Data: append([]byte{0}, pl...)}, true
	case "other-d":
		return agwtnc.Frame{Port: port, Kind: 'd', From: foreignCall, To: k.Local, Data: []byte("*** DISCONNECTED From Station " + foreignCall + "\r")}, true
	case "other-C":
		return agwtnc.Frame{Port: port, Kind: 'C', From: foreignCall, To: foreignLocal, Data: []byte("*** CONNECTED To Station " + foreignCall + "\r")}, true
	case "inbound-unaccepted":
		return agwtnc.Frame{}, false
	default: // "unknown-kind"
		return agwtnc.Frame{Port: port, Kind: '?', PID: 0xF0, From: k.Remote, To: k.Local, Data: foreignPayload("unknown-kind", f.Size)}, true
	}
}

func (r *run) faultBytes(f *Fault, k agwtnc.ConnKey) (b []byte, closeAfter bool) {
	hdr := agwtnc.Frame{Port: k.Port, Kind: 'D', PID: 0xF0, From: k.Remote, To: k.Local}
	switch f.Kind {
	case "huge-datalen":
		v := f.Val
		if v < 0 {
			v = -v
		}
		hdr.Data = []byte("0123456789")
		// The library allocates whatever the header says before it reads: keep
		// the lie below 128 MiB so that sixteen workers cannot exhaust a shared
		// machine (a 3.6 GB allocation was observed with unbounded values).
		return hdr.EncodeLen(uint32(clamp(v, 0, 1<<27))), false
	case "short-data-close":
		hdr.Data = foreignPayload("short-data", 40)
		return hdr.EncodeLen(100), true
	case "short-header-close":
		return hdr.Encode()[:clamp(f.Val, 1, 35)], true
	default: // garbage
		// Arbitrary bytes, at least one header long. The four bytes that will be
		// taken for DataLen are forced into 64 KiB..16 MiB: large enough to
		// swallow everything the TNC sends afterwards (so no second bogus header
		// is ever decoded), small enough to be allocated harmlessly.
		g := pattern(9, f.Val, clamp(f.Val, agwtnc.HeaderLen, 4096))
		g[30] |= 1
		g[31] = 0
		return g, false
	}
}

// unread is the number of data frames sent that the reader still has to get,
// and whether the reader has ended. Bytes the script has given up on (see
// pump) do not count.
func (r *run) unread(s *agwtnc.Session, k agwtnc.ConnKey) (int, bool) {
	sn := s.Snapshot()
	r.mu.Lock()
	got, done, lost := len(r.readData), r.readDone, r.lostBytes
	r.mu.Unlock()
	for _, c := range sn.Conns {
		if c.Key != k {
			continue
		}
		total := 0
		for _, pl := range c.SentPayloads {
			total += len(pl)
		}
		left := total - got - lost
		n := 0
		for i := len(c.SentPayloads) - 1; i >= 0 && left > 0; i-- {
			left -= len(c.SentPayloads[i])
			n++
		}
		return n, done
	}
	return 0, done
}

// giveUpAfter is how long the script waits for the reader to make progress
// before it concludes that what it sent will never be read (frames lost in the
// library) and carries on.
func (r *run) giveUpAfter() time.Duration {
	p := r.p
	think := clamp(maxOf(p.Client.ReadThinkMs, 0), 0, 10000)
	transit := (clamp(maxOf(p.Script.Frames, 1), 1, 2048) + agwtnc.HeaderLen) * clamp(maxOf(p.Link.BA.LatUs, 100), 0, 1000000) / 1000
	return ms(think + transit + 2000)
}

// startPump is called when the model reports a connection established.
func (r *run) startPump(s *agwtnc.Session, k agwtnc.ConnKey) {
	r.mu.Lock()
	if r.have {
		r.mu.Unlock()
		return // only the first connection is the one under test
	}
	r.have, r.key, r.sess = true, k, s
	r.items = buildItems(r.p)
	r.mu.Unlock()
	r.at(ms(r.p.Script.StartDelayMs), func() { r.pump(s, k, 0, 0, 0, 0) })
}

func (r *run) finishPump(s *agwtnc.Session, k agwtnc.ConnKey, completed bool) {
	r.mu.Lock()
	r.pumpDone, r.pumpDoneAt = true, r.sim.Now()
	r.mu.Unlock()
	r.sim.Logf("tnc: script ends (completed=%v)", completed)
	if completed && r.p.Script.End == "remote-disconnect" {
		r.at(ms(r.p.Script.EndDelayMs), func() { s.Disconnect(k) })
	}
}

// pump sends the next TCP write of the script. pos: next item; w: write count
// (gap tape index); g: group tape index; inBurst: frames left in the current burst.
func (r *run) pump(s *agwtnc.Session, k agwtnc.ConnKey, pos, w, g, inBurst int) {
	p := r.p
	if pos >= len(r.items) {
		r.finishPump(s, k, true)
		return
	}
	if st, _, _ := s.ConnState(k); st != "connected" {
		r.finishPump(s, k, false)
		return
	}
	if p.Regime == "burst" && pos == 0 {
		// Bursts start only when the writer is through: the library's poll for
		// outstanding frames takes the demultiplexer's mutex and then waits for
		// the demultiplexer, which is itself waiting for the reader when the
		// receive queue is full; the next frame from the TNC then blocks on that
		// mutex -- not a durable block, so the simulated clock (and the sleeping
		// reader with it) would never move again. Real time has no such problem.
		r.mu.Lock()
		wd := r.writerDone
		r.mu.Unlock()
		if !wd {
			if r.sim.Now() > 2*opBudget {
				r.finishPump(s, k, false)
				return
			}
			r.at(50*time.Millisecond, func() { r.pump(s, k, pos, w, g, inBurst) })
			return
		}
	}
	unread, readerDone := r.unread(s, k)
	r.mu.Lock()
	if unread > r.maxUnread {
		r.maxUnread = unread
	}
	r.mu.Unlock()
	regime := p.Regime
	fk := agwtnc.ConnKey{Port: k.Port, Local: k.Local, Remote: foreignCall}
	if regime == "paced" {
		// quiescence: while the library is still refusing an unaccepted inbound
		// connection nothing else is sent
		if st, _, _ := s.ConnState(fk); st == "connected" && r.sim.Now()-r.refusalSince < 3*time.Minute {
			r.at(50*time.Millisecond, func() { r.pump(s, k, pos, w, g, inBurst) })
			return
		}
	}
	if regime != "burst" {
		if readerDone {
			r.finishPump(s, k, false)
			return
		}
		if unread > clamp(p.Script.Ahead, 0, 6) {
			r.mu.Lock()
			if r.readCalls != r.gateCalls || r.gateSince == 0 || s.InFlight() > 0 {
				// progress, or the link is still busy delivering: not stuck
				r.gateCalls, r.gateSince = r.readCalls, r.sim.Now()
			}
			stuck := r.sim.Now()-r.gateSince > r.giveUpAfter()
			if stuck {
				sent, _ := s.SentBytes(k)
				r.lostBytes = sent - len(r.readData)
				r.gateSince = 0
			}
			r.mu.Unlock()
			if stuck {
				r.sim.Logf("tnc: script stops waiting for the reader (%d bytes never read)", r.lostBytes)
			}
			r.at(50*time.Millisecond, func() { r.pump(s, k, pos, w, g, inBurst) })
			return
		}
		r.mu.Lock()
		r.gateSince = 0
		r.mu.Unlock()
	}
	// how many items go into this TCP write
	n := 1
	if regime == "coalesced" {
		n = clamp(core.TapeAt(p.Script.Group, g, 2), 1, 8)
		g++
	}
	var frames []agwtnc.Frame
	flush := func() {
		if len(frames) > 0 {
			s.Write(frames...)
			frames = nil
		}
	}
	for ; n > 0 && pos < len(r.items); n, pos = n-1, pos+1 {
		it := r.items[pos]
		switch {
		case it.data >= 0:
			r.mu.Lock()
			off := 0
			for j := 0; j < it.data; j++ {
				off += clamp(p.Script.Frames[j], 1, 2048)
			}
			r.mu.Unlock()
			if f, ok := s.DataFrame(k, pattern(1, off, clamp(p.Script.Frames[it.data], 1, 2048))); ok {
				frames = append(frames, f)
			}
		case it.foreign != nil:
			if f, ok := r.foreignFrame(it.foreign, k); ok {
				frames = append(frames, f)
			} else if st, _, _ := s.ConnState(fk); st != "connected" {
				// (one station cannot connect twice at the same time)
				flush()
				r.refusalSince = r.sim.Now()
				s.InboundConnect(k.Port, foreignCall, k.Local)
			}
			r.mu.Lock()
			r.foreignSent++
			r.mu.Unlock()
		case it.fault != nil:
			flush()
			b, closeAfter := r.faultBytes(it.fault, k)
			r.mu.Lock()
			r.faultFired, r.faultAt = true, r.sim.Now()
			r.mu.Unlock()
			r.sim.Fault("malformed-" + it.fault.Kind)
			s.WriteRaw(it.fault.Kind, b)
			if closeAfter {
				s.CloseLink()
				r.finishPump(s, k, false)
				return
			}
		}
	}
	flush()
	// when does the next write happen
	gap := ms(clamp(core.TapeAt(p.Script.GapMs, w, 0), 0, 60000))
	if regime == "burst" {
		if inBurst <= 0 {
			inBurst = clamp(core.TapeAt(p.Script.Group, g, 20), 1, 400)
			g++
		}
		inBurst--
		if inBurst > 0 {
			gap = 0
		}
	}
	r.at(gap, func() { r.pump(s, k, pos, w+1, g, inBurst) })
}
