package agwsim

import (
	"strings"
	"time"

	"verif/ref/agwtnc"
	"verif/sim/core"
)

// item is one thing the TNC script sends: a data frame of the connection under
// test, a foreign frame or the malformed transmission.
type item struct {
	data    int // index into Script.Frames, or -1
	foreign *Foreign
	fault   *Fault
}

const foreignCall = "N0OTH-3"
const foreignLocal = "W9ZZZ-4"

// buildItems lays out the script of one session; fault is the plan's malformed
// transmission when this session carries it.
func buildItems(sc *Script, fault *Fault) []item {
	frames := sc.Frames
	if len(frames) > 400 {
		frames = frames[:400]
	}
	var items []item
	for j := 0; j <= len(frames); j++ {
		for i := range sc.Foreign {
			if i >= 40 {
				break
			}
			f := &sc.Foreign[i]
			b := f.Before
			if b < 0 {
				b = -b
			}
			if b%(len(frames)+1) == j {
				items = append(items, item{data: -1, foreign: f})
			}
		}
		if fault != nil {
			b := fault.Before
			if b < 0 {
				b = -b
			}
			if b%(len(frames)+1) == j {
				items = append(items, item{data: -1, fault: fault})
			}
		}
		if j < len(frames) {
			items = append(items, item{data: j})
		}
	}
	return items
}

func foreignPayload(kind string, size int) []byte {
	size = clamp(size, 24, 1024) // never shorter than the marker
	marker := "~FOREIGN:" + kind + "~"
	return []byte(strings.Repeat(marker, size/len(marker)+1))[:size]
}

// otherPort picks a radio port that no registration of this run uses.
func (r *run) otherPort() byte {
	used := map[int]bool{clamp(r.p.Port, 0, 255): true}
	if r.p.Second != nil {
		used[clamp(r.p.Second.Port, 0, 255)] = true
	}
	for c := 0; c < 256; c++ {
		if !used[c] {
			return byte(c)
		}
	}
	return 255
}

// foreignFrame builds the frame for a foreign item; ok=false when the item is
// an action rather than a frame (inbound-unaccepted).
func (r *run) foreignFrame(f *Foreign, k agwtnc.ConnKey) (agwtnc.Frame, bool) {
	pl := foreignPayload(f.Kind, f.Size)
	port := k.Port
	switch f.Kind {
	case "other-port":
		return agwtnc.Frame{Port: r.otherPort(), Kind: 'D', PID: 0xF0, From: k.Remote, To: k.Local, Data: pl}, true
	case "other-remote":
		return agwtnc.Frame{Port: port, Kind: 'D', PID: 0xF0, From: foreignCall, To: k.Local, Data: pl}, true
	case "other-local":
		// only a callsign this application registered on this port can receive traffic
		if r.p.Second != nil && clamp(r.p.Second.Port, 0, 255) == int(port) && r.p.Second.Call != "" && r.p.Second.Call != k.Local {
			return agwtnc.Frame{Port: port, Kind: 'D', PID: 0xF0, From: k.Remote, To: r.p.Second.Call, Data: pl}, true
		}
		fallthrough
	case "other-both":
		return agwtnc.Frame{Port: port, Kind: 'D', PID: 0xF0, From: foreignCall, To: foreignLocal, Data: foreignPayload("other-both", f.Size)}, true
	case "mon-U":
		return agwtnc.Frame{Port: port, Kind: 'U', PID: 0xF0, From: k.Remote, To: "BEACON", Data: pl}, true
	case "mon-I":
		return agwtnc.Frame{Port: port, Kind: 'I', PID: 0xF0, From: k.Remote, To: k.Local, Data: pl}, true
	case "mon-T":
		return agwtnc.Frame{Port: port, Kind: 'T', PID: 0xF0, From: k.Local, To: k.Remote, Data: pl}, true
	case "unsol-R":
		return agwtnc.Frame{Kind: 'R', Data: []byte{1, 0, 0, 0, 2, 0, 0, 0}}, true
	case "unsol-g":
		return agwtnc.Frame{Port: port, Kind: 'g', Data: []byte{0, 0xff, 30, 10, 63, 10, 4, 1, 0, 0, 0, 0}}, true
	case "heard-H":
		return agwtnc.Frame{Port: port, Kind: 'H', From: foreignCall, Data: pl}, true
	case "raw-K":
		return agwtnc.Frame{Port: port, Kind: 'K', From: k.Remote, To: k.Local, Data: append([]byte{0}, pl...)}, true
	case "other-d":
		return agwtnc.Frame{Port: port, Kind: 'd', From: foreignCall, To: k.Local, Data: []byte("*** DISCONNECTED From Station " + foreignCall + "\r")}, true
	case "other-C":
		return agwtnc.Frame{Port: port, Kind: 'C', From: foreignCall, To: foreignLocal, Data: []byte("*** CONNECTED To Station " + foreignCall + "\r")}, true
	case "inbound-unaccepted":
		return agwtnc.Frame{}, false
	default: // "unknown-kind"
		return agwtnc.Frame{Port: port, Kind: '?', PID: 0xF0, From: k.Remote, To: k.Local, Data: foreignPayload("unknown-kind", f.Size)}, true
	}
}

func (r *run) faultBytes(f *Fault, k agwtnc.ConnKey) (b []byte, closeAfter bool) {
	hdr := agwtnc.Frame{Port: k.Port, Kind: 'D', PID: 0xF0, From: k.Remote, To: k.Local}
	switch f.Kind {
	case "huge-datalen":
		v := f.Val
		if v < 0 {
			v = -v
		}
		hdr.Data = []byte("0123456789")
		// The library allocates whatever the header says before it reads: keep
		// the lie below 128 MiB so that sixteen workers cannot exhaust a shared
		// machine (a 3.6 GB allocation was observed with unbounded values).
		return hdr.EncodeLen(uint32(clamp(v, 0, 1<<27))), false
	case "short-data-close":
		hdr.Data = foreignPayload("short-data", 40)
		return hdr.EncodeLen(100), true
	case "short-header-close":
		return hdr.Encode()[:clamp(f.Val, 1, 35)], true
	default: // garbage
		// Arbitrary bytes, at least one header long. The four bytes that will be
		// taken for DataLen are forced into 64 KiB..16 MiB: large enough to
		// swallow everything the TNC sends afterwards (so no second bogus header
		// is ever decoded), small enough to be allocated harmlessly.
		g := pattern(9, f.Val, clamp(f.Val, agwtnc.HeaderLen, 4096))
		g[30] |= 1
		g[31] = 0
		return g, false
	}
}

// unread is the number of data frames sent that the reader still has to get,
// and whether the reader has ended. Bytes the script has given up on (see
// pump) do not count.
func (r *run) unread(se *sess, s *agwtnc.Session) (int, bool) {
	lens := s.SentLens(se.id)
	r.mu.Lock()
	got, done, lost := len(se.readData), se.readDone, se.lostBytes
	r.mu.Unlock()
	left := sum(lens) - got - lost
	n := 0
	for i := len(lens) - 1; i >= 0 && left > 0; i-- {
		left -= lens[i]
		n++
	}
	return n, done
}

// giveUpAfter is how long the script waits for the reader to make progress
// before it concludes that what it sent will never be read (frames lost in the
// library) and carries on.
func (r *run) giveUpAfter(se *sess) time.Duration {
	p := r.p
	think := clamp(maxOf(se.sp.Client.ReadThinkMs, 0), 0, 10000)
	transit := (clamp(maxOf(se.frames(), 1), 1, 2048) + agwtnc.HeaderLen) * clamp(maxOf(p.Link.BA.LatUs, 100), 0, 1000000) / 1000
	return ms(think + transit + 2000)
}

// sessionFor returns the session that is dialling k right now. When no dial
// names exactly k (the library put other calls or another port into its connect
// request: the host-frames clause reports that) and a single dial is under
// way, the connection is that dial's.
func (r *run) sessionFor(k agwtnc.ConnKey) *sess {
	r.mu.Lock()
	defer r.mu.Unlock()
	var only *sess
	n := 0
	for _, se := range r.ss {
		if !se.dialling || se.have {
			continue
		}
		if se.key == k {
			return se
		}
		only = se
		n++
	}
	if n == 1 && k.Remote != foreignCall {
		only.key = k
		return only
	}
	return nil
}

// startPump is called when the model reports the connection of a session
// established (id: its incarnation in the model).
func (r *run) startPump(se *sess, s *agwtnc.Session, id int) {
	r.mu.Lock()
	if se.have {
		r.mu.Unlock()
		return // a session has one connection
	}
	se.have, se.id = true, id
	var fault *Fault
	if f := r.p.Fault; f != nil && clamp(f.Session, 0, maxSessions-1)%len(r.ss) == se.idx {
		fault = f
	}
	se.items = buildItems(se.sp.Script, fault)
	r.mu.Unlock()
	r.at(ms(se.sp.Script.StartDelayMs), func() { r.pump(se, s, 0, 0, 0, 0) })
}

func (r *run) finishPump(se *sess, s *agwtnc.Session, completed bool) {
	r.mu.Lock()
	se.pumpDone, se.pumpDoneAt = true, r.sim.Now()
	r.mu.Unlock()
	r.sim.Logf("tnc: %sscript ends (completed=%v)", tag(se), completed)
	if completed && se.sp.Script.End == "remote-disconnect" {
		r.at(ms(se.sp.Script.EndDelayMs), func() {
			if s.Current(se.id) {
				s.Disconnect(se.key)
			}
		})
	}
}

// pump sends the next TCP write of the script. pos: next item; w: write count
// (gap tape index); g: group tape index; inBurst: frames left in the current burst.
func (r *run) pump(se *sess, s *agwtnc.Session, pos, w, g, inBurst int) {
	p, sc, k := r.p, se.sp.Script, se.key
	if pos >= len(se.items) {
		r.finishPump(se, s, true)
		return
	}
	if !s.Current(se.id) {
		// the connection is over (or the station has connected anew: that is
		// another session's connection)
		r.finishPump(se, s, false)
		return
	}
	if p.Regime == "burst" && pos == 0 {
		// Bursts start only when the writer is through: the library's poll for
		// outstanding frames takes the demultiplexer's mutex and then waits for
		// the demultiplexer, which is itself waiting for the reader when the
		// receive queue is full; the next frame from the TNC then blocks on that
		// mutex -- not a durable block, so the simulated clock (and the sleeping
		// reader with it) would never move again. Real time has no such problem.
		r.mu.Lock()
		wd, since := se.writerDone, se.attemptAt
		r.mu.Unlock()
		if !wd {
			if r.sim.Now()-since > 2*opBudget {
				r.finishPump(se, s, false)
				return
			}
			r.at(50*time.Millisecond, func() { r.pump(se, s, pos, w, g, inBurst) })
			return
		}
	}
	unread, readerDone := r.unread(se, s)
	r.mu.Lock()
	if unread > se.maxUnread {
		se.maxUnread = unread
	}
	refusalSince := r.refusalSince
	r.mu.Unlock()
	regime := p.Regime
	fk := agwtnc.ConnKey{Port: k.Port, Local: k.Local, Remote: foreignCall}
	if regime == "paced" {
		// quiescence: while the library is still refusing an unaccepted inbound
		// connection nothing else is sent
		if st, _, _ := s.ConnState(fk); st == "connected" && r.sim.Now()-refusalSince < 3*time.Minute {
			r.at(50*time.Millisecond, func() { r.pump(se, s, pos, w, g, inBurst) })
			return
		}
	}
	if regime != "burst" {
		if readerDone {
			r.finishPump(se, s, false)
			return
		}
		if unread > clamp(sc.Ahead, 0, 6) {
			r.mu.Lock()
			if se.readCalls != se.gateCalls || se.gateSince == 0 || s.InFlight() > 0 {
				// progress, or the link is still busy delivering: not stuck
				se.gateCalls, se.gateSince = se.readCalls, r.sim.Now()
			}
			stuck := r.sim.Now()-se.gateSince > r.giveUpAfter(se)
			if stuck {
				se.lostBytes = sum(s.SentLens(se.id)) - len(se.readData)
				se.gateSince = 0
			}
			lost := se.lostBytes
			r.mu.Unlock()
			if stuck {
				r.sim.Logf("tnc: %sscript stops waiting for the reader (%d bytes never read)", tag(se), lost)
			}
			r.at(50*time.Millisecond, func() { r.pump(se, s, pos, w, g, inBurst) })
			return
		}
		r.mu.Lock()
		se.gateSince = 0
		r.mu.Unlock()
	}
	// how many items go into this TCP write
	n := 1
	if regime == "coalesced" {
		n = clamp(core.TapeAt(sc.Group, g, 2), 1, 8)
		g++
	}
	var frames []agwtnc.Frame
	flush := func() {
		if len(frames) > 0 {
			s.Write(frames...)
			frames = nil
		}
	}
	for ; n > 0 && pos < len(se.items); n, pos = n-1, pos+1 {
		it := se.items[pos]
		switch {
		case it.data >= 0:
			off := 0
			for j := 0; j < it.data; j++ {
				off += clamp(sc.Frames[j], 1, 2048)
			}
			if f, ok := s.DataFrame(k, pattern(se.pat(1), off, clamp(sc.Frames[it.data], 1, 2048))); ok {
				frames = append(frames, f)
			}
		case it.foreign != nil:
			if f, ok := r.foreignFrame(it.foreign, k); ok {
				frames = append(frames, f)
			} else if st, _, _ := s.ConnState(fk); st != "connected" && r.groupSize(se) == 1 {
				// (one station cannot connect twice at the same time; and while
				// another session of the run may be waiting in Accept, the call
				// would be answered instead of refused)
				flush()
				r.mu.Lock()
				r.refusalSince, r.refusalKey = r.sim.Now(), fk
				r.mu.Unlock()
				s.InboundConnect(k.Port, foreignCall, k.Local)
			}
			r.mu.Lock()
			se.foreignSent++
			r.mu.Unlock()
		case it.fault != nil:
			flush()
			b, closeAfter := r.faultBytes(it.fault, k)
			r.mu.Lock()
			r.faultFired, r.faultAt = true, r.sim.Now()
			r.mu.Unlock()
			r.sim.Fault("malformed-" + it.fault.Kind)
			s.WriteRaw(it.fault.Kind, b)
			if closeAfter {
				s.CloseLink()
				r.finishPump(se, s, false)
				return
			}
		}
	}
	flush()
	// when does the next write happen
	gap := ms(clamp(core.TapeAt(sc.GapMs, w, 0), 0, 60000))
	if regime == "burst" {
		if inBurst <= 0 {
			inBurst = clamp(core.TapeAt(sc.Group, g, 20), 1, 400)
			g++
		}
		inBurst--
		if inBurst > 0 {
			gap = 0
		}
	}
	r.at(gap, func() { r.pump(se, s, pos, w+1, g, inBurst) })
}

// groupSize is the number of sessions that may run at the same time as se.
func (r *run) groupSize(se *sess) int {
	n := 0
	for _, o := range r.ss {
		if o.group == se.group {
			n++
		}
	}
	return n
}
