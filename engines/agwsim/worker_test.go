package agwsim

import (
	"testing"

	"verif/sim/core"
)

func TestWorker(t *testing.T) { core.WorkerMain(t, Engine{}) }
