package agwsim

import (
	"fmt"
	"net"
	"runtime/debug"
	"sync"
	"time"

	"verif/ref/agwtnc"
	"verif/sim/core"
)

const (
	tncAddr = "tnc.sim:8000"
	prop13  = "C13"
	// opBudget bounds (in simulated time) how long the run waits for library
	// calls that never return (e.g. Write polling for ever).
	opBudget = 3 * time.Minute
)

func ms(n int) time.Duration {
	if n < 0 {
		n = 0
	}
	if n > 600000 {
		n = 600000
	}
	return time.Duration(n) * time.Millisecond
}

func clamp(v, lo, hi int) int {
	if v < lo {
		return lo
	}
	if v > hi {
		return hi
	}
	return v
}

// patByte is the payload pattern: position dependent, never '~' (foreign
// payloads consist of '~'-delimited markers).
func patByte(seed, off int) byte {
	x := uint32(off)*2654435761 + uint32(seed)*40503
	x ^= x >> 15
	x *= 2246822519
	x ^= x >> 13
	b := byte(x)
	if b == '~' {
		b = 0x7f
	}
	return b
}

func pattern(seed, off, n int) []byte {
	b := make([]byte, n)
	for i := range b {
		b[i] = patByte(seed, off+i)
	}
	return b
}

type opRec struct {
	Name string
	// Sess: index of the session the call belongs to, -1 for the calls on the
	// TNC and the Port themselves (open, register, close).
	Sess       int
	Start, End time.Duration
	Done       bool
	Err        string // "" = nil
	Panicked   bool
	// model state sampled when the call started
	ConnState   string
	Outstanding int
}

type writeRec struct {
	Data []byte
	Op   int // index into ops
	N    int
}

// maxSessions bounds the sessions of one run (the first one plus Plan.More).
const maxSessions = 8

// spec is the per-session part of the plan, in one shape for the first session
// (top-level plan fields) and the later ones (Plan.More).
type spec struct {
	Start         string
	GapMs         int
	Mode          string
	Remote        string
	Digis         []string
	UseURL        bool
	DialTimeoutMs int
	Connect       string
	ConnectLatMs  int
	Script        *Script
	Client        *Client
}

func specs(p *Plan) []spec {
	out := []spec{{Mode: p.Mode, Remote: p.Remote, Digis: p.Digis, UseURL: p.UseURL, DialTimeoutMs: p.DialTimeoutMs,
		Connect: p.TNC.Connect, ConnectLatMs: p.TNC.ConnectLatMs, Script: &p.Script, Client: &p.Client}}
	for i := range p.More {
		if len(out) >= maxSessions {
			break
		}
		m := &p.More[i]
		out = append(out, spec{Start: m.Start, GapMs: m.GapMs, Mode: m.Mode, Remote: m.Remote, Digis: m.Digis, UseURL: m.UseURL,
			DialTimeoutMs: m.DialTimeoutMs, Connect: m.Connect, ConnectLatMs: m.ConnectLatMs, Script: &m.Script, Client: &m.Client})
	}
	return out
}

// sess is the state of one session (one connection attempt and, when it
// succeeds, the connection) of an execution. Guarded by run.mu.
type sess struct {
	idx  int
	sp   spec
	key  agwtnc.ConnKey
	id   int  // incarnation of key in the model; valid when have
	have bool // a connection of this session reached "connected" in the model

	// life cycle
	group       int    // sessions of one group may overlap; groups are separated by a quiet link
	skipped     string // why the session was not run ("" = it was)
	attempted   bool   // the connect attempt (Dial or Listen/Accept) was started
	attemptAt   time.Duration
	dialling    bool // inside Dial: a connection the model establishes for key is this session's
	connectDone chan struct{}
	established bool // the application got a net.Conn
	ended       bool
	endedAt     time.Duration
	connClosed  bool // the application's Close call on the connection was made
	conn        net.Conn
	rd, wr      *core.GoResult

	writes []writeRec

	// reader
	readData    []byte
	readCalls   int
	readErr     string
	readDone    bool
	readDoneAt  time.Duration
	readPanic   bool
	readStarted bool
	smallBufHit bool

	// script
	items       []item
	pumpDone    bool
	pumpDoneAt  time.Duration
	maxUnread   int
	foreignSent int
	inboundAt   time.Duration
	inboundSent bool
	inboundID   int

	closerStarted   bool
	closerStartedAt time.Duration
	writeStuck      bool
	settled         bool
	settledRead     int
	settledSent     int
	settledAt       time.Duration
	inRead          bool
	inReadSince     time.Duration
	lostBytes       int
	gateCalls       int
	gateSince       time.Duration
	writerDone      bool
	dialAbandoned   bool
}

// pat returns the pattern seed of stream kind (1: TNC->host data, 2: Write
// payloads, 3: UI payloads) for this session: every session has its own
// patterns, so bytes that turn up in the wrong session are recognisable.
func (se *sess) pat(kind int) int { return kind + 16*se.idx }

func (se *sess) frames() []int { return se.sp.Script.Frames }

// run is the state of one execution.
type run struct {
	sim *core.Sim
	p   *Plan
	tnc *agwtnc.TNC

	mu   sync.Mutex
	sess *agwtnc.Session // the model's side of the TCP link
	ss   []*sess

	ops []opRec

	// TNC->host link tracking (for probes and for the link-closure signature)
	trk            streamTracker
	hostClosedLink bool // the library closed its TCP connection
	hostClosedAt   time.Duration
	splitAtClose   bool

	faultFired   bool
	faultAt      time.Duration
	refusalSince time.Duration // the last time the script announced an inbound connection nobody accepts
	refusalKey   agwtnc.ConnKey
	jseq         int
	accepting    int  // Accept calls in progress
	running      int  // sessions between connect attempt and end
	portGone     bool // the application closed the Port or the TNC: no further session
	overlapped   bool // two sessions had a connection at the same time
}

func newRun(sim *core.Sim, p *Plan) *run {
	r := &run{sim: sim, p: p}
	for i, sp := range specs(p) {
		se := &sess{idx: i, sp: sp, connectDone: make(chan struct{}), id: -1, inboundID: -1}
		se.key = agwtnc.ConnKey{Port: byte(clamp(p.Port, 0, 255)), Local: p.MyCall, Remote: sp.Remote}
		r.ss = append(r.ss, se)
	}
	return r
}

// jitter returns a different sub-microsecond offset for every environment
// event of the run. Plan delays are whole micro- or milliseconds; without the
// offset, timers the library starts (200 ms poll ticker, 30 s and 1 min
// timeouts, context deadlines) and the pipe's write pacing land on the same
// grid as the environment's instants and now and then on the very same
// nanosecond, where the runtime's order of the two wake-ups is not repeatable.
func (r *run) jitter() time.Duration {
	r.mu.Lock()
	r.jseq++
	k := r.jseq
	r.mu.Unlock()
	return time.Duration(k * 389 % 997)
}

func (r *run) pause(d time.Duration) {
	if d < 0 {
		d = 0
	}
	at := r.sim.Reserve(r.sim.Now() + d + r.jitter())
	time.Sleep(at - r.sim.Now())
}

// at schedules an environment event of the engine.
func (r *run) at(d time.Duration, f func()) {
	if d < 0 {
		d = 0
	}
	r.sim.At(d+r.jitter(), f)
}

func (r *run) stepDelay(i int) time.Duration {
	return ms(core.TapeAt(r.p.Client.StepDelayMs, i, 1))
}

func (r *run) stepDelayOf(se *sess, i int) time.Duration {
	return ms(core.TapeAt(se.sp.Client.StepDelayMs, i, 1))
}

func (r *run) session() *agwtnc.Session {
	r.mu.Lock()
	defer r.mu.Unlock()
	return r.sess
}

func opClass(name string) string { return name }

// call runs one library call on the current goroutine, records it and turns a
// panic into a violation instead of letting it end the scripted client.
func (r *run) call(se *sess, name string, fn func() error) bool {
	_, ok := r.callI(se, name, fn)
	return ok
}

// tag prefixes the log lines of the later sessions (the first session logs as
// it always did).
func tag(se *sess) string {
	if se == nil || se.idx == 0 {
		return ""
	}
	return fmt.Sprintf("s%d ", se.idx)
}

// callI is call that also returns the index of the operation record. se is
// the session the call belongs to (nil: a call on the TNC or the Port).
func (r *run) callI(se *sess, name string, fn func() error) (int, bool) {
	rec := opRec{Name: name, Sess: -1, Start: r.sim.Now()}
	r.mu.Lock()
	mdl, id := r.sess, -1
	if se != nil {
		rec.Sess = se.idx
		if se.have {
			id = se.id
		}
	}
	r.mu.Unlock()
	if mdl != nil && id >= 0 {
		rec.ConnState, rec.Outstanding, _ = mdl.StateID(id)
	}
	r.mu.Lock()
	idx := len(r.ops)
	r.ops = append(r.ops, rec)
	r.mu.Unlock()
	name = tag(se) + name
	r.sim.Logf("cli: %s ...", name)
	var err error
	panicked := false
	func() {
		defer func() {
			if v := recover(); v != nil {
				panicked = true
				r.reportPanic(name, v, string(debug.Stack()))
			}
		}()
		err = fn()
	}()
	r.mu.Lock()
	o := &r.ops[idx]
	o.End, o.Done, o.Panicked = r.sim.Now(), true, panicked
	if err != nil {
		o.Err = err.Error()
		if o.Err == "" {
			o.Err = "error"
		}
	}
	r.mu.Unlock()
	if panicked {
		r.sim.Logf("cli: %s panicked", name)
	} else {
		r.sim.Logf("cli: %s -> %v", name, err)
	}
	return idx, err == nil && !panicked
}

func (r *run) reportPanic(op string, v any, stack string) {
	frame := core.RepoFrame(stack)
	if frame == "unknown" {
		r.sim.Violate(prop13, "harness", "client-panic", "scripted client panicked outside the library during %s: %v\n%s", op, v, stack)
		return
	}
	r.sim.Violate(prop13, "panic", core.PanicClass(v)+"@"+frame+":"+opClass(op), "%s panicked: %v\n%s", op, v, stack)
}

// lastOp returns the index of the op just recorded by call on this goroutine.
func (r *run) opIndexOfLast(name string) int {
	r.mu.Lock()
	defer r.mu.Unlock()
	for i := len(r.ops) - 1; i >= 0; i-- {
		if r.ops[i].Name == name {
			return i
		}
	}
	return -1
}

// streamTracker follows the TNC->host byte stream as delivered, segment by
// segment, to see where segment boundaries fall relative to frames.
type streamTracker struct {
	hdr       [agwtnc.HeaderLen]byte
	hdrGot    int
	dataLeft  int
	lost      bool // stream no longer followable (malformed frame)
	hdrSplit  int
	dataSplit int
	multi     int
	segs      int
	frames    int
}

func (t *streamTracker) segment(p []byte) {
	if t.lost {
		return
	}
	t.segs++
	completed := 0
	for len(p) > 0 {
		if t.dataLeft > 0 {
			n := t.dataLeft
			if n > len(p) {
				n = len(p)
			}
			t.dataLeft -= n
			p = p[n:]
			if t.dataLeft == 0 {
				completed++
			}
			continue
		}
		n := copy(t.hdr[t.hdrGot:], p)
		t.hdrGot += n
		p = p[n:]
		if t.hdrGot == agwtnc.HeaderLen {
			t.hdrGot = 0
			dl := uint32(t.hdr[28]) | uint32(t.hdr[29])<<8 | uint32(t.hdr[30])<<16 | uint32(t.hdr[31])<<24
			if dl > 1<<16 {
				t.lost = true
				return
			}
			t.dataLeft = int(dl)
			if dl == 0 {
				completed++
			}
		}
	}
	t.frames += completed
	if t.hdrGot > 0 {
		t.hdrSplit++
	}
	if t.dataLeft > 0 {
		t.dataSplit++
	}
	if completed >= 2 {
		t.multi++
	}
}

func (r *run) describe() string {
	p := r.p
	d := fmt.Sprintf("regime=%s port=%d mode=%s digis=%d frames=%d writes=%d", p.Regime, p.Port, p.Mode, len(p.Digis), len(p.Script.Frames), len(p.Client.Writes))
	if len(r.ss) > 1 {
		d += fmt.Sprintf(" sessions=%d", len(r.ss))
	}
	return d
}

// describeSess names one of the later sessions in messages.
func (r *run) describeSess(se *sess) string {
	same := "different-remote"
	for _, o := range r.ss[:se.idx] {
		if o.sp.Remote == se.sp.Remote {
			same = "same-remote-as-session-" + fmt.Sprint(o.idx+1)
		}
	}
	return fmt.Sprintf("session %d of %d: mode=%s %s start=%s digis=%d frames=%d writes=%d", se.idx+1, len(r.ss), se.sp.Mode, same, se.sp.Start, len(se.sp.Digis), len(se.sp.Script.Frames), len(se.sp.Client.Writes))
}
