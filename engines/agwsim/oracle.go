package agwsim

import (
	"bytes"
	"fmt"
	"strings"
	"time"

	"verif/ref/agwtnc"
	"verif/sim/pipe"
)

// verdicts collects violations, one per signature and run.
type verdicts struct {
	r    *run
	seen map[string]bool
	// se: the session being judged (nil: clauses about the TNC link and the port)
	se *sess
}

// add records a violation. Signatures do not name the session: the first
// session's are the ones known_findings.json lists, and the same defect in a
// later session is the same finding; the message says which session it was.
func (v *verdicts) add(oracle, detail, format string, a ...any) {
	sig := oracle + "/" + detail
	if v.seen[sig] {
		return
	}
	v.seen[sig] = true
	ctx := v.r.describe()
	if v.se != nil && v.se.idx > 0 {
		ctx += "; " + v.r.describeSess(v.se)
	}
	v.r.sim.Violate(prop13, oracle, detail, format+" ["+ctx+"]", a...)
}

func regKey(port int, call string) string { return fmt.Sprintf("%d/%s", clamp(port, 0, 255), call) }

// judge is what the clauses of one run share.
type judge struct {
	v                    *verdicts
	sn                   agwtnc.Snapshot
	cutFired             bool
	relaxedRun           bool
	linkClosedUnprovoked bool
	blocking             bool
	tncCloseAt           time.Duration
	tncCloseCalled       bool
}

// check is the C13 oracle. It runs after everything has quiesced.
func (r *run) check(cutFired bool) (nonTrivial bool) {
	p := r.p
	mdl := r.session()
	if mdl == nil {
		return false
	}
	sn := mdl.Snapshot()
	r.mu.Lock()
	defer r.mu.Unlock()
	v := &verdicts{r: r, seen: map[string]bool{}}
	j := &judge{v: v, sn: sn, cutFired: cutFired}

	// relaxed: an injected fault fired; then a call may fail and unacknowledged
	// data may be lost, but nothing wrong may be delivered and nothing may crash.
	relaxed := r.faultFired || cutFired || sn.TNCClosed
	j.relaxedRun = relaxed
	cooperative := !relaxed && !p.TNC.RegisterFail && !p.TNC.NoCaps && !p.TNC.NoY && (p.TNC.Connect == "" || p.TNC.Connect == "accept")

	// when did the client itself start closing things
	firstOp := func(names ...string) (time.Duration, bool) {
		for _, o := range r.ops {
			for _, n := range names {
				if o.Name == n && o.Sess < 0 {
					return o.Start, true
				}
			}
		}
		return 0, false
	}
	tncCloseAt, tncCloseCalled := firstOp("tnc-close", "tncport-close", "port-close")
	tncOnlyCloseAt, tncOnlyCloseCalled := firstOp("tnc-close", "tncport-close")
	j.tncCloseAt, j.tncCloseCalled = tncCloseAt, tncCloseCalled

	// ---- the library closed the TCP link although nobody asked it to --------
	if r.hostClosedLink && !relaxed {
		provoked := tncOnlyCloseCalled && tncOnlyCloseAt <= r.hostClosedAt
		for _, o := range r.ops {
			switch o.Name {
			case "register", "register2", "open-port":
				if o.Done && o.Err != "" && o.Start <= r.hostClosedAt && r.hostClosedAt <= o.End && (p.TNC.RegisterFail || p.TNC.NoCaps) {
					provoked = true // RegisterPort closes the TNC when the TNC refuses or ignores the registration
				}
			}
		}
		if !provoked {
			j.linkClosedUnprovoked = true
			detail := "no-data-split"
			if r.splitAtClose {
				detail = "data-field-split"
			}
			v.add("tnc-link", "closed-by-library/"+detail, "the library closed its TCP connection to the TNC at %v although the application had not closed the TNC and the TNC had sent only well-formed frames (frames whose data field was split across TCP segments so far: %d)", r.hostClosedAt, r.trk.dataSplit)
		}
	}
	linkDownBy := func(t time.Duration) bool { return r.hostClosedLink && r.hostClosedAt <= t }

	// ---- frames received by the TNC ---------------------------------------
	local := map[string]int{p.MyCall: clamp(p.Port, 0, 255)}
	if p.Second != nil {
		if _, dup := local[p.Second.Call]; !dup {
			local[p.Second.Call] = clamp(p.Second.Port, 0, 255)
		}
	}
	ports := map[int]bool{}
	for _, pt := range local {
		ports[pt] = true
	}
	remotes := map[string]bool{foreignCall: true}
	for _, se := range r.ss {
		remotes[se.sp.Remote] = true
	}
	// dialFor: the session whose Dial sent a connect request that reached the TNC
	// at instant at: the latest dial of that station started before it (sessions
	// with the same station never overlap)
	dialFor := func(remote string, at time.Duration) *sess {
		var best *sess
		for _, se := range r.ss {
			if se.sp.Mode != "accept" && se.sp.Remote == remote && se.attempted && se.attemptAt <= at {
				best = se
			}
		}
		return best
	}
	// blocking: TCP writes of the host take simulated time (write pacing), so two
	// goroutines writing frames can interleave a header and a data field
	blocking := len(p.Link.AB.WriteDelayUs) > 0
	j.blocking = blocking
	if sn.FramingErr != "" {
		d := "framing-error"
		if blocking {
			d += "/blocking-writes"
		}
		v.add("host-frames", d, "the byte stream received by the TNC stopped being a sequence of AGWPE frames: %s", sn.FramingErr)
	}
	if sn.TruncErr != "" && !cutFired && !sn.TNCClosed {
		d := "truncated-at-eof"
		if blocking {
			d += "/blocking-writes"
		}
		v.add("host-frames", d, "%s", sn.TruncErr)
	}
	regSeen := map[string]bool{}
	for _, f := range sn.Recv {
		k := string(rune(f.Kind))
		if f.Err != "" {
			v.add("host-frames", "unknown-kind", "frame #%d: %s (%v)", f.Seq, f.Err, f.Frame)
			continue
		}
		portOK := func(call string) {
			if want, ok := local[call]; ok && int(f.Port) != want {
				v.add("host-frames", "wrong-port/"+k, "frame #%d %v carries port %d, but %s is registered on port %d", f.Seq, f.Frame, f.Port, call, want)
			}
		}
		switch f.Kind {
		case 'g', 'y':
			if !ports[int(f.Port)] {
				v.add("host-frames", "wrong-port/"+k, "frame #%d %v names port %d which the application does not use", f.Seq, f.Frame, f.Port)
			}
		case 'X', 'x':
			if _, ok := local[f.From]; !ok {
				v.add("host-frames", "wrong-calls/"+k, "frame #%d %v: CallFrom is not a callsign of the application", f.Seq, f.Frame)
			}
			portOK(f.From)
			if f.Kind == 'X' {
				regSeen[regKey(int(f.Port), f.From)] = true
			}
		case 'C', 'v', 'c', 'd', 'D', 'M':
			if _, ok := local[f.From]; !ok {
				v.add("host-frames", "wrong-calls/"+k, "frame #%d %v: CallFrom is not a callsign of the application", f.Seq, f.Frame)
			} else if f.Kind == 'M' {
				if f.To != "BEACON" {
					v.add("host-frames", "wrong-calls/"+k, "frame #%d %v: CallTo is not the UNPROTO destination", f.Seq, f.Frame)
				}
			} else if !remotes[f.To] {
				v.add("host-frames", "wrong-calls/"+k, "frame #%d %v: CallTo is not the remote station", f.Seq, f.Frame)
			}
			portOK(f.From)
			if f.Kind == 'D' && f.PID != 0xF0 {
				v.add("host-frames", "wrong-pid/D", "frame #%d %v: connected data must carry PID 0xF0", f.Seq, f.Frame)
			}
			if f.Kind == 'D' && f.Note == "unknown-connection" {
				known := false
				for _, c := range sn.Conns {
					if c.Key == (agwtnc.ConnKey{Port: f.Port, Local: f.From, Remote: f.To}) {
						known = true
					}
				}
				if !known {
					v.add("host-frames", "data-for-unknown-connection", "frame #%d %v does not belong to any connection the TNC ever had", f.Seq, f.Frame)
				}
			}
			if f.Kind == 'C' || f.Kind == 'v' || f.Kind == 'c' {
				if !regSeen[regKey(int(f.Port), f.From)] {
					v.add("exchange", "connect-before-register", "frame #%d %v: no 'X' registration of %s on port %d was received before it", f.Seq, f.Frame, f.From, f.Port)
				} else if strings.Contains(f.Note, "not-registered") {
					v.add("exchange", "connect-with-refused-registration", "frame #%d %v: the TNC had refused (or dropped) the registration of %s", f.Seq, f.Frame, f.From)
				}
				if se := dialFor(f.To, f.At); se != nil {
					digis := se.sp.Digis
					v.se = se
					want := byte('C')
					if len(digis) > 0 {
						want = 'v'
					}
					if f.Kind != want {
						v.add("host-frames", "wrong-connect-kind", "frame #%d %v: a connection with %d digipeaters needs a '%c' frame", f.Seq, f.Frame, len(digis), want)
					}
					if f.Kind == 'v' {
						ok := len(f.Data) == 1+10*len(digis) && int(f.Data[0]) == len(digis)
						if ok {
							for i, d := range digis {
								field := f.Data[1+10*i : 11+10*i]
								want := make([]byte, 10)
								copy(want, d)
								if !bytes.Equal(field, want) {
									ok = false
								}
							}
						}
						if !ok {
							v.add("host-frames", "bad-via-data", "frame #%d %v: data %q is not the count byte followed by the %d digipeaters %v as 10-byte fields in order", f.Seq, f.Frame, f.Data, len(digis), digis)
						}
					}
					v.se = nil
				}
			}
		case 'Y':
			switch {
			case isLocal(local, f.From) && remotes[f.To]:
				portOK(f.From)
			case isLocal(local, f.To) && remotes[f.From]:
				portOK(f.To)
			default:
				v.add("host-frames", "wrong-calls/Y", "frame #%d %v: the calls do not name a connection of the application", f.Seq, f.Frame)
			}
		}
	}

	// ---- registration exchange ---------------------------------------------
	for _, o := range r.ops {
		if !o.Done || o.Panicked || o.Sess >= 0 {
			continue
		}
		switch o.Name {
		case "register", "register2", "open-port":
			port, call := p.Port, p.MyCall
			if o.Name == "register2" && p.Second != nil {
				port, call = p.Second.Port, p.Second.Call
			}
			if o.Err == "" {
				if !sn.RegTried[regKey(port, call)] {
					v.add("exchange", "register-without-X", "%s succeeded but the TNC never received an 'X' frame for %s on port %d", o.Name, call, port)
				} else if p.TNC.RegisterFail {
					v.add("exchange", "register-refused-but-succeeded", "%s succeeded although the TNC answered the 'X' frame with 0 (refused)", o.Name)
				}
			}
		}
	}

	// ---- unexpected failures of the calls on the TNC and the port ----------
	// (the calls of a session are judged with the session)
	if cooperative {
		slow := r.slowLink(nil)
		for _, o := range r.ops {
			if !o.Done || o.Panicked || o.Err == "" || linkDownBy(o.End) || o.Sess >= 0 {
				continue
			}
			if slow && (strings.Contains(o.Err, "timeout") || strings.Contains(o.Err, "deadline exceeded")) {
				continue
			}
			closing := tncCloseCalled && tncCloseAt <= o.End
			bad := false
			switch o.Name {
			case "open":
				bad = true
			case "register", "open-port":
				bad = true
			case "register2":
				bad = p.Second != nil && !(p.Second.Call == p.MyCall && clamp(p.Second.Port, 0, 255) == clamp(p.Port, 0, 255))
			case "version", "ping":
				bad = !p.TNC.NoVersion && !closing
			}
			if bad {
				v.add("unexpected-error", o.Name+"/"+p.Regime, "%s failed with %q at %v although the TNC was healthy and answered every request", o.Name, o.Err, o.End)
			}
		}
	}

	// ---- every session ------------------------------------------------------
	for _, se := range r.ss {
		if !se.attempted {
			continue
		}
		v.se = se
		if r.checkSession(j, se) {
			nonTrivial = true
		}
	}
	v.se = nil
	return nonTrivial
}

// slowLink: can the backlog of a link direction exceed a second? The library's
// own time-outs (3 s version, 30 s poll, 1 min flush/close) are implementation
// constants; on such a link a time-out says nothing about correctness, so it is
// not demanded there. se == nil: the whole run; else the sessions that can run
// at the same time as se.
func (r *run) slowLink(se *sess) bool {
	p := r.p
	hostBytes, tncBytes := 40*agwtnc.HeaderLen, 40*agwtnc.HeaderLen
	for _, o := range r.ss {
		if se != nil && o.group != se.group {
			continue
		}
		for _, w := range o.writes {
			hostBytes += len(w.Data) + 4*agwtnc.HeaderLen
		}
		for _, f := range o.frames() {
			tncBytes += clamp(f, 1, 2048) + agwtnc.HeaderLen
		}
	}
	return worstTransit(p.Link.AB, hostBytes) > time.Second || worstTransit(p.Link.BA, tncBytes) > time.Second
}

// checkSession judges one session: the clauses about its connect exchange, its
// calls, the two byte streams of its connection, polling, Flush and Close.
func (r *run) checkSession(j *judge, se *sess) (nonTrivial bool) {
	p, sim, v, sn, sp := r.p, r.sim, j.v, j.sn, se.sp
	regime := p.Regime
	// A malformed transmission that fired after the session was over does not
	// relax the session; a link cut does (its instant is not recorded).
	relaxed := j.cutFired || ((r.faultFired || sn.TNCClosed) && !(se.ended && se.endedAt < r.faultAt))
	cooperative := !relaxed && !p.TNC.RegisterFail && !p.TNC.NoCaps && !p.TNC.NoY && (sp.Connect == "" || sp.Connect == "accept")
	linkClosedUnprovoked := j.linkClosedUnprovoked
	tncCloseAt, tncCloseCalled := j.tncCloseAt, j.tncCloseCalled
	linkDownBy := func(t time.Duration) bool { return r.hostClosedLink && r.hostClosedAt <= t }
	blocking := j.blocking
	mine := func(o *opRec) bool { return o.Sess == se.idx }

	// the connection of the session as the model saw it
	var mc *agwtnc.Conn
	if se.have && se.id >= 0 && se.id < len(sn.Conns) {
		mc = &sn.Conns[se.id]
	}
	var discAt time.Duration // model-initiated disconnect of the connection (0: none)
	if mc != nil {
		discAt = mc.TNCDiscAt
	}
	var connCloseAt time.Duration
	connCloseCalled := false
	for i := range r.ops {
		if o := &r.ops[i]; mine(o) && o.Name == "close" {
			connCloseAt, connCloseCalled = o.Start, true
			break
		}
	}

	// ---- dial / accept exchanges -------------------------------------------
	for i := range r.ops {
		o := &r.ops[i]
		if !mine(o) || !o.Done || o.Panicked {
			continue
		}
		switch o.Name {
		case "dial":
			if o.Err == "" && (mc == nil || mc.Inbound || mc.ConnectedAt == 0 || mc.ConnectedAt > o.End) {
				v.add("exchange", "dial-succeeded-without-connect", "Dial returned a connection but the TNC had not reported any connection established")
			}
		case "accept":
			if o.Err == "" && !se.inboundSent {
				v.add("exchange", "accept-without-inbound", "Accept returned a connection but the TNC never announced one")
			}
		}
	}

	// ---- unexpected failures on a healthy, cooperative TNC ------------------
	if cooperative {
		slowLink := r.slowLink(se)
		for i := range r.ops {
			o := &r.ops[i]
			if !mine(o) || !o.Done || o.Panicked || o.Err == "" || linkDownBy(o.End) {
				continue
			}
			if slowLink && (strings.Contains(o.Err, "timeout") || strings.Contains(o.Err, "deadline exceeded")) {
				continue
			}
			closing := (connCloseCalled && connCloseAt <= o.End) || (tncCloseCalled && tncCloseAt <= o.End)
			connGone := discAt > 0 && discAt <= o.End
			if mc != nil && len(mc.HostDiscAt) > 0 && mc.HostDiscAt[0] <= o.End {
				connGone = true // the library had already disconnected (reported by the read-stream clause)
			}
			bad := false
			switch o.Name {
			case "listen":
				bad = !closing
				if se.idx == 0 {
					bad = true
				}
			case "ping":
				bad = !p.TNC.NoVersion && !closing
			case "dial":
				bad = sp.DialTimeoutMs == 0 && !se.dialAbandoned && !(tncCloseCalled && tncCloseAt <= o.End)
				if se.idx == 0 {
					bad = sp.DialTimeoutMs == 0 && !se.dialAbandoned
				}
			case "write":
				bad = !closing && !connGone
			case "flush":
				bad = !closing && !connGone && !(strings.Contains(o.Err, "deadline exceeded"))
			case "sendui":
				bad = !closing
			}
			if bad {
				v.add("unexpected-error", o.Name+"/"+regime, "%s failed with %q at %v although the TNC was healthy and answered every request", o.Name, o.Err, o.End)
			}
		}
	}

	// ---- host -> radio stream ----------------------------------------------
	var got []byte
	if mc != nil {
		for _, pl := range mc.RecvPayloads {
			got = append(got, pl...)
		}
		if len(got) > 0 {
			nonTrivial = true
		}
	}
	var ws []wr
	for _, w := range se.writes {
		x := wr{data: w.Data, optional: true}
		if w.Op >= 0 {
			o := r.ops[w.Op]
			if o.Done && !o.Panicked && o.Err == "" {
				if w.N != len(w.Data) {
					v.add("write-stream", "short-write-without-error", "Write of %d bytes returned n=%d and a nil error", len(w.Data), w.N)
				}
				x.optional = (discAt > 0 && discAt <= o.End) || (connCloseCalled && connCloseAt <= o.End && se.closerStarted)
			}
		}
		ws = append(ws, x)
	}
	if len(ws) > 0 || len(got) > 0 {
		lossy := relaxed || linkClosedUnprovoked
		if !matchWrites(ws, got, lossy) {
			var want []byte
			for _, w := range ws {
				if !w.optional {
					want = append(want, w.data...)
				}
			}
			detail := "wrong-data"
			if len(got) < len(want) && bytes.HasPrefix(want, got) {
				detail = "missing-data"
			}
			if blocking {
				detail += "/blocking-writes"
			}
			v.add("write-stream", detail, "the TNC received %d payload bytes in %d 'D' frames for the connection; the Write calls that returned success wrote %d bytes (first difference at offset %d)", len(got), lenRecv(mc), len(want), firstDiff(got, want))
		}
	}

	// ---- Y polling, Flush, Close -------------------------------------------
	if mc != nil && !relaxed && !p.TNC.NoY {
		inWin := func(t, a, b time.Duration) bool { return t >= a && t <= b }
		for i := range r.ops {
			o := &r.ops[i]
			if !mine(o) || !o.Done || o.Panicked || o.Err != "" {
				continue
			}
			switch o.Name {
			case "write":
				polled := false
				for _, t := range mc.YQueries {
					polled = polled || inWin(t, o.Start, o.End)
				}
				if !polled {
					v.add("exchange", "write-without-Y-poll", "a successful Write (%v..%v) did not ask the TNC for the outstanding frames of the connection", o.Start, o.End)
				}
			case "flush":
				if se.closerStarted && se.closerStartedAt <= o.End {
					continue
				}
				polled, zero, waited := false, false, false
				for _, t := range mc.YQueries {
					polled = polled || inWin(t, o.Start, o.End)
				}
				for _, y := range mc.YReplies {
					if inWin(y.At, o.Start, o.End) {
						zero = zero || y.Count == 0
						waited = waited || y.Count > 0
					}
				}
				switch {
				case !polled:
					v.add("exchange", "flush-without-Y-poll", "a successful Flush (%v..%v) did not ask the TNC for the outstanding frames of the connection", o.Start, o.End)
				case !zero:
					v.add("exchange", "flush-returned-before-zero", "Flush returned nil at %v but no outstanding-frames report of the TNC during the call said 0 (outstanding when it started: %d)", o.End, o.Outstanding)
				case waited:
					sim.Probe("flush-waited-for-outstanding")
				}
			}
		}
	}
	if mc != nil && !relaxed {
		for i := range r.ops {
			o := &r.ops[i]
			if !mine(o) || o.Name != "close" {
				continue
			}
			pulled := tncCloseCalled && tncCloseAt <= o.End     // the application closed the port or the TNC under the Close call
			garbled := sn.FramingErr != "" || sn.TruncErr != "" // reported by the host-frames clause
			if o.Done && !o.Panicked && o.ConnState == "connected" && discAt == 0 && !linkDownBy(o.End) && !pulled && !garbled && len(mc.HostDiscAt) == 0 {
				v.add("exchange", "close-without-d", "Close (%v..%v, result %q) on an established connection did not send a 'd' frame to the TNC", o.Start, o.End, o.Err)
			}
			break // only the first Close call
		}
	}

	// ---- radio -> host stream ----------------------------------------------
	var sent []byte
	if mc != nil {
		for _, pl := range mc.SentPayloads {
			sent = append(sent, pl...)
		}
	}
	rd := se.readData
	if len(rd) > 0 {
		nonTrivial = true
	}
	if !bytes.HasPrefix(sent, rd) {
		var frames [][]byte
		if mc != nil {
			frames = mc.SentPayloads
		}
		class := classifyRead(rd, frames)
		if class == "wrong-bytes" {
			// bytes of another connection of the run?
			m := firstDiff(rd, sent)
			if w := min(12, len(rd)-m); w >= 6 {
				for _, o := range r.ss {
					if o == se || !o.have || o.id < 0 || o.id >= len(sn.Conns) {
						continue
					}
					var other []byte
					for _, pl := range sn.Conns[o.id].SentPayloads {
						other = append(other, pl...)
					}
					if bytes.Contains(other, rd[m:m+w]) {
						class = "other-session-delivered"
					}
				}
			}
		}
		if !relaxed || class == "wrong-bytes" || class == "other-session-delivered" || strings.HasPrefix(class, "foreign-delivered") {
			m := firstDiff(rd, sent)
			v.add("read-stream", class+"/"+regime, "Read returned %d bytes; they differ at offset %d from the %d bytes of 'D' payload the TNC sent for the connection (read %q..., sent %q...)", len(rd), m, len(sent), clip(rd[m:], 24), clip(sent[min(m, len(sent)):], 24))
		}
	} else if !relaxed && !linkClosedUnprovoked && se.readDone && se.readErr == "EOF" {
		clientClosedBefore := (connCloseCalled && connCloseAt <= se.readDoneAt) || (tncCloseCalled && tncCloseAt <= se.readDoneAt)
		switch {
		case clientClosedBefore:
		case (discAt == 0 || se.readDoneAt < discAt) && mc != nil && len(mc.HostDiscAt) > 0 && mc.HostDiscAt[0] <= se.readDoneAt:
			v.add("read-stream", "eof-after-unrequested-disconnect/"+regime, "Read returned EOF at %v because the library itself had sent a 'd' frame for the connection at %v, although the application had not called Close (dial deadline %d ms)", se.readDoneAt, mc.HostDiscAt[0], sp.DialTimeoutMs)
		case discAt == 0 || se.readDoneAt < discAt:
			v.add("read-stream", "eof-without-disconnect/"+regime, "Read returned EOF at %v although neither side had ended the connection", se.readDoneAt)
		case len(rd) < len(sent):
			v.add("read-stream", "missing-tail-at-eof/"+regime, "Read returned EOF after %d of the %d bytes the TNC sent before the remote station disconnected", len(rd), len(sent))
		default:
			if len(sent) > 0 && cooperative && regime == "paced" {
				sim.Probe("strict-complete-paced")
				if se.idx > 0 {
					sim.Probe("strict-complete-paced-later-session")
				}
			}
		}
	}
	if bytes.HasPrefix(sent, rd) && !relaxed && !linkClosedUnprovoked && se.settled && se.settledRead < se.settledSent &&
		!(connCloseCalled && connCloseAt <= se.settledAt) && !(tncCloseCalled && tncCloseAt <= se.settledAt) &&
		!(se.readDone && se.readDoneAt <= se.settledAt) {
		v.add("read-stream", "undelivered-tail/"+regime, "the reader was waiting in Read at %v with nothing in flight, yet only %d of the %d bytes the TNC had sent for the connection had been returned", se.settledAt, se.settledRead, se.settledSent)
	}
	if se.readDone && strings.HasPrefix(se.readErr, "error:") && cooperative && !linkDownBy(se.readDoneAt) &&
		!(connCloseCalled && connCloseAt <= se.readDoneAt) && !(tncCloseCalled && tncCloseAt <= se.readDoneAt) {
		v.add("unexpected-error", "read/"+regime, "Read failed with %q on a healthy connection", se.readErr)
	}
	return nonTrivial
}

type wr struct {
	data     []byte
	optional bool
}

// worstTransit bounds the time the link direction needs to deliver n bytes.
func worstTransit(d pipe.DirPlan, n int) time.Duration {
	lat := maxOf(d.LatUs, 100)
	if len(d.LatUs) == 0 {
		lat = 100
	}
	seg := 0
	for _, v := range d.Seg {
		if v > 0 && (seg == 0 || v < seg) {
			seg = v
		}
	}
	if seg == 0 {
		seg = agwtnc.HeaderLen // whole writes: at least a header each
	}
	return time.Duration(lat) * time.Microsecond * time.Duration(n/seg+1)
}

func isLocal(m map[string]int, c string) bool { _, ok := m[c]; return ok }

func lenRecv(c *agwtnc.Conn) int {
	if c == nil {
		return 0
	}
	return len(c.RecvPayloads)
}

func clip(b []byte, n int) []byte {
	if len(b) > n {
		return b[:n]
	}
	return b
}

func firstDiff(a, b []byte) int {
	n := min(len(a), len(b))
	for i := 0; i < n; i++ {
		if a[i] != b[i] {
			return i
		}
	}
	return n
}

// matchWrites: is got the concatenation, in order, of every non-optional write
// and any subset of the optional ones? With lossy, got may also stop early.
func matchWrites(ws []wr, got []byte, lossy bool) bool {
	memo := map[[2]int]bool{}
	var rec func(i, pos int) bool
	rec = func(i, pos int) bool {
		if lossy && pos == len(got) {
			return true
		}
		if i == len(ws) {
			return pos == len(got)
		}
		key := [2]int{i, pos}
		if done, ok := memo[key]; ok {
			return done
		}
		memo[key] = false
		x := ws[i]
		res := false
		rest := got[pos:]
		if bytes.HasPrefix(rest, x.data) && rec(i+1, pos+len(x.data)) {
			res = true
		} else if lossy && bytes.HasPrefix(x.data, rest) {
			res = true
		} else if x.optional && rec(i+1, pos) {
			res = true
		}
		memo[key] = res
		return res
	}
	return rec(0, 0)
}

// classifyRead names the way rd fails to be a prefix of the concatenation of
// the frames sent.
func classifyRead(rd []byte, frames [][]byte) string {
	var sent []byte
	for _, f := range frames {
		sent = append(sent, f...)
	}
	m := firstDiff(rd, sent)
	if m >= len(rd) {
		return "wrong-bytes"
	}
	const pre = "~FOREIGN:"
	if i := bytes.Index(rd[m:], []byte(pre)); i > 0 {
		m += i // payload bytes never contain '~': a marker anywhere is a foreign frame
	}
	if rd[m] == '~' {
		rest := rd[m:]
		if bytes.HasPrefix(rest, []byte(pre)) {
			if e := bytes.IndexByte(rest[len(pre):], '~'); e > 0 {
				return "foreign-delivered-" + string(rest[len(pre):len(pre)+e])
			}
		}
		return "foreign-delivered-short"
	}
	// whole frames missing: rd is the concatenation of a subsequence of the frames
	// (the last one possibly cut short by a small buffer)
	memo := map[[2]int]bool{}
	var sub func(i, pos int) bool
	sub = func(i, pos int) bool {
		if pos == len(rd) {
			return true
		}
		if i == len(frames) {
			return false
		}
		k := [2]int{i, pos}
		if _, seen := memo[k]; seen {
			return false
		}
		memo[k] = true
		rest := rd[pos:]
		if bytes.HasPrefix(rest, frames[i]) && sub(i+1, pos+len(frames[i])) {
			return true
		}
		if len(rest) < len(frames[i]) && bytes.HasPrefix(frames[i], rest) {
			return true
		}
		return sub(i+1, pos)
	}
	if sub(0, 0) {
		return "lost-bytes"
	}
	w := min(12, len(rd)-m)
	if w >= 3 {
		if i := bytes.Index(sent, rd[m:m+w]); i > m {
			return "lost-bytes"
		} else if i >= 0 {
			return "duplicated-or-reordered"
		}
	}
	return "wrong-bytes"
}
