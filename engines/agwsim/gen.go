package agwsim

import (
	"verif/ref/agwtnc"
	"verif/sim/core"
	"verif/sim/pipe"
)

var (
	myCalls     = []string{"LA1SIM", "N0SIM-7", "SM5ABC-12", "W1XYZ"}
	remoteCalls = []string{"LA5NTA-10", "K4CJX", "DB0XYZ-8", "VE7SPR-1"}
	digiCalls   = []string{"RELAY", "WIDE1-1", "LD5SK", "N6ABC-2", "DIGI7-15", "OH2RDK-3", "ZL2XX", "F1ZAA-9"}
)

// genDir draws one link direction. style: "whole", "header" (splits only
// inside the 36-byte header; needs one write per frame), "any".
func genDir(r *core.Rand, style string, latScale int) pipe.DirPlan {
	var d pipe.DirPlan
	switch style {
	case "whole":
	case "header":
		d.Seg = []int{r.Range(1, 35), 0}
	default:
		switch r.Pick(3, 3, 2, 1) {
		case 0: // tiny segments
			hi := r.Range(1, 9)
			d.Seg = core.Tape(r, r.Range(1, 9), func() int { return r.Range(1, hi) })
		case 1: // mixed
			d.Seg = core.Tape(r, r.Range(2, 12), func() int {
				switch r.Pick(2, 3, 1) {
				case 0:
					return r.Range(1, 3)
				case 1:
					return r.Range(4, 120)
				}
				return 0
			})
		case 2: // single bytes
			d.Seg = []int{1}
		case 3: // header, then a piece of the data field, then the rest
			d.Seg = []int{36, r.Range(1, 40), 0}
		}
	}
	d.LatUs = core.Tape(r, r.Range(1, 5), func() int { return r.Intn(latScale + 1) })
	return d
}

func maxOf(t []int, def int) int {
	m := def
	for _, v := range t {
		if v > m {
			m = v
		}
	}
	return m
}

func genPlan(tier string, r *core.Rand) Plan {
	thorough := tier == "thorough"
	var p Plan
	p.Regime = []string{"paced", "burst", "coalesced"}[r.Pick(6, 2, 2)]
	if r.Chance(0.5) {
		p.Port = 0
	} else {
		p.Port = r.Range(1, 3)
	}
	i := r.Intn(len(myCalls))
	p.MyCall, p.Remote = myCalls[i], remoteCalls[r.Intn(len(remoteCalls))]
	p.Mode = "dial"
	if r.Chance(0.3) {
		p.Mode = "accept"
	}
	if p.Mode == "dial" && r.Chance(0.4) {
		n := r.Range(1, 7)
		if r.Chance(0.6) {
			n = r.Range(1, 2)
		}
		for j := 0; j < n; j++ {
			p.Digis = append(p.Digis, digiCalls[r.Intn(len(digiCalls))])
		}
	}
	p.UseURL = r.Chance(0.3)
	p.OpenCombined = r.Chance(0.25)
	if !p.OpenCombined && r.Chance(0.12) {
		p.Second = &SecondReg{Port: p.Port, Call: myCalls[(i+1)%len(myCalls)]}
		if r.Chance(0.4) {
			p.Second.Port = (p.Port + 1 + r.Intn(3)) % 4
		}
	}

	// link
	latScale := []int{0, 10, 200, 3000}[r.Pick(2, 3, 3, 1)]
	baStyle := []string{"whole", "header", "any"}[r.Pick(1, 1, 2)]
	if p.Regime == "coalesced" && baStyle == "header" {
		baStyle = "whole" // a header-only tape needs one frame per write
	}
	p.Link.BA = genDir(r, baStyle, latScale)
	p.Link.AB = genDir(r, []string{"whole", "any"}[r.Pick(1, 2)], latScale)

	// TNC behaviour
	t := &p.TNC
	t.VersionMajor, t.VersionMinor = r.Range(1, 2005), r.Range(0, 127)
	t.MaxFrame = r.Range(1, 7)
	replyScale := []int{0, 100, 2000, 40000}[r.Pick(2, 3, 3, 1)]
	t.ReplyLatUs = core.Tape(r, r.Range(1, 6), func() int { return r.Intn(replyScale + 1) })
	transitMs := 36*maxOf(p.Link.AB.LatUs, 0)/1000 + 1
	minDrain := 2*transitMs + maxOf(t.ReplyLatUs, 0)/1000 + 150
	t.DrainMs = core.Tape(r, r.Range(1, 4), func() int { return minDrain + r.Intn([]int{100, 800, 3000}[r.Intn(3)]) })
	if r.Chance(0.005) {
		t.DrainMs = []int{0} // a radio link faster than the first poll
	}
	t.TextNUL = r.Bool()
	t.RegisterReplyLower = r.Chance(0.1)
	t.RegisterFail = r.Chance(0.04)
	t.NoCaps = r.Chance(0.02)
	t.NoY = r.Chance(0.02)
	t.NoVersion = r.Chance(0.05)
	t.Connect = []string{"accept", "refuse", "silent"}[r.Pick(18, 1, 1)]
	t.ConnectLatMs = r.Intn([]int{5, 500, 8000}[r.Pick(3, 3, 1)] + 1)
	t.NoDiscAck = r.Chance(0.1)
	t.DiscAckLatMs = r.Intn(300)
	if p.Mode == "dial" && r.Chance(0.2) {
		p.DialTimeoutMs = r.Range(1, 12000)
	}

	// TNC script
	s := &p.Script
	s.StartDelayMs = r.Intn(200)
	nFrames := 0
	switch p.Regime {
	case "paced":
		nFrames = r.Range(1, 25)
	case "burst":
		nFrames = r.Range(14, 50)
	default:
		nFrames = r.Range(3, 30)
	}
	if thorough && r.Chance(0.3) {
		nFrames *= 3
	}
	if r.Chance(0.05) {
		nFrames = 0
	}
	bigFrames := r.Chance(0.15)
	for j := 0; j < nFrames; j++ {
		switch {
		case bigFrames && r.Chance(0.3):
			s.Frames = append(s.Frames, r.Range(257, 700))
		case r.Chance(0.15):
			s.Frames = append(s.Frames, r.Range(1, 4))
		case r.Chance(0.2):
			s.Frames = append(s.Frames, 256)
		default:
			s.Frames = append(s.Frames, r.Range(1, 256))
		}
	}
	gapScale := []int{0, 5, 100, 1000}[r.Pick(2, 3, 3, 1)]
	s.GapMs = core.Tape(r, r.Range(1, 5), func() int { return r.Intn(gapScale + 1) })
	switch p.Regime {
	case "paced":
		s.Ahead = r.Range(0, 5)
	case "coalesced":
		s.Ahead = r.Range(0, 2)
		s.Group = core.Tape(r, r.Range(1, 4), func() int { return r.Range(1, 5) })
		s.Group[0] = r.Range(2, 5)
	case "burst":
		s.Group = core.Tape(r, r.Range(1, 3), func() int { return r.Range(13, 40) })
	}
	if r.Chance(0.5) && nFrames > 0 {
		kinds := []string{"other-port", "other-remote", "other-both", "other-local", "mon-U", "mon-I", "mon-T", "unsol-R", "unsol-g", "heard-H", "raw-K", "unknown-kind", "other-d", "other-C", "inbound-unaccepted"}
		for j, n := 0, r.Range(1, 6); j < n; j++ {
			s.Foreign = append(s.Foreign, Foreign{Before: r.Intn(nFrames + 1), Kind: kinds[r.Intn(len(kinds))], Size: r.Range(1, 256)})
		}
	}
	s.End = []string{"remote-disconnect", "local-close", "tnc-close"}[r.Pick(5, 4, 1)]
	s.EndDelayMs = r.Intn(400)
	s.InboundDelayMs = r.Range(1, 300)
	s.AcceptLate = p.Mode == "accept" && r.Chance(0.06)

	// faults
	switch r.Pick(82, 12, 6) {
	case 1:
		f := &Fault{Kind: []string{"huge-datalen", "short-data-close", "garbage", "short-header-close"}[r.Intn(4)], Before: r.Intn(nFrames + 1)}
		switch f.Kind {
		case "huge-datalen":
			f.Val = []int{70000, 1 << 20, 1 << 24, 1 << 27}[r.Intn(4)]
		case "garbage":
			f.Val = r.Range(36, 200)
		default:
			f.Val = r.Range(1, 35)
		}
		p.Fault = f
	case 2:
		dir := "ba"
		if r.Chance(0.3) {
			dir = "ab"
		}
		p.Link.Cut = &pipe.Cut{Dir: dir, Off: r.Range(0, 36*8+nFrames*150), Silent: r.Bool()}
	}

	// client
	c := &p.Client
	c.OpenDelayMs = r.Intn(50)
	c.StepDelayMs = core.Tape(r, r.Range(1, 4), func() int { return r.Intn(100) })
	c.Ping = []string{"", "before", "after"}[r.Pick(6, 2, 2)]
	maxFrame := maxOf(s.Frames, 1)
	smallBuf := r.Chance(0.35)
	c.ReadBuf = core.Tape(r, r.Range(1, 5), func() int {
		if smallBuf {
			switch r.Pick(2, 3, 2) {
			case 0:
				return r.Range(1, 8)
			case 1:
				return r.Range(1, 300)
			}
			return r.Range(256, 4096)
		}
		return []int{maxFrame, maxFrame + r.Intn(64), 1024, 4096}[r.Intn(4)]
	})
	for j, v := range c.ReadBuf {
		if !smallBuf && v < maxFrame {
			c.ReadBuf[j] = maxFrame
		}
	}
	thinkScale := []int{0, 20, 300}[r.Pick(3, 3, 1)]
	if p.Regime == "burst" {
		thinkScale = []int{200, 1000, 3000}[r.Intn(3)]
	}
	c.ReadThinkMs = core.Tape(r, r.Range(1, 5), func() int { return r.Intn(thinkScale + 1) })
	if r.Chance(0.1) {
		c.ReadDeadlineMs = r.Range(50, 5000)
	}
	c.WriterStartMs = r.Intn(300)
	nW := r.Range(0, 8)
	if thorough && r.Chance(0.3) {
		nW = r.Range(8, 24)
	}
	for j := 0; j < nW; j++ {
		sz := r.Range(1, 256)
		switch r.Pick(5, 3, 1) {
		case 1:
			sz = r.Range(257, 2048)
		case 2:
			sz = r.Range(1, 3)
		}
		c.Writes = append(c.Writes, WStep{Op: "write", Size: sz, DelayMs: r.Intn(200)})
		switch r.Pick(12, 4, 1, 1) {
		case 1:
			c.Writes = append(c.Writes, WStep{Op: "flush", DelayMs: r.Intn(50)})
		case 2:
			c.Writes = append(c.Writes, WStep{Op: "sendui", Size: r.Range(1, 200), DelayMs: r.Intn(50)})
		case 3:
			c.Writes = append(c.Writes, WStep{Op: "ping", DelayMs: r.Intn(50)})
		}
	}
	if nW > 0 && r.Chance(0.5) {
		c.Writes = append(c.Writes, WStep{Op: "flush", DelayMs: r.Intn(50)})
	}
	if r.Chance(0.08) {
		c.CloserAtMs = r.Range(1, 5000)
	}
	if r.Chance(0.06) {
		// Write pacing ends with a plain sleep inside the pipe; keep it odd and the
		// segment latencies of that direction even, so that the end of the sleep
		// never falls on the delivery instant of one of the write's own segments
		// (same base, so no jitter separates them; the wake-up order is then the
		// runtime's and not repeatable).
		p.Link.AB.WriteDelayUs = core.Tape(r, r.Range(1, 3), func() int { return r.Intn(2000) | 1 })
		for j := range p.Link.AB.LatUs {
			p.Link.AB.LatUs[j] &^= 1
		}
	}
	if t.NoCaps {
		// A TNC that never answers 'g' uses up RegisterPort's whole 10 s budget;
		// the 'X' request is then written with the context already expired. With
		// write pacing the answer can arrive while that write is still blocked,
		// and the library's select between the expired context and the answer is
		// a coin flip of the Go runtime (either result is fine, but the run does
		// not repeat). Without pacing the context always wins.
		p.Link.AB.WriteDelayUs = nil
	}
	// The multi-session arm is drawn last: the plans of the runs that stay
	// single-session are exactly what they were before the arm existed.
	if r.Chance(0.38) {
		genMore(thorough, r, &p)
	}
	return p
}

// genMore turns p into a multi-session plan: 1-3 further sessions on the same
// Port after the first one, most of them with a station an earlier session
// talked to (re-dial after local close, after remote disconnect, after a
// refused or unanswered dial; the station calling in again), some with another
// station, some overlapping the session before them.
func genMore(thorough bool, r *core.Rand, p *Plan) {
	n := 1 + r.Pick(5, 3, 2)
	// the first session must leave the port open
	if p.Script.End == "tnc-close" {
		p.Script.End = []string{"remote-disconnect", "local-close"}[r.Intn(2)]
	}
	// now and then the first attempt fails: station busy, or no answer until the dial deadline
	if p.Mode == "dial" && r.Chance(0.2) {
		if r.Bool() {
			p.TNC.Connect = "refuse"
		} else {
			p.TNC.Connect = "silent"
			p.DialTimeoutMs = r.Range(200, 8000)
		}
	}
	silent := p.TNC.Connect == "silent"
	remotes := []string{p.Remote}
	modes := []string{p.Mode}
	totalFrames := len(p.Script.Frames)
	for i := 0; i < n; i++ {
		var m Session
		prev := remotes[len(remotes)-1]
		switch r.Pick(11, 2, 7) {
		case 0:
			m.Remote = prev
		case 1:
			m.Remote = remotes[r.Intn(len(remotes))]
		default:
			m.Remote = remoteCalls[r.Intn(len(remoteCalls))]
		}
		m.Mode = "dial"
		if r.Chance(0.35) {
			m.Mode = "accept"
		}
		if m.Mode == "dial" && r.Chance(0.3) {
			for j, k := 0, r.Range(1, 3); j < k; j++ {
				m.Digis = append(m.Digis, digiCalls[r.Intn(len(digiCalls))])
			}
		}
		m.UseURL = r.Chance(0.3)
		m.Start = "after"
		if m.Remote != prev && r.Chance(0.3) {
			m.Start = "overlap"
		}
		m.GapMs = r.Intn([]int{10, 300, 5000}[r.Pick(3, 3, 1)] + 1)
		last := i == n-1
		m.Connect = "accept"
		if m.Mode == "dial" {
			w := []int{16, 2, 2}
			if last {
				w = []int{18, 1, 1}
			}
			m.Connect = []string{"accept", "refuse", "silent"}[r.Pick(w...)]
		}
		m.ConnectLatMs = r.Intn([]int{5, 500, 8000}[r.Pick(3, 3, 1)] + 1)
		if m.Mode == "dial" && (m.Connect == "silent" || r.Chance(0.12)) {
			m.DialTimeoutMs = r.Range(1, 12000)
		}
		silent = silent || m.Connect == "silent"

		// TNC script
		sc := &m.Script
		sc.StartDelayMs = r.Intn(200)
		nFrames := 0
		switch p.Regime {
		case "paced":
			nFrames = r.Range(1, 14)
		case "burst":
			nFrames = r.Range(14, 32)
		default:
			nFrames = r.Range(3, 16)
		}
		if thorough && r.Chance(0.2) {
			nFrames *= 2
		}
		if r.Chance(0.05) {
			nFrames = 0
		}
		big := r.Chance(0.15)
		for j := 0; j < nFrames; j++ {
			switch {
			case big && r.Chance(0.3):
				sc.Frames = append(sc.Frames, r.Range(257, 700))
			case r.Chance(0.2):
				sc.Frames = append(sc.Frames, r.Range(1, 4))
			case r.Chance(0.15):
				sc.Frames = append(sc.Frames, 256)
			default:
				sc.Frames = append(sc.Frames, r.Range(1, 256))
			}
		}
		totalFrames += nFrames
		gapScale := []int{0, 5, 100, 1000}[r.Pick(2, 3, 3, 1)]
		sc.GapMs = core.Tape(r, r.Range(1, 4), func() int { return r.Intn(gapScale + 1) })
		switch p.Regime {
		case "paced":
			sc.Ahead = r.Range(0, 5)
		case "coalesced":
			sc.Ahead = r.Range(0, 2)
			sc.Group = core.Tape(r, r.Range(1, 4), func() int { return r.Range(1, 5) })
			sc.Group[0] = r.Range(2, 5)
		case "burst":
			sc.Group = core.Tape(r, r.Range(1, 3), func() int { return r.Range(13, 40) })
		}
		if r.Chance(0.35) && nFrames > 0 {
			kinds := []string{"other-port", "other-remote", "other-both", "other-local", "mon-U", "mon-I", "mon-T", "unsol-R", "unsol-g", "heard-H", "raw-K", "unknown-kind", "other-d", "other-C", "inbound-unaccepted"}
			for j, k := 0, r.Range(1, 4); j < k; j++ {
				sc.Foreign = append(sc.Foreign, Foreign{Before: r.Intn(nFrames + 1), Kind: kinds[r.Intn(len(kinds))], Size: r.Range(1, 256)})
			}
		}
		if last {
			sc.End = []string{"remote-disconnect", "local-close", "tnc-close"}[r.Pick(5, 4, 1)]
		} else {
			sc.End = []string{"remote-disconnect", "local-close"}[r.Pick(5, 5)]
		}
		sc.EndDelayMs = r.Intn(400)
		sc.InboundDelayMs = r.Range(1, 300)
		sc.AcceptLate = m.Mode == "accept" && r.Chance(0.05)

		// client
		c := &m.Client
		c.StepDelayMs = core.Tape(r, r.Range(1, 4), func() int { return r.Intn(100) })
		maxFrame := maxOf(sc.Frames, 1)
		smallBuf := r.Chance(0.35)
		c.ReadBuf = core.Tape(r, r.Range(1, 5), func() int {
			if smallBuf {
				switch r.Pick(2, 3, 2) {
				case 0:
					return r.Range(1, 8)
				case 1:
					return r.Range(1, 300)
				}
				return r.Range(256, 4096)
			}
			return []int{maxFrame, maxFrame + r.Intn(64), 1024, 4096}[r.Intn(4)]
		})
		for j, v := range c.ReadBuf {
			if !smallBuf && v < maxFrame {
				c.ReadBuf[j] = maxFrame
			}
		}
		thinkScale := []int{0, 20, 300}[r.Pick(3, 3, 1)]
		if p.Regime == "burst" {
			thinkScale = []int{200, 1000, 3000}[r.Intn(3)]
		}
		c.ReadThinkMs = core.Tape(r, r.Range(1, 5), func() int { return r.Intn(thinkScale + 1) })
		if r.Chance(0.1) {
			c.ReadDeadlineMs = r.Range(50, 5000)
		}
		c.WriterStartMs = r.Intn(300)
		nW := r.Range(0, 5)
		if r.Chance(0.3) {
			nW = 1 // a single Write: its very first 'Y' answer is what it depends on
		}
		for j := 0; j < nW; j++ {
			sz := r.Range(1, 256)
			switch r.Pick(5, 3, 1) {
			case 1:
				sz = r.Range(257, 2048)
			case 2:
				sz = r.Range(1, 3)
			}
			c.Writes = append(c.Writes, WStep{Op: "write", Size: sz, DelayMs: r.Intn(200)})
			switch r.Pick(12, 4, 1, 1) {
			case 1:
				c.Writes = append(c.Writes, WStep{Op: "flush", DelayMs: r.Intn(50)})
			case 2:
				c.Writes = append(c.Writes, WStep{Op: "sendui", Size: r.Range(1, 200), DelayMs: r.Intn(50)})
			case 3:
				c.Writes = append(c.Writes, WStep{Op: "ping", DelayMs: r.Intn(50)})
			}
		}
		if nW > 0 && r.Chance(0.4) {
			c.Writes = append(c.Writes, WStep{Op: "flush", DelayMs: r.Intn(50)})
		}
		if r.Chance(0.06) {
			c.CloserAtMs = r.Range(1, 5000)
		}
		p.More = append(p.More, m)
		remotes = append(remotes, m.Remote)
		modes = append(modes, m.Mode)
	}
	if silent {
		// an unanswered dial ends when the TNC confirms the library's disconnect
		// request; a TNC that does not would block the dial, and with it the
		// port, for good
		p.TNC.NoDiscAck = false
	}
	// the fault of the plan, if any, goes into the script of any of the sessions
	if p.Fault != nil {
		p.Fault.Session = r.Intn(n + 1)
		frames := len(p.Script.Frames)
		if p.Fault.Session > 0 {
			frames = len(p.More[p.Fault.Session-1].Script.Frames)
		}
		p.Fault.Before = r.Intn(frames + 1)
	}
	if p.Link.Cut != nil {
		p.Link.Cut.Off = r.Range(0, 36*8*(n+1)+totalFrames*150)
	}
	_ = modes
}

var _ = agwtnc.HeaderLen
