package agwsim

import (
	"context"
	"errors"
	"io"
	"net"
	"runtime/debug"
	"strings"
	"time"

	"github.com/la5nta/wl2k-go/transport"
	"github.com/la5nta/wl2k-go/transport/ax25/agwpe"
	"verif/ref/agwtnc"
	"verif/sim/core"
)

// handles are the library objects all sessions of a run share: one TNC
// socket, one registered Port (and what hangs off it).
type handles struct {
	tnc         *agwpe.TNC
	port, port2 *agwpe.Port
	tp          *agwpe.TNCPort
	ln          net.Listener // the Port's listener, kept from one accept session to the next
}

// stepper hands out the plan's step delays of one scripted goroutine.
type stepper struct {
	r    *run
	tape []int
	i    int
}

func (s *stepper) next() {
	s.r.pause(ms(core.TapeAt(s.tape, s.i, 1)))
	s.i++
}

// closeAll closes the second port, the port and the TNC (once; later calls do
// nothing). After it no further session is started.
func (r *run) closeAll(h *handles, st *stepper) {
	r.mu.Lock()
	tnc, port, port2, tp := h.tnc, h.port, h.port2, h.tp
	h.tnc, h.port, h.port2, h.tp, h.ln = nil, nil, nil, nil, nil
	if tnc != nil || port != nil || port2 != nil || tp != nil {
		r.portGone = true
	}
	r.mu.Unlock()
	if port2 != nil {
		st.next()
		r.call(nil, "port2-close", func() error { return port2.Close() })
	}
	if tp != nil {
		st.next()
		r.call(nil, "tncport-close", func() error { return tp.Close() })
		return
	}
	if port != nil {
		st.next()
		r.call(nil, "port-close", func() error { return port.Close() })
	}
	if tnc != nil {
		st.next()
		r.call(nil, "tnc-close", func() error { return tnc.Close() })
	}
}

func (r *run) gone() bool {
	r.mu.Lock()
	defer r.mu.Unlock()
	return r.portGone
}

// ctl is the main scripted client: open, register, run the sessions one after
// the other (or overlapping, where the plan says so), close everything.
func (r *run) ctl() {
	p := r.p
	h := &handles{}
	st := &stepper{r: r, tape: p.Client.StepDelayMs}
	next := st.next
	r.pause(ms(p.Client.OpenDelayMs))
	defer r.closeAll(h, st)

	if p.OpenCombined {
		if !r.call(nil, "open-port", func() (err error) { h.tp, err = agwpe.OpenPortTCP(tncAddr, clamp(p.Port, 0, 255), p.MyCall); return }) || h.tp == nil {
			h.tp = nil
			return
		}
		h.tnc, h.port = &h.tp.TNC, &h.tp.Port
	} else {
		if !r.call(nil, "open", func() (err error) { h.tnc, err = agwpe.OpenTCP(tncAddr); return }) || h.tnc == nil {
			h.tnc = nil
			return
		}
		if p.Client.Ping == "before" {
			next()
			r.call(nil, "version", func() error { _, err := h.tnc.Version(); return err })
		}
		next()
		if !r.call(nil, "register", func() (err error) { h.port, err = h.tnc.RegisterPort(clamp(p.Port, 0, 255), p.MyCall); return }) || h.port == nil {
			h.port = nil
			return
		}
		if p.Second != nil {
			next()
			if !r.call(nil, "register2", func() (err error) {
				h.port2, err = h.tnc.RegisterPort(clamp(p.Second.Port, 0, 255), p.Second.Call)
				return
			}) {
				h.port2 = nil
			}
		}
	}
	if p.Client.Ping == "after" {
		next()
		r.call(nil, "ping", func() error { return h.tnc.Ping() })
	}

	// sessions
	var bg []*core.GoResult // sessions of the current group that run on their own goroutines
	join := func() {
		core.WaitAll(1000*time.Hour, bg...)
		for _, g := range bg {
			if g.Panic != nil {
				r.sim.Violate(prop13, "harness", "ctl-panic", "%v\n%s", g.Panic, g.Stack)
			}
		}
		bg = nil
	}
	skip := func(se *sess, why string) {
		r.mu.Lock()
		se.skipped = why
		r.mu.Unlock()
		close(se.connectDone)
		r.sim.Logf("cli: %ssession not started: %s", tag(se), why)
	}
	for i, se := range r.ss {
		if i > 0 {
			prev := r.ss[i-1]
			switch {
			case se.group == prev.group:
				// overlap: the session before this one keeps running
				<-prev.connectDone
				r.waitRefusal()
			case se.sp.Start == "hasty":
				join()
			default:
				join()
				r.quiesce()
			}
			r.pause(ms(se.sp.GapMs))
		}
		if r.gone() {
			skip(se, "port-closed")
			continue
		}
		if i > 0 {
			if mdl := r.session(); mdl != nil {
				if state, _, ok := mdl.ConnState(se.key); ok && (state == "connected" || state == "connecting") {
					// the earlier connection with this station never ended (a Close that
					// failed or was not made): the station cannot connect a second time
					skip(se, "station-still-connected")
					continue
				}
			}
		}
		sst := st
		if i > 0 {
			sst = &stepper{r: r, tape: se.sp.Client.StepDelayMs}
		}
		alone := (i == 0 || r.ss[i-1].group != se.group) && (i+1 == len(r.ss) || r.ss[i+1].group != se.group)
		if alone {
			r.runSession(se, h, sst)
			continue
		}
		bg = append(bg, core.Go(func() { r.runSession(se, h, sst) }))
		if i+1 == len(r.ss) || r.ss[i+1].group != se.group {
			join()
		}
	}
	join()
	r.closeAll(h, st)
	// whatever a session left behind (a writer or reader it stopped waiting for)
	// ends now that the port is closed
	for _, se := range r.ss {
		r.mu.Lock()
		rd, wr, conn := se.rd, se.wr, se.conn
		r.mu.Unlock()
		if wr != nil {
			core.WaitAll(opBudget, wr)
		}
		if rd != nil && !core.WaitAll(2*time.Minute, rd) && conn != nil {
			core.WaitAll(time.Minute, core.Go(func() { r.drain(conn) }))
		}
	}
}

// quiesce returns when nothing is on its way any more: no bytes in flight in
// either direction, no reply the model still owes, no refusal of a foreign
// inbound connection under way. Sessions of different groups are separated
// by it, so that nothing of an earlier connection (a late data frame, the
// confirmation of a disconnect) can be taken for traffic of the next
// connection with the same station -- AGWPE frames carry callsigns, not
// connection identifiers.
func (r *run) quiesce() {
	p := r.p
	mdl := r.session()
	lat := clamp(maxOf(p.Link.BA.LatUs, 0), 0, 1000000) + clamp(maxOf(p.Link.AB.LatUs, 0), 0, 1000000)
	q := ms(clamp(p.TNC.DiscAckLatMs, 0, 60000) + clamp(maxOf(p.TNC.ReplyLatUs, 0), 0, 10000000)/1000 + agwtnc.HeaderLen*lat/1000 + 50)
	for i := 0; i < 5000; i++ {
		r.pause(q)
		if mdl == nil {
			return
		}
		if r.refusing(mdl) {
			continue
		}
		if !mdl.Busy() {
			return
		}
	}
	r.sim.Logf("cli: the link never went quiet")
}

// refusing: may the library still be busy refusing an inbound connection
// nobody accepted (flush, disconnect request, then up to a minute for a
// confirmation this TNC may never send)? Until that is over the port's
// inbound handler does not take the next connect notification for the
// callsign -- which every answer to a Dial is, too --, a second one stalls the
// port's demultiplexer and frames behind it are dropped (same policy as inside
// a session, see pump).
func (r *run) refusing(mdl *agwtnc.Session) bool {
	r.mu.Lock()
	since, key := r.refusalSince, r.refusalKey
	r.mu.Unlock()
	if since == 0 || r.sim.Now()-since >= 3*time.Minute {
		return false
	}
	st, _, _ := mdl.ConnState(key) // "connected" until the library's disconnect request arrives
	return st == "connected" || r.p.TNC.NoDiscAck
}

// waitRefusal holds an overlapping session back while a refusal is under way.
func (r *run) waitRefusal() {
	mdl := r.session()
	for i := 0; i < 5000 && mdl != nil && r.refusing(mdl); i++ {
		r.pause(time.Second)
	}
}

// runSession is one session: connect (Dial or Accept), run reader, writer and
// closer, wait for the TNC script, end the connection.
func (r *run) runSession(se *sess, h *handles, st *stepper) {
	p, sp := r.p, se.sp
	next := st.next
	connectSignalled := false
	signal := func() {
		if !connectSignalled {
			connectSignalled = true
			close(se.connectDone)
		}
	}
	r.mu.Lock()
	tnc, port := h.tnc, h.port
	r.mu.Unlock()
	if port == nil {
		r.mu.Lock()
		se.skipped = "port-closed"
		r.mu.Unlock()
		signal()
		return
	}
	r.mu.Lock()
	r.running++
	r.mu.Unlock()
	defer func() {
		signal()
		r.mu.Lock()
		r.running--
		se.ended, se.endedAt = true, r.sim.Now()
		r.mu.Unlock()
	}()
	if se.idx > 0 {
		if mdl := r.session(); mdl != nil {
			mdl.SetConnect(se.key, sp.Connect, sp.ConnectLatMs)
		}
	}

	// connect
	var conn net.Conn
	next()
	r.mu.Lock()
	se.attempted, se.attemptAt = true, r.sim.Now()
	r.mu.Unlock()
	if sp.Mode == "accept" {
		conn = r.accept(se, h, port)
	} else {
		ctx, cancel := context.WithCancel(context.Background())
		defer cancel()
		if sp.DialTimeoutMs > 0 {
			var c2 context.CancelFunc
			ctx, c2 = context.WithTimeout(ctx, ms(sp.DialTimeoutMs))
			defer c2()
		}
		var dialled net.Conn
		r.mu.Lock()
		se.dialling = true
		r.mu.Unlock()
		dl := core.Go(func() {
			r.call(se, "dial", func() (err error) {
				if sp.UseURL {
					dialled, err = port.DialURLContext(ctx, &transport.URL{Scheme: "ax25", Target: sp.Remote, Digis: sp.Digis})
				} else {
					dialled, err = port.DialContext(ctx, sp.Remote, sp.Digis...)
				}
				return
			})
		})
		// a dial without deadline waits for the TNC for ever: the application gives up
		if !core.WaitAll(ms(sp.ConnectLatMs)+2*time.Minute, dl) {
			r.mu.Lock()
			se.dialAbandoned = true
			r.mu.Unlock()
			r.sim.Logf("cli: %sdial abandoned", tag(se))
			cancel()
			if !core.WaitAll(2*time.Minute, dl) {
				// a TNC that never confirms the disconnect keeps the dial blocked until the port closes
				r.closeAll(h, st)
				core.WaitAll(opBudget, dl)
				r.mu.Lock()
				se.dialling = false
				r.mu.Unlock()
				return
			}
		}
		r.mu.Lock()
		se.dialling = false
		r.mu.Unlock()
		conn = dialled
	}
	signal()
	if conn == nil {
		return
	}
	r.mu.Lock()
	se.established, se.conn = true, conn
	for _, o := range r.ss {
		if o != se && o.established && !o.ended {
			r.overlapped = true
		}
	}
	r.mu.Unlock()

	rd := core.Go(func() { r.reader(se, conn) })
	wr := core.Go(func() { r.writer(se, conn, tnc, port) })
	r.mu.Lock()
	se.rd, se.wr = rd, wr
	r.mu.Unlock()
	var cl *core.GoResult
	if sp.Client.CloserAtMs > 0 && p.Regime != "burst" { // burst: see pump (mutex wedge)
		cl = core.Go(func() {
			r.pause(ms(sp.Client.CloserAtMs))
			r.mu.Lock()
			se.closerStarted, se.closerStartedAt = true, r.sim.Now()
			r.mu.Unlock()
			r.call(se, "close", func() error { return conn.Close() })
		})
	}

	// let the writer finish (a Write may poll for ever: bounded wait)
	if !core.WaitAll(90*time.Second+ms(60*len(sp.Client.Writes)), wr) {
		r.mu.Lock()
		se.writeStuck = true
		r.mu.Unlock()
		r.sim.Logf("cli: %swriter still busy", tag(se))
	}
	// let the TNC script finish
	deadline := r.sim.Now() + opBudget
	for r.sim.Now() < deadline {
		r.mu.Lock()
		done := se.pumpDone || se.readDone || !se.have
		r.mu.Unlock()
		if done {
			break
		}
		r.pause(100 * time.Millisecond)
	}
	// Quiet period: whatever the script sent last has arrived by then.
	quiet := r.giveUpAfter(se)
	if sp.Script.End == "remote-disconnect" {
		quiet += ms(sp.Script.EndDelayMs)
	}
	r.pause(quiet)
	// Let the reader empty the receive queue before anything polls the TNC again
	// (see pump: a full queue plus a poll wedges the library on a mutex and with
	// it the simulated clock; in real time the reader would simply catch up).
	readerIdle := r.waitReaderIdle(se)
	for i := 0; i < 1000 && readerIdle; i++ {
		// a slow link may still be delivering what the script wrote long ago
		s := r.session()
		if s == nil || s.InFlight() == 0 {
			break
		}
		r.pause(quiet)
		readerIdle = r.waitReaderIdle(se)
	}
	r.mu.Lock()
	if s := r.sess; s != nil && se.have && readerIdle && se.pumpDone && se.readStarted && s.InFlight() == 0 {
		// everything the TNC sent has had time to arrive and the reader is waiting
		// for more: what it has not got by now it will never get
		se.settled = true
		se.settledRead = len(se.readData)
		se.settledSent = sum(s.SentLens(se.id))
		se.settledAt = r.sim.Now()
	}
	r.mu.Unlock()
	last := se.idx == len(r.ss)-1
	switch sp.Script.End {
	case "remote-disconnect":
		// the script disconnects after its last frame; wait for the reader to see it
		core.WaitAll(opBudget, rd)
	case "tnc-close":
		r.pause(ms(sp.Script.EndDelayMs))
		if last { // (normalise: only the last session of a plan ends like this)
			if cl != nil {
				core.WaitAll(opBudget, cl)
			}
			r.closeAll(h, st)
		}
	default:
		r.pause(ms(sp.Script.EndDelayMs))
	}
	if cl != nil {
		// a Close by the closer goroutine may be under way: the application does
		// not pull the port from under it
		core.WaitAll(opBudget, cl)
	}
	next()
	if readerIdle {
		r.call(se, "close", func() error { return conn.Close() })
		r.mu.Lock()
		se.connClosed = true
		r.mu.Unlock()
	}
	r.mu.Lock()
	only := last && r.running == 1
	r.mu.Unlock()
	if only {
		// the run's last connection: the application closes the port right away
		// (which also ends a Write that is still polling)
		r.closeAll(h, st)
	}
	core.WaitAll(opBudget, wr)
	core.WaitAll(2*time.Minute, rd)
	// Drain whatever is still queued so that no library goroutine stays blocked
	// on a full channel after the reader stopped early.
	core.WaitAll(time.Minute, core.Go(func() { r.drain(conn) }))
}

func sum(v []int) int {
	n := 0
	for _, x := range v {
		n += x
	}
	return n
}

func (r *run) accept(se *sess, h *handles, port *agwpe.Port) net.Conn {
	sp := se.sp
	r.mu.Lock()
	ln := h.ln
	r.mu.Unlock()
	if ln == nil {
		if !r.call(se, "listen", func() (err error) { ln, err = port.Listen(); return }) || ln == nil {
			return nil
		}
		r.mu.Lock()
		h.ln = ln
		r.mu.Unlock()
	}
	r.scheduleInbound(se, ms(sp.Script.InboundDelayMs))
	if sp.Script.AcceptLate {
		// nobody is accepting when the inbound connection is announced
		r.pause(ms(2000 + sp.Script.InboundDelayMs))
	}
	var conn net.Conn
	r.mu.Lock()
	r.accepting++
	r.mu.Unlock()
	acc := core.Go(func() {
		r.call(se, "accept", func() (err error) { conn, err = ln.Accept(); return })
	})
	if !core.WaitAll(ms(sp.Script.InboundDelayMs)+40*time.Second, acc) {
		r.call(se, "listener-close", func() error { return ln.Close() })
		r.mu.Lock()
		if h.ln == ln {
			h.ln = nil
		}
		r.mu.Unlock()
		core.WaitAll(time.Minute, acc)
	}
	r.mu.Lock()
	r.accepting--
	if conn == nil && se.inboundSent && se.inboundAt > r.refusalSince {
		// the call was announced and nobody took it: the library refuses it
		r.refusalSince, r.refusalKey = se.inboundAt, se.key
	}
	r.mu.Unlock()
	if conn != nil {
		if ra := conn.RemoteAddr(); ra == nil || ra.String() != sp.Remote {
			// some other station's call was answered (cannot happen with the scripts
			// as generated): not the connection this session is about
			r.sim.Logf("cli: %saccept returned a connection with %v, not with %s", tag(se), ra, sp.Remote)
			core.WaitAll(opBudget, core.Go(func() { r.call(se, "close-stranger", func() error { return conn.Close() }) }))
			return nil
		}
		// The data script starts once the application has the connection. (Data
		// for a connection the library is busy refusing fills a queue nobody
		// reads and dead-locks the library's refusal for good.)
		r.mu.Lock()
		s, id, ok := r.sess, se.inboundID, se.inboundSent
		r.mu.Unlock()
		if s != nil && ok && id >= 0 {
			r.startPump(se, s, id)
		}
	}
	return conn
}

func (r *run) scheduleInbound(se *sess, d time.Duration) {
	r.at(d, func() {
		s := r.session()
		if s == nil {
			return
		}
		if st, _, ok := s.ConnState(se.key); ok && (st == "connected" || st == "connecting") {
			return // one station cannot connect twice at the same time
		}
		r.mu.Lock()
		se.inboundSent, se.inboundAt = true, r.sim.Now()
		r.mu.Unlock()
		s.InboundConnect(se.key.Port, se.key.Remote, se.key.Local)
		id := s.ConnID(se.key)
		r.mu.Lock()
		se.inboundID = id
		r.mu.Unlock()
	})
}

func isTimeout(err error) bool {
	return errors.Is(err, context.DeadlineExceeded)
}

func (r *run) reader(se *sess, conn net.Conn) {
	c := se.sp.Client
	r.mu.Lock()
	se.readStarted = true
	r.mu.Unlock()
	timeouts, zeros := 0, 0
	finish := func(why string) {
		r.mu.Lock()
		se.readErr, se.readDone, se.readDoneAt = why, true, r.sim.Now()
		r.mu.Unlock()
		r.sim.Logf("cli: %sreader ends: %s", tag(se), why)
		if why != "EOF" && !strings.HasPrefix(why, "error:") {
			// The scripted reader gave up (panic, limits). Keep the receive queue
			// moving: a full queue blocks the library's demultiplexer while it
			// holds a mutex, which no simulated clock can get past.
			r.drain(conn)
		}
	}
	for i := 0; i < 200000; i++ {
		size := clamp(core.TapeAt(c.ReadBuf, i, 4096), 1, 16384)
		if c.ReadDeadlineMs > 0 {
			conn.SetReadDeadline(time.Now().Add(ms(c.ReadDeadlineMs)))
		}
		buf := make([]byte, size)
		r.mu.Lock()
		if fs := frameSizeAt(se.frames(), len(se.readData)); fs > size {
			se.smallBufHit = true
		}
		r.mu.Unlock()
		var n int
		var err error
		panicked := false
		r.mu.Lock()
		se.inRead, se.inReadSince = true, r.sim.Now()
		r.mu.Unlock()
		func() {
			defer func() {
				if v := recover(); v != nil {
					panicked = true
					r.reportPanic("read", v, string(debug.Stack()))
				}
			}()
			n, err = conn.Read(buf)
		}()
		r.mu.Lock()
		se.inRead = false
		r.mu.Unlock()
		if panicked {
			r.mu.Lock()
			se.readPanic = true
			r.mu.Unlock()
			finish("panic")
			return
		}
		if n < 0 || n > size {
			r.sim.Violate(prop13, "read-stream", "count-out-of-range", "Read returned n=%d for a %d-byte buffer", n, size)
			finish("bad count")
			return
		}
		r.mu.Lock()
		se.readData = append(se.readData, buf[:n]...)
		se.readCalls++
		total := len(se.readData)
		r.mu.Unlock()
		r.sim.Logf("cli: %sread buf=%d -> %d,%v total=%d", tag(se), size, n, err, total)
		if err != nil {
			if isTimeout(err) {
				if timeouts++; timeouts < 20000 {
					continue
				}
				finish("read deadline limit")
				return
			}
			if err == io.EOF {
				finish("EOF")
			} else {
				finish("error: " + err.Error())
			}
			return
		}
		if n == 0 {
			if zeros++; zeros > 200 {
				finish("too many empty reads")
				return
			}
		}
		if think := core.TapeAt(c.ReadThinkMs, i, 0); think > 0 {
			r.pause(ms(clamp(think, 0, 10000)))
		}
	}
	finish("read limit")
}

func (r *run) writer(se *sess, conn net.Conn, tnc *agwpe.TNC, port *agwpe.Port) {
	c := se.sp.Client
	defer func() {
		r.mu.Lock()
		se.writerDone = true
		r.mu.Unlock()
	}()
	r.pause(ms(c.WriterStartMs))
	off, uiOff := 0, 0
	for i, st := range c.Writes {
		if i >= 64 {
			break
		}
		r.pause(ms(clamp(st.DelayMs, 0, 60000)))
		switch st.Op {
		case "flush":
			f, ok := conn.(transport.Flusher)
			if !ok {
				r.sim.Violate(prop13, "exchange", "conn-is-not-a-flusher", "the connection does not implement transport.Flusher")
				continue
			}
			r.call(se, "flush", func() error { return f.Flush() })
		case "sendui":
			data := pattern(se.pat(3), uiOff, clamp(st.Size, 1, 256))
			uiOff += len(data)
			r.call(se, "sendui", func() error { return port.SendUI(data, "BEACON") })
		case "ping":
			r.call(se, "ping", func() error { return tnc.Ping() })
		default:
			data := pattern(se.pat(2), off, clamp(st.Size, 1, 4096))
			off += len(data)
			var n int
			r.mu.Lock()
			wi := len(se.writes)
			se.writes = append(se.writes, writeRec{Data: data, Op: -1})
			r.mu.Unlock()
			idx, _ := r.callI(se, "write", func() (err error) { n, err = conn.Write(data); return })
			r.mu.Lock()
			se.writes[wi].N, se.writes[wi].Op = n, idx
			r.mu.Unlock()
		}
	}
}

// drain reads until the connection reports an error.
func (r *run) drain(conn net.Conn) {
	defer func() { recover() }()
	buf := make([]byte, 1<<16)
	conn.SetReadDeadline(time.Time{})
	for i := 0; i < 100000; i++ {
		if _, err := conn.Read(buf); err != nil {
			return
		}
	}
}

// frameSizeAt: the size of the scripted data frame that starts at stream
// offset off (0 when off is not a frame boundary or beyond the script).
func frameSizeAt(frames []int, off int) int {
	pos := 0
	for _, f := range frames {
		f = clamp(f, 1, 2048)
		if pos == off {
			return f
		}
		if pos > off {
			return 0
		}
		pos += f
	}
	return 0
}

// waitReaderIdle returns when the reader has ended or has been blocked inside
// Read while the simulated clock moved on, i.e. nothing is queued for it.
func (r *run) waitReaderIdle(se *sess) bool {
	deadline := r.sim.Now() + 500*time.Hour
	step := ms(clamp(maxOf(se.sp.Client.ReadThinkMs, 0)/2, 100, 10000))
	for r.sim.Now() < deadline {
		r.mu.Lock()
		idle := se.readDone || !se.readStarted || (se.inRead && r.sim.Now() > se.inReadSince)
		r.mu.Unlock()
		if idle {
			return true
		}
		r.pause(step)
	}
	r.sim.Logf("cli: %sreader never became idle", tag(se))
	return false
}
