package agwsim

import (
	"context"
	"errors"
	"io"
	"net"
	"runtime/debug"
	"strings"
	"time"

	"github.com/la5nta/wl2k-go/transport"
	"github.com/la5nta/wl2k-go/transport/ax25/agwpe"
	"verif/ref/agwtnc"
	"verif/sim/core"
)

// ctl is the main scripted client: open, register, connect, start the reader
// and writer, end the connection, close everything.
func (r *run) ctl() {
	p := r.p
	step := 0
	next := func() { r.pause(r.stepDelay(step)); step++ }
	r.pause(ms(p.Client.OpenDelayMs))

	var tnc *agwpe.TNC
	var port, port2 *agwpe.Port
	var tp *agwpe.TNCPort
	closeAll := func() {
		if port2 != nil {
			next()
			r.call("port2-close", func() error { return port2.Close() })
		}
		if tp != nil {
			next()
			r.call("tncport-close", func() error { return tp.Close() })
			return
		}
		if port != nil {
			next()
			r.call("port-close", func() error { return port.Close() })
		}
		if tnc != nil {
			next()
			r.call("tnc-close", func() error { return tnc.Close() })
		}
	}
	defer closeAll()

	if p.OpenCombined {
		if !r.call("open-port", func() (err error) { tp, err = agwpe.OpenPortTCP(tncAddr, clamp(p.Port, 0, 255), p.MyCall); return }) || tp == nil {
			tp = nil
			return
		}
		tnc, port = &tp.TNC, &tp.Port
	} else {
		if !r.call("open", func() (err error) { tnc, err = agwpe.OpenTCP(tncAddr); return }) || tnc == nil {
			tnc = nil
			return
		}
		if p.Client.Ping == "before" {
			next()
			r.call("version", func() error { _, err := tnc.Version(); return err })
		}
		next()
		if !r.call("register", func() (err error) { port, err = tnc.RegisterPort(clamp(p.Port, 0, 255), p.MyCall); return }) || port == nil {
			port = nil
			return
		}
		if p.Second != nil {
			next()
			if !r.call("register2", func() (err error) {
				port2, err = tnc.RegisterPort(clamp(p.Second.Port, 0, 255), p.Second.Call)
				return
			}) {
				port2 = nil
			}
		}
	}
	if p.Client.Ping == "after" {
		next()
		r.call("ping", func() error { return tnc.Ping() })
	}

	// connect
	var conn net.Conn
	next()
	if p.Mode == "accept" {
		conn = r.accept(port)
	} else {
		ctx, cancel := context.WithCancel(context.Background())
		defer cancel()
		if p.DialTimeoutMs > 0 {
			var c2 context.CancelFunc
			ctx, c2 = context.WithTimeout(ctx, ms(p.DialTimeoutMs))
			defer c2()
		}
		var dialled net.Conn
		dl := core.Go(func() {
			r.call("dial", func() (err error) {
				if p.UseURL {
					dialled, err = port.DialURLContext(ctx, &transport.URL{Scheme: "ax25", Target: p.Remote, Digis: p.Digis})
				} else {
					dialled, err = port.DialContext(ctx, p.Remote, p.Digis...)
				}
				return
			})
		})
		// a dial without deadline waits for the TNC for ever: the application gives up
		if !core.WaitAll(ms(p.TNC.ConnectLatMs)+2*time.Minute, dl) {
			r.mu.Lock()
			r.dialAbandoned = true
			r.mu.Unlock()
			r.sim.Logf("cli: dial abandoned")
			cancel()
			if !core.WaitAll(2*time.Minute, dl) {
				// a TNC that never confirms the disconnect keeps the dial blocked until the port closes
				closeAll()
				tnc, port, port2, tp = nil, nil, nil, nil
				core.WaitAll(opBudget, dl)
				return
			}
		}
		conn = dialled
	}
	if conn == nil {
		return
	}

	rd := core.Go(func() { r.reader(conn) })
	wr := core.Go(func() { r.writer(conn, tnc, port) })
	var cl *core.GoResult
	if p.Client.CloserAtMs > 0 && p.Regime != "burst" { // burst: see pump (mutex wedge)
		cl = core.Go(func() {
			r.pause(ms(p.Client.CloserAtMs))
			r.mu.Lock()
			r.closerStarted, r.closerStartedAt = true, r.sim.Now()
			r.mu.Unlock()
			r.call("close", func() error { return conn.Close() })
		})
	}

	// let the writer finish (a Write may poll for ever: bounded wait)
	if !core.WaitAll(90*time.Second+ms(60*len(p.Client.Writes)), wr) {
		r.mu.Lock()
		r.writeStuck = true
		r.mu.Unlock()
		r.sim.Logf("cli: writer still busy")
	}
	// let the TNC script finish
	deadline := r.sim.Now() + opBudget
	for r.sim.Now() < deadline {
		r.mu.Lock()
		done := r.pumpDone || r.readDone || !r.have
		r.mu.Unlock()
		if done {
			break
		}
		r.pause(100 * time.Millisecond)
	}
	// Let the reader empty the receive queue before anything polls the TNC again
	// (see pump: a full queue plus a poll wedges the library on a mutex and with
	// it the simulated clock; in real time the reader would simply catch up).
	// Quiet period: whatever the script sent last has arrived by then.
	quiet := r.giveUpAfter()
	if p.Script.End == "remote-disconnect" {
		quiet += ms(p.Script.EndDelayMs)
	}
	r.pause(quiet)
	// Let the reader empty the receive queue before anything polls the TNC again
	// (see pump: a full queue plus a poll wedges the library on a mutex and with
	// it the simulated clock; in real time the reader would simply catch up).
	readerIdle := r.waitReaderIdle()
	for i := 0; i < 1000 && readerIdle; i++ {
		// a slow link may still be delivering what the script wrote long ago
		s := r.session()
		if s == nil || s.InFlight() == 0 {
			break
		}
		r.pause(quiet)
		readerIdle = r.waitReaderIdle()
	}
	r.mu.Lock()
	if s := r.sess; s != nil && r.have && readerIdle && r.pumpDone && r.readStarted && s.InFlight() == 0 {
		// everything the TNC sent has had time to arrive and the reader is waiting
		// for more: what it has not got by now it will never get
		r.settled = true
		r.settledRead = len(r.readData)
		r.settledSent, _ = s.SentBytes(r.key)
		r.settledAt = r.sim.Now()
	}
	r.mu.Unlock()
	switch p.Script.End {
	case "remote-disconnect":
		// the script disconnects after its last frame; wait for the reader to see it
		core.WaitAll(opBudget, rd)
	case "tnc-close":
		r.pause(ms(p.Script.EndDelayMs))
		if cl != nil {
			core.WaitAll(opBudget, cl)
		}
		closeAll()
		tnc, port, port2, tp = nil, nil, nil, nil
	default:
		r.pause(ms(p.Script.EndDelayMs))
	}
	if cl != nil {
		// a Close by the closer goroutine may be under way: the application does
		// not pull the port from under it
		core.WaitAll(opBudget, cl)
	}
	next()
	if readerIdle {
		r.call("close", func() error { return conn.Close() })
	}
	closeAll()
	tnc, port, port2, tp = nil, nil, nil, nil
	core.WaitAll(opBudget, wr)
	core.WaitAll(2*time.Minute, rd)
	// Drain whatever is still queued so that no library goroutine stays blocked
	// on a full channel after the reader stopped early.
	core.WaitAll(time.Minute, core.Go(func() { r.drain(conn) }))
}

func (r *run) accept(port *agwpe.Port) net.Conn {
	p := r.p
	var ln net.Listener
	if !r.call("listen", func() (err error) { ln, err = port.Listen(); return }) || ln == nil {
		return nil
	}
	r.scheduleInbound(ms(p.Script.InboundDelayMs))
	if p.Script.AcceptLate {
		// nobody is accepting when the inbound connection is announced
		r.pause(ms(2000 + p.Script.InboundDelayMs))
	}
	var conn net.Conn
	acc := core.Go(func() {
		r.call("accept", func() (err error) { conn, err = ln.Accept(); return })
	})
	if !core.WaitAll(ms(p.Script.InboundDelayMs)+40*time.Second, acc) {
		r.call("listener-close", func() error { return ln.Close() })
		core.WaitAll(time.Minute, acc)
	}
	if conn != nil {
		// The data script starts once the application has the connection. (Data
		// for a connection the library is busy refusing fills a queue nobody
		// reads and dead-locks the library's refusal for good.)
		r.mu.Lock()
		s, k, ok := r.sess, r.inboundKey, r.inboundSent
		r.mu.Unlock()
		if s != nil && ok {
			r.startPump(s, k)
		}
	}
	return conn
}

func (r *run) scheduleInbound(d time.Duration) {
	r.at(d, func() {
		s := r.session()
		if s == nil {
			return
		}
		r.mu.Lock()
		r.inboundSent, r.inboundAt = true, r.sim.Now()
		r.inboundKey = agwtnc.ConnKey{Port: byte(clamp(r.p.Port, 0, 255)), Local: r.p.MyCall, Remote: r.p.Remote}
		r.mu.Unlock()
		s.InboundConnect(byte(clamp(r.p.Port, 0, 255)), r.p.Remote, r.p.MyCall)
	})
}

func isTimeout(err error) bool {
	return errors.Is(err, context.DeadlineExceeded)
}

func (r *run) reader(conn net.Conn) {
	p := r.p
	r.mu.Lock()
	r.readStarted = true
	r.mu.Unlock()
	timeouts, zeros := 0, 0
	finish := func(why string) {
		r.mu.Lock()
		r.readErr, r.readDone, r.readDoneAt = why, true, r.sim.Now()
		r.mu.Unlock()
		r.sim.Logf("cli: reader ends: %s", why)
		if why != "EOF" && !strings.HasPrefix(why, "error:") {
			// The scripted reader gave up (panic, limits). Keep the receive queue
			// moving: a full queue blocks the library's demultiplexer while it
			// holds a mutex, which no simulated clock can get past.
			r.drain(conn)
		}
	}
	for i := 0; i < 200000; i++ {
		size := clamp(core.TapeAt(p.Client.ReadBuf, i, 4096), 1, 16384)
		if p.Client.ReadDeadlineMs > 0 {
			conn.SetReadDeadline(time.Now().Add(ms(p.Client.ReadDeadlineMs)))
		}
		buf := make([]byte, size)
		r.mu.Lock()
		if fs := frameSizeAt(p.Script.Frames, len(r.readData)); fs > size {
			r.smallBufHit = true
		}
		r.mu.Unlock()
		var n int
		var err error
		panicked := false
		r.mu.Lock()
		r.inRead, r.inReadSince = true, r.sim.Now()
		r.mu.Unlock()
		func() {
			defer func() {
				if v := recover(); v != nil {
					panicked = true
					r.reportPanic("read", v, string(debug.Stack()))
				}
			}()
			n, err = conn.Read(buf)
		}()
		r.mu.Lock()
		r.inRead = false
		r.mu.Unlock()
		if panicked {
			r.mu.Lock()
			r.readPanic = true
			r.mu.Unlock()
			finish("panic")
			return
		}
		if n < 0 || n > size {
			r.sim.Violate(prop13, "read-stream", "count-out-of-range", "Read returned n=%d for a %d-byte buffer", n, size)
			finish("bad count")
			return
		}
		r.mu.Lock()
		r.readData = append(r.readData, buf[:n]...)
		r.readCalls++
		total := len(r.readData)
		r.mu.Unlock()
		r.sim.Logf("cli: read buf=%d -> %d,%v total=%d", size, n, err, total)
		if err != nil {
			if isTimeout(err) {
				if timeouts++; timeouts < 20000 {
					continue
				}
				finish("read deadline limit")
				return
			}
			if err == io.EOF {
				finish("EOF")
			} else {
				finish("error: " + err.Error())
			}
			return
		}
		if n == 0 {
			if zeros++; zeros > 200 {
				finish("too many empty reads")
				return
			}
		}
		if think := core.TapeAt(p.Client.ReadThinkMs, i, 0); think > 0 {
			r.pause(ms(clamp(think, 0, 10000)))
		}
	}
	finish("read limit")
}

func (r *run) writer(conn net.Conn, tnc *agwpe.TNC, port *agwpe.Port) {
	p := r.p
	defer func() {
		r.mu.Lock()
		r.writerDone = true
		r.mu.Unlock()
	}()
	r.pause(ms(p.Client.WriterStartMs))
	off, uiOff := 0, 0
	for i, st := range p.Client.Writes {
		if i >= 64 {
			break
		}
		r.pause(ms(clamp(st.DelayMs, 0, 60000)))
		switch st.Op {
		case "flush":
			f, ok := conn.(transport.Flusher)
			if !ok {
				r.sim.Violate(prop13, "exchange", "conn-is-not-a-flusher", "the connection does not implement transport.Flusher")
				continue
			}
			r.call("flush", func() error { return f.Flush() })
		case "sendui":
			data := pattern(3, uiOff, clamp(st.Size, 1, 256))
			uiOff += len(data)
			r.call("sendui", func() error { return port.SendUI(data, "BEACON") })
		case "ping":
			r.call("ping", func() error { return tnc.Ping() })
		default:
			data := pattern(2, off, clamp(st.Size, 1, 4096))
			off += len(data)
			var n int
			r.mu.Lock()
			wi := len(r.writes)
			r.writes = append(r.writes, writeRec{Data: data, Op: -1})
			r.mu.Unlock()
			idx, _ := r.callI("write", func() (err error) { n, err = conn.Write(data); return })
			r.mu.Lock()
			r.writes[wi].N, r.writes[wi].Op = n, idx
			r.mu.Unlock()
		}
	}
}

// drain reads until the connection reports an error.
func (r *run) drain(conn net.Conn) {
	defer func() { recover() }()
	buf := make([]byte, 1<<16)
	conn.SetReadDeadline(time.Time{})
	for i := 0; i < 100000; i++ {
		if _, err := conn.Read(buf); err != nil {
			return
		}
	}
}

// frameSizeAt: the size of the scripted data frame that starts at stream
// offset off (0 when off is not a frame boundary or beyond the script).
func frameSizeAt(frames []int, off int) int {
	pos := 0
	for _, f := range frames {
		f = clamp(f, 1, 2048)
		if pos == off {
			return f
		}
		if pos > off {
			return 0
		}
		pos += f
	}
	return 0
}

// waitReaderIdle returns when the reader has ended or has been blocked inside
// Read while the simulated clock moved on, i.e. nothing is queued for it.
func (r *run) waitReaderIdle() bool {
	deadline := r.sim.Now() + 500*time.Hour
	step := ms(clamp(maxOf(r.p.Client.ReadThinkMs, 0)/2, 100, 10000))
	for r.sim.Now() < deadline {
		r.mu.Lock()
		idle := r.readDone || !r.readStarted || (r.inRead && r.sim.Now() > r.inReadSince)
		r.mu.Unlock()
		if idle {
			return true
		}
		r.pause(step)
	}
	r.sim.Logf("cli: reader never became idle")
	return false
}
