// Package agwsim is the engine behind C13: the real agwpe package on a
// simulated TCP link to the model TNC of ref/agwtnc.
package agwsim

import (
	"encoding/json"
	"fmt"
	"runtime"
	"runtime/debug"
	"testing"
	"time"

	"verif/ref/agwtnc"
	"verif/sim/core"
	"verif/sim/pipe"
	"verif/sim/simnet"
)

type Engine struct{}

var execCount int // plans executed by this worker process

func (Engine) Name() string { return "agwsim" }

func (Engine) Info(prop string) core.Info {
	if prop != "C13" {
		return core.Info{}
	}
	return core.Info{
		Level: "exploration",
		Rule: "one plan = one scripted application (OpenTCP/OpenPortTCP, RegisterPort on port 0-3, optional second registration, Dial with 0-7 digipeaters or Listen/Accept, a writer goroutine with 0-24 Writes of 1-2048 bytes plus Flush/SendUI/Ping steps, a reader goroutine with buffer sizes 1 B-4 KB and think times 0-3 s, optional concurrent closer) driving the real agwpe package against the model TNC over one simulated TCP link with per-direction segmentation and latency tapes; the TNC script sends 0-150 connected-data frames of 1-700 bytes interleaved with foreign/unsolicited frames in one of three recorded regimes (paced: every frame is its own TCP write at its own instant and the TNC stays at most 7 frames ahead of the reader; burst: frames back to back while the reader is slow; coalesced: several frames per TCP write), ends with remote disconnect, local close or TNC close, and may inject one malformed transmission (lying DataLen, garbage, truncated frame then close) or a link cut; with a fault the oracle only demands: nothing wrong delivered, well-formed frames from the library, no crash. " +
			"Multi-session arm (38 % of the plans, drawn after everything else so that the other plans are unchanged; plan field 'more'): 2-4 sessions on the SAME opened Port and TNC socket, each with its own connect mode (Dial/Accept on the Port's one listener), digipeaters, TNC answer to the connect request (accepted, refused, unanswered until the dial deadline), data script, reader, writer and closer: 55 % of the later sessions talk to the station of the session before them, 10 % to the station of any earlier session, the rest to a random one of four stations -- re-dial after local Close, after remote disconnect, after a refused or timed-out Dial, the same station calling in again, another station, Dial after Accept and Accept after Dial. Sessions follow each other once the link is quiet (no bytes in flight either way, no reply owed by the model, no refusal of an unaccepted inbound call under way: AGWPE frames carry callsigns, not connection identifiers) plus a plan-chosen gap; 30 % of the later sessions with another station instead start while the session before them is still running (overlapping connections on one Port). The model keeps one record per connection incarnation and every session has its own payload patterns; every clause (Read stream = that connection's D payloads, Write stream as received, connect frame kind and via field, Y polling, Flush, d on Close, unexpected errors, nothing foreign or of another session delivered) is judged per session, a malformed transmission relaxes only the sessions that had not ended when it fired. Signatures do not name the session (the message does). " +
			"Non-trivial: at least one connected-data payload byte crossed in either direction in any session (returned by Read or received by the model in a 'D' frame). Distinct: distinct event-log hash (link deliveries, frames at the model, client calls and results with simulated timestamps).",
		Real: []string{"transport/ax25/agwpe (TNC reader goroutine, demux levels, chain goroutines, Port, Conn, Listener, outstanding-frame polling)", "transport (URL, Flusher)"},
		Stub: []string{"clock (testing/synctest)", "TCP link (sim/pipe behind the net shim, sim/simnet)", "AGWPE TNC (ref/agwtnc, written from the protocol description)", "application (scripted client goroutines)"},
		Assumptions: []string{
			"library runs on the Go 1.26.8 standard library, not 1.24.0",
			"goroutine choice between two environment events is the Go runtime's at GOMAXPROCS=1",
			"the TNC is a model: it answers as the AGWPE description and Direwolf's documented behaviour say, nothing more",
			"consecutive connections with the same station on one Port are separated by a quiet link (nothing in flight, no refusal of an inbound call under way): AGWPE frames carry callsigns, not connection identifiers, so a late frame of the earlier connection cannot be told from traffic of the next one",
		},
		QuickRuns:    60000,
		ThoroughRuns: 1200000,
		WatchdogSec:  120,
	}
}

func (Engine) Generate(prop, tier string, r *core.Rand, run int) any {
	if prop != "C13" {
		return nil
	}
	return genPlan(tier, r)
}

func normalise(p *Plan) {
	switch p.Regime {
	case "paced", "burst", "coalesced":
	default:
		p.Regime = "paced"
	}
	if p.Mode != "accept" {
		p.Mode = "dial"
	}
	clip9 := func(s, def string) string {
		if s == "" {
			return def
		}
		if len(s) > 9 {
			s = s[:9]
		}
		return s
	}
	p.MyCall = clip9(p.MyCall, "LA1SIM")
	p.Remote = clip9(p.Remote, "LA5NTA-10")
	if p.Remote == p.MyCall {
		p.Remote = "K4CJX"
	}
	if p.Remote == foreignCall || p.Remote == foreignLocal || p.MyCall == foreignCall || p.MyCall == foreignLocal {
		p.MyCall, p.Remote = "LA1SIM", "LA5NTA-10"
	}
	p.Port = clamp(p.Port, 0, 255)
	if len(p.Digis) > 7 {
		p.Digis = p.Digis[:7]
	}
	for i := range p.Digis {
		p.Digis[i] = clip9(p.Digis[i], "RELAY")
	}
	if p.Second != nil {
		p.Second.Call = clip9(p.Second.Call, "N0SEC-1")
		if p.Second.Call == p.Remote || p.Second.Call == foreignCall || p.Second.Call == foreignLocal {
			p.Second.Call = "N0SEC-1"
		}
	}
	if len(p.More) > maxSessions-1 {
		p.More = p.More[:maxSessions-1]
	}
	for i := range p.More {
		m := &p.More[i]
		if m.Mode != "accept" {
			m.Mode = "dial"
		}
		if m.Start != "overlap" && m.Start != "hasty" {
			m.Start = "after"
		}
		m.Remote = clip9(m.Remote, p.Remote)
		if m.Remote == p.MyCall || m.Remote == foreignCall || m.Remote == foreignLocal || (p.Second != nil && m.Remote == p.Second.Call) {
			m.Remote = p.Remote
		}
		if len(m.Digis) > 7 {
			m.Digis = m.Digis[:7]
		}
		for j := range m.Digis {
			m.Digis[j] = clip9(m.Digis[j], "RELAY")
		}
		switch m.Connect {
		case "refuse", "silent":
		default:
			m.Connect = "accept"
		}
	}
	scripts := []*Script{&p.Script}
	for i := range p.More {
		scripts = append(scripts, &p.More[i].Script)
	}
	for i, sc := range scripts {
		if len(sc.Frames) > 400 {
			sc.Frames = sc.Frames[:400]
		}
		switch sc.End {
		case "remote-disconnect", "local-close":
		case "tnc-close":
			if i != len(scripts)-1 {
				sc.End = "local-close" // closing the TNC ends the run: only the last session can do it
			}
		default:
			sc.End = "local-close"
		}
	}
	if p.Fault != nil {
		p.Fault.Session = clamp(p.Fault.Session, 0, maxSessions-1) % len(scripts)
	}
	if p.Link.Cut != nil && p.Link.Cut.Dir != "ab" {
		p.Link.Cut.Dir = "ba"
	}
}

// setGroups decides which sessions may overlap: a session that asks for it
// joins the group of the session before it unless a session of that group
// talks to the same station (AGWPE tells connections apart by callsign only,
// and a station connects once at a time).
func (r *run) setGroups() {
	g := 0
	var remotes []string
	for i, se := range r.ss {
		same := false
		for _, x := range remotes {
			same = same || x == se.sp.Remote
		}
		if i > 0 && (se.sp.Start != "overlap" || same) {
			g++
			remotes = nil
		}
		se.group = g
		remotes = append(remotes, se.sp.Remote)
	}
}

type sample struct {
	Case    string
	Read    int
	Sent    int
	Written int
	Ops     []string
}

func (Engine) Execute(t *testing.T, prop string, raw json.RawMessage, trace bool) core.Outcome {
	var out core.Outcome
	var p Plan
	if prop != "C13" {
		out.Violate(prop, "harness", "unknown-property", "engine agwsim does not serve "+prop)
		return out
	}
	if err := json.Unmarshal(raw, &p); err != nil {
		out.Violate(prop, "harness", "bad-plan", fmt.Sprint("unusable plan: ", err))
		return out
	}
	normalise(&p)
	// No garbage collection while a run is in flight: a collection preempts the
	// running goroutine and puts it behind the ones it has just woken, which
	// changes the interleaving (observed as runs whose event logs differed in the
	// order of two lines). Collect between runs instead.
	defer debug.SetGCPercent(debug.SetGCPercent(-1))
	defer func() {
		if execCount++; execCount%8 == 0 || p.Fault != nil {
			runtime.GC()
		}
	}()
	leak, pv, stack := core.Bubble(t, trace, func(sim *core.Sim) {
		r := newRun(sim, &p)
		r.setGroups()
		sim.Logf("plan %s", r.describe())
		n := simnet.New(sim)
		n.LinkPlan = func(string, int) pipe.Plan { return p.Link }
		simnet.Use(n)
		tnc := agwtnc.New(sim, p.TNC)
		r.tnc = tnc
		tnc.OnSession = func(s *agwtnc.Session) {
			r.mu.Lock()
			first := r.sess == nil
			if first {
				r.sess = s
			}
			r.mu.Unlock()
			if !first {
				return
			}
			s.OnConnected = func(k agwtnc.ConnKey) {
				// a connection the model establishes belongs to the session that is
				// dialling that station right now (inbound connections are handed
				// to their session by accept)
				if se := r.sessionFor(k); se != nil {
					r.startPump(se, s, s.ConnID(k))
				}
			}
			s.Link.Tap(nil, func(b []byte) {
				r.mu.Lock()
				r.trk.segment(b)
				r.mu.Unlock()
			})
			s.Link.A.OnClose = func() {
				r.mu.Lock()
				if !r.hostClosedLink {
					r.hostClosedLink, r.hostClosedAt, r.splitAtClose = true, sim.Now(), r.trk.dataSplit > 0
				}
				r.mu.Unlock()
			}
		}
		n.Serve(tncAddr, tnc.Serve)

		ctl := core.Go(r.ctl)
		finished := core.WaitAll(1000*time.Hour, ctl)
		// let every timeout of the library (30 s polls, 1 min close/flush) run out
		// and everything in flight arrive before judging
		time.Sleep(3 * time.Minute)
		if ctl.Panic != nil {
			sim.Violate(prop, "harness", "ctl-panic", "%v\n%s", ctl.Panic, ctl.Stack)
		}
		if !finished {
			sim.Violate(prop, "harness", "client-did-not-finish", "the scripted client was still busy after 1000 simulated hours")
		}
		faults, _ := sim.Counters()
		out.NonTrivial = r.check(faults["cut"] > 0)
		r.probes()
		out.Sample = r.sample()
		// end of run: cut every link so that nothing stays blocked
		for _, l := range n.Links {
			l.Kill()
			l.A.Close()
			l.B.Close()
		}
		core.WaitAll(10*time.Minute, ctl)
		time.Sleep(3 * time.Minute)
		simnet.Use(nil)
		sim.FillOutcome(&out)
	})
	if pv != nil {
		out.Violate(prop, "harness", "bubble-panic", fmt.Sprintf("%v\n%s", pv, stack))
	}
	if leak {
		out.Violate(prop, "harness", "goroutines-left-blocked", "goroutines were still blocked when the run ended")
	}
	return out
}

func (r *run) probes() {
	r.mu.Lock()
	defer r.mu.Unlock()
	sim, p := r.sim, r.p
	set := func(name string, cond bool) {
		if cond {
			sim.Probe(name)
		} else {
			sim.ProbeN(name, 0)
		}
	}
	any := func(f func(se *sess) bool) bool {
		for _, se := range r.ss {
			if f(se) {
				return true
			}
		}
		return false
	}
	set("header-split-across-segments", r.trk.hdrSplit > 0)
	set("data-field-split-across-segments", r.trk.dataSplit > 0)
	set("several-frames-in-one-segment", r.trk.multi > 0)
	set("reader-buffer-smaller-than-frame", any(func(se *sess) bool { return se.smallBufHit }))
	set("foreign-frames-interleaved", any(func(se *sess) bool { return se.foreignSent > 0 }))
	set("burst-depth-12-reached", any(func(se *sess) bool { return se.maxUnread >= 12 }))
	set("digis-used", any(func(se *sess) bool { return se.sp.Mode == "dial" && len(se.sp.Digis) > 0 && se.have }))
	set("accept-path-used", any(func(se *sess) bool { return se.sp.Mode == "accept" && se.have && se.readStarted }))
	set("write-never-returned", any(func(se *sess) bool { return se.writeStuck }))
	set("malformed-fired", r.faultFired)
	sim.ProbeN("flush-waited-for-outstanding", 0)
	sim.ProbeN("strict-complete-paced", 0)
	sim.ProbeN("strict-complete-paced-later-session", 0)
	set("regime-"+p.Regime, true)

	// the multi-session arm: what happened on the same Port after an earlier session
	ended := func(se *sess) string {
		switch {
		case !se.attempted:
			return ""
		case !se.established:
			return "failed-connect"
		case se.have && se.id >= 0 && r.sess != nil:
			// who ended it: the model knows whether it sent the 'd' itself
			if st, _, _ := r.sess.StateID(se.id); st == "closed" {
				if se.sp.Script.End == "remote-disconnect" && se.pumpDone {
					return "remote-disconnect"
				}
				return "local-close"
			}
		}
		return "other"
	}
	names := []string{
		"multi-session-plan", "sessions-on-the-same-port-after-an-earlier-one", "later-session-established",
		"redial-of-the-same-remote", "same-remote-right-after-its-previous-session", "redial-after-local-close", "redial-after-remote-disconnect",
		"redial-after-failed-connect", "later-session-with-a-different-remote", "dial-after-accept", "accept-after-dial",
		"same-remote-calls-in-again", "overlapping-sessions", "later-session-read-data", "later-session-wrote-data",
		"later-session-failed-connect", "session-not-started-port-closed", "session-not-started-station-still-connected",
		"runs-with-3-or-more-established-sessions",
	}
	hit := map[string]bool{}
	hit["multi-session-plan"] = len(r.ss) > 1
	established := 0
	for i, se := range r.ss {
		if se.established {
			established++
		}
		if i == 0 {
			continue
		}
		switch se.skipped {
		case "port-closed":
			hit["session-not-started-port-closed"] = true
		case "station-still-connected":
			hit["session-not-started-station-still-connected"] = true
		}
		if !se.attempted {
			continue
		}
		hit["sessions-on-the-same-port-after-an-earlier-one"] = true
		if !se.established {
			hit["later-session-failed-connect"] = true
			continue
		}
		hit["later-session-established"] = true
		if len(se.readData) > 0 {
			hit["later-session-read-data"] = true
		}
		for _, w := range se.writes {
			if w.Op >= 0 && r.ops[w.Op].Done && r.ops[w.Op].Err == "" {
				hit["later-session-wrote-data"] = true
			}
		}
		same := false
		for k := i - 1; k >= 0; k-- {
			o := r.ss[k]
			if !o.attempted {
				continue
			}
			if o.sp.Remote != se.sp.Remote {
				continue
			}
			if !same {
				// the latest earlier session with this station
				same = true
				hit["redial-of-the-same-remote"] = true
				if k == i-1 {
					hit["same-remote-right-after-its-previous-session"] = true
				}
				switch ended(o) {
				case "local-close":
					hit["redial-after-local-close"] = true
				case "remote-disconnect":
					hit["redial-after-remote-disconnect"] = true
				case "failed-connect":
					hit["redial-after-failed-connect"] = true
				}
				if se.sp.Mode == "accept" {
					hit["same-remote-calls-in-again"] = true
				}
			}
		}
		if !same {
			hit["later-session-with-a-different-remote"] = true
		}
		for k := 0; k < i; k++ {
			o := r.ss[k]
			if o.established && o.sp.Mode == "accept" && se.sp.Mode != "accept" {
				hit["dial-after-accept"] = true
			}
			if o.established && o.sp.Mode != "accept" && se.sp.Mode == "accept" {
				hit["accept-after-dial"] = true
			}
		}
	}
	hit["overlapping-sessions"] = r.overlapped
	hit["runs-with-3-or-more-established-sessions"] = established >= 3
	for _, n := range names {
		set(n, hit[n])
	}
}

func (r *run) sample() sample {
	r.mu.Lock()
	defer r.mu.Unlock()
	s := sample{Case: r.describe()}
	for _, se := range r.ss {
		s.Read += len(se.readData)
		for _, w := range se.writes {
			s.Written += len(w.Data)
		}
		if r.sess != nil && se.have {
			s.Sent += sum(r.sess.SentLens(se.id))
		}
	}
	for _, o := range r.ops {
		if len(s.Ops) < 24 {
			res := "ok"
			switch {
			case o.Panicked:
				res = "panic"
			case !o.Done:
				res = "unfinished"
			case o.Err != "":
				res = o.Err
			}
			name := o.Name
			if o.Sess > 0 {
				name = fmt.Sprintf("s%d.%s", o.Sess+1, name)
			}
			s.Ops = append(s.Ops, name+":"+res)
		}
	}
	return s
}
