// Package agwsim is the engine behind C13: the real agwpe package on a
// simulated TCP link to the model TNC of ref/agwtnc.
package agwsim

import (
	"encoding/json"
	"fmt"
	"runtime"
	"runtime/debug"
	"testing"
	"time"

	"verif/ref/agwtnc"
	"verif/sim/core"
	"verif/sim/pipe"
	"verif/sim/simnet"
)

type Engine struct{}

var execCount int // plans executed by this worker process

func (Engine) Name() string { return "agwsim" }

func (Engine) Info(prop string) core.Info {
	if prop != "C13" {
		return core.Info{}
	}
	return core.Info{
		Level: "exploration",
		Rule: "one plan = one scripted application (OpenTCP/OpenPortTCP, RegisterPort on port 0-3, optional second registration, Dial with 0-7 digipeaters or Listen/Accept, a writer goroutine with 0-24 Writes of 1-2048 bytes plus Flush/SendUI/Ping steps, a reader goroutine with buffer sizes 1 B-4 KB and think times 0-3 s, optional concurrent closer) driving the real agwpe package against the model TNC over one simulated TCP link with per-direction segmentation and latency tapes; the TNC script sends 0-150 connected-data frames of 1-700 bytes interleaved with foreign/unsolicited frames in one of three recorded regimes (paced: every frame is its own TCP write at its own instant and the TNC stays at most 7 frames ahead of the reader; burst: frames back to back while the reader is slow; coalesced: several frames per TCP write), ends with remote disconnect, local close or TNC close, and may inject one malformed transmission (lying DataLen, garbage, truncated frame then close) or a link cut; with a fault the oracle only demands: nothing wrong delivered, well-formed frames from the library, no crash. " +
			"Non-trivial: at least one connected-data payload byte crossed in either direction (returned by Read or received by the model in a 'D' frame). Distinct: distinct event-log hash (link deliveries, frames at the model, client calls and results with simulated timestamps).",
		Real: []string{"transport/ax25/agwpe (TNC reader goroutine, demux levels, chain goroutines, Port, Conn, Listener, outstanding-frame polling)", "transport (URL, Flusher)"},
		Stub: []string{"clock (testing/synctest)", "TCP link (sim/pipe behind the net shim, sim/simnet)", "AGWPE TNC (ref/agwtnc, written from the protocol description)", "application (scripted client goroutines)"},
		Assumptions: []string{
			"library runs on the Go 1.26.8 standard library, not 1.24.0",
			"goroutine choice between two environment events is the Go runtime's at GOMAXPROCS=1",
			"the TNC is a model: it answers as the AGWPE description and Direwolf's documented behaviour say, nothing more",
		},
		QuickRuns:    60000,
		ThoroughRuns: 1200000,
		WatchdogSec:  120,
	}
}

func (Engine) Generate(prop, tier string, r *core.Rand, run int) any {
	if prop != "C13" {
		return nil
	}
	return genPlan(tier, r)
}

func normalise(p *Plan) {
	switch p.Regime {
	case "paced", "burst", "coalesced":
	default:
		p.Regime = "paced"
	}
	if p.Mode != "accept" {
		p.Mode = "dial"
	}
	clip9 := func(s, def string) string {
		if s == "" {
			return def
		}
		if len(s) > 9 {
			s = s[:9]
		}
		return s
	}
	p.MyCall = clip9(p.MyCall, "LA1SIM")
	p.Remote = clip9(p.Remote, "LA5NTA-10")
	if p.Remote == p.MyCall {
		p.Remote = "K4CJX"
	}
	if p.Remote == foreignCall || p.Remote == foreignLocal || p.MyCall == foreignCall || p.MyCall == foreignLocal {
		p.MyCall, p.Remote = "LA1SIM", "LA5NTA-10"
	}
	p.Port = clamp(p.Port, 0, 255)
	if len(p.Digis) > 7 {
		p.Digis = p.Digis[:7]
	}
	for i := range p.Digis {
		p.Digis[i] = clip9(p.Digis[i], "RELAY")
	}
	if p.Second != nil {
		p.Second.Call = clip9(p.Second.Call, "N0SEC-1")
		if p.Second.Call == p.Remote || p.Second.Call == foreignCall || p.Second.Call == foreignLocal {
			p.Second.Call = "N0SEC-1"
		}
	}
	if len(p.Script.Frames) > 400 {
		p.Script.Frames = p.Script.Frames[:400]
	}
	switch p.Script.End {
	case "remote-disconnect", "local-close", "tnc-close":
	default:
		p.Script.End = "local-close"
	}
	if p.Link.Cut != nil && p.Link.Cut.Dir != "ab" {
		p.Link.Cut.Dir = "ba"
	}
}

type sample struct {
	Case    string
	Read    int
	Sent    int
	Written int
	Ops     []string
}

func (Engine) Execute(t *testing.T, prop string, raw json.RawMessage, trace bool) core.Outcome {
	var out core.Outcome
	var p Plan
	if prop != "C13" {
		out.Violate(prop, "harness", "unknown-property", "engine agwsim does not serve "+prop)
		return out
	}
	if err := json.Unmarshal(raw, &p); err != nil {
		out.Violate(prop, "harness", "bad-plan", fmt.Sprint("unusable plan: ", err))
		return out
	}
	normalise(&p)
	// No garbage collection while a run is in flight: a collection preempts the
	// running goroutine and puts it behind the ones it has just woken, which
	// changes the interleaving (observed as runs whose event logs differed in the
	// order of two lines). Collect between runs instead.
	defer debug.SetGCPercent(debug.SetGCPercent(-1))
	defer func() {
		if execCount++; execCount%8 == 0 || p.Fault != nil {
			runtime.GC()
		}
	}()
	leak, pv, stack := core.Bubble(t, trace, func(sim *core.Sim) {
		r := &run{sim: sim, p: &p}
		sim.Logf("plan %s", r.describe())
		n := simnet.New(sim)
		n.LinkPlan = func(string, int) pipe.Plan { return p.Link }
		simnet.Use(n)
		tnc := agwtnc.New(sim, p.TNC)
		r.tnc = tnc
		tnc.OnSession = func(s *agwtnc.Session) {
			r.mu.Lock()
			first := r.sess == nil
			if first {
				r.sess = s
			}
			r.mu.Unlock()
			if !first {
				return
			}
			s.OnConnected = func(k agwtnc.ConnKey) {
				if p.Mode != "accept" {
					r.startPump(s, k)
				}
			}
			s.Link.Tap(nil, func(b []byte) {
				r.mu.Lock()
				r.trk.segment(b)
				r.mu.Unlock()
			})
			s.Link.A.OnClose = func() {
				r.mu.Lock()
				if !r.hostClosedLink {
					r.hostClosedLink, r.hostClosedAt, r.splitAtClose = true, sim.Now(), r.trk.dataSplit > 0
				}
				r.mu.Unlock()
			}
		}
		n.Serve(tncAddr, tnc.Serve)

		ctl := core.Go(r.ctl)
		finished := core.WaitAll(1000*time.Hour, ctl)
		// let every timeout of the library (30 s polls, 1 min close/flush) run out
		// and everything in flight arrive before judging
		time.Sleep(3 * time.Minute)
		if ctl.Panic != nil {
			sim.Violate(prop, "harness", "ctl-panic", "%v\n%s", ctl.Panic, ctl.Stack)
		}
		if !finished {
			sim.Violate(prop, "harness", "client-did-not-finish", "the scripted client was still busy after 1000 simulated hours")
		}
		faults, _ := sim.Counters()
		out.NonTrivial = r.check(faults["cut"] > 0)
		r.probes()
		out.Sample = r.sample()
		// end of run: cut every link so that nothing stays blocked
		for _, l := range n.Links {
			l.Kill()
			l.A.Close()
			l.B.Close()
		}
		core.WaitAll(10*time.Minute, ctl)
		time.Sleep(3 * time.Minute)
		simnet.Use(nil)
		sim.FillOutcome(&out)
	})
	if pv != nil {
		out.Violate(prop, "harness", "bubble-panic", fmt.Sprintf("%v\n%s", pv, stack))
	}
	if leak {
		out.Violate(prop, "harness", "goroutines-left-blocked", "goroutines were still blocked when the run ended")
	}
	return out
}

func (r *run) probes() {
	r.mu.Lock()
	defer r.mu.Unlock()
	sim, p := r.sim, r.p
	set := func(name string, cond bool) {
		if cond {
			sim.Probe(name)
		} else {
			sim.ProbeN(name, 0)
		}
	}
	set("header-split-across-segments", r.trk.hdrSplit > 0)
	set("data-field-split-across-segments", r.trk.dataSplit > 0)
	set("several-frames-in-one-segment", r.trk.multi > 0)
	set("reader-buffer-smaller-than-frame", r.smallBufHit)
	set("foreign-frames-interleaved", r.foreignSent > 0)
	set("burst-depth-12-reached", r.maxUnread >= 12)
	set("digis-used", p.Mode == "dial" && len(p.Digis) > 0 && r.have)
	set("accept-path-used", p.Mode == "accept" && r.have && r.readStarted)
	set("write-never-returned", r.writeStuck)
	set("malformed-fired", r.faultFired)
	sim.ProbeN("flush-waited-for-outstanding", 0)
	sim.ProbeN("strict-complete-paced", 0)
	set("regime-"+p.Regime, true)
}

func (r *run) sample() sample {
	r.mu.Lock()
	defer r.mu.Unlock()
	s := sample{Case: r.describe(), Read: len(r.readData)}
	for _, w := range r.writes {
		s.Written += len(w.Data)
	}
	if r.sess != nil && r.have {
		s.Sent, _ = r.sess.SentBytes(r.key)
	}
	for _, o := range r.ops {
		if len(s.Ops) < 24 {
			res := "ok"
			switch {
			case o.Panicked:
				res = "panic"
			case !o.Done:
				res = "unfinished"
			case o.Err != "":
				res = o.Err
			}
			s.Ops = append(s.Ops, o.Name+":"+res)
		}
	}
	return s
}
