package agwsim

import (
	"verif/ref/agwtnc"
	"verif/sim/pipe"
)

// Plan is one C13 run: configuration, workload, schedule and fault. It is the
// replay file; the executor is a total function of it.
type Plan struct {
	// Regime: "paced" (the TNC is never more than Script.Ahead+1 frames ahead of
	// the reader and every frame is its own TCP write at its own instant),
	// "burst" (frames back to back, nobody waits for the reader) or "coalesced"
	// (several frames in one TCP write).
	Regime string `json:"regime"`
	Port   int    `json:"port"`
	MyCall string `json:"mycall"`
	Remote string `json:"remote"`
	// Mode: "dial" or "accept".
	Mode   string   `json:"mode"`
	Digis  []string `json:"digis,omitempty"`
	UseURL bool     `json:"use_url,omitempty"`
	// OpenCombined: OpenPortTCP instead of OpenTCP + RegisterPort.
	OpenCombined bool `json:"open_combined,omitempty"`
	// Second: a second callsign registered on the same socket.
	Second        *SecondReg `json:"second,omitempty"`
	DialTimeoutMs int        `json:"dial_timeout_ms,omitempty"`

	// Link: AB is host->TNC, BA is TNC->host.
	Link   pipe.Plan     `json:"link"`
	TNC    agwtnc.Config `json:"tnc"`
	Script Script        `json:"script"`
	Client Client        `json:"client"`
	Fault  *Fault        `json:"fault,omitempty"`

	// More: further sessions on the SAME opened Port / TNC socket after the first
	// one (which is described by the fields above). Absent in plans written
	// before the multi-session arm existed: those run exactly one session.
	More []Session `json:"more,omitempty"`
}

// Session is one further connection made on the already registered Port.
type Session struct {
	// Start: "after" (default; every earlier session is over and the link has gone
	// quiet, then GapMs) or "overlap" (GapMs after the connect attempt of the
	// session before it has returned, while that session is still running;
	// honoured only for a remote station none of the running sessions talks to).
	// "hasty" is "after" without the wait for a quiet link; it is never generated
	// (AGWPE frames carry callsigns, not connection identifiers: a late frame of
	// the earlier connection cannot be told from traffic of the new one, so the
	// strict oracle does not hold) and exists for hand-made demonstrations.
	Start string `json:"start,omitempty"`
	GapMs int    `json:"gap_ms,omitempty"`
	// Mode, Remote, Digis, UseURL, DialTimeoutMs: as in Plan.
	Mode          string   `json:"mode"`
	Remote        string   `json:"remote"`
	Digis         []string `json:"digis,omitempty"`
	UseURL        bool     `json:"use_url,omitempty"`
	DialTimeoutMs int      `json:"dial_timeout_ms,omitempty"`
	// Connect, ConnectLatMs: how the TNC answers this session's connect request
	// (TNC.Connect / TNC.ConnectLatMs do that for the first session).
	Connect      string `json:"connect,omitempty"`
	ConnectLatMs int    `json:"connect_lat_ms,omitempty"`
	// Script: the TNC's script for this connection. Client: only the
	// per-connection fields are used (step delays, reader, writer, closer).
	Script Script `json:"script"`
	Client Client `json:"client"`
}

type SecondReg struct {
	Port int    `json:"port"`
	Call string `json:"call"`
}

// Script is what the model TNC does on its own initiative.
type Script struct {
	StartDelayMs int `json:"start_delay_ms,omitempty"`
	// Frames: payload sizes of the connected-data frames for the connection under test.
	Frames []int `json:"frames,omitempty"`
	// GapMs: tape, pause before each TCP write of the script (between bursts in "burst").
	GapMs []int `json:"gap_ms,omitempty"`
	// Ahead: paced/coalesced: write only while at most this many frames are unread.
	Ahead int `json:"ahead,omitempty"`
	// Group: coalesced: tape of items per TCP write. Burst: tape of burst lengths.
	Group   []int     `json:"group,omitempty"`
	Foreign []Foreign `json:"foreign,omitempty"`
	// End: "remote-disconnect", "local-close" or "tnc-close".
	End        string `json:"end,omitempty"`
	EndDelayMs int    `json:"end_delay_ms,omitempty"`
	// InboundDelayMs: accept mode: the inbound connection is announced this long
	// after Accept was called. AcceptLate: it is announced right after the
	// registration instead, before anybody accepts.
	InboundDelayMs int  `json:"inbound_delay_ms,omitempty"`
	AcceptLate     bool `json:"accept_late,omitempty"`
}

// Foreign is a frame that does not belong to the connection under test, sent
// just before data frame number Before.
type Foreign struct {
	Before int    `json:"before"`
	Kind   string `json:"kind"`
	Size   int    `json:"size,omitempty"`
}

// Fault is a malformed transmission by the TNC just before data frame Before.
type Fault struct {
	// Kind: "huge-datalen", "short-data-close", "garbage", "short-header-close".
	Kind   string `json:"kind"`
	Before int    `json:"before"`
	Val    int    `json:"val,omitempty"`
	// Session: index of the session whose script carries the fault (0 = first).
	Session int `json:"session,omitempty"`
}

// Client is the scripted application.
type Client struct {
	OpenDelayMs int   `json:"open_delay_ms,omitempty"`
	StepDelayMs []int `json:"step_delay_ms,omitempty"`
	// Ping: "", "before" or "after" the registration.
	Ping           string  `json:"ping,omitempty"`
	ReadBuf        []int   `json:"read_buf,omitempty"`
	ReadThinkMs    []int   `json:"read_think_ms,omitempty"`
	ReadDeadlineMs int     `json:"read_deadline_ms,omitempty"`
	WriterStartMs  int     `json:"writer_start_ms,omitempty"`
	Writes         []WStep `json:"writes,omitempty"`
	// CloserAtMs > 0: a separate goroutine calls Close that long after the
	// connection was established, whatever the writer is doing.
	CloserAtMs int `json:"closer_at_ms,omitempty"`
}

// WStep is one step of the writer goroutine.
type WStep struct {
	// Op: "write", "flush", "sendui", "ping".
	Op      string `json:"op"`
	Size    int    `json:"size,omitempty"`
	DelayMs int    `json:"delay_ms,omitempty"`
}
