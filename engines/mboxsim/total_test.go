package mboxsim

import (
	"encoding/json"
	"strings"
	"testing"

	"verif/sim/core"
)

// TestExecutorsAreTotal feeds damaged plans (what the reducer produces: dropped
// keys, shortened arrays and strings, zeroed and negated numbers) to the
// executors: none may end in a harness failure. Needs the import swap, i.e.
//
//	go1.26.8 test -overlay $(bin/verifctl overlay mboxsim /tmp/ov) -run TestExecutorsAreTotal ./engines/mboxsim
func TestExecutorsAreTotal(t *testing.T) {
	if !swapActive() {
		t.Skip("built without the import-swap overlay")
	}
	e := Engine{}
	for _, prop := range []string{"C10", "C11", "C12"} {
		for run := 0; run < 60; run++ {
			idx := run
			if prop == "C10" {
				idx = 9000 + run // the random regime
			}
			r := core.NewRand(7, "total", prop, string(rune('a'+run)))
			raw, _ := json.Marshal(e.Generate(prop, "quick", core.NewRand(1, prop, "x", string(rune(run))), idx))
			var doc any
			json.Unmarshal(raw, &doc)
			if prop == "C11" {
				// the replay form: one explicit fault, no enumeration (the point is totality, not coverage)
				m := doc.(map[string]any)
				m["enumerate"] = false
				m["fault"] = map[string]any{"kind": core.Choice(r, []string{"crash", "enospc"}), "call": float64(r.Intn(4)), "phase": core.Choice(r, []string{"before", "after", "torn"}), "bytes": float64(r.Intn(300)), "nth": float64(0)}
			}
			for k := 0; k < 25; k++ {
				doc = damage(doc, r)
				plan, _ := json.Marshal(doc)
				out := e.Execute(t, prop, plan, false)
				for _, v := range out.Violations {
					if strings.Contains(v.Signature, "/harness/") && !strings.HasSuffix(v.Signature, "/bad-plan") {
						t.Fatalf("%s: damaged plan broke the harness: %s\n%s\nplan: %s", prop, v.Signature, v.Message, plan)
					}
				}
			}
		}
	}
}

func damage(n any, r *core.Rand) any {
	switch v := n.(type) {
	case map[string]any:
		keys := core.SortedKeys(v)
		if len(keys) == 0 {
			return v
		}
		k := keys[r.Intn(len(keys))]
		if r.Chance(0.15) {
			delete(v, k)
		} else {
			v[k] = damage(v[k], r)
		}
		return v
	case []any:
		if len(v) == 0 {
			return v
		}
		switch r.Pick(2, 5) {
		case 0:
			i := r.Intn(len(v))
			return append(v[:i:i], v[i+1:]...)
		}
		i := r.Intn(len(v))
		v[i] = damage(v[i], r)
		return v
	case float64:
		return core.Choice(r, []float64{0, -1, v / 2, -v, 1 << 40, -(1 << 62)})
	case string:
		if v == "" {
			return core.Choice(r, []string{"x", "../..", "\\x0", "a@b@c", ":"})
		}
		return v[:r.Intn(len(v))]
	case bool:
		return !v
	}
	return n
}
