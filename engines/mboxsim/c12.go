package mboxsim

import (
	"encoding/base64"
	"encoding/json"
	"fmt"
	"path"
	"strconv"
	"strings"
	"testing"
	"time"

	"github.com/la5nta/wl2k-go/fbb"
	"github.com/la5nta/wl2k-go/mailbox"
	"verif/sim/core"
	"verif/sim/simfs"
)

// C12Plan: direct handler calls with hostile MIDs on a mailbox rooted at
// /sandbox/mbox, next to decoys.
type C12Plan struct {
	Root  string    `json:"root,omitempty"` // spelling of the root handed to NewDirHandler; must clean to /sandbox/mbox
	Steps []C12Step `json:"steps"`
}

// C12Step kinds: inbound (ProcessInbound of a message whose Mid header is Mid),
// answer (GetInboundAnswer for a proposal with that MID), setsent, setdeferred.
type C12Step struct {
	K string `json:"k"`
	// Mid in Go string-literal syntax without the surrounding quotes (so that
	// NUL, invalid UTF-8 and control bytes survive JSON). A value that does not
	// unquote is used as it is.
	Mid  string `json:"mid"`
	Rej  bool   `json:"rej,omitempty"`
	Body string `json:"body,omitempty"`
	// Hdrs (inbound): further header fields of the received message, name and
	// value in the same quoting as Mid. A remote station chooses every header
	// of what it sends, including the ones this library uses privately.
	Hdrs [][2]string `json:"hdrs,omitempty"`
}

const c12root = "/sandbox/mbox"

func quoteMid(s string) string {
	q := strconv.QuoteToASCII(s)
	return q[1 : len(q)-1]
}

func unquoteMid(s string) string {
	if u, err := strconv.Unquote(`"` + s + `"`); err == nil {
		return u
	}
	return s
}

// hostile: anything that is not 1-12 alphanumerics.
func hostile(mid string) bool { return !okMID(mid) }

func c12disk() *simfs.FS {
	d := simfs.New()
	for _, dir := range []string{"/tmp", "/etc", "/sandbox/mbox-evil/in", "/sandbox/mbox-evil/out", "/sandbox/mbox-evil/sent", "/sandbox/mbox-evil/archive",
		"/sandbox/in", "/sandbox/out", "/sandbox/sent", "/sandbox/mbox2/in", "/in", "/out", "/sent", "/home/sim"} {
		d.PutDir(dir)
	}
	for _, f := range []string{"/sandbox/victim.b2f", "/sandbox/outside.b2f", "/sandbox/x.b2f", "/sandbox/mbox-evil/in/victim.b2f", "/sandbox/out/victim.b2f",
		"/sandbox/in/victim.b2f", "/victim.b2f", "/etc/passwd", "/etc/passwd.b2f", "/sandbox/.b2f", "/sandbox/mbox.b2f", "/in/victim.b2f", "/out/victim.b2f"} {
		d.Put(f, []byte("decoy "+f+"\n"), 0o644)
	}
	return d
}

type c12sample struct {
	Root  string   `json:"root"`
	Steps []string `json:"steps"`
}

const maxC12Steps = 200

func execC12(t *testing.T, prop string, raw json.RawMessage, trace bool) core.Outcome {
	var plan C12Plan
	var out core.Outcome
	if err := json.Unmarshal(raw, &plan); err != nil {
		out.Violate(prop, "harness", "bad-plan", fmt.Sprint("unusable plan: ", err))
		return out
	}
	if len(plan.Steps) > maxC12Steps {
		plan.Steps = plan.Steps[:maxC12Steps]
	}
	root := plan.Root
	if !strings.HasPrefix(root, "/") || strings.ContainsAny(root, "\x00") || path.Clean(root) != c12root {
		root = c12root
	}
	leak, pv, stack := core.Bubble(t, trace, func(sim *core.Sim) {
		disk := c12disk()
		simfs.Use(disk)
		defer simfs.Use(nil)
		h := mailbox.NewDirHandler(root, false)
		var perr error
		if d, p, _ := guard(func() { perr = h.Prepare() }); d != nil || p != nil || perr != nil {
			sim.Logf("prepare failed: %v %v %v", d, p, perr)
			sim.FillOutcome(&out)
			return
		}
		// two ordinary queued messages so that benign SetSent calls have something to move
		for _, mid := range []string{"GOOD1", "GOOD2"} {
			if b, ok := (MsgDef{MID: mid, From: "LA1SIM", To: []string{"LA5NTA"}, Subject: "s", Body: "b"}).build(); ok {
				h.AddOut(b.fresh())
			}
		}
		before := treeOutside(disk)
		disk.ResetLog()
		var shown []string
		for i, st := range plan.Steps {
			mid := unquoteMid(st.Mid)
			mark := disk.Calls()
			method := ""
			var res string
			died, panicked, pst := guard(func() {
				switch st.K {
				case "inbound":
					method = "ProcessInbound"
					m := fbb.NewMessage(fbb.Private, "N0EVIL")
					m.SetDate(epoch.Add(time.Duration(i) * time.Minute))
					m.AddTo("LA1SIM")
					m.SetSubject("hostile")
					body := st.Body
					if body == "" {
						body = "payload\r\n"
					}
					m.SetBody(body)
					m.Header.Set(fbb.HEADER_MID, mid) // what a remote station puts on the wire
					for k, h := range st.Hdrs {
						name, val := unquoteMid(h[0]), unquoteMid(h[1])
						if k >= 8 || name == "" || strings.ContainsAny(name, ":\r\n ") || strings.ContainsAny(val, "\r\n") || strings.EqualFold(name, fbb.HEADER_MID) {
							continue
						}
						m.Header.Set(name, val)
						sim.Probe("inbound-with-extra-header")
					}
					err := h.ProcessInbound(m)
					res = fmt.Sprint("err=", err != nil)
					if err != nil {
						sim.Probe("operation-returned-error")
					}
				case "answer":
					method = "GetInboundAnswer"
					a := h.GetInboundAnswer(*fbb.NewProposal(mid, "t", fbb.Wl2kProposal, []byte("x")))
					res = ansName(a)
				case "setsent":
					method = "SetSent"
					h.SetSent(mid, st.Rej)
				case "setdeferred":
					method = "SetDeferred"
					h.SetDeferred(mid)
				}
			})
			if method == "" {
				continue
			}
			switch {
			case died != nil:
				// log.Fatalf = the station's process is gone; restart it. Not C12's business.
				sim.Probe("log-fatal")
				res = "process-exit"
				disk.Revive()
				h = mailbox.NewDirHandler(root, false)
				guard(func() { h.Prepare() })
			case panicked != nil:
				sim.Probe("panic")
				res = "panic " + core.PanicClass(panicked) + "@" + core.RepoFrame(pst)
			}
			ops := disk.Log()[mark:]
			sim.Logf("step %d %s(%s) -> %s; %d fs calls", i, method, st.Mid, res, len(ops))
			if len(shown) < 10 {
				shown = append(shown, fmt.Sprintf("%s(%s)", method, st.Mid))
			}
			if (hostile(mid) || len(st.Hdrs) > 0) && len(ops) > 0 {
				out.NonTrivial = true
			}
			for _, o := range simfs.EscapesOf(ops, c12root) {
				what := o.Kind
				switch {
				case o.Kind == "open" && o.Created:
					what = "create"
				case o.Kind == "open" && o.Trunc:
					what = "truncate"
				}
				target := o.Path
				if o.Path2 != "" {
					target += " -> " + o.Path2
				}
				sim.Logf("  ESCAPE %s %s", what, target)
				sim.Violate(prop, "escape", what+"@"+method, "%s with MID %s made the mailbox %s %s, outside %s (call #%d, %d bytes)", method, strconv.QuoteToASCII(mid), what, target, c12root, o.Idx, o.Done)
			}
			if n := len(simfs.AttemptsOf(ops, c12root)); n > 0 {
				sim.ProbeN("mutation-attempt-outside-without-effect", n)
			}
			if n := len(simfs.ReadsOutsideOf(ops, c12root)); n > 0 {
				sim.ProbeN("read-only-access-outside", n)
			}
		}
		// cross-check of the log-based oracle: if no escape was logged, nothing outside changed
		if len(disk.Escapes(c12root)) == 0 {
			if treeOutside(disk) != before {
				sim.Violate(prop, "harness", "log-missed-a-mutation", "the tree outside the mailbox changed although no escaping call was logged")
			}
		}
		out.Sample = c12sample{Root: root, Steps: shown}
		sim.FillOutcome(&out)
	})
	if pv != nil {
		out.Violate(prop, "harness", "bubble-panic", fmt.Sprintf("%v\n%s", pv, stack))
	}
	if leak {
		out.Violate(prop, "harness", "goroutines-left-blocked", "goroutines were still blocked when the run ended")
	}
	return out
}

// treeOutside renders everything that is not under the mailbox root.
func treeOutside(d *simfs.FS) string {
	var sb strings.Builder
	for _, e := range d.Tree() {
		if simfs.Under(c12root, e.Path) || e.Path == "/sandbox" || e.Path == "/" {
			continue
		}
		fmt.Fprintf(&sb, "%s %v %d %x\n", e.Path, e.Dir, e.Size, e.Data)
	}
	return sb.String()
}

// ---------------------------------------------------------------------------
// generator

var c12segs = []string{"..", "..", "..", ".", "", "x", "MSG1", "mbox-evil", "mbox", "mbox2", "in", "out", "sent", "archive", "victim", "outside", "etc", "passwd", "sandbox",
	"blåbær", "日本", "a\x00b", "\xff\xfe", "x.", "x..", "...", "C:", " ", "~", "*", "GOOD1", "victim.b2f", "passwd\x00"}

var c12directed = []string{"../../victim", "../../outside", "../../x", "../../mbox-evil/in/pwn", "../../mbox-evil/in/victim", "../../../etc/passwd", "../../../victim",
	"../../out/victim", "../../in/victim", "../out/GOOD1", "../sent/GOOD1", "../../mbox2/in/x", "/etc/passwd", "/sandbox/victim", "..\\..\\victim", "..", "../..", "../../", "../../mbox",
	"in/../../../victim", "x/../../../victim", "./../../victim", "..//..//victim", "../../victim.b2f", "", ".", "GOOD1", "NEWMSG000001"}

// header names this library (or a relative of it) gives a private meaning to,
// in several spellings, and paths for their values
var c12hdrNames = []string{"X-FilePath", "X-Filepath", "x-filepath", "X-FILEPATH", "X-File-Path", "X-Path", "X-Unread", "X-P2ponly", "X-Folder", "X-Location",
	"Content-Location", "File", "Filename", "X-Filename", "X-Attachment-Path", "X-Save-As", "X-Mailbox", "Mbo", "X-Mid", "Message-Id"}

var c12hdrPaths = []string{"/sandbox/victim.b2f", "/sandbox/outside.b2f", "/sandbox/new.b2f", "/etc/passwd", "/etc/new", "/tmp/dropped.b2f", "/sandbox/mbox-evil/in/pwn.b2f",
	"/sandbox/mbox-evil/in/victim.b2f", "../../victim.b2f", "../../../etc/passwd", "/sandbox/mbox/../victim.b2f", "/sandbox/mbox/in/../../victim.b2f", "/victim.b2f",
	"/sandbox/mbox/in/INSIDE.b2f", "/sandbox/mbox/out/GOOD1.b2f", "/home/sim/.ssh/authorized_keys", "victim.b2f", "/sandbox/in/victim.b2f", "/sandbox/mbox2/in/x.b2f"}

// encodedForm hides a traversal string behind an encoding that some later
// "canonicalisation" step might undo after the MID was validated: RFC 2047
// encoded-words (the library has such a decoder for subjects and file names),
// percent escapes, look-alike code points; optionally next to a byte that is
// not valid UTF-8 (a typical trigger for "repair the string" code paths).
func encodedForm(r *core.Rand, inner string) string {
	var s string
	switch r.Pick(3, 3, 2, 1) {
	case 0:
		var sb strings.Builder
		for i := 0; i < len(inner); i++ {
			c := inner[i]
			if c == '/' || c == '.' && r.Bool() || c == '\\' || c < 0x21 || c > 0x7e || c == '=' || c == '?' || c == '_' {
				fmt.Fprintf(&sb, "=%02X", c)
			} else {
				sb.WriteByte(c)
			}
		}
		s = "=?" + core.Choice(r, []string{"utf-8", "UTF-8", "iso-8859-1"}) + "?" + core.Choice(r, []string{"q", "Q"}) + "?" + sb.String() + "?="
	case 1:
		s = "=?utf-8?" + core.Choice(r, []string{"b", "B"}) + "?" + base64.StdEncoding.EncodeToString([]byte(inner)) + "?="
	case 2:
		s = strings.NewReplacer("/", "%2f", ".", "%2e", "\\", "%5c").Replace(inner)
	default:
		s = strings.NewReplacer("/", "\uff0f", ".", "\uff0e").Replace(inner)
	}
	switch r.Pick(3, 2, 2) {
	case 1:
		s += "\xe6"
	case 2:
		s = "\xe6" + s
	}
	return s
}

func genHostileMID(r *core.Rand) string {
	if r.Chance(0.08) {
		return encodedForm(r, core.Choice(r, c12directed))
	}
	switch r.Pick(4, 5, 1, 1, 1, 2) {
	case 5: // a run of multi-byte characters in front of (or behind) a traversal: byte and character counts differ
		run := strings.Repeat(core.Choice(r, []string{"\u00e9", "\u00e5", "\u65e5", "\U0001f600", "\u017f"}), r.Range(1, 40))
		tail := core.Choice(r, []string{"/../../victim", "/../../../victim", "/../../outside", "/../../mbox-evil/in/pwn", "/../../../etc/passwd", "/../../../../etc/new", "/../../x", "/../out/GOOD1", "\\..\\..\\victim", "/..", "/../.."})
		if r.Chance(0.15) {
			return "../../victim" + run
		}
		return run + tail
	case 0:
		return core.Choice(r, c12directed)
	case 1:
		n := r.Range(1, 6)
		sep := "/"
		if r.Chance(0.15) {
			sep = "\\"
		}
		parts := make([]string, n)
		for i := range parts {
			parts[i] = core.Choice(r, c12segs)
			if r.Chance(0.1) {
				sep2 := core.Choice(r, []string{"/", "\\", "//"})
				parts[i] += sep2 + core.Choice(r, c12segs)
			}
		}
		s := strings.Join(parts, sep)
		if r.Chance(0.2) {
			s = "/" + s
		}
		if r.Chance(0.1) {
			s += core.Choice(r, []string{".", "/", "..", ".b2f", " "})
		}
		return s
	case 2: // very long: one 300-byte component, or many short ones
		if r.Bool() {
			return strings.Repeat(core.Choice(r, []string{"A", "..", "å"}), 300)[:300]
		}
		return strings.Repeat("../", r.Range(20, 1500)) + "victim"
	case 3: // benign controls
		b := make([]byte, r.Range(1, 12))
		for i := range b {
			b[i] = alnum[r.Intn(len(alnum))]
		}
		return string(b)
	default: // random bytes
		return string(r.Bytes(r.Range(1, 24)))
	}
}

func genC12(tier string, r *core.Rand, run int) C12Plan {
	var plan C12Plan
	if r.Chance(0.25) {
		plan.Root = core.Choice(r, []string{"/sandbox/mbox/", "/sandbox/./mbox", "/sandbox/mbox-evil/../mbox", "/sandbox//mbox"})
	}
	n := r.Range(1, 10)
	for i := 0; i < n; i++ {
		st := C12Step{Mid: quoteMid(genHostileMID(r))}
		switch r.Pick(5, 3, 3, 1) {
		case 0:
			st.K = "inbound"
			if r.Chance(0.3) {
				st.Body = genText(r, r.Range(1, 200))
			}
			if r.Chance(0.35) {
				// header content chosen by the remote station, mostly with an
				// unsuspicious MID so that the message is actually stored
				if r.Chance(0.7) {
					b := make([]byte, r.Range(1, 12))
					for i := range b {
						b[i] = alnum[r.Intn(len(alnum))]
					}
					st.Mid = string(b)
				}
				for k := r.Range(1, 3); k > 0; k-- {
					name := core.Choice(r, c12hdrNames)
					val := core.Choice(r, c12hdrPaths)
					switch r.Pick(5, 2, 1) {
					case 1:
						val = genHostileMID(r)
					case 2:
						val = core.Choice(r, []string{"true", "false", "", "1"})
					}
					st.Hdrs = append(st.Hdrs, [2]string{quoteMid(name), quoteMid(val)})
				}
			}
		case 1:
			st.K = "answer"
		case 2:
			st.K = "setsent"
			st.Rej = r.Bool()
		case 3:
			st.K = "setdeferred"
		}
		plan.Steps = append(plan.Steps, st)
	}
	return plan
}
