package mboxsim

import (
	"bytes"
	"strings"
	"time"

	"github.com/la5nta/wl2k-go/fbb"
	"verif/sim/core"
)

// MsgDef describes one message of a plan. Messages are always built through
// the public fbb API with an explicit Mid header (inside a bubble
// fbb.GenerateMid returns the same MID for every message made at one instant).
type MsgDef struct {
	MID     string    `json:"mid"`
	From    string    `json:"from"`
	To      []string  `json:"to"`
	Cc      []string  `json:"cc,omitempty"`
	Subject string    `json:"subject"`
	Body    string    `json:"body"`
	Files   []FileDef `json:"files,omitempty"`
	DateMin int       `json:"date_min,omitempty"` // minutes after 2015-01-01 00:00 UTC
	P2POnly bool      `json:"p2p_only,omitempty"`
}

type FileDef struct {
	Name string `json:"name"`
	Data []byte `json:"data"`
}

var epoch = time.Date(2015, 1, 1, 0, 0, 0, 0, time.UTC)

// The three headers the mailbox package calls private (syncdir.go, "Remove
// private headers").
var privateHeaders = []string{"X-P2POnly", "X-FilePath", "X-Unread"}

// built is a MsgDef turned into bytes.
type built struct {
	def    MsgDef
	raw    []byte   // the message as handed to AddOut / ProcessInbound (includes "X-P2POnly: true" when P2POnly)
	public []byte   // raw without any private header: what GetOutbound may hand to a session
	rcpt   []string // the model's own normal form of To+Cc
}

func okMID(s string) bool {
	if len(s) < 1 || len(s) > 12 {
		return false
	}
	for i := 0; i < len(s); i++ {
		c := s[i]
		if !(c >= 'A' && c <= 'Z' || c >= 'a' && c <= 'z' || c >= '0' && c <= '9') {
			return false
		}
	}
	return true
}

func okAddr(s string) bool {
	if s == "" || strings.Count(s, "@") > 1 || strings.Count(s, ":") > 1 {
		return false
	}
	if i := strings.IndexByte(s, ':'); i >= 0 && (i == 0 || i == len(s)-1) {
		return false
	}
	if i := strings.IndexByte(s, '@'); i >= 0 && (i == 0 || i == len(s)-1) {
		return false
	}
	for i := 0; i < len(s); i++ {
		if c := s[i]; c <= ' ' || c >= 0x7f || c == ',' || c == ';' {
			return false
		}
	}
	return true
}

// normAddr is the reference model's reading of Winlink addressing: a bare
// callsign and callsign@winlink.org are the same Winlink address, anything else
// with an @ is an SMTP address; addresses compare without regard to case.
func normAddr(s string) string {
	proto, addr := "", s
	if i := strings.IndexByte(s, ':'); i >= 0 {
		proto, addr = s[:i], s[i+1:]
	} else if i := strings.IndexByte(s, '@'); i >= 0 {
		if strings.EqualFold(s[i+1:], "winlink.org") {
			addr = s[:i]
		} else {
			proto = "SMTP"
		}
	}
	return strings.ToUpper(proto + ":" + addr)
}

// build constructs the message; ok=false if the definition cannot become a
// storable message (the executor then skips whatever uses it: executors are total).
func (d MsgDef) build() (b *built, ok bool) {
	defer func() {
		if r := recover(); r != nil {
			b, ok = nil, false
		}
	}()
	// A message without any recipient is not valid for sending, but AddOut does
	// not validate: it can sit in an outbox, and the property's routing rule
	// ("sole recipient is one of the forwarders") must not make it eligible
	// for a P2P peer.
	noRcpt := len(d.To)+len(d.Cc) == 0
	if !okMID(d.MID) || !okAddr(d.From) || len(d.To)+len(d.Cc) > 8 {
		return nil, false
	}
	seen := map[string]bool{}
	var rcpt []string
	for _, a := range append(append([]string{}, d.To...), d.Cc...) {
		n := normAddr(a)
		if !okAddr(a) || seen[n] {
			return nil, false
		}
		seen[n] = true
		rcpt = append(rcpt, n)
	}
	m := fbb.NewMessage(fbb.Private, d.From)
	m.Header.Set(fbb.HEADER_MID, d.MID)
	m.SetDate(epoch.Add(time.Duration(d.DateMin%(20*365*24*60)) * time.Minute))
	m.AddTo(d.To...)
	m.AddCc(d.Cc...)
	subj := strings.Map(func(r rune) rune {
		if r < ' ' || r == 0x7f {
			return -1
		}
		return r
	}, d.Subject)
	if strings.TrimSpace(subj) == "" {
		subj = "s"
	}
	m.SetSubject(subj)
	body := d.Body
	if strings.Trim(body, "\r\n") == "" {
		body = "b" + body
	}
	if err := m.SetBody(body); err != nil {
		return nil, false
	}
	for _, f := range d.Files {
		if f.Name == "" || len(f.Name) > 60 || strings.ContainsAny(f.Name, "\r\n\x00") {
			return nil, false
		}
		m.AddFile(fbb.NewFile(f.Name, f.Data))
	}
	if err := m.Validate(); err != nil {
		if ve, isVE := err.(fbb.ValidationError); !noRcpt || !isVE || ve.Field != "To/Cc" {
			return nil, false
		}
	}
	pub, err := canonical(m)
	if err != nil {
		return nil, false
	}
	raw := pub
	if d.P2POnly {
		m.Header.Set("X-P2POnly", "true")
		if raw, err = canonical(m); err != nil {
			return nil, false
		}
	}
	return &built{def: d, raw: raw, public: pub, rcpt: rcpt}, true
}

// canonical is the serialisation of the parsed serialisation: what is compared
// is always a message that went through the parser once, so that questions of
// serialisation canonicity (C09, not claimed) do not leak into these checks.
func canonical(m *fbb.Message) ([]byte, error) {
	raw, err := m.Bytes()
	if err != nil {
		return nil, err
	}
	m2, err := parse(raw)
	if err != nil {
		return nil, err
	}
	return m2.Bytes()
}

func parse(raw []byte) (*fbb.Message, error) {
	m := new(fbb.Message)
	if err := m.ReadFrom(bytes.NewReader(raw)); err != nil {
		return nil, err
	}
	return m, nil
}

// fresh parses a new message object from the built bytes: the library mutates
// the objects it is given (ProcessInbound sets X-Unread on its argument).
func (b *built) fresh() *fbb.Message {
	m, err := parse(b.raw)
	if err != nil {
		panic("mboxsim: built message does not parse: " + err.Error())
	}
	return m
}

// storedBytes is what a message loaded from a folder must equal: its
// serialisation once the bookkeeping headers X-FilePath and X-Unread are taken
// off. (X-P2POnly is part of the message as it was added.) ok=false: the
// message does not serialise.
func storedBytes(m *fbb.Message) ([]byte, bool) {
	c := cloneMsg(m)
	if c == nil {
		return nil, false
	}
	c.Header.Del("X-FilePath")
	c.Header.Del("X-Unread")
	b, err := c.Bytes()
	return b, err == nil
}

// publicBytes is the message without any private header.
func publicBytes(m *fbb.Message) ([]byte, bool) {
	c := cloneMsg(m)
	if c == nil {
		return nil, false
	}
	for _, h := range privateHeaders {
		c.Header.Del(h)
	}
	b, err := c.Bytes()
	return b, err == nil
}

// cloneMsg copies a message through its serialisation, so that the original
// object (which the harness may still hand to the library) is not touched.
func cloneMsg(m *fbb.Message) *fbb.Message {
	raw, err := m.Bytes()
	if err != nil {
		return nil
	}
	c, err := parse(raw)
	if err != nil {
		return nil
	}
	return c
}

// ---------------------------------------------------------------------------
// generation

const alnum = "ABCDEFGHIJKLMNOPQRSTUVWXYZ0123456789"

// The small universe of C10/C11: six MIDs, four addresses in several spellings.
var midUniverse = []string{"AAAAAAAAAAA1", "B2", "CCCC3333CCCC", "D4D4D4", "E", "F6FBBF6FBB66", "aaaaaaaaaaa1", "b2", "f6fbbF6FBB66"}

// spellings[i] are different ways to write address i.
var spellings = [][]string{
	{"LA5NTA", "la5nta", "La5nta@Winlink.Org", "LA5NTA@winlink.org"},
	{"N0CALL-7", "n0call-7", "N0Call-7@WINLINK.ORG"},
	{"Foo.Bar@Example.org", "foo.bar@example.org", "SMTP:FOO.BAR@EXAMPLE.ORG"},
	{"W1AW", "w1aw@winlink.org"},
}

func genAddrForm(r *core.Rand, i int) string {
	return core.Choice(r, spellings[i%len(spellings)])
}

func genText(r *core.Rand, n int) string {
	var sb strings.Builder
	for i := 0; i < n; i++ {
		switch r.Pick(60, 6, 8, 3) {
		case 0:
			sb.WriteByte(byte(r.Range(0x21, 0x7e)))
		case 1:
			sb.WriteRune(rune(r.Range(0xa1, 0xff)))
		case 2:
			sb.WriteByte(' ')
		case 3:
			sb.WriteString("\r\n")
		}
	}
	return sb.String()
}

func genData(r *core.Rand, n int) []byte {
	switch r.Pick(3, 2, 1) {
	case 0:
		return r.Bytes(n)
	case 1:
		return []byte(genText(r, n))[:n]
	}
	return bytes.Repeat([]byte{byte(r.Intn(256))}, n)
}

// genMsg draws a message for MID mid. size scales body and attachments.
func genMsg(r *core.Rand, mid string, size int) MsgDef {
	d := MsgDef{MID: mid, From: core.Choice(r, []string{"LA1SIM", "N0SIM-7", "someone@example.net"}), DateMin: r.Intn(6 * 365 * 24 * 60)}
	switch r.Pick(12, 6, 2, 1) {
	case 3: // no recipient at all (AddOut accepts it)
	case 0: // one recipient: the P2P-eligible shape
		d.To = []string{genAddrForm(r, r.Intn(4))}
	case 1: // two or three distinct recipients
		perm := []int{0, 1, 2, 3}
		core.Shuffle(r, perm)
		n := r.Range(2, 3)
		for i := 0; i < n; i++ {
			if r.Chance(0.3) && len(d.To) > 0 {
				d.Cc = append(d.Cc, genAddrForm(r, perm[i]))
			} else {
				d.To = append(d.To, genAddrForm(r, perm[i]))
			}
		}
	case 2: // a single recipient in Cc
		d.Cc = []string{genAddrForm(r, r.Intn(4))}
	}
	d.P2POnly = r.Chance(0.3)
	d.Subject = core.Choice(r, []string{"Test", "Hälsning från Örebro", "//WL2K R/ traffic", "Re: your message of yesterday"}) + " " + string(alnum[r.Intn(len(alnum))])
	d.Body = genText(r, 1+r.Intn(size+1))
	for i, n := 0, r.Pick(6, 2, 1); i < n; i++ {
		sz := r.Intn(size + 1)
		if r.Chance(0.2) {
			sz = 0
		}
		d.Files = append(d.Files, FileDef{Name: core.Choice(r, []string{"a.txt", "IMG 0001.jpg", "blåbær.bin", "x"}), Data: genData(r, sz)})
	}
	return d
}
