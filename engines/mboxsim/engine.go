// Package mboxsim is the engine behind the directory-mailbox properties C10
// (model comparison over histories), C11 (crash at every file-system call and
// inside every write) and C12 (path confinement under hostile MIDs, direct-call
// arm): the real mailbox.DirHandler on the simulated disk sim/simfs, reached
// through the os / io/ioutil / log import swap.
package mboxsim

import (
	"encoding/json"
	"runtime/debug"
	"sync"
	"testing"

	"github.com/la5nta/wl2k-go/mailbox"
	"verif/sim/core"
	"verif/sim/simfs"
)

type Engine struct{}

func (Engine) Name() string { return "mboxsim" }

var realCode = []string{"mailbox (DirHandler, LoadMessageDir, OpenMessage, SetUnread, IsUnread)", "fbb (Message, Header, Address, Proposal: parsing and serialisation)", "lzhuf (inside fbb.NewProposal)"}
var stubCode = []string{"file system (sim/simfs behind the os and io/ioutil shims)", "log.Print*/log.Fatal* (sim/shim/log: recorded; Fatal* = recoverable process exit)", "clock (testing/synctest; only used for mtimes)"}
var assume = []string{
	"library runs on the Go 1.26.8 standard library, not 1.24.0",
	"the simulated disk follows Linux semantics for the calls the mailbox makes (validated differentially against the real package os on ext4: go test ./sim/shim/os)",
	"single-threaded use of one DirHandler (what a session does); the app and the session do not touch the mailbox at the same instant",
}

func (Engine) Info(prop string) core.Info {
	switch prop {
	case "C10":
		return core.Info{
			Level:        "exploration",
			Rule:         "one plan = one history of mailbox operations (AddOut, Prepare, GetOutbound for none/one/two forwarders, SetSent, SetDeferred, GetInboundAnswer, ProcessInbound, SetUnread, restart with a fresh DirHandler on the same disk) on the real DirHandler over the simulated disk, in normal or send-only mode, over 6 MIDs and 4 addresses in several spellings; after every operation the return value and all four folder listings and counts are compared with an executable reference model. The first run indices enumerate every sequence up to length 3 (quick) / 4 (thorough) over a 16-operation alphabet, in both modes; the rest are random histories of 10-60 (quick) / 10-300 (thorough) operations. Non-trivial: at least one message was stored and at least one query (GetOutbound or GetInboundAnswer) was compared. Distinct: distinct event-log hash (operations, results, folder contents). SetUnread is also repeated with changing flags on one and the same message object.",
			Real:         realCode,
			Stub:         stubCode,
			Assumptions:  assume,
			QuickRuns:    80000,
			ThoroughRuns: 700000,
			WatchdogSec:  120,
		}
	case "C11":
		return core.Info{
			Level:        "fault_enumeration",
			Rule:         "one plan = a seeded mailbox state (0-8 messages in in/out/sent, read and unread) plus one operation (ProcessInbound, AddOut, SetSent, SetUnread true/false, Prepare on an empty tree). A fault-free pilot records the file-system calls of the operation; then one execution per crash point: before and after every call and after every prefix length of every write (all prefixes up to 8 KiB per write, boundaries and a seeded sample above), and one execution per ENOSPC short-write length (boundaries and a seeded sample). After each, a fresh DirHandler + Prepare runs on the surviving tree and the recovery invariants are evaluated. Evaluations = executions. Non-trivial plan: at least one fault fired. Distinct: hash of (fault, surviving tree, recovery observations), at most 64 evenly spaced executions per plan are listed to bound the evidence size, so the distinct count is a lower bound. 35 % of the plans start from a mailbox in which an earlier store of another message died at a chosen call or inside a write (its leftovers are part of the contents); some stored files carry a foreign spelling of the extension (.B2F); every message the set-up stored must be listed after a plain restart.",
			Real:         realCode,
			Stub:         stubCode,
			Assumptions:  append([]string{"crash model = process death: completed calls survive, nothing is reordered, a write is torn at a byte (no power-loss reordering)"}, assume...),
			QuickRuns:    3000,
			ThoroughRuns: 40000,
			WatchdogSec:  300,
		}
	case "C12":
		return core.Info{
			Level:        "exploration",
			Rule:         "one plan = 1-10 direct calls (ProcessInbound with a hostile Mid header, GetInboundAnswer for a proposal with a hostile MID, SetSent, SetDeferred) on a DirHandler rooted at /sandbox/mbox on a disk that also holds decoys (/sandbox/mbox-evil/, /sandbox/victim.b2f, /sandbox/outside.b2f, /etc/passwd ...). MIDs are built from path separators, dot-dot segments, absolute paths, empty, 300-byte, non-ASCII, NUL, trailing dots, and benign controls. Every file-system call is logged; a call that changed the disk and names a cleaned path outside /sandbox/mbox is a violation. Non-trivial: at least one hostile MID reached a handler call that issued a file-system call. This is the direct-call arm; the end-to-end arm through a Session lives in fbbsim. Inbound messages also carry remote-chosen header fields (X-FilePath and relatives) with path values; MIDs include runs of multi-byte characters in front of a traversal.",
			Real:         realCode,
			Stub:         stubCode,
			Assumptions:  assume,
			QuickRuns:    300000,
			ThoroughRuns: 6000000,
			WatchdogSec:  120,
		}
	}
	return core.Info{}
}

func (Engine) Generate(prop, tier string, r *core.Rand, run int) any {
	switch prop {
	case "C10":
		return genC10(tier, r, run)
	case "C11":
		return genC11(tier, r, run)
	case "C12":
		return genC12(tier, r, run)
	}
	return nil
}

// swapActive checks once per process that the mailbox package really runs on
// the simulated disk (the binary was built with verifctl's import-swap overlay).
// Without the swap the library would work on the real file system: refuse.
var swapActive = sync.OnceValue(func() bool {
	d := simfs.New()
	simfs.Use(d)
	defer simfs.Use(nil)
	mailbox.OpenMessage("/verif-swap-probe/none.b2f") // read-only, fails harmlessly on either disk
	return d.Calls() > 0
})

func (Engine) Execute(t *testing.T, prop string, plan json.RawMessage, trace bool) core.Outcome {
	if !swapActive() {
		var o core.Outcome
		o.Violate(prop, "harness", "import-swap-not-active", "the mailbox package is not running on the simulated disk: build this engine through verifctl (overlay), not with a plain go test")
		return o
	}
	switch prop {
	case "C10":
		return execC10(t, prop, plan, trace)
	case "C11":
		return execC11(t, prop, plan, trace)
	case "C12":
		return execC12(t, prop, plan, trace)
	}
	var o core.Outcome
	o.Violate(prop, "harness", "unknown-property", "engine mboxsim does not serve "+prop)
	return o
}

func stackOf() string { return string(debug.Stack()) }
