package mboxsim

import (
	"bytes"
	"encoding/json"
	"fmt"
	"net/textproto"
	"sort"
	"strings"
	"testing"

	"github.com/la5nta/wl2k-go/fbb"
	"github.com/la5nta/wl2k-go/mailbox"
	"verif/sim/core"
	"verif/sim/simfs"
)

// ---------------------------------------------------------------------------
// plan

// C10Plan is one history.
type C10Plan struct {
	SendOnly bool     `json:"send_only,omitempty"`
	Root     string   `json:"root,omitempty"`
	Msgs     []MsgDef `json:"msgs"`
	Ops      []C10Op  `json:"ops"`
	Regime   string   `json:"regime,omitempty"` // "exhaustive" | "random" (informational)
}

// C10Op kinds: addout, prepare, getout, setsent, setdeferred, inbound (answer,
// then ProcessInbound if accepted: what a session does), process (ProcessInbound
// without asking), answer, setunread, restart.
type C10Op struct {
	K  string   `json:"k"`
	M  int      `json:"m,omitempty"`  // index into Msgs (taken modulo)
	Ms []int    `json:"ms,omitempty"` // process: further messages of the same call
	Fw []string `json:"fw,omitempty"` // getout: forwarder addresses as announced by the remote
	B  bool     `json:"b,omitempty"`  // setsent: rejected; setunread: unread
	F  string   `json:"f,omitempty"`  // setunread: folder in|out|sent
	SO int      `json:"so,omitempty"` // restart: 0 keep mode, 1 normal, 2 send-only
	// Again (setunread): further SetUnread calls with these flags on the very
	// same message object (a reader marks, unmarks, marks without listing again).
	Again []bool `json:"again,omitempty"`
}

// ---------------------------------------------------------------------------
// reference model (the property's "simple mailbox model")

type mStored struct {
	b      *built
	unread bool
}

type model struct {
	sendOnly bool
	folder   map[string]map[string]*mStored // in, out, sent, archive -> MID -> message
	deferred map[string]bool
}

func newModel(sendOnly bool) *model {
	m := &model{sendOnly: sendOnly, deferred: map[string]bool{}, folder: map[string]map[string]*mStored{}}
	for _, f := range folders {
		m.folder[f] = map[string]*mStored{}
	}
	return m
}

var folders = []string{"in", "out", "sent", "archive"}

func (m *model) prepare() { m.deferred = map[string]bool{} }

func (m *model) addOut(b *built) { m.folder["out"][b.def.MID] = &mStored{b: b} }

func (m *model) inbound(b *built) { m.folder["in"][b.def.MID] = &mStored{b: b, unread: true} }

func (m *model) answer(mid string) fbb.ProposalAnswer {
	switch {
	case m.sendOnly:
		return fbb.Defer
	case m.folder["in"][mid] != nil:
		return fbb.Reject
	}
	return fbb.Accept
}

func (m *model) setSent(mid string) {
	m.folder["sent"][mid] = m.folder["out"][mid]
	delete(m.folder["out"], mid)
}

// outbound returns the MIDs eligible for a remote that announced fws.
func (m *model) outbound(fws []string) []string {
	var want []string
	for _, mid := range core.SortedKeys(m.folder["out"]) {
		s := m.folder["out"][mid]
		if m.deferred[mid] {
			continue
		}
		if len(fws) == 0 {
			if !s.b.def.P2POnly {
				want = append(want, mid)
			}
			continue
		}
		if len(s.b.rcpt) != 1 {
			continue
		}
		for _, fw := range fws {
			if s.b.rcpt[0] == normAddr(fw) {
				want = append(want, mid)
				break
			}
		}
	}
	return want
}

// ---------------------------------------------------------------------------
// executor

type c10run struct {
	sim   *core.Sim
	prop  string
	disk  *simfs.FS
	root  string
	h     *mailbox.DirHandler
	m     *model
	msgs  []*built
	stop  bool // a state-level mismatch was reported: later comparisons would only echo it
	nStor int
	nQry  int
	opNo  int
	opStr string
}

func (c *c10run) violate(diverges bool, oracle, detail, format string, args ...any) {
	c.sim.Violate(c.prop, oracle, detail, "op #%d %s: %s", c.opNo, c.opStr, fmt.Sprintf(format, args...))
	if diverges {
		c.stop = true
	}
}

// call runs one library call; a panic or a simulated exit is reported and ends the run.
func (c *c10run) call(what string, f func()) (ok bool) {
	defer func() {
		if r := recover(); r != nil {
			if d, isDeath := simfs.IsDeath(r); isDeath {
				c.disk.Revive()
				c.violate(true, "process-exit", what, "the library ended the process (%s: %s) on a call the contract allows", d.Reason, d.Msg)
			} else {
				st := stackOf()
				c.violate(true, "panic", core.PanicClass(r)+"@"+core.RepoFrame(st), "%s panicked: %v\n%s", what, r, st)
			}
			ok = false
		}
	}()
	f()
	return true
}

func (c *c10run) newHandler(sendOnly bool) {
	c.h = mailbox.NewDirHandler(c.root, sendOnly)
	c.m.sendOnly = sendOnly
	c.m.prepare()
	var err error
	if c.call("Prepare", func() { err = c.h.Prepare() }) && err != nil {
		c.violate(true, "return-value", "Prepare-error", "Prepare returned %v", err)
	}
}

func proposalFor(mid string) fbb.Proposal {
	return *fbb.NewProposal(mid, "title", fbb.Wl2kProposal, []byte("x"))
}

func ansName(a fbb.ProposalAnswer) string {
	switch a {
	case fbb.Accept:
		return "Accept"
	case fbb.Reject:
		return "Reject"
	case fbb.Defer:
		return "Defer"
	}
	return fmt.Sprintf("answer(%d)", a)
}

func (c *c10run) checkAnswer(mid string) fbb.ProposalAnswer {
	var got fbb.ProposalAnswer
	if !c.call("GetInboundAnswer", func() { got = c.h.GetInboundAnswer(proposalFor(mid)) }) {
		return 0
	}
	c.nQry++
	want := c.m.answer(mid)
	c.sim.Logf("answer %s -> %s", mid, ansName(got))
	if got != want {
		detail := "other"
		switch {
		case c.m.sendOnly:
			detail = "not-deferred-in-send-only"
		case want == fbb.Reject:
			detail = "duplicate-not-rejected"
		case got == fbb.Reject:
			detail = "unknown-mid-rejected"
		case got == fbb.Defer:
			detail = "deferred-in-normal-mode"
		}
		c.violate(true, "inbound-answer", detail, "GetInboundAnswer(%s) = %s, model says %s (send-only=%v, in inbox=%v)", mid, ansName(got), ansName(want), c.m.sendOnly, c.m.folder["in"][mid] != nil)
	}
	return got
}

func (c *c10run) processInbound(bs []*built) {
	var ms []*fbb.Message
	var mids []string
	for _, b := range bs {
		ms = append(ms, b.fresh())
		mids = append(mids, b.def.MID)
	}
	var err error
	if !c.call("ProcessInbound", func() { err = c.h.ProcessInbound(ms...) }) {
		return
	}
	c.sim.Logf("processinbound %v -> %v", mids, err)
	if err != nil {
		c.violate(true, "return-value", "ProcessInbound-error", "ProcessInbound(%v) returned %v on a healthy disk", mids, err)
		return
	}
	for _, b := range bs {
		c.m.inbound(b)
		c.nStor++
	}
}

func (c *c10run) getOutbound(fws []string) {
	var addrs []fbb.Address
	var clean []string
	for _, f := range fws {
		if okAddr(f) {
			addrs = append(addrs, fbb.AddressFromString(f))
			clean = append(clean, f)
		}
	}
	regime := "cms"
	if len(addrs) > 0 {
		regime = "p2p"
	}
	var got []*fbb.Message
	if !c.call("GetOutbound", func() { got = c.h.GetOutbound(addrs...) }) {
		return
	}
	c.nQry++
	want := c.m.outbound(clean)
	gotMIDs := map[string]int{}
	for _, m := range got {
		gotMIDs[m.MID()]++
	}
	c.sim.Logf("getoutbound %v -> %v", clean, core.SortedKeys(gotMIDs))
	wantSet := map[string]bool{}
	for _, mid := range want {
		wantSet[mid] = true
		if gotMIDs[mid] == 0 {
			detail := "eligible-missing"
			if c.m.folder["out"][mid].b.def.P2POnly {
				detail = "eligible-p2ponly-missing"
			}
			c.violate(false, "outbound-query-"+regime, detail, "GetOutbound(%v) did not return %s, which is eligible (recipients %v, p2p-only=%v, deferred=%v); got %v", clean, mid, c.m.folder["out"][mid].b.rcpt, c.m.folder["out"][mid].b.def.P2POnly, c.m.deferred[mid], core.SortedKeys(gotMIDs))
		}
	}
	for _, mid := range core.SortedKeys(gotMIDs) {
		if gotMIDs[mid] > 1 {
			c.violate(false, "outbound-query-"+regime, "returned-twice", "GetOutbound(%v) returned %s %d times", clean, mid, gotMIDs[mid])
		}
		if wantSet[mid] {
			continue
		}
		s := c.m.folder["out"][mid]
		detail := "not-in-outbox"
		switch {
		case s == nil:
		case c.m.deferred[mid]:
			detail = "deferred-returned"
		case regime == "cms" && s.b.def.P2POnly:
			detail = "p2ponly-returned-to-cms"
		case regime == "p2p" && len(s.b.rcpt) != 1:
			detail = "not-sole-recipient"
		default:
			detail = "not-addressed-to-forwarder"
		}
		c.violate(false, "outbound-query-"+regime, detail, "GetOutbound(%v) returned %s, which is not eligible (model: %v)", clean, mid, want)
	}
	for _, m := range got {
		var priv []string
		for _, h := range privateHeaders {
			if _, present := m.Header[textproto.CanonicalMIMEHeaderKey(h)]; present {
				priv = append(priv, h)
			}
		}
		if len(priv) > 0 {
			c.sim.Probe("private-header-on-" + regime)
			c.violate(false, "outbound-private-headers", regime, "GetOutbound(%v) returned %s carrying mailbox-private header(s) %v", clean, m.MID(), priv)
		}
		s := c.m.folder["out"][m.MID()]
		if s == nil {
			continue
		}
		if pb, ok := publicBytes(m); !ok || !bytes.Equal(pb, s.b.public) {
			c.violate(false, "outbound-content", regime, "GetOutbound(%v) returned %s with content that differs from what was added (%d vs %d bytes)", clean, m.MID(), len(pb), len(s.b.public))
		}
	}
	if len(want) > 0 {
		c.sim.Probe("outbound-nonempty-" + regime)
	}
}

func listFolder(h *mailbox.DirHandler, f string) ([]*fbb.Message, error) {
	switch f {
	case "in":
		return h.Inbox()
	case "out":
		return h.Outbox()
	case "sent":
		return h.Sent()
	}
	return h.Archive()
}

func countFolder(h *mailbox.DirHandler, f string) int {
	switch f {
	case "in":
		return h.InboxCount()
	case "out":
		return h.OutboxCount()
	case "sent":
		return h.SentCount()
	}
	return h.ArchiveCount()
}

// checkFolders compares all four listings and counts with the model.
func (c *c10run) checkFolders() {
	var summary []string
	for _, f := range folders {
		var got []*fbb.Message
		var err error
		if !c.call("list-"+f, func() { got, err = listFolder(c.h, f) }) {
			return
		}
		want := c.m.folder[f]
		if err != nil {
			c.violate(true, "folder-listing", f+"-load-error", "%s listing failed: %v", f, err)
			continue
		}
		seen := map[string]int{}
		for _, m := range got {
			mid := m.MID()
			seen[mid]++
			s := want[mid]
			if s == nil {
				c.violate(true, "folder-listing", f+"-extra", "%s lists %s, which the model does not have there (model: %v)", f, mid, core.SortedKeys(want))
				continue
			}
			if sb, ok := storedBytes(m); !ok || !bytes.Equal(sb, s.b.raw) {
				c.violate(true, "folder-listing", f+"-content", "%s: message %s is not stored intact (%d bytes, want %d)", f, mid, len(sb), len(s.b.raw))
			}
			if mailbox.IsUnread(m) != s.unread {
				c.violate(true, "folder-listing", f+"-unread-flag", "%s: message %s unread=%v, model says %v", f, mid, mailbox.IsUnread(m), s.unread)
			}
		}
		for _, mid := range core.SortedKeys(want) {
			switch seen[mid] {
			case 1:
			case 0:
				c.violate(true, "folder-listing", f+"-missing", "%s does not list %s (lists %v)", f, mid, core.SortedKeys(seen))
			default:
				c.violate(true, "folder-listing", f+"-duplicate", "%s lists %s %d times", f, mid, seen[mid])
			}
		}
		var n int
		if !c.call("count-"+f, func() { n = countFolder(c.h, f) }) {
			return
		}
		if n != len(want) {
			c.violate(true, "folder-count", f, "%s count = %d, model says %d", f, n, len(want))
		}
		summary = append(summary, fmt.Sprintf("%s=%v/%d", f, core.SortedKeys(seen), n))
	}
	// the property's partition invariant, stated on the real listings
	c.sim.Logf("folders %s", strings.Join(summary, " "))
}

func (c *c10run) msg(i int) *built {
	if len(c.msgs) == 0 {
		return nil
	}
	return c.msgs[mod(i, len(c.msgs))]
}

func (c *c10run) step(op C10Op) {
	switch op.K {
	case "addout":
		b := c.msg(op.M)
		if b == nil || c.m.folder["sent"][b.def.MID] != nil {
			return // MIDs are unique: a message that was sent is not added again
		}
		var err error
		if !c.call("AddOut", func() { err = c.h.AddOut(b.fresh()) }) {
			return
		}
		c.sim.Logf("addout %s -> %v", b.def.MID, err)
		if err != nil {
			c.violate(true, "return-value", "AddOut-error", "AddOut(%s) returned %v on a healthy disk", b.def.MID, err)
			return
		}
		c.m.addOut(b)
		c.nStor++
	case "prepare":
		var err error
		if !c.call("Prepare", func() { err = c.h.Prepare() }) {
			return
		}
		c.sim.Logf("prepare -> %v", err)
		if err != nil {
			c.violate(true, "return-value", "Prepare-error", "Prepare returned %v", err)
		}
		c.m.prepare()
	case "getout":
		c.getOutbound(op.Fw)
	case "setsent":
		b := c.msg(op.M)
		if b == nil || c.m.folder["out"][b.def.MID] == nil {
			return // anything else is log.Fatalf by contract
		}
		if !c.call("SetSent", func() { c.h.SetSent(b.def.MID, op.B) }) {
			return
		}
		c.sim.Logf("setsent %s rejected=%v", b.def.MID, op.B)
		c.m.setSent(b.def.MID)
	case "setdeferred":
		b := c.msg(op.M)
		if b == nil || c.m.folder["out"][b.def.MID] == nil {
			return // a session only defers what it proposed
		}
		if !c.call("SetDeferred", func() { c.h.SetDeferred(b.def.MID) }) {
			return
		}
		c.sim.Logf("setdeferred %s", b.def.MID)
		c.m.deferred[b.def.MID] = true
	case "answer":
		if b := c.msg(op.M); b != nil {
			c.checkAnswer(b.def.MID)
		}
	case "inbound":
		b := c.msg(op.M)
		if b == nil {
			return
		}
		if c.checkAnswer(b.def.MID) == fbb.Accept && !c.stop {
			c.processInbound([]*built{b})
		}
	case "process":
		b := c.msg(op.M)
		if b == nil {
			return
		}
		bs := []*built{b}
		used := map[string]bool{b.def.MID: true}
		for _, i := range op.Ms {
			if x := c.msg(i); x != nil && !used[x.def.MID] && len(bs) < 4 {
				used[x.def.MID] = true
				bs = append(bs, x)
			}
		}
		c.processInbound(bs)
	case "setunread":
		b := c.msg(op.M)
		f := op.F
		if f != "out" && f != "sent" {
			f = "in"
		}
		if b == nil || c.m.folder[f][b.def.MID] == nil {
			return
		}
		var list []*fbb.Message
		var err error
		if !c.call("list-"+f, func() { list, err = listFolder(c.h, f) }) || err != nil {
			return // reported by checkFolders
		}
		for _, m := range list {
			if m.MID() != b.def.MID {
				continue
			}
			var serr error
			if !c.call("SetUnread", func() { serr = mailbox.SetUnread(m, op.B) }) {
				return
			}
			c.sim.Logf("setunread %s/%s %v -> %v", f, b.def.MID, op.B, serr)
			if serr != nil {
				c.violate(true, "return-value", "SetUnread-error", "SetUnread(%s/%s, %v) returned %v on a healthy disk", f, b.def.MID, op.B, serr)
				return
			}
			if mailbox.IsUnread(m) != op.B {
				c.violate(false, "unread-flag", "not-updated-on-object", "after SetUnread(%v) IsUnread on the same object says %v", op.B, mailbox.IsUnread(m))
			}
			c.m.folder[f][b.def.MID].unread = op.B
			for k, flag := range op.Again {
				if k >= 6 {
					break
				}
				c.sim.Probe("setunread-again-on-the-same-object")
				if !c.call("SetUnread", func() { serr = mailbox.SetUnread(m, flag) }) {
					return
				}
				c.sim.Logf("setunread again %s/%s %v -> %v", f, b.def.MID, flag, serr)
				if serr != nil {
					c.violate(true, "return-value", "SetUnread-error-on-repeated-call", "SetUnread(%s/%s, %v), call %d on the same message object, returned %v on a healthy disk", f, b.def.MID, flag, k+2, serr)
					return
				}
				if mailbox.IsUnread(m) != flag {
					c.violate(false, "unread-flag", "not-updated-on-object", "after SetUnread(%v) IsUnread on the same object says %v", flag, mailbox.IsUnread(m))
				}
				c.m.folder[f][b.def.MID].unread = flag
			}
			break
		}
	case "restart":
		so := c.m.sendOnly
		switch op.SO {
		case 1:
			so = false
		case 2:
			so = true
		}
		c.sim.Logf("restart send-only=%v", so)
		c.sim.Probe("restart")
		c.newHandler(so)
	default:
		return
	}
}

func opString(op C10Op, msgs []*built) string {
	mid := func(i int) string {
		if len(msgs) == 0 {
			return "?"
		}
		return msgs[mod(i, len(msgs))].def.MID
	}
	switch op.K {
	case "getout":
		return fmt.Sprintf("GetOutbound(%v)", op.Fw)
	case "setsent":
		return fmt.Sprintf("SetSent(%s,%v)", mid(op.M), op.B)
	case "setunread":
		return fmt.Sprintf("SetUnread(%s/%s,%v)", op.F, mid(op.M), op.B)
	case "restart":
		return fmt.Sprintf("restart(mode %d)", op.SO)
	case "prepare":
		return "Prepare()"
	}
	return fmt.Sprintf("%s(%s)", op.K, mid(op.M))
}

type c10sample struct {
	Regime   string   `json:"regime"`
	SendOnly bool     `json:"send_only"`
	Msgs     int      `json:"msgs"`
	Ops      []string `json:"ops"`
}

const maxC10Ops = 2000

func execC10(t *testing.T, prop string, raw json.RawMessage, trace bool) core.Outcome {
	var plan C10Plan
	var out core.Outcome
	if err := json.Unmarshal(raw, &plan); err != nil {
		out.Violate(prop, "harness", "bad-plan", fmt.Sprint("unusable plan: ", err))
		return out
	}
	if len(plan.Ops) > maxC10Ops {
		plan.Ops = plan.Ops[:maxC10Ops]
	}
	root := plan.Root
	if !strings.HasPrefix(root, "/") || strings.ContainsAny(root, "\x00") || len(root) > 200 {
		root = "/var/mbox/N0SIM"
	}
	leak, pv, stack := core.Bubble(t, trace, func(sim *core.Sim) {
		disk := simfs.New()
		disk.PutDir("/tmp")
		simfs.Use(disk)
		defer simfs.Use(nil)
		c := &c10run{sim: sim, prop: prop, disk: disk, root: root, m: newModel(plan.SendOnly)}
		for _, d := range plan.Msgs {
			if b, ok := d.build(); ok {
				c.msgs = append(c.msgs, b)
			}
		}
		c.opStr = "start"
		c.newHandler(plan.SendOnly)
		c.checkFolders()
		var shown []string
		for i, op := range plan.Ops {
			if c.stop {
				break
			}
			c.opNo, c.opStr = i+1, opString(op, c.msgs)
			if len(shown) < 12 {
				shown = append(shown, c.opStr)
			}
			c.step(op)
			if !c.stop {
				c.checkFolders()
			}
		}
		if c.m.sendOnly {
			sim.Probe("send-only-run")
		}
		out.NonTrivial = c.nStor > 0 && c.nQry > 0
		out.Sample = c10sample{Regime: plan.Regime, SendOnly: plan.SendOnly, Msgs: len(c.msgs), Ops: shown}
		sim.FillOutcome(&out)
	})
	if pv != nil {
		out.Violate(prop, "harness", "bubble-panic", fmt.Sprintf("%v\n%s", pv, stack))
	}
	if leak {
		out.Violate(prop, "harness", "goroutines-left-blocked", "goroutines were still blocked when the run ended")
	}
	return out
}

// ---------------------------------------------------------------------------
// generator

// exhaustive alphabet: every sequence of these up to a bounded length is run
// from an empty mailbox (the property's "exhaustively up to a bounded length").
// Message 0 has the single recipient LA5NTA, message 1 is P2P-only for N0CALL-7.
func exhAlphabet() []C10Op {
	return []C10Op{
		{K: "addout", M: 0},
		{K: "addout", M: 1},
		{K: "prepare"},
		{K: "getout"},
		{K: "getout", Fw: []string{"la5nta"}},
		{K: "getout", Fw: []string{"W1AW", "n0call-7@winlink.org"}},
		{K: "setsent", M: 0},
		{K: "setsent", M: 1, B: true},
		{K: "setdeferred", M: 0},
		{K: "setdeferred", M: 1},
		{K: "inbound", M: 0},
		{K: "answer", M: 0},
		{K: "process", M: 1},
		{K: "setunread", M: 0, F: "in", B: false},
		{K: "setunread", M: 0, F: "in", B: true},
		{K: "restart"},
	}
}

func exhMsgs() []MsgDef {
	return []MsgDef{
		{MID: midUniverse[0], From: "LA1SIM", To: []string{"LA5NTA@winlink.org"}, Subject: "one", Body: "first message\r\n"},
		{MID: midUniverse[1], From: "LA1SIM", To: []string{"N0Call-7"}, Subject: "two", Body: "second message, for a peer only\r\n", P2POnly: true, Files: []FileDef{{Name: "a.bin", Data: []byte{0, 1, 2, 255}}}},
	}
}

// exhCount is the number of sequences of length 1..maxLen.
func exhCount(maxLen int) int {
	n, p := 0, 1
	for l := 1; l <= maxLen; l++ {
		p *= len(exhAlphabet())
		n += p
	}
	return n
}

func exhMaxLen(tier string) int {
	if tier == "thorough" {
		return 4
	}
	return 3
}

func genC10(tier string, r *core.Rand, run int) C10Plan {
	if maxLen := exhMaxLen(tier); run < 2*exhCount(maxLen) {
		// exhaustive regime, once in normal and once in send-only mode
		idx := run % exhCount(maxLen)
		alpha := exhAlphabet()
		length, p := 1, len(alpha)
		for idx >= p {
			idx -= p
			p *= len(alpha)
			length++
		}
		plan := C10Plan{Regime: "exhaustive", SendOnly: run >= exhCount(maxLen), Msgs: exhMsgs()}
		for i := 0; i < length; i++ {
			plan.Ops = append(plan.Ops, alpha[idx%len(alpha)])
			idx /= len(alpha)
		}
		return plan
	}
	plan := C10Plan{Regime: "random", SendOnly: r.Chance(0.25)}
	if r.Chance(0.2) {
		plan.Root = core.Choice(r, []string{"/mbox", "/home/sim/.wl2k/mailbox/LA1SIM/", "/var/spool/wl2k//N0SIM"})
	}
	size := r.Range(10, 400)
	if tier == "thorough" && r.Chance(0.2) {
		size = r.Range(400, 20000)
	}
	// 6 MIDs; some MIDs get a second definition (an inbound and an outbound
	// message may share a MID; a re-added draft may have new content)
	nm := r.Range(2, len(midUniverse))
	for i := 0; i < nm; i++ {
		plan.Msgs = append(plan.Msgs, genMsg(r, midUniverse[i], size))
	}
	for i, k := 0, r.Intn(3); i < k; i++ {
		plan.Msgs = append(plan.Msgs, genMsg(r, midUniverse[r.Intn(nm)], size))
	}
	n := r.Range(10, 60)
	if tier == "thorough" {
		n = r.Range(10, 300)
	}
	// forwarder lists: none / {A} / {A,B}
	fwList := func() []string {
		switch r.Pick(8, 6, 6, 2) {
		case 0:
			return nil
		case 1:
			return []string{genAddrForm(r, r.Intn(4))}
		case 3:
			// a remote may announce the same address twice, or in two spellings
			// (;FW: N0CALL n0call@winlink.org), possibly among others
			a := r.Intn(4)
			l := []string{genAddrForm(r, a), genAddrForm(r, a)}
			if r.Bool() {
				l = append(l, genAddrForm(r, a+1+r.Intn(3)))
				core.Shuffle(r, l)
			}
			return l
		}
		a := r.Intn(4)
		return []string{genAddrForm(r, a), genAddrForm(r, a+1+r.Intn(3))}
	}
	// swarm: per-run weights
	w := []int{r.Range(2, 8), r.Range(0, 3), r.Range(3, 8), r.Range(1, 5), r.Range(0, 3), r.Range(1, 3), r.Range(2, 6), r.Range(0, 2), r.Range(1, 4), r.Range(0, 3)}
	for i := 0; i < n; i++ {
		m := r.Intn(len(plan.Msgs))
		switch r.Pick(w...) {
		case 0:
			plan.Ops = append(plan.Ops, C10Op{K: "addout", M: m})
		case 1:
			plan.Ops = append(plan.Ops, C10Op{K: "prepare"})
		case 2:
			plan.Ops = append(plan.Ops, C10Op{K: "getout", Fw: fwList()})
		case 3:
			plan.Ops = append(plan.Ops, C10Op{K: "setsent", M: m, B: r.Chance(0.3)})
		case 4:
			plan.Ops = append(plan.Ops, C10Op{K: "setdeferred", M: m})
		case 5:
			plan.Ops = append(plan.Ops, C10Op{K: "answer", M: m})
		case 6:
			plan.Ops = append(plan.Ops, C10Op{K: "inbound", M: m})
		case 7:
			op := C10Op{K: "process", M: m}
			for j, k := 0, r.Intn(3); j < k; j++ {
				op.Ms = append(op.Ms, r.Intn(len(plan.Msgs)))
			}
			plan.Ops = append(plan.Ops, op)
		case 8:
			plan.Ops = append(plan.Ops, C10Op{K: "setunread", M: m, B: r.Bool(), F: []string{"in", "in", "in", "out", "sent"}[r.Intn(5)]})
			if r.Chance(0.35) {
				last := &plan.Ops[len(plan.Ops)-1]
				flag := last.B
				for k := r.Range(1, 3); k > 0; k-- {
					if r.Chance(0.8) {
						flag = !flag
					}
					last.Again = append(last.Again, flag)
				}
			}
		case 9:
			so := 0
			if r.Chance(0.25) {
				so = r.Range(1, 2)
			}
			plan.Ops = append(plan.Ops, C10Op{K: "restart", SO: so})
		}
	}
	return plan
}

// mod is the non-negative remainder (plans may hold any integer).
func mod(i, n int) int {
	if n <= 0 {
		return 0
	}
	return ((i % n) + n) % n
}

func sortedStrings(s []string) []string {
	c := append([]string(nil), s...)
	sort.Strings(c)
	return c
}
