package mboxsim

import (
	"bytes"
	"crypto/sha256"
	"encoding/hex"
	"encoding/json"
	"fmt"
	"sort"
	"strings"
	"testing"

	"github.com/la5nta/wl2k-go/fbb"
	"github.com/la5nta/wl2k-go/mailbox"
	"verif/sim/core"
	"verif/sim/simfs"
)

// ---------------------------------------------------------------------------
// plan

// C11Plan is a scenario: mailbox state + one operation. With Enumerate (set by
// the generator) the executor runs every crash point and ENOSPC point of the
// operation; otherwise it executes exactly Fault (this is the replay form: a
// narrowed plan never enumerates, so the reducer cannot trade the one crash
// point for "all of them").
type C11Plan struct {
	Enumerate bool         `json:"enumerate,omitempty"`
	Root      string       `json:"root,omitempty"`
	Msgs      []MsgDef     `json:"msgs"`
	State     []C11Item    `json:"state,omitempty"`
	Op        C11Op        `json:"op"`
	Sample    []int        `json:"sample,omitempty"`  // torn-write prefixes above 8 KiB, as positions in [0, 2^20)
	ESample   []int        `json:"esample,omitempty"` // ENOSPC short-write lengths, as positions in [0, 2^20)
	Fault     *simfs.Fault `json:"fault,omitempty"`
	// Pre: the mailbox has a history: an earlier store (inbound | addout of
	// message Pre.M) died at the chosen point; what that left behind is part of
	// the contents the operation under test starts from.
	Pre *C11Pre `json:"pre,omitempty"`
	// TmpOtherFS: the system's temporary directory (/tmp) is a file system of
	// its own (tmpfs), the mailbox is not on it: a rename between the two
	// fails with EXDEV.
	TmpOtherFS bool `json:"tmp_other_fs,omitempty"`
}

// C11Pre: Call selects one of the earlier operation's file-system calls (mod
// their number); Torn > 0 and a write: the process died inside it after that
// share of its bytes (position in [0, 2^20)), otherwise right after the call.
type C11Pre struct {
	K    string `json:"k"`
	M    int    `json:"m"`
	Call int    `json:"call"`
	Torn int    `json:"torn,omitempty"`
}

// C11Item places message M (index into Msgs) in a folder before the operation.
type C11Item struct {
	M    int    `json:"m"`
	F    string `json:"f"` // in | out | sent
	Read bool   `json:"read,omitempty"`
	// Ext: the file got there by other means (copied from another client):
	// its extension is spelled like this (".B2F", ".b2F"); the mailbox lists
	// such files like its own.
	Ext string `json:"ext,omitempty"`
}

// C11Op kinds: inbound (ProcessInbound of message M), addout (AddOut of message
// M), setsent (the M-th message of the outbox), setunread (the M-th message of
// the inbox, flag B), prepare (Prepare on a disk without the mailbox tree).
type C11Op struct {
	K string `json:"k"`
	M int    `json:"m,omitempty"`
	B bool   `json:"b,omitempty"`
}

const fullPrefixLimit = 8192

// maxHashes bounds the per-execution hashes a plan reports (evidence size).
const maxHashes = 64

// ---------------------------------------------------------------------------
// scenario set-up

type baseMsg struct {
	stored []byte
	unread bool
	path   string
}

type c11ctx struct {
	plan     C11Plan
	root     string
	prop     string
	base     *simfs.FS
	baseline map[string]map[string]baseMsg // folder -> MID -> message as loaded before the operation
	opName   string
	requeue  bool   // AddOut of a MID that is already in sent/ (resend)
	target   string // MID the operation is about ("" for prepare)
	newMsg   *built // inbound / addout: the message being stored
	full     []byte // inbound: the complete file content a fault-free ProcessInbound leaves
	pilot    []simfs.Op
	// setupGone: a message the set-up stored is missing from the first listing
	setupGone string
}

func orExt(e string) string {
	if e == "" {
		return mailbox.Ext
	}
	return e
}

func guard(f func()) (died any, panicked any, stack string) {
	defer func() {
		if r := recover(); r != nil {
			if simfs.IsProcessDeath(r) {
				died = r
			} else {
				panicked, stack = r, stackOf()
			}
		}
	}()
	f()
	return
}

// loadAll lists in/out/sent through a fresh handler.
func loadAll(root string) (map[string]map[string]baseMsg, error) {
	h := mailbox.NewDirHandler(root, false)
	if err := h.Prepare(); err != nil {
		return nil, err
	}
	res := map[string]map[string]baseMsg{}
	for _, f := range []string{"in", "out", "sent"} {
		list, err := listFolder(h, f)
		if err != nil {
			return nil, err
		}
		res[f] = map[string]baseMsg{}
		for _, m := range list {
			sb, ok := storedBytes(m)
			if !ok {
				return nil, fmt.Errorf("stored message %s does not serialise", m.MID())
			}
			res[f][m.MID()] = baseMsg{stored: sb, unread: mailbox.IsUnread(m), path: m.Header.Get("X-FilePath")}
		}
	}
	return res, nil
}

// setup builds the base disk with the library itself and decides the concrete
// operation. ok=false: the scenario has nothing to execute (a trivial plan).
func (x *c11ctx) setup(sim *core.Sim) (ok bool) {
	plan := x.plan
	disk := simfs.New()
	disk.PutDir("/tmp")
	if plan.TmpOtherFS && !simfs.Under("/tmp", x.root) {
		disk.Mount("/tmp")
		sim.Probe("temporary-directory-on-another-file-system")
	}
	simfs.Use(disk)
	var msgs []*built
	for _, d := range plan.Msgs {
		if b, ok := d.build(); ok {
			msgs = append(msgs, b)
		}
	}
	pick := func(i int) *built {
		if len(msgs) == 0 {
			return nil
		}
		return msgs[mod(i, len(msgs))]
	}
	x.baseline = map[string]map[string]baseMsg{"in": {}, "out": {}, "sent": {}}
	if plan.Op.K != "prepare" {
		var err error
		died, pv, _ := guard(func() {
			h := mailbox.NewDirHandler(x.root, false)
			if err = h.Prepare(); err != nil {
				return
			}
			inbox, outbound := map[string]bool{}, map[string]bool{}
			var placed [][3]string // folder, MID, extension of what the set-up stored
			items := plan.State
			if len(items) > 24 {
				items = items[:24]
			}
			for _, it := range items {
				b := pick(it.M)
				if b == nil {
					continue
				}
				switch it.F {
				case "in":
					if inbox[b.def.MID] {
						continue
					}
					inbox[b.def.MID] = true
					if err = h.ProcessInbound(b.fresh()); err != nil {
						return
					}
					if it.Read {
						var list []*fbb.Message
						if list, err = h.Inbox(); err != nil {
							return
						}
						for _, m := range list {
							if m.MID() == b.def.MID {
								if err = mailbox.SetUnread(m, false); err != nil {
									return
								}
							}
						}
					}
				case "out", "sent":
					if outbound[b.def.MID] {
						continue
					}
					outbound[b.def.MID] = true
					if err = h.AddOut(b.fresh()); err != nil {
						return
					}
					if it.F == "sent" {
						h.SetSent(b.def.MID, false)
					}
				}
				placed = append(placed, [3]string{it.F, b.def.MID, it.Ext})
			}
			for _, it := range items {
				b := pick(it.M)
				if b == nil || !strings.EqualFold(it.Ext, mailbox.Ext) || it.Ext == mailbox.Ext {
					continue
				}
				from := x.root + "/" + it.F + "/" + b.def.MID + mailbox.Ext
				if _, serr := disk.Stat(from); serr == nil {
					if disk.Rename(from, x.root+"/"+it.F+"/"+b.def.MID+it.Ext) == nil {
						sim.Probe("stored-message-with-foreign-spelling-of-the-extension")
					}
				}
			}
			if plan.Pre != nil {
				x.earlierCrash(sim, disk, pick(plan.Pre.M))
			}
			x.baseline, err = loadAll(x.root)
			if err == nil {
				// what the set-up stored is what a fresh start must list
				for _, pl := range placed {
					if _, ok := x.baseline[pl[0]][pl[1]]; !ok && x.setupGone == "" {
						x.setupGone = fmt.Sprintf("message %s was stored in %s/ (extension %q); after a plain restart (new handler, Prepare) the folder does not list it", pl[1], pl[0], orExt(pl[2]))
					}
				}
			}
		})
		if died != nil || pv != nil || err != nil {
			sim.Logf("setup unusable: died=%v panic=%v err=%v", died, pv, err)
			return false
		}
	}
	x.base = disk
	switch plan.Op.K {
	case "inbound":
		b := pick(plan.Op.M)
		if b == nil {
			return false
		}
		if _, dup := x.baseline["in"][b.def.MID]; dup {
			return false // a session rejects the proposal; the message is never stored twice
		}
		x.opName, x.target, x.newMsg = "ProcessInbound", b.def.MID, b
	case "addout":
		b := pick(plan.Op.M)
		if b == nil {
			return false
		}
		_, o := x.baseline["out"][b.def.MID]
		_, s := x.baseline["sent"][b.def.MID]
		if o {
			return false // MIDs are unique within the outbox
		}
		// A message that was sent earlier may be queued again (resend): the copy in
		// sent/ is a previously stored message and must survive a crash of AddOut.
		x.requeue = s
		x.opName, x.target, x.newMsg = "AddOut", b.def.MID, b
	case "setsent":
		mids := core.SortedKeys(x.baseline["out"])
		if len(mids) == 0 {
			return false
		}
		x.opName, x.target = "SetSent", mids[mod(plan.Op.M, len(mids))]
	case "setunread":
		mids := core.SortedKeys(x.baseline["in"])
		if len(mids) == 0 {
			return false
		}
		x.opName, x.target = "SetUnread", mids[mod(plan.Op.M, len(mids))]
	case "prepare":
		x.opName = "Prepare"
	default:
		return false
	}
	return true
}

// earlierCrash runs the plan's earlier store on the scenario's disk and lets it
// die at the chosen call. The fault-free pilot on a clone tells which calls
// there are. Nothing is judged here: if the crash leaves the mailbox unloadable
// the scenario is unusable (the enumeration of that operation in its own
// plans reports it).
func (x *c11ctx) earlierCrash(sim *core.Sim, disk *simfs.FS, b *built) {
	pre := x.plan.Pre
	if b == nil || (pre.K != "inbound" && pre.K != "addout") {
		return
	}
	run := func(d *simfs.FS, fault *simfs.Fault) (calls []simfs.Op, ok bool) {
		simfs.Use(d)
		defer simfs.Use(disk)
		h := mailbox.NewDirHandler(x.root, false)
		if h.Prepare() != nil {
			return nil, false
		}
		m := b.fresh()
		d.ResetLog()
		if fault != nil {
			d.SetFaults(*fault)
		}
		var err error
		died, pv, _ := guard(func() {
			if pre.K == "inbound" {
				err = h.ProcessInbound(m)
			} else {
				err = h.AddOut(m)
			}
		})
		calls = d.Log()
		d.Revive()
		d.ResetLog()
		return calls, pv == nil && (fault != nil || (died == nil && err == nil))
	}
	// the earlier store was an ordinary one: of a message the mailbox did not hold yet
	cur, err := loadAll(x.root)
	if err != nil {
		return
	}
	for _, f := range []string{"in", "out", "sent"} {
		if _, have := cur[f][b.def.MID]; have && (f == "in") == (pre.K == "inbound") {
			return
		}
	}
	calls, ok := run(disk.Clone(), nil)
	if !ok || len(calls) == 0 {
		return
	}
	c := calls[mod(pre.Call, len(calls))]
	fault := simfs.Fault{Kind: "crash", Call: c.Idx, Phase: "after"}
	if c.Kind == "write" && pre.Torn > 0 && c.N > 0 {
		fault = simfs.Fault{Kind: "crash", Call: c.Idx, Phase: "torn", Bytes: scale(pre.Torn, 0, c.N)}
	}
	run(disk, &fault)
	sim.Probe("mailbox-with-leftovers-of-an-earlier-crash")
	sim.Logf("earlier %s of %s died at call #%d %s %s (%s)", pre.K, b.def.MID, c.Idx, c.Kind, c.Path, fault.Phase)
}

// arm prepares the "process" that will perform the operation on disk d (handler
// created and prepared, the message to re-flag loaded) and returns the
// operation itself. Everything up to here is outside the fault window.
func (x *c11ctx) arm() (op func() error, err error) {
	h := mailbox.NewDirHandler(x.root, false)
	if x.opName != "Prepare" {
		if err := h.Prepare(); err != nil {
			return nil, err
		}
	}
	switch x.opName {
	case "ProcessInbound":
		m := x.newMsg.fresh()
		return func() error { return h.ProcessInbound(m) }, nil
	case "AddOut":
		m := x.newMsg.fresh()
		return func() error { return h.AddOut(m) }, nil
	case "SetSent":
		return func() error { h.SetSent(x.target, false); return nil }, nil
	case "SetUnread":
		m, err := mailbox.OpenMessage(x.baseline["in"][x.target].path)
		if err != nil {
			return nil, err
		}
		return func() error { return mailbox.SetUnread(m, x.plan.Op.B) }, nil
	}
	return func() error { return h.Prepare() }, nil
}

// ---------------------------------------------------------------------------
// one execution

type c11viol struct {
	oracle, detail, msg string
	fault               simfs.Fault
}

type c11result struct {
	fired bool
	hash  string
	viols []c11viol
	probe []string
	lines []string
}

func faultPhase(f simfs.Fault) string {
	switch {
	case f.Kind != "crash":
		return f.Kind
	case f.Phase == "torn":
		return "torn-write"
	}
	return "between-calls"
}

// execFault runs the operation on a clone of the base disk with one fault, then
// restarts (fresh handler on the surviving tree) and evaluates the oracle.
func (x *c11ctx) execFault(t *testing.T, fault simfs.Fault, keep bool, seen map[string]int) (res c11result) {
	leak, pv, stack := core.Bubble(t, keep, func(sim *core.Sim) {
		disk := x.base.Clone()
		simfs.Use(disk)
		defer simfs.Use(nil)
		defer func() {
			res.hash = sim.LogHash()
			if keep {
				res.lines = sim.Lines()
			}
		}()
		viol := func(oracle, detail, format string, args ...any) {
			if _, dup := seen[oracle+"/"+detail]; dup {
				// this scenario already reported the signature: count, do not format
				res.viols = append(res.viols, c11viol{oracle: oracle, detail: detail})
				return
			}
			res.viols = append(res.viols, c11viol{oracle: oracle, detail: detail, fault: fault, msg: fmt.Sprintf("%s of %q, %s: ", x.opName, x.target, fault) + fmt.Sprintf(format, args...)})
		}
		op, err := x.arm()
		if err != nil {
			sim.Logf("arm failed: %v", err)
			return
		}
		disk.ResetLog()
		disk.SetFaults(fault)
		var opErr error
		died, panicked, pstack := guard(func() { opErr = op() })
		res.fired = len(disk.Fired()) > 0
		calls := disk.Log()
		disk.Revive()
		disk.ResetLog()
		sim.Logf("fault %s fired=%v died=%v err=%v calls=%d tree=%s", fault, res.fired, died != nil, opErr, len(calls), disk.Hash())
		if panicked != nil {
			// a panic of the operation itself is process death too; what matters
			// is what the next start finds. It is noted, not judged here.
			res.probe = append(res.probe, "operation-panicked")
			sim.Logf("operation panicked: %v\n%s", panicked, pstack)
		}
		if !res.fired {
			return
		}
		phase := faultPhase(fault)
		crashArm := fault.Kind == "crash"
		if crashArm {
			at, isCrash := simfs.IsCrash(died)
			if !isCrash {
				return // cannot happen: a fired crash fault always kills
			}
			// name the regime after what happened, not after what the plan asked
			// for (a "torn" fault on a call that is not a write acts as "after")
			phase = "between-calls"
			if at.Fault == "crash-torn" {
				phase = "torn-write"
			}
			sim.Logf("died at call #%d %s %s (%s, %d of %d bytes applied)", at.Idx, at.Kind, at.Path, at.Fault, at.Done, at.N)
		} else if opErr == nil || died != nil {
			// ENOSPC arm: the clause is about operations that returned an error
			res.probe = append(res.probe, "enospc-operation-did-not-return-error")
			return
		}

		// ---- restart ------------------------------------------------------
		h := mailbox.NewDirHandler(x.root, false)
		var perr error
		if d, p, st := guard(func() { perr = h.Prepare() }); d != nil || p != nil {
			if crashArm {
				viol("prepare", x.opName+"/"+phase, "Prepare after restart died: %v %v\n%s", d, p, st)
			}
			return
		}
		if perr != nil {
			if crashArm {
				viol("prepare", x.opName+"/"+phase, "Prepare after restart failed: %v", perr)
			}
			sim.Logf("prepare: %v", perr)
			return
		}
		loaded := map[string]map[string]*fbb.Message{}
		for _, f := range folders {
			var list []*fbb.Message
			var lerr error
			if d, p, st := guard(func() { list, lerr = listFolder(h, f) }); d != nil || p != nil {
				if crashArm {
					viol("folder-load", x.opName+"/"+phase, "listing %s after restart died: %v %v\n%s", f, d, p, st)
				}
				continue
			}
			if lerr != nil {
				sim.Logf("load %s: error", f)
				if crashArm {
					viol("folder-load", x.opName+"/"+phase, "%s does not load after restart: %v", f, lerr)
				} else {
					res.probe = append(res.probe, "enospc-folder-does-not-load")
				}
				continue
			}
			loaded[f] = map[string]*fbb.Message{}
			var mids []string
			for _, m := range list {
				loaded[f][m.MID()] = m
				mids = append(mids, m.MID())
			}
			sim.Logf("load %s: %v", f, sortedStrings(mids))
		}

		if crashArm {
			// every message stored before the operation is intact in its folder
			for _, f := range []string{"in", "out", "sent"} {
				if loaded[f] == nil {
					continue // reported as folder-load; nothing can be said through the API
				}
				for _, mid := range core.SortedKeys(x.baseline[f]) {
					if x.opName == "SetSent" && mid == x.target && f == "out" {
						continue // judged by the partition clause below
					}
					was := x.baseline[f][mid]
					m := loaded[f][mid]
					if m == nil {
						viol("stored-intact", x.opName+"/"+phase, "message %s, stored in %s before the operation, is gone", mid, f)
						continue
					}
					sb, ok := storedBytes(m)
					if !ok || !bytes.Equal(sb, was.stored) {
						viol("stored-intact", x.opName+"/"+phase, "message %s in %s changed: %d bytes, was %d", mid, f, len(sb), len(was.stored))
					}
					if mailbox.IsUnread(m) != was.unread && !(x.opName == "SetUnread" && mid == x.target && f == "in") {
						viol("stored-intact", x.opName+"/"+phase, "message %s in %s: unread flag changed to %v", mid, f, mailbox.IsUnread(m))
					}
				}
			}
			// an outbound MID is in exactly one of out/ and sent/
			if loaded["out"] != nil && loaded["sent"] != nil {
				outbound := map[string]bool{}
				for _, f := range []string{"out", "sent"} {
					for mid := range x.baseline[f] {
						outbound[mid] = true
					}
				}
				for _, mid := range core.SortedKeys(outbound) {
					if x.opName == "AddOut" && x.requeue && mid == x.target {
						continue // queued again on purpose: legitimately in both folders once AddOut completed
					}
					n := 0
					var where *fbb.Message
					for _, f := range []string{"out", "sent"} {
						if m := loaded[f][mid]; m != nil {
							n++
							where = m
						}
					}
					if n != 1 {
						viol("outbound-partition", x.opName+"/"+phase, "outbound message %s is in %d of out/ and sent/ after restart", mid, n)
					} else if x.opName == "SetSent" && mid == x.target {
						if sb, ok := storedBytes(where); !ok || !bytes.Equal(sb, x.baseline["out"][mid].stored) {
							viol("stored-intact", x.opName+"/"+phase, "message %s changed while being marked sent", mid)
						}
					}
				}
				if x.opName == "AddOut" {
					// the one being added may be absent, but never in both
					if !x.requeue && loaded["out"][x.target] != nil && loaded["sent"][x.target] != nil {
						viol("outbound-partition", x.opName+"/"+phase, "the added message %s is in both out/ and sent/", x.target)
					}
				}
			}
		}

		// the interrupted / failed message must not be taken for a complete one
		switch x.opName {
		case "ProcessInbound", "SetUnread":
			if x.opName == "SetUnread" && crashArm {
				break // covered by stored-intact; the dedup clause is about the inbound message being stored
			}
			var ans fbb.ProposalAnswer
			if d, p, _ := guard(func() { ans = h.GetInboundAnswer(proposalFor(x.target)) }); d != nil || p != nil {
				break
			}
			complete, how := x.completeInboxCopy(disk, loaded["in"])
			sim.Logf("answer %s complete=%v (%s)", ansName(ans), complete, how)
			if ans == fbb.Reject && !complete {
				if crashArm {
					viol("dedup-answer", x.opName+"/"+phase, "a new proposal for %s is answered 'already received' although in/ holds no complete copy (%s)", x.target, how)
				} else {
					viol("enospc-taken-for-complete", x.opName, "%s returned %q, yet a new proposal for %s is answered 'already received' although in/ holds no complete copy (%s)", x.opName, opErr, x.target, how)
				}
			}
			if ans == fbb.Reject && complete {
				res.probe = append(res.probe, "reject-with-complete-copy")
			}
		case "AddOut":
			if crashArm {
				if m := loaded["out"][x.target]; m != nil {
					if sb, ok := storedBytes(m); !ok || !bytes.Equal(sb, x.newMsg.raw) {
						res.probe = append(res.probe, "crash-left-altered-but-loadable-outbox-message")
					}
				}
				break
			}
			if m := loaded["out"][x.target]; m != nil {
				if sb, ok := storedBytes(m); !ok || !bytes.Equal(sb, x.newMsg.raw) {
					viol("enospc-taken-for-complete", x.opName, "AddOut returned %q, yet the outbox lists %s with altered content (%d bytes instead of %d): a later session would send it", opErr, x.target, len(sb), len(x.newMsg.raw))
				}
			}
		}
	})
	if pv != nil {
		res.viols = append(res.viols, c11viol{oracle: "harness", detail: "bubble-panic", fault: fault, msg: fmt.Sprintf("%v\n%s", pv, stack)})
	}
	if leak {
		res.viols = append(res.viols, c11viol{oracle: "harness", detail: "goroutines-left-blocked", fault: fault, msg: "leak"})
	}
	return
}

// completeInboxCopy: does in/ hold a complete copy of the target message? Either
// the file is byte-identical to what an undisturbed operation leaves, or it
// parses to the same message (a lost trailing CRLF does not make a copy incomplete).
func (x *c11ctx) completeInboxCopy(disk *simfs.FS, inbox map[string]*fbb.Message) (bool, string) {
	want := x.full
	var wantStored []byte
	if x.newMsg != nil {
		wantStored = x.newMsg.raw
	} else {
		wantStored = x.baseline["in"][x.target].stored
	}
	p := x.root + "/in/" + x.target + mailbox.Ext
	if x.newMsg == nil {
		p = x.baseline["in"][x.target].path
	}
	data, exists := disk.Peek(p)
	if !exists {
		return false, "no file"
	}
	if want != nil && bytes.Equal(data, want) {
		return true, "file identical"
	}
	if m, err := parse(data); err == nil {
		if sb, ok := storedBytes(m); ok && bytes.Equal(sb, wantStored) {
			return true, "file parses to the same message"
		}
		return false, fmt.Sprintf("file of %d bytes parses to a different message", len(data))
	}
	if inbox != nil && inbox[x.target] != nil {
		return false, "listed but different"
	}
	return false, fmt.Sprintf("file of %d bytes does not parse", len(data))
}

// ---------------------------------------------------------------------------
// enumeration

func scale(pos, lo, hi int) int {
	if hi <= lo {
		return lo
	}
	return lo + int(int64(mod(pos, 1<<20))*int64(hi-lo)>>20)
}

func (x *c11ctx) faultPoints() []simfs.Fault {
	var fs []simfs.Fault
	nWrite := 0
	for _, c := range x.pilot {
		fs = append(fs, simfs.Fault{Kind: "crash", Call: c.Idx, Phase: "before"})
		if c.Kind == "write" {
			n := c.N
			ks := map[int]bool{}
			for k := 0; k < n && k < fullPrefixLimit; k++ {
				ks[k] = true
			}
			if n > fullPrefixLimit {
				for k := fullPrefixLimit; k < n; k += 4096 {
					ks[k-1], ks[k], ks[k+1] = true, true, true
				}
				for _, d := range []int{1, 2, 3, 4} {
					ks[n-d] = true
				}
				for _, s := range x.plan.Sample {
					ks[scale(s, fullPrefixLimit, n)] = true
				}
			}
			for _, k := range sortedInts(ks) {
				if k >= 0 && k < n {
					fs = append(fs, simfs.Fault{Kind: "crash", Call: c.Idx, Phase: "torn", Bytes: k})
				}
			}
			// second arm: the disk is full after k bytes
			es := map[int]bool{0: true, 1: true, 2: true, n / 2: true, n - 2: true, n - 1: true}
			for k := 0; k < 48 && k < n; k++ {
				es[k] = true
			}
			for _, s := range x.plan.ESample {
				es[scale(s, 0, n)] = true
			}
			for _, k := range sortedInts(es) {
				if k >= 0 && k < n {
					fs = append(fs, simfs.Fault{Kind: "enospc", Nth: nWrite, Bytes: k})
				}
			}
			nWrite++
		}
		fs = append(fs, simfs.Fault{Kind: "crash", Call: c.Idx, Phase: "after"})
	}
	return fs
}

func sortedInts(m map[int]bool) []int {
	ks := make([]int, 0, len(m))
	for k := range m {
		ks = append(ks, k)
	}
	sort.Ints(ks)
	return ks
}

type c11sample struct {
	Op       string         `json:"op"`
	State    map[string]int `json:"state"`
	Calls    []string       `json:"calls"`
	Faults   int            `json:"fault_points"`
	MsgBytes int            `json:"message_bytes,omitempty"`
}

func execC11(t *testing.T, prop string, raw json.RawMessage, trace bool) core.Outcome {
	var out core.Outcome
	x := &c11ctx{prop: prop}
	if err := json.Unmarshal(raw, &x.plan); err != nil {
		out.Violate(prop, "harness", "bad-plan", fmt.Sprint("unusable plan: ", err))
		return out
	}
	x.root = x.plan.Root
	if !strings.HasPrefix(x.root, "/") || strings.ContainsAny(x.root, "\x00") || len(x.root) > 200 {
		x.root = "/var/mbox/N0SIM"
	}
	x.root = strings.TrimRight(x.root, "/")
	if x.root == "" {
		x.root = "/mbox"
	}
	usable := false
	// ---- pilot: build the state, run the operation without faults ----------
	leak, pv, stack := core.Bubble(t, trace, func(sim *core.Sim) {
		defer simfs.Use(nil)
		defer sim.FillOutcome(&out)
		if !x.setup(sim) {
			sim.Logf("trivial scenario")
			return
		}
		if x.setupGone != "" {
			sim.Violate(prop, "stored-intact", "gone-after-restart-without-crash", "%s", x.setupGone)
		}
		sim.Logf("state in=%v out=%v sent=%v; op %s %s flag=%v", core.SortedKeys(x.baseline["in"]), core.SortedKeys(x.baseline["out"]), core.SortedKeys(x.baseline["sent"]), x.opName, x.target, x.plan.Op.B)
		disk := x.base.Clone()
		simfs.Use(disk)
		op, err := x.arm()
		if err != nil {
			sim.Logf("pilot arm: %v", err)
			return
		}
		disk.ResetLog()
		var opErr error
		died, panicked, pst := guard(func() { opErr = op() })
		x.pilot = disk.Log()
		if died != nil || panicked != nil || opErr != nil {
			// a fault-free operation on a healthy disk must work; C10 judges that, here it only means "nothing to enumerate"
			sim.Logf("pilot failed: died=%v panic=%v err=%v %s", died, panicked, opErr, pst)
			sim.Probe("pilot-failed")
			return
		}
		for _, c := range x.pilot {
			sim.Logf("pilot call #%d %s %s %s n=%d", c.Idx, c.Kind, c.Path, c.Path2, c.N)
		}
		if x.opName == "ProcessInbound" {
			x.full, _ = disk.Peek(x.root + "/in/" + x.target + mailbox.Ext)
		}
		usable = true
	})
	if pv != nil {
		out.Violate(prop, "harness", "bubble-panic", fmt.Sprintf("%v\n%s", pv, stack))
		return out
	}
	if leak {
		out.Violate(prop, "harness", "goroutines-left-blocked", "leak in pilot")
		return out
	}
	if !usable {
		return out
	}

	// ---- enumeration ----------------------------------------------------
	var faults []simfs.Fault
	switch {
	case x.plan.Fault != nil:
		faults = []simfs.Fault{*x.plan.Fault}
	case x.plan.Enumerate:
		faults = x.faultPoints()
	}
	counters := map[string]int{}
	probes := map[string]int{}
	firstBySig := map[string]int{}
	type kept struct {
		v     c11viol
		count int
	}
	var keptViols []*kept
	var hashes []string
	all := sha256.New()
	all.Write([]byte(out.LogHash))
	for _, f := range faults {
		res := x.execFault(t, f, trace && x.plan.Fault != nil, firstBySig)
		out.Evals++
		all.Write([]byte(res.hash))
		if res.fired {
			out.NonTrivial = true
			label := f.Kind
			if f.Kind == "crash" {
				label = "crash-" + f.Phase
			}
			counters[label]++
		} else {
			probes["fault-did-not-fire"]++
		}
		for _, p := range res.probe {
			probes[p]++
		}
		for _, v := range res.viols {
			sig := v.oracle + "/" + v.detail
			if i, seen := firstBySig[sig]; seen {
				keptViols[i].count++
				continue
			}
			firstBySig[sig] = len(keptViols)
			keptViols = append(keptViols, &kept{v: v, count: 1})
		}
		hashes = append(hashes, res.hash)
		if trace {
			out.Trace = append(out.Trace, res.lines...)
		}
	}
	// at most maxHashes evenly spaced execution hashes are reported
	if len(hashes) > maxHashes {
		step := float64(len(hashes)) / maxHashes
		var s []string
		for i := 0; i < maxHashes; i++ {
			s = append(s, hashes[int(float64(i)*step)])
		}
		hashes = s
	}
	out.Hashes = hashes
	out.LogHash = hex.EncodeToString(all.Sum(nil))[:24]
	out.AddCounters(counters, probes)
	for _, k := range keptViols {
		narrowed := x.plan
		f := k.v.fault
		narrowed.Fault = &f
		narrowed.Enumerate = false
		narrowed.Sample, narrowed.ESample = nil, nil
		rp, _ := json.Marshal(narrowed)
		msg := k.v.msg
		if k.count > 1 {
			msg += fmt.Sprintf(" [%d fault points of this scenario give the same signature]", k.count)
		}
		out.Violations = append(out.Violations, core.Violation{Property: prop, Signature: prop + "/" + k.v.oracle + "/" + k.v.detail, Message: msg, Replay: rp})
	}
	state := map[string]int{}
	for _, f := range []string{"in", "out", "sent"} {
		state[f] = len(x.baseline[f])
	}
	smp := c11sample{Op: x.opName, State: state, Faults: len(faults)}
	for _, c := range x.pilot {
		smp.Calls = append(smp.Calls, fmt.Sprintf("%s(%d)", c.Kind, c.N))
	}
	if x.newMsg != nil {
		smp.MsgBytes = len(x.newMsg.raw)
	}
	out.Sample = smp
	if trace {
		out.Trace = append(out.Trace, fmt.Sprintf("executions=%d fired=%v probes=%v", out.Evals, counters, probes))
	}
	return out
}

// ---------------------------------------------------------------------------
// generator

func genC11(tier string, r *core.Rand, run int) C11Plan {
	plan := C11Plan{Enumerate: true}
	if r.Chance(0.15) {
		plan.Root = core.Choice(r, []string{"/mbox", "/home/sim/.wl2k/mailbox/LA1SIM", "/var/spool/wl2k/N0SIM"})
	}
	size := r.Range(10, 600)
	switch {
	case tier == "thorough" && r.Chance(0.15):
		size = r.Range(3000, 30000) // writes above the 8 KiB full-enumeration limit
	case r.Chance(0.1):
		size = r.Range(600, 2500)
	}
	for i, mid := range midUniverse {
		sz := size
		if i > 0 && r.Chance(0.6) {
			sz = r.Range(5, 120) // keep the surrounding state cheap to reload
		}
		d := genMsg(r, mid, sz)
		if r.Chance(0.3) && len(d.Files) > 0 {
			d.Files[len(d.Files)-1].Data = nil // a trailing empty attachment: a truncated file may still parse
		}
		plan.Msgs = append(plan.Msgs, d)
	}
	// state: messages 1..5 in random folders; message 0 is the one the operation stores
	for i := 1; i < len(midUniverse); i++ {
		if r.Chance(0.45) {
			continue
		}
		plan.State = append(plan.State, C11Item{M: i, F: core.Choice(r, []string{"in", "in", "out", "sent"}), Read: r.Chance(0.4)})
		if r.Chance(0.08) {
			plan.State[len(plan.State)-1].Ext = core.Choice(r, []string{".B2F", ".B2f", ".b2F"})
		}
		if r.Chance(0.2) { // the same MID both received and queued
			plan.State = append(plan.State, C11Item{M: i, F: core.Choice(r, []string{"in", "out", "sent"}), Read: r.Chance(0.4)})
		}
	}
	switch r.Pick(6, 4, 3, 4, 1) {
	case 0:
		plan.Op = C11Op{K: "inbound", M: 0}
	case 1:
		plan.Op = C11Op{K: "addout", M: 0}
		if r.Chance(0.2) { // queue again a message that was sent before
			plan.State = append(plan.State, C11Item{M: 0, F: "sent"})
		}
	case 2:
		plan.Op = C11Op{K: "setsent", M: r.Intn(8)}
		if r.Chance(0.7) { // make sure there is something to send
			plan.State = append(plan.State, C11Item{M: 0, F: "out"})
		}
	case 3:
		plan.Op = C11Op{K: "setunread", M: r.Intn(8), B: r.Bool()}
		if r.Chance(0.7) {
			plan.State = append(plan.State, C11Item{M: 0, F: "in", Read: plan.Op.B})
		}
	case 4:
		plan.Op = C11Op{K: "prepare"}
		plan.State = nil
	}
	if plan.Op.K != "prepare" && r.Chance(0.35) {
		// an earlier store of another message died; it is mostly the larger one
		plan.Pre = &C11Pre{K: core.Choice(r, []string{"inbound", "inbound", "addout"}), M: r.Range(1, len(midUniverse)-1), Call: r.Intn(64)}
		if r.Chance(0.4) {
			plan.Pre.Torn = 1 + r.Intn(1<<20-1)
		}
		if r.Chance(0.6) {
			d := genMsg(r, plan.Msgs[plan.Pre.M].MID, size*r.Range(2, 5)+r.Range(0, 200))
			plan.Msgs[plan.Pre.M] = d
		}
	}
	plan.TmpOtherFS = r.Chance(0.3)
	plan.Sample = core.Tape(r, 48, func() int { return r.Intn(1 << 20) })
	plan.ESample = core.Tape(r, 16, func() int { return r.Intn(1 << 20) })
	return plan
}
