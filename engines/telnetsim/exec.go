package telnetsim

import (
	"bufio"
	"bytes"
	"context"
	"encoding/json"
	"fmt"
	"io"
	"net"
	"net/url"
	"runtime"
	"strings"
	"sync"
	"testing"
	"time"

	"github.com/la5nta/wl2k-go/transport"
	"github.com/la5nta/wl2k-go/transport/telnet"
	"verif/sim/core"
	"verif/sim/pipe"
	"verif/sim/simnet"
)

const (
	srvAddr     = "rms.sim:8772"
	prompt1     = "Callsign :\r"
	prompt2     = "Password :\r"
	loginBudget = 24 * time.Hour   // simulated
	endBudget   = 5000 * time.Hour // simulated; only spent when something hangs
	maxField    = 1 << 16
	maxPayload  = 1 << 20
	maxSessions = 8
)

// cleanCall maps any byte string into the property's callsign domain: no CR,
// no leading/trailing white space (the listener trims; stated narrowing).
func cleanCall(b []byte) string {
	if len(b) > maxField {
		b = b[:maxField]
	}
	return strings.TrimSpace(strings.ReplaceAll(string(b), "\r", ""))
}

func cleanPass(b []byte) string {
	if len(b) > maxField {
		b = b[:maxField]
	}
	return strings.ReplaceAll(string(b), "\r", "")
}

func clampInt(v, lo, hi int) int {
	if v < lo {
		return lo
	}
	if v > hi {
		return hi
	}
	return v
}

func us(v int) time.Duration {
	return time.Duration(clampInt(v, 0, 3600_000_000)) * time.Microsecond
}

// sleepU sleeps until a simulated instant no other environment event uses.
func sleepU(sim *core.Sim, d time.Duration) {
	if d < 0 {
		d = 0
	}
	at := sim.Reserve(sim.Now() + d)
	time.Sleep(at - sim.Now())
}

// handOver lets the calling goroutine make other goroutines runnable (wake)
// and continue only when they have run until they blocked. The caller's own
// next instant is reserved BEFORE the others can run: two runnable goroutines
// never compete for the simulation's instants (whichever of them the runtime
// picks, or preempts, the instants they get are the same).
func handOver(sim *core.Sim, wake func()) {
	at := sim.Reserve(sim.Now() + 1)
	wake()
	time.Sleep(at - sim.Now())
}

// spawn starts fn on its own goroutine and returns when it has blocked.
func spawn(sim *core.Sim, fn func()) *core.GoResult {
	var g *core.GoResult
	handOver(sim, func() { g = core.Go(fn) })
	return g
}

func abbrev(b []byte, n int) string {
	if len(b) <= n {
		return fmt.Sprintf("%q", b)
	}
	return fmt.Sprintf("%q...(%d bytes)", b[:n], len(b))
}

// dialSpec is the library call of a run and the deadline the property attaches to it.
type dialSpec struct {
	fn      func() (net.Conn, error)
	timeout time.Duration // 0: the call has neither timeout nor deadline
	desc    string
}

func telnetURL(sim *core.Sim, call, pass string, param time.Duration) *transport.URL {
	raw := "telnet://" + url.UserPassword(call, pass).String() + "@" + srvAddr + "/wl2k"
	if param > 0 {
		raw += fmt.Sprintf("?dial_timeout=%dms", param.Milliseconds())
	}
	u, err := transport.ParseURL(raw)
	ok := err == nil && u != nil && u.User != nil && u.User.Username() == call && u.Host == srvAddr
	if ok {
		pw, _ := u.User.Password()
		ok = pw == pass
	}
	if !ok {
		// URL fidelity is C19's business; keep C15 going with a hand-made URL.
		sim.Probe("url-roundtrip-differs")
		u = &transport.URL{Scheme: "telnet", Host: srvAddr, User: url.UserPassword(call, pass), Target: "WL2K", Digis: []string{}, Params: url.Values{}}
		if param > 0 {
			u.Params.Set("dial_timeout", fmt.Sprintf("%dms", param.Milliseconds()))
		}
	}
	return u
}

func minPos(a, b time.Duration) time.Duration {
	switch {
	case a <= 0:
		return b
	case b <= 0:
		return a
	case a < b:
		return a
	}
	return b
}

// makeDial turns the session's API choice into a closure. needDeadline: hostile
// servers are only meaningful for calls that have a deadline.
func makeDial(sim *core.Sim, p *Session, call, pass string, needDeadline bool) dialSpec {
	T := time.Duration(clampInt(p.TimeoutMs, 0, 3600_000)) * time.Millisecond
	if T <= 0 {
		T = 10 * time.Second
	}
	C := time.Duration(clampInt(p.CtxMs, 0, 3600_000)) * time.Millisecond
	api := p.API
	if needDeadline && api == "ctx-none" {
		api = "ctx-timeout"
	}
	libDefault := 30 * time.Second // telnet.DefaultDialer.Timeout
	withCtx := func(f func(ctx context.Context) (net.Conn, error)) func() (net.Conn, error) {
		return func() (net.Conn, error) {
			ctx := context.Background()
			if C > 0 {
				var cancel context.CancelFunc
				ctx, cancel = context.WithTimeout(ctx, C)
				defer cancel()
			}
			return f(ctx)
		}
	}
	switch api {
	case "dial":
		return dialSpec{func() (net.Conn, error) { return telnet.Dial(srvAddr, call, pass) }, 5 * time.Second, "telnet.Dial"}
	case "dialtimeout":
		return dialSpec{func() (net.Conn, error) { return telnet.DialTimeout(srvAddr, call, pass, T) }, T, fmt.Sprintf("telnet.DialTimeout(%v)", T)}
	case "ctx-deadline":
		return dialSpec{func() (net.Conn, error) {
			ctx, cancel := context.WithDeadline(context.Background(), time.Now().Add(T))
			defer cancel()
			return telnet.DialContext(ctx, srvAddr, call, pass)
		}, T, fmt.Sprintf("telnet.DialContext(WithDeadline now+%v)", T)}
	case "ctx-none":
		return dialSpec{func() (net.Conn, error) { return telnet.DialContext(context.Background(), srvAddr, call, pass) }, 0, "telnet.DialContext(Background)"}
	case "dialer-url", "dialer-urlctx":
		d := telnet.Dialer{Timeout: T}
		var param time.Duration
		if p.Param {
			d.Timeout, param = libDefault, T
		}
		u := telnetURL(sim, call, pass, param)
		if api == "dialer-url" {
			return dialSpec{func() (net.Conn, error) { return d.DialURL(u) }, T, fmt.Sprintf("telnet.Dialer{%v}.DialURL(dial_timeout=%v)", d.Timeout, param)}
		}
		return dialSpec{withCtx(func(ctx context.Context) (net.Conn, error) { return d.DialURLContext(ctx, u) }), minPos(T, C),
			fmt.Sprintf("telnet.Dialer{%v}.DialURLContext(ctx %v, dial_timeout=%v)", d.Timeout, C, param)}
	case "transport-url", "transport-urlctx":
		eff, param := libDefault, time.Duration(0)
		if p.Param {
			eff, param = T, T
		}
		u := telnetURL(sim, call, pass, param)
		if api == "transport-url" {
			return dialSpec{func() (net.Conn, error) { return transport.DialURL(u) }, eff, fmt.Sprintf("transport.DialURL(telnet://, dial_timeout=%v)", param)}
		}
		return dialSpec{withCtx(func(ctx context.Context) (net.Conn, error) { return transport.DialURLContext(ctx, u) }), minPos(eff, C),
			fmt.Sprintf("transport.DialURLContext(ctx %v, telnet://, dial_timeout=%v)", C, param)}
	}
	// default: ctx-timeout
	return dialSpec{func() (net.Conn, error) {
		ctx, cancel := context.WithTimeout(context.Background(), T)
		defer cancel()
		return telnet.DialContext(ctx, srvAddr, call, pass)
	}, T, fmt.Sprintf("telnet.DialContext(WithTimeout %v)", T)}
}

// side is what the harness knows about one end of a logged-in connection.
type side struct {
	name    string
	conn    net.Conn
	err     error
	startAt time.Duration
	loginAt time.Duration
	logged  chan struct{} // closed when the login call returned
	got     []byte
	rd      *core.GoResult
	wrErr   error
	wrote   int
	closes  int
	closeAt time.Duration // instant of the side's last Close call
}

func newSide(name string) *side { return &side{name: name, logged: make(chan struct{})} }

func (s *side) returned() bool {
	select {
	case <-s.logged:
		return true
	default:
		return false
	}
}

func (s *side) loginReturned(sim *core.Sim, c net.Conn, err error) {
	s.conn, s.err, s.loginAt = c, err, sim.Now()
	sim.Logf("%s login returned err=%v", s.name, err != nil)
	close(s.logged)
}

// sink is a destination that offers nothing but Write.
type sink struct{ got *[]byte }

func (k sink) Write(p []byte) (int, error) {
	*k.got = append(*k.got, p...)
	return len(p), nil
}

// startReader is the receiving application: it consumes the connection the
// way the plan says (st is the stream it receives) until an error or EOF.
func startReader(sim *core.Sim, note func(string), name string, c net.Conn, st *Stream, got *[]byte) *core.GoResult {
	bufs := st.ReadBuf
	vb := clampInt(st.ViaBuf, 1, 1<<16)
	readLoop := func(rd io.Reader) {
		for i := 0; ; i++ {
			buf := make([]byte, clampInt(core.TapeAt(bufs, i, 4096), 1, 1<<16))
			n, err := rd.Read(buf)
			*got = append(*got, buf[:n]...)
			if err != nil {
				return
			}
		}
	}
	return core.Go(func() {
		switch st.ReadVia {
		case "copy":
			note("stream-consumed-via-io-copy")
			io.Copy(sink{got}, c)
		case "copybuf":
			note("stream-consumed-via-io-copy")
			io.CopyBuffer(sink{got}, c, make([]byte, vb))
		case "writeto":
			if wt, ok := c.(io.WriterTo); ok {
				note("stream-consumed-via-conns-own-writeto")
				wt.WriteTo(sink{got})
			} else {
				note("stream-consumed-via-io-copy")
				note("conn-offers-no-writeto")
				io.Copy(sink{got}, c)
			}
		case "readall":
			note("stream-consumed-via-io-readall")
			b, _ := io.ReadAll(c)
			*got = append(*got, b...)
		case "bufio":
			note("stream-consumed-via-bufio-reader")
			readLoop(bufio.NewReaderSize(c, vb))
		case "bufio-writeto":
			note("stream-consumed-via-bufio-reader")
			note("stream-consumed-via-io-copy")
			io.Copy(sink{got}, bufio.NewReaderSize(c, vb))
		default:
			readLoop(c)
		}
		sim.Logf("%s reader ends after %d bytes", name, len(*got))
	})
}

// chunkSrc yields a stream's data in the plan's chunks and pauses; it offers
// nothing but Read.
type chunkSrc struct {
	sim  *core.Sim
	st   *Stream
	data []byte
	i    int
	rest int // bytes of the current chunk not yet handed out
}

func (s *chunkSrc) Read(p []byte) (int, error) {
	if len(s.data) == 0 {
		return 0, io.EOF
	}
	if len(p) == 0 {
		return 0, nil
	}
	if s.rest == 0 {
		sz := core.TapeAt(s.st.Chunks, s.i, 0)
		if sz <= 0 || sz > len(s.data) {
			sz = len(s.data)
		}
		if d := us(core.TapeAt(s.st.DelayUs, s.i, 0)); d > 0 {
			sleepU(s.sim, d)
		}
		s.i++
		s.rest = sz
	}
	n := copy(p, s.data[:s.rest])
	s.data = s.data[n:]
	s.rest -= n
	return n, nil
}

// writeStream is the sending application: it hands the data over in the
// plan's Write calls (or through the plan's other way of writing).
func writeStream(sim *core.Sim, note func(string), name string, c net.Conn, st Stream) (int, error) {
	data := []byte(st.Data)
	if len(data) > maxPayload {
		data = data[:maxPayload]
	}
	switch st.WriteVia {
	case "copy", "readfrom":
		src := &chunkSrc{sim: sim, st: &st, data: data}
		var n int64
		var err error
		if rf, ok := c.(io.ReaderFrom); ok && st.WriteVia == "readfrom" {
			note("stream-written-via-conns-own-readfrom")
			n, err = rf.ReadFrom(src)
		} else {
			note("stream-written-via-io-copy")
			n, err = io.Copy(c, src)
		}
		if err == nil && int(n) != len(data) {
			err = fmt.Errorf("short copy %d of %d", n, len(data))
		}
		if err != nil {
			sim.Logf("%s copy failed after %d bytes", name, n)
			return int(n), err
		}
		sim.Logf("%s wrote %d payload bytes", name, n)
		return int(n), nil
	case "bufio":
		note("stream-written-via-bufio-writer")
		bw := bufio.NewWriterSize(c, clampInt(st.ViaBuf, 1, 1<<16))
		total := 0
		for i := 0; len(data) > 0; i++ {
			sz := core.TapeAt(st.Chunks, i, 0)
			if sz <= 0 || sz > len(data) {
				sz = len(data)
			}
			if d := us(core.TapeAt(st.DelayUs, i, 0)); d > 0 {
				sleepU(sim, d)
			}
			n, err := bw.Write(data[:sz])
			total += n
			if err == nil && i%2 == 1 {
				err = bw.Flush()
			}
			if err != nil {
				sim.Logf("%s buffered write #%d failed after %d bytes", name, i, total)
				return total - bw.Buffered(), err
			}
			data = data[sz:]
		}
		if err := bw.Flush(); err != nil {
			sim.Logf("%s flush failed after %d bytes", name, total)
			return total - bw.Buffered(), err
		}
		sim.Logf("%s wrote %d payload bytes", name, total)
		return total, nil
	}
	total := 0
	for i := 0; len(data) > 0; i++ {
		sz := core.TapeAt(st.Chunks, i, 0)
		if sz <= 0 || sz > len(data) {
			sz = len(data)
		}
		if d := us(core.TapeAt(st.DelayUs, i, 0)); d > 0 {
			sleepU(sim, d)
		}
		n, err := c.Write(data[:sz])
		total += n
		if err != nil || n != sz {
			sim.Logf("%s write #%d failed after %d bytes", name, i, total)
			if err == nil {
				err = fmt.Errorf("short write %d of %d", n, sz)
			}
			return total, err
		}
		data = data[sz:]
	}
	sim.Logf("%s wrote %d payload bytes", name, total)
	return total, nil
}

// transfer is what the application does with a logged-in connection: consume
// everything the peer sends (recv), write the plan's stream (send).
func (s *side) transfer(ss *sess, send Stream, recv *Stream, both chan struct{}) {
	sim := ss.r.sim
	s.rd = startReader(sim, ss.r.note, s.name, s.conn, recv, &s.got)
	if ss.sp.Quiet {
		<-both
		sleepU(sim, us(ss.sp.QuietUs)+time.Millisecond)
	}
	s.wrote, s.wrErr = writeStream(sim, ss.r.note, s.name, s.conn, send)
}

func waitCh(budget time.Duration, chs ...chan struct{}) bool {
	t := time.NewTimer(budget)
	defer t.Stop()
	for _, c := range chs {
		select {
		case <-c:
		case <-t.C:
			return false
		}
	}
	return true
}

// wire collects what the taps of one session's link see.
type wire struct {
	r          *run
	l1, l      int // client->server: end of callsign line, end of password line
	ab, ba     int
	lastAB     time.Duration // instant of the last client->server delivery
	links      []*pipe.Link
	abAtAccept int
	startDial  time.Duration
	dead       bool
}

func (w *wire) attach(l *pipe.Link) {
	w.links = append(w.links, l)
	if w.dead {
		l.Kill() // the session is being wound up: nothing may block on a late link
	}
	l.Tap(func(p []byte) {
		a, b := w.ab, w.ab+len(p)
		w.ab = b
		w.lastAB = w.r.sim.Now()
		switch {
		case a < w.l && b > w.l:
			w.r.note("c2s-payload-in-same-segment-as-password-line")
		case a < w.l1 && b > w.l1:
			w.r.note("c2s-callsign-and-password-line-share-a-segment")
		}
		if (a > 0 && a < w.l1) || (a > w.l1 && a < w.l) {
			w.r.note("c2s-login-line-split")
		}
	}, func(p []byte) {
		a, b := w.ba, w.ba+len(p)
		w.ba = b
		n1, n2 := len(prompt1), len(prompt1)+len(prompt2)
		if (a > 0 && a < n1) || (a > n1 && a < n2) {
			w.r.note("s2c-prompt-split")
		}
		if a < n2 && b > n2 {
			w.r.note("s2c-payload-in-same-segment-as-password-prompt")
		}
	})
}

func (w *wire) kill() {
	w.dead = true
	for _, l := range w.links {
		l.Kill()
	}
}

// delivered reads the tap counters under the link's lock.
func (w *wire) delivered() (ab, ba int) {
	if len(w.links) == 0 {
		return 0, 0
	}
	return w.links[len(w.links)-1].Delivered()
}

// settle waits (simulated) until everything written on the link was delivered.
func (w *wire) settle(sent func() (ab, ba int)) {
	sim := w.r.sim
	step := time.Millisecond
	for waited := time.Duration(0); waited < endBudget/2; waited += step {
		wantAB, wantBA := sent()
		ab, ba := w.delivered()
		if ab >= wantAB && ba >= wantBA {
			break
		}
		sleepU(sim, step)
		if step < time.Minute {
			step *= 2
		}
	}
	sleepU(sim, 10*time.Millisecond)
}

// sess is one session of a run.
type sess struct {
	r    *run
	k    int
	sp   *Session
	arm  string // signature suffix
	call string
	pass string
	w    *wire
	cli  *side
	srv  *side
	cm   *clientModel
	spec dialSpec
	// bothSrv, bothCli: closed (one after the other) when both logins have
	// returned; the quiet regime's writers wait for them
	bothSrv chan struct{}
	bothCli chan struct{}
	dep     *sess         // the session this one starts after (nil: none)
	next    []*sess       // the sessions that start after this one
	start   chan struct{} // closed when dep is over
	// resumeAt: instant at which the scripted client goes on after its connect
	resumeAt time.Duration
	gc       *core.GoResult
	gs       *core.GoResult
	// observations for the evidence
	loggedIn bool
	endAt    time.Duration // first Close of either side
}

// names of the two sides in the event log: as ever in single-session runs.
func (r *run) sideName(base string, k int) string {
	if !r.multi {
		return base
	}
	return fmt.Sprintf("%s#%d", base, k)
}

func (s *sess) regime() string {
	if s.sp.Quiet {
		return "quiet-start"
	}
	return "login"
}

type run struct {
	sim   *core.Sim
	p     *Plan
	prop  string
	out   *core.Outcome
	n     *simnet.Net
	ln    net.Listener
	ss    []*sess
	multi bool

	mu        sync.Mutex
	seen      map[string]bool
	dialOrder []int // session index of the n-th connect
	byAddr    map[string]*sess
	stopping  bool
}

// note records an observation that becomes a probe count (one per run).
func (r *run) note(k string) {
	r.mu.Lock()
	r.seen[k] = true
	r.mu.Unlock()
}

func (r *run) flush() {
	for _, k := range core.SortedKeys(r.seen) {
		r.sim.Probe(k)
	}
}

// noteDial: the calling goroutine is about to connect for session k. It is
// called at an instant of the session's own with nothing that blocks between it
// and the simulated network numbering the connect, so connects are numbered in
// the order of these calls.
func (r *run) noteDial(k int) {
	r.mu.Lock()
	r.dialOrder = append(r.dialOrder, k)
	r.mu.Unlock()
}

func (r *run) sessOfDial(n int) *sess {
	r.mu.Lock()
	defer r.mu.Unlock()
	if n >= 0 && n < len(r.dialOrder) {
		return r.ss[r.dialOrder[n]]
	}
	return r.ss[0]
}

func (r *run) isStopping() bool {
	r.mu.Lock()
	defer r.mu.Unlock()
	return r.stopping
}

// buildSessions turns the plan into the run's sessions.
func (r *run) buildSessions() {
	p := r.p
	specs := []*Session{&p.Session}
	if p.Arm != "ls" {
		for i := range p.More {
			if len(specs) >= maxSessions {
				break
			}
			specs = append(specs, &p.More[i])
		}
	}
	r.multi = len(specs) > 1
	for k, sp := range specs {
		if k > 0 && sp.Arm != "cl" {
			sp.Arm = "ll"
		}
		s := &sess{r: r, k: k, sp: sp, call: cleanCall(sp.Call), pass: cleanPass(sp.Pass), bothSrv: make(chan struct{}), bothCli: make(chan struct{}), start: make(chan struct{})}
		s.w = &wire{r: r, l1: len(s.call) + 1, l: len(s.call) + len(s.pass) + 2}
		s.cli, s.srv = newSide(r.sideName("client", k)), newSide(r.sideName("server", k))
		switch sp.Arm {
		case "cl":
			s.arm = "model-client+lib-listener"
		case "ls":
			s.arm = "lib-dialler+model-server"
		default:
			s.arm = "lib-dialler+lib-listener"
		}
		if sp.After > 0 && sp.After-1 < k {
			s.dep = r.ss[sp.After-1]
			s.dep.next = append(s.dep.next, s)
		}
		r.ss = append(r.ss, s)
	}
}

func (r *run) newNet() {
	r.n = simnet.New(r.sim)
	r.byAddr = map[string]*sess{}
	// C15 has no link-fault arm ("TCP": reliable stream): only the schedule
	// part of the link plan is used.
	r.n.LinkPlan = func(_ string, n int) pipe.Plan {
		lp := r.sessOfDial(n).sp.Link
		lp.Cut, lp.AB.Edits, lp.BA.Edits = nil, nil, nil
		return lp
	}
	r.n.ConnectDelay = func(_ string, n int) time.Duration {
		s := r.sessOfDial(n)
		cd := us(s.sp.ConnectUs)
		if cd <= 0 {
			cd = time.Millisecond
		}
		if s.sp.Arm == "ls" && r.p.Server.Kind == "connect-hang" {
			cd = endBudget / 4
		}
		return cd
	}
	r.n.OnLink = func(_ string, n int, l *pipe.Link) {
		s := r.sessOfDial(n)
		if r.multi {
			// every connection has its own remote address, as on a real network;
			// that is how the serving side of the harness knows which session an
			// accepted connection belongs to
			a := fmt.Sprintf("station-%d.sim:%d", s.k, 40000+n)
			l.SetAddrs(simnet.Addr(a), simnet.Addr(srvAddr))
			r.mu.Lock()
			r.byAddr[a] = s
			r.mu.Unlock()
		}
		s.w.attach(l)
		if s.sp.Arm == "cl" {
			// The connect wakes an acceptor (which writes its prompt) and lets the
			// scripted client go on (which may write at once). The client's next
			// instant is reserved here, before the listener learns of the
			// connection, so the two never compete for the simulation's instants.
			s.resumeAt = r.sim.Reserve(r.sim.Now() + 1)
		}
	}
	simnet.Use(r.n)
}

// sessOfConn: which session an accepted connection belongs to.
func (r *run) sessOfConn(c net.Conn) *sess {
	if !r.multi {
		return r.ss[0]
	}
	if c == nil {
		return nil
	}
	a := c.RemoteAddr()
	if a == nil {
		return nil
	}
	r.mu.Lock()
	defer r.mu.Unlock()
	return r.byAddr[a.String()]
}

var sessionTag = []byte{0x1e, 'S'}

// foreignBytes reports whether got contains bytes of another session's
// payload: one of the tags the generator puts into the payloads of runs with
// several sessions, or the bytes at the first difference being a piece of
// another session's stream.
func (r *run) foreignBytes(s *sess, dir string, want, got []byte, first int) (string, bool) {
	if !r.multi {
		return "", false
	}
	own := byte('c')
	if dir == "server-to-client" {
		own = 's'
	}
	for i := 0; i+5 <= len(got); i++ {
		if got[i] != sessionTag[0] || got[i+1] != sessionTag[1] || got[i+4] != 0x1f {
			continue
		}
		k, d := int(got[i+2]-'A'), got[i+3]
		if k < 0 || k >= len(r.ss) || (d != 'c' && d != 's') || (k == s.k && d == own) {
			continue
		}
		if bytes.Contains(want, got[i:i+5]) {
			continue
		}
		from := "client"
		if d == 's' {
			from = "server"
		}
		return fmt.Sprintf("offset %d of what was read carries the tag of the payload written by the %s of session %d", i, from, k), true
	}
	if win := got[first:]; len(win) >= 8 {
		win = win[:8]
		for _, o := range r.ss {
			for _, st := range []struct {
				who  string
				data []byte
			}{{"client", clip(o.sp.C2S.Data)}, {"server", clip(o.sp.S2C.Data)}} {
				if (o == s && st.who[0] == own) || !bytes.Contains(st.data, win) || bytes.Contains(want, win) {
					continue
				}
				return fmt.Sprintf("the 8 bytes read at offset %d are part of the payload written by the %s of session %d", first, st.who, o.k), true
			}
		}
	}
	return "", false
}

// checkStream is the stream clause: what one side read after login is what
// the other side wrote after login, complete and in order.
func (r *run) checkStream(s *sess, dir string, want, got []byte, note string) {
	if bytes.Equal(want, got) {
		return
	}
	first := 0
	for first < len(want) && first < len(got) && want[first] == got[first] {
		first++
	}
	who := ""
	if r.multi {
		who = fmt.Sprintf("session %d of %d (callsign %s): ", s.k, len(r.ss), abbrev([]byte(s.call), 16))
	}
	if what, yes := r.foreignBytes(s, dir, want, got, first); yes {
		r.sim.Violate(r.prop, "stream", fmt.Sprintf("other-sessions-bytes-delivered/%s-after-%s/%s", dir, s.regime(), s.arm),
			"%s%s: the receiver was handed bytes of another session that was open through the same listener: %s. The sender wrote %d bytes after login, the receiver read %d; first difference at offset %d; wrote %s, read %s. %s",
			who, dir, what, len(want), len(got), first, abbrev(want, 48), abbrev(got, 48), note)
		return
	}
	kind := "bytes-differ"
	switch {
	case len(got) < len(want) && bytes.HasSuffix(want, got):
		kind = "bytes-lost" // the head of the stream is missing
	case len(got) < len(want) && bytes.HasPrefix(want, got):
		kind = "stream-truncated"
	case len(got) > len(want) && bytes.HasSuffix(got, want):
		kind = "extra-bytes-before-stream"
	case len(got) > len(want) && bytes.HasPrefix(got, want):
		kind = "extra-bytes-after-stream"
	}
	r.sim.Violate(r.prop, "stream", fmt.Sprintf("%s-%s-after-%s/%s", dir, kind, s.regime(), s.arm),
		"%s%s: the sender wrote %d bytes after login, the receiver read %d (%d missing); first difference at offset %d; wrote %s, read %s. %s",
		who, dir, len(want), len(got), len(want)-len(got), first, abbrev(want, 48), abbrev(got, 48), note)
}

func (r *run) checkRemoteCall(s *sess, c net.Conn) {
	rc, ok := c.(interface{ RemoteCall() string })
	if !ok {
		r.sim.Violate(r.prop, "remote-call", "accepted-conn-has-no-RemoteCall/"+s.arm, "the accepted connection (%T) does not report a remote call", c)
		return
	}
	if got := rc.RemoteCall(); got != s.call {
		for _, o := range r.ss {
			if o != s && o.call == got {
				r.sim.Violate(r.prop, "remote-call", "is-another-sessions-callsign/"+s.arm, "session %d: RemoteCall()=%q is the callsign session %d dialled with; this session dialled with %q", s.k, got, o.k, s.call)
				return
			}
		}
		r.sim.Violate(r.prop, "remote-call", "differs-from-dialled-callsign/"+s.arm, "RemoteCall()=%q, dialled callsign %q", got, s.call)
	}
}

// checkDeadline is the deadline clause for a dial that was started at start.
func (r *run) checkDeadline(s *sess, note string) {
	spec, cli := s.spec, s.cli
	if spec.timeout <= 0 {
		return
	}
	if cli.returned() && cli.loginAt-cli.startAt <= spec.timeout+time.Second {
		return
	}
	phase := "during-login"
	if len(s.w.links) == 0 {
		phase = "during-connect"
	}
	took := "had not returned"
	if cli.returned() {
		took = fmt.Sprintf("returned only after %v", cli.loginAt-cli.startAt)
	}
	r.sim.Violate(r.prop, "deadline", "dial-did-not-return-"+phase,
		"%s started at %v with deadline/timeout %v %s when the simulated clock reached deadline + 1 s. %s", spec.desc, cli.startAt, spec.timeout, took, note)
}

// end is one side of a session at close-down.
type end struct {
	s     *side
	spec  CloseSpec
	conn  net.Conn // what Close is called on
	isLib bool     // the connection came from the library
}

// closeEnd performs the side's Close calls.
func (r *run) closeEnd(ss *sess, e end) {
	sim := r.sim
	if e.conn == nil {
		return
	}
	if e.spec.Unblock && e.s.rd != nil && !e.s.rd.Finished {
		// the reader leaves Read through a deadline; nobody is inside Read when
		// Close is called
		e.conn.SetReadDeadline(time.Unix(1, 0))
		core.WaitAll(time.Hour, e.s.rd)
		if e.isLib {
			r.note("conn-closed-after-reader-left-read")
		}
	} else if e.isLib && e.s.rd != nil && !e.s.rd.Finished {
		r.note("conn-closed-while-read-blocked")
	}
	n := clampInt(e.spec.N, 1, 3)
	for i := 0; i < n; i++ {
		if i > 0 {
			if d := us(e.spec.GapUs); d > 0 {
				sleepU(sim, d)
			}
		}
		if ss.endAt == 0 {
			ss.endAt = sim.Now()
		}
		e.conn.Close()
		e.s.closes++
		e.s.closeAt = sim.Now()
		if i == 0 && e.s.rd != nil {
			// the side's own reader leaves Read (takes no simulated time) before
			// the harness goes on
			core.WaitAll(time.Hour, e.s.rd)
		}
	}
	if n >= 2 && e.isLib {
		if e.s == ss.srv {
			r.note("conn-closed-twice")
		} else {
			r.note("dialled-conn-closed-twice")
		}
	}
}

// closeDown ends a transfer: one side closes, the other reads until EOF and
// closes; or both close without waiting for each other.
func (r *run) closeDown(ss *sess, cli, srv end) {
	a, b := cli, srv
	if ss.sp.CloseFirst == "server" {
		a, b = b, a
	}
	if ss.sp.CloseFirst == "both" {
		r.note("conn-closed-from-both-sides")
		r.closeEnd(ss, a)
		r.closeEnd(ss, b)
		return
	}
	r.closeEnd(ss, a)
	ss.w.settle(func() (int, int) { return 0, 0 })
	if b.s.rd != nil && !core.WaitAll(time.Hour, b.s.rd) {
		r.sim.Probe("eof-not-seen-after-peer-close")
	}
	r.closeEnd(ss, b)
}

// ---------------------------------------------------------------- arm ll / cl

// acceptLoop is the serving application: "for { c := Accept(); go serve(c) }".
func (r *run) acceptLoop(ln net.Listener) {
	sim, p := r.sim, r.p
	for i := 0; ; i++ {
		gap := p.AcceptDelayUs
		if i > 0 {
			gap = core.TapeAt(p.AcceptGapUs, i-1, 0)
		}
		if d := us(gap); d > 0 {
			sleepU(sim, d)
		}
		if r.isStopping() {
			return
		}
		t0 := sim.Now()
		c, err := ln.Accept()
		if r.isStopping() {
			if c != nil {
				c.Close()
			}
			return
		}
		s := r.sessOfConn(c)
		if c == nil {
			// the listener itself failed; that ends a real accept loop too
			sim.Logf("accept returned no connection")
			if err == nil {
				err = fmt.Errorf("Accept returned neither a connection nor an error")
			}
			if s != nil && !s.srv.returned() {
				s.srv.startAt = t0
				s.srv.loginReturned(sim, nil, err)
			} else {
				sim.Violate(r.prop, "login", "accept-returned-error-without-connection", "Accept on the open listener returned no connection: %v", err)
			}
			return
		}
		if s == nil || s.srv.returned() {
			sim.Violate(r.prop, "harness", "accepted-conn-not-attributable", "accepted connection %T with remote address %v belongs to no session that waits for one", c, c.RemoteAddr())
			c.Close()
			continue
		}
		s.w.abAtAccept, _ = s.w.delivered()
		s.srv.startAt = t0
		if err == nil {
			srv := s.srv
			srv.conn = c
			go2 := make(chan struct{})
			s.gs = core.Go(func() {
				<-go2
				srv.transfer(s, s.sp.S2C, &s.sp.C2S, s.bothSrv)
			})
			// what serves the new connection runs until it blocks before the
			// loop goes back to Accept
			handOver(sim, func() {
				srv.loginReturned(sim, c, nil)
				close(go2)
			})
		} else {
			handOver(sim, func() { s.srv.loginReturned(sim, c, err) })
		}
	}
}

// releaseBoth tells the writers of the quiet regime that both logins have
// returned, one side after the other.
func (s *sess) releaseBoth() {
	if s.sp.Quiet {
		handOver(s.r.sim, func() { close(s.bothSrv) })
	} else {
		close(s.bothSrv)
	}
	close(s.bothCli)
}

// over: the session has ended; the sessions that wait for that start, one
// after the other.
func (s *sess) over() {
	for _, d := range s.next {
		handOver(s.r.sim, func() { close(d.start) })
	}
}

// control runs one session against the library's listener: arms "ll" (library
// dialler) and "cl" (scripted client).
func (s *sess) control() {
	defer s.over()
	r, sim, sp := s.r, s.r.sim, s.sp
	if s.dep != nil {
		<-s.start
	}
	cli, srv := s.cli, s.srv
	if sp.Arm == "cl" {
		s.cm = newClientModel(s)
		s.gc = core.Go(s.cm.run)
	} else {
		s.spec = makeDial(sim, sp, s.call, s.pass, false)
		s.gc = core.Go(func() {
			sleepU(sim, us(sp.DialDelayUs))
			cli.startAt = sim.Now()
			r.noteDial(s.k)
			c, err := s.spec.fn()
			cli.loginReturned(sim, c, err)
			if err != nil || c == nil {
				return
			}
			cli.transfer(s, sp.C2S, &sp.S2C, s.bothCli)
		})
	}
	okLogin := waitCh(loginBudget, cli.logged)
	if okLogin && (len(s.w.links) > 0 || cli.err == nil) {
		// the connection exists: the listener's side of the login ends too
		okLogin = waitCh(loginBudget, srv.logged)
	}
	s.releaseBoth()
	cm := s.cm
	spec := s.spec
	deadlineHit := sp.Arm != "cl" && cli.returned() && cli.err != nil && spec.timeout > 0 && cli.loginAt-cli.startAt >= spec.timeout
	good := okLogin && srv.returned() && srv.err == nil && cli.err == nil && srv.conn != nil && (cm != nil || cli.conn != nil)
	if !good {
		switch {
		case deadlineHit:
			// the property allows an error at the deadline
			sim.Probe("dial-deadline-reached-with-conforming-peer")
		case !okLogin:
			sim.Violate(r.prop, "login", "did-not-complete/"+s.arm, "login did not complete within %v simulated: dial returned=%v, Accept returned=%v", loginBudget, cli.returned(), srv.returned())
		case cli.err != nil:
			sim.Violate(r.prop, "login", "dial-failed/"+s.arm, "dialling the package's listener failed after %v: %v", cli.loginAt-cli.startAt, cli.err)
		default:
			sim.Violate(r.prop, "login", "accept-failed/"+s.arm, "Accept failed although the dialler logged in: %v", srv.err)
		}
		if sp.Arm != "cl" {
			r.checkDeadline(s, "Peer: the package's own listener.")
		}
		s.w.kill()
		core.WaitAll(endBudget, s.gc)
		if len(s.w.links) > 0 {
			// an Accept that holds (or still gets) the dead connection returns
			waitCh(time.Hour, srv.logged)
		}
		if s.gs != nil {
			core.WaitAll(endBudget, s.gs)
		}
		s.closeAll()
		r.checkPanics(s.gs, s.gc, cli.rd, srv.rd)
		return
	}
	if sp.Arm != "cl" {
		r.checkDeadline(s, "Peer: the package's own listener.")
	}
	s.loggedIn = true
	sim.Probe("logins-completed")
	if s.w.abAtAccept > s.w.l {
		sim.Probe("c2s-payload-delivered-before-accept-returned")
		switch sp.C2S.ReadVia {
		case "copy", "copybuf", "writeto", "bufio-writeto":
			// the login reader holds read-ahead and the application asks io.Copy
			// (which prefers a WriterTo of the connection over its Read)
			r.note("io-copy-consumer-on-accepted-conn-with-read-ahead")
		}
	}
	core.WaitAll(endBudget, s.gs, s.gc)
	s.w.settle(func() (int, int) { return s.w.l + cli.wrote, len(prompt1) + len(prompt2) + srv.wrote })
	if spec.timeout > 0 && sim.Now() > cli.startAt+spec.timeout {
		sim.Probe("transfer-continued-past-dial-deadline")
	}
	if d := us(sp.HoldUs); d > 0 {
		sleepU(sim, d)
	}
	ce := end{s: cli, spec: sp.CliClose, conn: cli.conn, isLib: true}
	if cm != nil {
		ce.conn, ce.isLib = cm.end, false
	}
	r.closeDown(s, ce, end{s: srv, spec: sp.SrvClose, conn: srv.conn, isLib: true})
	r.checkPanics(s.gs, s.gc, cli.rd, srv.rd)

	r.checkRemoteCall(s, srv.conn)
	for _, sd := range []*side{cli, srv} {
		if sd.wrErr != nil {
			base := "client"
			if sd == srv {
				base = "server"
			}
			sim.Violate(r.prop, "stream", base+"-write-failed-after-"+s.regime()+"/"+s.arm, "%s: Write failed after %d bytes on a healthy link: %v", sd.name, sd.wrote, sd.wrErr)
		}
	}
	noteC := fmt.Sprintf("%d bytes of the client's stream (login lines %d bytes) had been delivered to the listener's host when Accept returned.", s.w.abAtAccept, s.w.l)
	if via := sp.C2S.ReadVia; via != "" && via != "read" {
		noteC += " The accepted connection was consumed via " + via + "."
	}
	noteS := ""
	if via := sp.S2C.ReadVia; via != "" && via != "read" && cm == nil {
		noteS = "The dialled connection was consumed via " + via + "."
	}
	if cli.wrErr == nil {
		r.checkStream(s, "client-to-server", clip(sp.C2S.Data), srv.got, noteC)
	}
	if srv.wrErr == nil {
		r.checkStream(s, "server-to-client", clip(sp.S2C.Data), cli.got, noteS)
	}
	if len(sp.C2S.Data) > 0 {
		r.note("c2s-payload-runs")
	}
	if len(sp.S2C.Data) > 0 {
		r.note("s2c-payload-runs")
	}
	if len(sp.C2S.Data)+len(sp.S2C.Data) > 0 {
		r.note("nontrivial")
	}
}

func (r *run) stopListener() {
	r.mu.Lock()
	was := r.stopping
	r.stopping = true
	r.mu.Unlock()
	if !was && r.ln != nil {
		r.ln.Close()
	}
}

// execListener runs the sessions of arms "ll" and "cl" through one listener
// of the library.
func (r *run) execListener() {
	p := r.p
	ln, err := telnet.Listen(srvAddr)
	if err != nil {
		r.out.Violate(r.prop, "harness", "listen-failed", err.Error())
		return
	}
	r.ln = ln
	var loops, ctrls []*core.GoResult
	for i := 0; i < clampInt(p.Acceptors, 1, 3); i++ {
		loops = append(loops, spawn(r.sim, func() { r.acceptLoop(ln) }))
	}
	for _, s := range r.ss {
		ctrls = append(ctrls, spawn(r.sim, s.control))
	}
	core.WaitAll(2*endBudget, ctrls...)
	r.stopListener()
	core.WaitAll(endBudget, loops...)
	r.checkPanics(loops...)
	r.checkPanics(ctrls...)
	r.out.NonTrivial = r.seen["nontrivial"]
	delete(r.seen, "nontrivial")
	if r.multi {
		r.multiEvidence()
	}
}

// multiEvidence turns what happened in a run with several sessions into probes.
func (r *run) multiEvidence() {
	sim := r.sim
	sim.Probe("runs-with-several-sessions")
	sim.Probe(fmt.Sprintf("runs-with-%d-sessions", len(r.ss)))
	var in []*sess
	for _, s := range r.ss {
		if s.loggedIn {
			in = append(in, s)
		}
	}
	if len(in) >= 2 {
		sim.Probe("runs-with-several-completed-sessions")
	}
	overlap := func(a, b *sess) bool { return a.srv.loginAt < b.endAt && b.srv.loginAt < a.endAt }
	seen := map[string]bool{}
	for _, a := range in {
		for _, b := range in {
			if a == b {
				continue
			}
			if a.k < b.k && overlap(a, b) {
				seen["sessions-overlapping-on-one-listener"] = true
			}
			if b.srv.startAt > a.srv.closeAt && b.srv.startAt > a.cli.closeAt {
				seen["sessions-sequential-on-one-listener"] = true
			}
			if overlap(a, b) && a.srv.loginAt < b.srv.loginAt && a.w.lastAB > b.srv.loginAt && a.w.lastAB > a.srv.loginAt {
				seen["earlier-session-received-payload-after-later-accept"] = true
			}
		}
	}
	// the shape in which state recycled by a repeated Close would be shared:
	// an accepted conn closed twice, later two sessions open at the same time
	for _, x := range in {
		if x.srv.closes < 2 {
			continue
		}
		for _, a := range in {
			for _, b := range in {
				if a.k < b.k && a != x && b != x && a.srv.startAt > x.srv.closeAt && b.srv.startAt > x.srv.closeAt && overlap(a, b) {
					seen["accepted-conn-closed-twice-then-sessions-overlapping"] = true
				}
			}
		}
	}
	for _, k := range core.SortedKeys(seen) {
		sim.Probe(k)
	}
}

func (r *run) checkPanics(gs ...*core.GoResult) {
	for _, g := range gs {
		if g != nil && g.Panic != nil {
			r.sim.Violate(r.prop, "panic", core.PanicClass(g.Panic)+"@"+core.RepoFrame(g.Stack), "panic: %v\n%s", g.Panic, g.Stack)
		}
	}
}

func clip(b []byte) []byte {
	if len(b) > maxPayload {
		return b[:maxPayload]
	}
	return b
}

// closeAll winds a failed session up.
func (s *sess) closeAll() {
	cli, srv, cm := s.cli, s.srv, s.cm
	if cli.conn != nil {
		cli.conn.Close()
	}
	if srv.conn != nil {
		srv.conn.Close()
	}
	if cm != nil && cm.end != nil {
		cm.end.Close()
	}
	for _, sd := range []*side{cli, srv} {
		if sd.rd != nil {
			core.WaitAll(endBudget, sd.rd)
		}
	}
	if cm != nil && cm.rd != nil {
		core.WaitAll(endBudget, cm.rd)
	}
}

// ---------------------------------------------------------------- arm ls

func hostileKind(k string) bool {
	switch k {
	case "conform", "eager", "":
		return false
	}
	return true
}

// execServerModel runs the library dialler against the scripted server.
func (r *run) execServerModel() {
	p, sim := r.p, r.sim
	s := r.ss[0]
	sp := s.sp
	hostile := hostileKind(p.Server.Kind)
	s.spec = makeDial(sim, sp, s.call, s.pass, hostile)
	spec := s.spec
	m := newServerModel(s, spec)
	if p.Server.Kind != "refused" {
		r.n.Serve(srvAddr, m.serve)
	}
	cli := s.cli

	if hostile {
		sleepU(sim, us(sp.DialDelayUs))
		cli.startAt = sim.Now()
		s.w.startDial = cli.startAt
		r.noteDial(0)
		g := core.Go(func() {
			c, err := spec.fn()
			cli.loginReturned(sim, c, err)
		})
		core.WaitAll(spec.timeout+time.Second, g)
		r.checkDeadline(s, fmt.Sprintf("Server behaviour: %s (%d bytes sent by the server so far).", p.Server.Kind, s.w.ba))
		if cli.returned() {
			if cli.err != nil {
				sim.Probe("hostile-dial-returned-error")
			} else {
				sim.Probe("hostile-dial-returned-conn")
			}
		}
		sim.Fault("server-" + p.Server.Kind)
		r.out.NonTrivial = true
		close(m.stop)
		s.releaseBoth()
		s.w.kill()
		core.WaitAll(endBudget, g)
		if cli.conn != nil {
			cli.conn.Close()
		}
		m.wait()
		r.checkPanics(g)
		return
	}

	gc := core.Go(func() {
		sleepU(sim, us(sp.DialDelayUs))
		cli.startAt = sim.Now()
		r.noteDial(0)
		c, err := spec.fn()
		cli.loginReturned(sim, c, err)
		if err != nil || c == nil {
			return
		}
		cli.transfer(s, sp.C2S, &sp.S2C, s.bothCli)
	})
	okLogin := waitCh(loginBudget, cli.logged, m.logged)
	s.releaseBoth()
	deadlineHit := cli.returned() && cli.err != nil && spec.timeout > 0 && cli.loginAt-cli.startAt >= spec.timeout
	if !okLogin || cli.err != nil || cli.conn == nil {
		switch {
		case deadlineHit:
			sim.Probe("dial-deadline-reached-with-conforming-peer")
		case !okLogin:
			sim.Violate(r.prop, "login", "did-not-complete/"+s.arm, "login did not complete within %v simulated: dial returned=%v, server model saw the password line=%v", loginBudget, cli.returned(), m.isLogged())
		default:
			sim.Violate(r.prop, "login", "dial-failed/"+s.arm, "dialling a conforming server failed after %v: %v", cli.loginAt-cli.startAt, cli.err)
		}
		r.checkDeadline(s, "Server behaviour: conforming.")
		close(m.stop)
		s.w.kill()
		core.WaitAll(endBudget, gc)
		if cli.conn != nil {
			cli.conn.Close()
		}
		if cli.rd != nil {
			core.WaitAll(endBudget, cli.rd)
		}
		m.wait()
		r.checkPanics(gc, cli.rd)
		return
	}
	r.checkDeadline(s, "Server behaviour: conforming.")
	s.loggedIn = true
	sim.Probe("logins-completed")
	core.WaitAll(endBudget, gc)
	waitCh(endBudget, m.wrDone)
	s.w.settle(func() (int, int) { return s.w.l + cli.wrote, m.sent })
	if spec.timeout > 0 && sim.Now() > cli.startAt+spec.timeout {
		sim.Probe("transfer-continued-past-dial-deadline")
	}
	if d := us(sp.HoldUs); d > 0 {
		sleepU(sim, d)
	}
	srv := &side{name: "server", rd: m.rd}
	r.closeDown(s, end{s: cli, spec: sp.CliClose, conn: cli.conn, isLib: true}, end{s: srv, spec: sp.SrvClose, conn: m.end})
	close(m.stop)
	m.wait()
	r.checkPanics(gc, cli.rd)

	// what the server model received during login is the analogue of RemoteCall
	if string(m.callLine) != s.call {
		sim.Violate(r.prop, "remote-call", "callsign-line-differs-from-dialled-callsign/"+s.arm, "the server received callsign line %q, dialled callsign %q", m.callLine, s.call)
	}
	if string(m.passLine) != s.pass {
		sim.Violate(r.prop, "login", "password-line-differs-from-dialled-password/"+s.arm, "the server received password line %q, dialled password %q", m.passLine, s.pass)
	}
	if cli.wrErr != nil {
		sim.Violate(r.prop, "stream", "client-write-failed-after-"+s.regime()+"/"+s.arm, "client: Write failed after %d bytes on a healthy link: %v", cli.wrote, cli.wrErr)
	} else {
		r.checkStream(s, "client-to-server", clip(sp.C2S.Data), m.got, "")
	}
	if p.Server.Kind == "eager" {
		// Outside the property (a server must not send post-login data before it
		// has the password line); evidence only.
		sim.Probe("eager-server-runs")
		if !bytes.Equal(clip(sp.S2C.Data), cli.got) {
			sim.Probe("eager-server-bytes-lost-by-dialler")
			sim.Logf("eager server: dialler lost %d of %d bytes", len(clip(sp.S2C.Data))-len(cli.got), len(clip(sp.S2C.Data)))
		}
	} else if m.wrErr == nil {
		noteS := ""
		if via := sp.S2C.ReadVia; via != "" && via != "read" {
			noteS = "The dialled connection was consumed via " + via + "."
		}
		r.checkStream(s, "server-to-client", clip(sp.S2C.Data), cli.got, noteS)
	}
	r.out.NonTrivial = len(sp.C2S.Data)+len(sp.S2C.Data) > 0
}

// ---------------------------------------------------------------- entry

type sample struct {
	Arm, Kind, API       string
	Sessions             int
	TimeoutMs            int
	Call, Pass           string
	C2S, S2C             int
	ReadVia              [2]string
	Quiet                bool
	SegAB, SegBA         []int
	LatAB, LatBA         []int
	CoalesceAB, CoalesBA []int
}

func short(xs []int) []int {
	if len(xs) > 8 {
		return xs[:8]
	}
	return xs
}

func execute(t *testing.T, prop string, raw json.RawMessage, trace bool) core.Outcome {
	var p Plan
	var out core.Outcome
	if err := json.Unmarshal(raw, &p); err != nil {
		out.Violate(prop, "harness", "bad-plan", fmt.Sprint("unusable plan: ", err))
		return out
	}
	// A run is a function of its plan only: package-level state that survives
	// in a sync.Pool (the library's, fmt's) must not travel from one plan of
	// this process to the next. Two collections empty every pool (the first
	// moves the items to the victim cache, the second drops them).
	runtime.GC()
	runtime.GC()
	leak, pv, stack := core.Bubble(t, trace, func(sim *core.Sim) {
		if p.Arm != "ls" && p.Arm != "cl" {
			p.Arm = "ll"
		}
		r := &run{sim: sim, p: &p, prop: prop, out: &out, seen: map[string]bool{}}
		r.buildSessions()
		r.newNet()
		defer simnet.Use(nil)
		s0 := r.ss[0]
		sim.Logf("arm=%s kind=%s api=%s call=%d pass=%d c2s=%d s2c=%d", p.Arm, p.Server.Kind, p.API, len(s0.call), len(s0.pass), len(p.C2S.Data), len(p.S2C.Data))
		for _, s := range r.ss[1:] {
			sim.Logf("session %d: arm=%s api=%s call=%d pass=%d c2s=%d s2c=%d after=%d", s.k, s.sp.Arm, s.sp.API, len(s.call), len(s.pass), len(s.sp.C2S.Data), len(s.sp.S2C.Data), s.sp.After)
		}
		if p.Arm == "ls" {
			r.execServerModel()
		} else {
			r.execListener()
		}
		kind := ""
		if p.Arm == "ls" {
			kind = p.Server.Kind
		}
		out.Sample = sample{Arm: p.Arm, Kind: kind, API: p.API, Sessions: len(r.ss), TimeoutMs: p.TimeoutMs, Call: abbrev([]byte(s0.call), 16), Pass: abbrev([]byte(s0.pass), 16),
			C2S: len(p.C2S.Data), S2C: len(p.S2C.Data), ReadVia: [2]string{p.C2S.ReadVia, p.S2C.ReadVia}, Quiet: p.Quiet,
			SegAB: short(p.Link.AB.Seg), SegBA: short(p.Link.BA.Seg), LatAB: short(p.Link.AB.LatUs), LatBA: short(p.Link.BA.LatUs),
			CoalesceAB: short(p.Link.AB.Coalesce), CoalesBA: short(p.Link.BA.Coalesce)}
		for _, s := range r.ss {
			sim.Probe("arm-" + s.sp.Arm)
		}
		r.flush()
		sim.FillOutcome(&out)
	})
	if pv != nil {
		out.Violate(prop, "harness", "bubble-panic", fmt.Sprintf("%v\n%s", pv, stack))
	}
	if leak {
		out.Violate(prop, "harness", "goroutines-left-blocked", "goroutines were still blocked when the run ended")
	}
	return out
}
